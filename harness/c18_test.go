package harness

import (
	"bytes"
	"encoding/json"
	"fmt"
	"os"
	"os/exec"
	"path/filepath"
	"runtime"
	"strings"
	"sync"
	"sync/atomic"
	"testing"
	"testing/synctest"
	"time"

	"github.com/smartcontractkit/chainlink-automation/pkg/v3/flows"
	"github.com/smartcontractkit/chainlink-automation/pkg/v3/service"
)

// C18 — Close stops everything a plugin started; a panicking flow is contained.
//
// Every case runs in its own child process (the test binary re-executed with
// VERIF_C18_CHILD set): a panic that escapes a background goroutine kills the
// process (none does on the current tree; it did before the ticker, worker-group
// and coordinator fixes, and the check must see it if one of them regresses), and
// a bubble whose goroutines never stop cannot be left — both must be observed as
// verdicts, not suffered.  The child writes check-points of its
// observation to a file; the parent adds how the child ended.

type c18Input struct {
	Family      string `json:"family"`      // "" = OCR3 (v3) plugin, "v2" = OCR2 plugin
	Reuse       int    `json:"reuse"`       // factory reuse: 0 = the instance under test is the factory's first; 1 = a first instance was
	ReuseRunNs  int64  `json:"reuseRunNs"`  // built, ran reuseRunNs, was closed, and reuseGapNs later the instance under test is built on the
	ReuseGapNs  int64  `json:"reuseGapNs"`  // SAME factory; 2 = the instance under test is built while the first is open, the first is closed
	ReuseCfg    string `json:"reuseCfg"`    // reuseGapNs later.  reuseCfg: "same" | "diff" (off-chain config of the second instance)
	Scenario    string `json:"scenario"`    // "close" | "panic" | "panic-close" | "hold-close"
	Procs       int    `json:"procs"`       // GOMAXPROCS of the child (1 = cooperative, repeatable schedule)
	CloseAtNs   int64  `json:"closeAt"`     // virtual ns after creation ("close") / after the first panic ("panic-close")
	Yields      int    `json:"yields"`      // runtime.Gosched() calls between creation and Close ("close", closeAt = 0)
	PreYields   int    `json:"preYields"`   // runtime.Gosched() calls before creation: shifts the scheduler's 61-tick global-queue poll, i.e. the point at which a yielded Close resumes
	Spin        int    `json:"spin"`        // busy iterations between creation and Close (parallel children only)
	PanicSite   string `json:"panicSite"`   // "" or one of c18Sites
	PanicAtCall int    `json:"panicAtCall"` // first panicking call at that site (1-based)
	PanicCount  int    `json:"panicCount"`  // consecutive panicking calls
	HoldSite    string `json:"holdSite"`    // "hold-close": the holdAtCall-th call at this site stays in flight for holdNs (ignoring its
	HoldAtCall  int    `json:"holdAtCall"`  // context) and then returns normally; Close is issued closeAt ns after it was entered
	HoldNs      int64  `json:"holdNs"`
	HoldCtx     bool   `json:"holdCtx"`    // the held call HONOURS cancellation: it returns only when its context ends (holdNs = safety net)
	Shape       string `json:"shape"`      // pipeline RESULT shape ("" = well-behaved echo; see c18Shapes)
	RepeatWork  bool   `json:"repeatWork"` // the log provider offers the same work ids on every tick (new check block hash each time)
	Rounds      bool   `json:"rounds"`     // the harness plays libocr: one Observation per second with a previous outcome that surfaces fresh
	// proposals (fills the proposal queue for the final flows), and the recovery provider hands out a payload per tick
	Runner     *c18RunnerCfg `json:"runner,omitempty"` // RunnerConfig handed to the public factory (nil = the usual one)
	Offchain   string        `json:"offchain"`         // off-chain config JSON of the instance under test ("" = `{}`)
	Work       int           `json:"work"`             // log payloads per tick (drives pipeline + post-processing)
	Ineligible bool          `json:"ineligible"`       // pipeline answers "ineligible" (drives the state updater)
	LatencyNs  int64         `json:"latencyNs"`        // virtual latency of one pipeline call
	HonorCtx   bool          `json:"honorCtx"`         // pipeline returns early when its context is cancelled
	// constants of the code under test, recorded so that the Spec needs no second source
	CoolDownNs int64 `json:"coolDownNs"`
	IntervalNs int64 `json:"intervalNs"` // tick interval of the flow that owns PanicSite
	Services   int   `json:"services"`   // recoverers per plugin
	AuxMax     int   `json:"auxMax"`     // helper goroutines the services of one plugin own together
	// constructor / collaborator faults and forced schedules (c18_cov_test.go)
	CtorFault  string `json:"ctorFault,omitempty"`  // scenario "ctor-fail": what makes NewReportingPlugin fail (see c18CtorFaults)
	CloseFault string `json:"closeFault,omitempty"` // a collaborator's close step fails: "v2-coordinator-close" | "unsubscribe"
	Gate       string `json:"gate,omitempty"`       // forced start-up schedule through the `verif` hook (see c18Gates)
	// family "svc": one real service behind a recoverer (wrap) or bare, built through its public constructor and driven by a script
	Kind   string  `json:"kind,omitempty"`   // ticker | resultStore | metadataStore | coordinator | runner | v2observer
	Wrap   bool    `json:"wrap,omitempty"`   // behind service.NewRecoverer
	Getter string  `json:"getter,omitempty"` // ticker: ok | nil | err (every odd call fails)
	Ops    []c18Op `json:"ops,omitempty"`
}

type c18RunnerCfg struct {
	Workers       int   `json:"workers"`
	QueueLength   int   `json:"queueLength"`
	CacheExpireNs int64 `json:"cacheExpireNs"`
	CacheCleanNs  int64 `json:"cacheCleanNs"`
}

type c18Impl struct {
	Phase           string         `json:"phase"` // last check-point reached by the child
	CloseCalled     bool           `json:"closeCalled"`
	CloseReturned   bool           `json:"closeReturned"`
	ClosedAtNs      int64          `json:"closedAtNs"`
	CloseTookNs     int64          `json:"closeTookNs"`
	CloseErrs       map[string]int `json:"closeErrs"`
	CallsAfterClose map[string]int `json:"callsAfterClose"` // per site, calls in [Close+25s, Close+35s]
	Subscribed      int            `json:"subscribed"`      // block subscriptions still registered at Close+35s
	Survived        bool           `json:"survived"`
	Panics          int            `json:"panics"`
	PanicAtNs       int64          `json:"panicAtNs"`
	Resumed         bool           `json:"resumed"`         // the panic site was called again, without panicking, after the last panic
	ResumedWithinNs int64          `json:"resumedWithinNs"` // last panic → that call; -1 never (within the window)
	OthersTicked    bool           `json:"othersTicked"`    // every other flow ticked during the cool-down period after the first AND after the last panic
	PipelineDone    bool           `json:"pipelineDone"`    // a pipeline call that began after the last panic has returned
	Leaked          map[string]int `json:"leaked"`          // goroutines of the repository by class at Close+35s
	LeakedDetail    map[string]int `json:"leakedDetail"`    // the same by innermost function (diagnostic only)
	SecondCloseErrs map[string]int `json:"secondCloseErrs"`
	LeakedAfter2nd  map[string]int `json:"leakedAfter2nd"`       // after a second Close + 12s (clean-up attempt)
	BubbleEnded     bool           `json:"bubbleEnded"`          // every goroutine of the bubble ended and the child exited 0
	Exit            string         `json:"exit"`                 // how the child ended: ok | exit:N | timeout
	WallMs          int64          `json:"wallMs"`               // real time the child took (diagnostic only)
	Crashed         string         `json:"crashed"`              // the process was terminated by a panic / fatal error nobody injected (first line)
	Hung            string         `json:"hung"`                 // the child made no progress for 15 real seconds (e.g. goroutines blocked on a mutex stop the virtual clock)
	ClosePanic      string         `json:"closePanic"`           // the value Close panicked with ("" = it returned)
	FirstClose      map[string]int `json:"firstClose"`           // factory reuse: close errors of the first instance ("panic" included)
	RoundsDone      int            `json:"roundsDone"`           // foreground Observation calls that returned
	RoundsBlocked   int            `json:"roundsBlocked"`        // … that had not returned 5 virtual seconds later (the open plugin hangs)
	RoundErrs       int            `json:"roundErrs"`            // … that returned an error
	LeakedSoon      map[string]int `json:"leakedSoon"`           // goroutines of the repository by class ONE virtual second after Close returned
	DrainedNs       int64          `json:"drainedNs,omitempty"`  // virtual ns spent waiting for a backlog of context-ignoring pipeline calls to drain before the leak measurement
	HeldBackNs      int64          `json:"heldBackNs"`           // held call: virtual ns from Close's return to the call's return (negative: before; -1<<62: never)
	Progress        int            `json:"progress"`             // check-pipeline calls of the instance under test that completed before its Close
	Trace           []c18Ev        `json:"trace,omitempty"`      // hook events of every recoverer, in log order (c18_trace_test.go)
	TraceKinds      []string       `json:"traceKinds,omitempty"` // service kind per recoverer
	Note            string         `json:"note,omitempty"`
	// scenario "ctor-fail"
	CtorErr   bool           `json:"ctorErr"`             // the constructor returned an error
	CtorNil   bool           `json:"ctorNil"`             // … and no instance
	CtorLeft  map[string]int `json:"ctorLeft,omitempty"`  // goroutines of the repository by class 35 virtual seconds after the failed call
	CtorCalls int            `json:"ctorCalls,omitempty"` // provider calls in the last 10 of those seconds
	CtorSubs  int            `json:"ctorSubs,omitempty"`  // block subscriptions registered then
	// family "svc"
	OpRes     []string         `json:"opRes,omitempty"`     // per op: what it returned / "pending" (see c18SvcCase)
	OpAtNs    []int64          `json:"opAtNs,omitempty"`    // per op: virtual ns since the start of the case
	OpAlive   []map[string]int `json:"opAlive,omitempty"`   // per op: goroutines of the repository by class once the op has quiesced
	StartEnd  []string         `json:"startEnd,omitempty"`  // per start op: what that Start call had returned when the case ended ("pending" = never)
	Process   int              `json:"process,omitempty"`   // ticker: observer.Process calls
	GoodTicks int              `json:"goodTicks,omitempty"` // ticker: getter calls that returned a tick
	AllTicks  int              `json:"allTicks,omitempty"`  // ticker: ticks seen by the getter (nil getter: virtual seconds the loop ran)
}

// c18Ev is one hook event of a recoverer
type c18Ev struct {
	R  int    `json:"r"`  // recoverer (index in order of first appearance)
	P  string `json:"p"`  // point
	G  int    `json:"g"`  // goroutine (index in order of first appearance)
	K  int    `json:"k"`  // outcome: error kind 0 nil / 1 other error / 2 errServiceStopped / 3 errServiceContextCancelled
	At int    `json:"at"` // position in the one log of all recoverers
	Pa int    `json:"pa"` // 1 + position of the previous event of the same goroutine (any recoverer); 0 = none
}

// c18TraceBegin is set by c18_trace_test.go (which needs the `verif` hooks of pkg/v3/service in /repo); without it
// cases carry no trace and the driver tags them "untraced".  It returns a snapshot function of the log so far.
var c18TraceBegin func() func() ([]c18Ev, []string)

// c18GateCtl (c18_trace_test.go) arms (true) or opens (false) a gate at a hook point of the tracer installed by the last
// c18TraceBegin: a goroutine that reaches an armed point is held there, after its event was logged, until the gate opens.
var c18GateCtl func(point string, arm bool)

var c18FreezeTrace = func() {}

// helper goroutines owned by services: coordinator 2 cache GCs, runner 1 cache GC + WorkerGroup.run (runProcessing) + runQueuing
const c18AuxMax = 5

const c18Services = 10 // len(allSvcs) in plugin.newPlugin: 3 log flows, retry, result store, metadata store, coordinator, runner, 2 conditional flows

func c18Interval(site string) int64 {
	switch site {
	case c18SiteGetter:
		return int64(flows.SamplingConditionInterval)
	case c18SiteGC:
		return int64(30 * time.Second) // stores.gcInterval
	case c18SiteEvents, c18SiteV2Perform, c18SiteV2Stale, c18SiteV2Source, c18SiteV2CoordEnc, c18SiteV2ObsEnc, c18SiteV2Check:
		return int64(time.Second) // coordinator cadence (v3 and v2); the harness's head feeder
	default:
		return int64(flows.LogCheckInterval)
	}
}

func c18Fill(in c18Input) c18Input {
	if in.Procs <= 0 {
		in.Procs = 1
	}
	in.CoolDownNs = int64(service.PanicRestartWait)
	in.IntervalNs = c18Interval(in.PanicSite)
	in.Services = c18Services
	in.AuxMax = c18AuxMax
	if in.Family == "svc" {
		in.Services, in.AuxMax, in.Work = 0, 5, 0
		if in.Wrap {
			in.Services = 1
		}
		in.Scenario = "script"
		return in
	}
	if in.Gate != "" {
		in.Scenario, in.CloseAtNs, in.Yields, in.Spin, in.Procs, in.Family = "close", 0, 0, 0, 1, ""
	}
	if in.Family == "v2" {
		in.Services = 2 // report coordinator, polling observer
		in.AuxMax = 2   // the coordinator's two cache cleaners
		in.Work = 0
	}
	if in.HoldSite == c18SiteBuilder || in.PanicSite == c18SiteBuilder {
		in.Rounds = true // the final flows only build payloads for proposals the rounds have surfaced
	}
	if in.HoldCtx {
		in.LatencyNs, in.HonorCtx = 0, true // every call in flight honours cancellation: nothing may linger after Close
	}
	if in.HoldSite == c18SitePipeline || in.HoldSite == c18SitePost {
		if in.Work == 0 {
			in.Work = 2
		}
	}
	if in.HoldSite == c18SitePost {
		in.Ineligible = true
	}
	if in.HoldSite != "" && in.HoldAtCall <= 0 {
		in.HoldAtCall = 2
	}
	if in.PanicSite == c18SitePipeline || in.PanicSite == c18SitePost {
		if in.Work == 0 {
			in.Work = 2
		}
	}
	if in.PanicSite == c18SitePost {
		in.Ineligible = true
	}
	// (everything that switches the foreground rounds on comes BEFORE the overload rule below, which counts their jobs — and
	// c18Fill must be idempotent: a replay fills the recorded, already filled input again)
	if strings.HasPrefix(in.PanicSite, "typeGetter@") {
		in.Rounds = true // the proposal queue / metadata store / coordinator only consult the getter when they hold proposals
		if in.PanicSite == c18SiteTGCoord {
			in.RepeatWork = true // … the coordinator only for work it has seen a report and a transmit event for
		}
	}
	if !in.HonorCtx && in.LatencyNs > 0 {
		// a pipeline that ignores cancellation must stay below the job arrival rate (one batch of <= 10 payloads per job, one
		// tick per second), or the backlog it builds outlives any Close: that is overload, not a Close defect
		workers := int64(4)
		if in.Runner != nil {
			workers = int64(in.Runner.Workers)
		}
		jobs := int64((in.Work + 9) / 10)
		if in.Rounds {
			jobs += 3 // the final flows and the recovery proposal flow check payloads too
		}
		if jobs*in.LatencyNs*4 > 3*workers*int64(time.Second) {
			in.HonorCtx = true
		}
	}
	if in.Family == "v2" {
		in.Rounds, in.Shape, in.RepeatWork, in.Runner = false, "", false, nil
	}
	if in.PanicSite != "" {
		if in.Work == 0 && in.Family != "v2" {
			in.Work = 1 // every panic case also asks: does a later pipeline call still complete?
		}
		if in.PanicAtCall <= 0 {
			in.PanicAtCall = 1
		}
		if in.PanicCount <= 0 {
			in.PanicCount = 1
		}
	}
	return in
}

// ---------------------------------------------------------------- child

var c18Sink int

func c18Case(t *testing.T, in c18Input, ck func(c18Impl)) {
	impl := c18Impl{Survived: true, Phase: "start", CloseErrs: map[string]int{}, CallsAfterClose: map[string]int{}, Leaked: map[string]int{},
		LeakedDetail: map[string]int{}, SecondCloseErrs: map[string]int{}, LeakedAfter2nd: map[string]int{}, PanicAtNs: -1}
	impl.CloseCalled = in.Scenario == "close" // the next check-point comes only after Close has returned
	if in.Family == "svc" || in.Scenario == "ctor-fail" {
		impl.CloseCalled = false
	}
	ck(impl)
	for i := 0; i < in.PreYields; i++ {
		runtime.Gosched()
	}
	snap := func() ([]c18Ev, []string) { return nil, nil }
	if c18TraceBegin != nil {
		snap = c18TraceBegin()
	}
	ck0 := ck
	var frozenEv []c18Ev
	var frozenKinds []string
	frozen := false
	ck = func(impl c18Impl) {
		if frozen {
			impl.Trace, impl.TraceKinds = frozenEv, frozenKinds
		} else {
			impl.Trace, impl.TraceKinds = snap()
		}
		ck0(impl)
	}
	// the observation is over; what the harness does afterwards to end the bubble (closing a wrapped service directly) is not
	// part of the log
	c18FreezeTrace = func() { frozenEv, frozenKinds = snap(); frozen = true }
	gated := in.Gate != "" && c18GateCtl != nil
	if gated {
		// forced schedule: every serviceStart is held right after `running.Store(true)`, before its select
		c18GateCtl("ss.stored", true)
		if in.Gate == "full-empty" {
			c18GateCtl("close.full", true) // … and Close right after its first send attempt that found the channel full
		}
	}
	if in.Family == "svc" {
		c18SvcCase(t, in, impl, ck)
		return
	}
	if in.Scenario == "ctor-fail" {
		c18CtorCase(t, in, impl, ck)
		return
	}
	var node *c18Sys
	if in.Family == "v2" {
		node = newC18V2Sys(t, in)
	} else {
		node = newC18V3Sys(t, in)
	}
	pr := node.probe
	impl.FirstClose = node.firstClose
	// the foreground: libocr's rounds on the open instance, one Observation per second (off the tick grid)
	var rounds [3]atomic.Int64 // done, blocked, errors
	stopRounds, roundsEnded := make(chan struct{}), make(chan struct{})
	if in.Rounds && node.round != nil {
		go func() {
			defer close(roundsEnded)
			wait := 537 * time.Millisecond
			for seq := uint64(1); ; seq++ {
				select {
				case <-stopRounds:
					return
				case <-time.After(wait):
				}
				wait = time.Second
				res := make(chan error, 1)
				go func() {
					defer func() {
						if r := recover(); r != nil {
							res <- fmt.Errorf("panic: %v", r)
						}
					}()
					res <- node.round(seq)
				}()
				select {
				case err := <-res:
					rounds[0].Add(1)
					if err != nil {
						rounds[2].Add(1)
					}
				case <-time.After(5 * time.Second):
					rounds[1].Add(1) // the call stays parked; the goroutine profile after Close shows it
				}
			}
		}()
	} else {
		close(roundsEnded)
	}
	endRounds := func() {
		select {
		case <-stopRounds:
		default:
			close(stopRounds)
		}
		<-roundsEnded
		impl.RoundsDone, impl.RoundsBlocked, impl.RoundErrs = int(rounds[0].Load()), int(rounds[1].Load()), int(rounds[2].Load())
	}
	switch in.Scenario {
	case "hold-close":
		impl.Phase = "created"
		ck(impl)
		select {
		case <-pr.held:
		case <-time.After(time.Duration(int64(in.HoldAtCall)*c18Interval(in.HoldSite)) + 60*time.Second):
			impl.Note = "the call to hold was not made in time"
		}
		impl.Phase = "held"
		impl.CloseCalled = true // the next check-point comes only after Close has returned
		ck(impl)
		time.Sleep(time.Duration(in.CloseAtNs))
	case "close":
		if gated {
			synctest.Wait() // every service sits in its loop, every serviceStart in the gate
		}
		for i := 0; i < in.Yields; i++ {
			runtime.Gosched()
		}
		for i := 0; i < in.Spin; i++ {
			c18Sink += i
		}
		if in.CloseAtNs > 0 {
			time.Sleep(time.Duration(in.CloseAtNs))
		}
	case "panic", "panic-close":
		impl.Phase = "created"
		ck(impl)
		select {
		case <-pr.panicked:
		case <-time.After(time.Duration(int64(in.PanicAtCall)*in.IntervalNs) + 60*time.Second):
			impl.Note = "no panic was injected in time"
		}
		impl.Phase = "panicked"
		impl.Panics, impl.PanicAtNs, _, _ = pr.panicInfo()
		impl.CloseCalled = true // the next check-point comes only after Close has returned
		ck(impl)
		if in.Scenario == "panic" {
			// long enough for every scheduled panic, each followed by a full cool-down, and the resumption
			w := time.Duration(in.PanicCount)*time.Duration(in.CoolDownNs+in.IntervalNs+in.LatencyNs) + time.Duration(in.CoolDownNs+2*in.IntervalNs+in.LatencyNs) + 137*time.Millisecond
			time.Sleep(w)
		} else {
			time.Sleep(time.Duration(in.CloseAtNs))
		}
		var lp, ok int64
		impl.Panics, _, lp, ok = pr.panicInfo()
		if lp >= 0 && in.Scenario == "panic" {
			if ok >= 0 {
				impl.Resumed = true
				impl.ResumedWithinNs = ok - lp
			} else {
				impl.ResumedWithinNs = -1
			}
			impl.OthersTicked = true
			for _, s := range node.othersOf(in.PanicSite) {
				if f, l := pr.okInWindow(s); s != in.PanicSite && (f == 0 || l == 0) {
					impl.OthersTicked = false
				}
			}
			impl.PipelineDone = pr.pipelineDoneAfterLastPanic()
		}
	}
	if in.Rounds {
		endRounds() // libocr stops calling before it closes the instance
	}
	// no check-point (file write = blocking system call = scheduling point) between here and Close
	impl.Progress = pr.doneCount(node.progressSite)
	impl.ClosedAtNs = int64(time.Since(pr.t0))
	var err error
	if in.Scenario == "close" && in.CloseAtNs == 0 && !gated {
		// start-up races: Close on this goroutine, nothing in between
		err, impl.ClosePanic = c18SafeClose(node.close)
	} else {
		// anywhere else a Close that never returns must become a verdict: wait a bounded virtual time for it
		type closed struct {
			err error
			pan string
		}
		done := make(chan closed, 1)
		go func() { e, p := c18SafeClose(node.close); done <- closed{e, p} }()
		if gated {
			// Close walks through the recoverers while their serviceStart goroutines are held: each service's own result
			// (nil) is buffered in `stopped`, Close's send attempt finds the channel full
			synctest.Wait()
			if in.Gate == "full-empty" {
				// Close is held after that attempt; serviceStart is let go, takes the message, parks; then Close's drain
				// attempt finds nothing
				c18GateCtl("ss.stored", false)
				synctest.Wait()
				c18GateCtl("close.full", false)
				synctest.Wait()
			}
			c18GateCtl("ss.stored", false)
		}
		select {
		case c := <-done:
			err, impl.ClosePanic = c.err, c.pan
		case <-time.After(60 * time.Second):
			impl.CloseCalled = true
			impl.CloseReturned = false
			impl.Phase = "close-stuck"
			impl.Leaked, impl.LeakedDetail = c18Goroutines()
			impl.Note = "Close did not return within 60 virtual seconds"
			ck(impl)
			os.Exit(4)
		}
	}
	impl.CloseCalled = true
	impl.CloseReturned = true
	impl.CloseTookNs = int64(time.Since(pr.t0)) - impl.ClosedAtNs
	impl.CloseErrs = c18CloseErrs(err)
	impl.Phase = "closed"
	impl.Panics, _, _, _ = pr.panicInfo()
	ck(impl)

	closeBack := int64(time.Since(pr.t0))
	time.Sleep(time.Second)
	synctest.Wait()
	impl.LeakedSoon, _ = c18Goroutines()
	impl.HeldBackNs = -1 << 62
	if hb := pr.heldReturnedAt(); hb >= 0 {
		impl.HeldBackNs = hb - closeBack
	}
	if in.LatencyNs > 0 && !in.HonorCtx {
		// pipeline calls that ignore cancellation legitimately outlive Close by their latency, and a backlog of queued jobs by
		// backlog x latency (they drain, one per worker and latency).  Draining is not "still running": wait — in virtual
		// time — for as long as the number of goroutines in flight keeps FALLING.  Whatever never ends, or is replenished, stops
		// the wait at once and is counted below exactly as before.
		count := func() int { m, _ := c18Goroutines(); return m["inflight"] }
		step := 10 * time.Second
		if d := 8 * time.Duration(in.LatencyNs); d > step {
			step = d
		}
		for prev, i := count(), 0; prev > 0 && i < 400; i++ {
			time.Sleep(step)
			synctest.Wait()
			cur := count()
			if cur >= prev {
				break
			}
			prev = cur
			impl.DrainedNs += int64(step)
		}
	}
	time.Sleep(24*time.Second + 137*time.Millisecond)
	c1 := pr.snapshot()
	time.Sleep(10 * time.Second)
	synctest.Wait()
	c2 := pr.snapshot()
	for _, s := range node.sites {
		impl.CallsAfterClose[s] = c2[s] - c1[s]
	}
	impl.Subscribed = node.subs()
	node.stopEnv()
	synctest.Wait()
	impl.Leaked, impl.LeakedDetail = c18Goroutines()
	impl.Panics, _, _, _ = pr.panicInfo()
	impl.Phase = "measured"
	ck(impl)

	if len(impl.Leaked) > 0 {
		// clean-up attempt, so that the bubble can end: a second Close reaches the services whose
		// recoverer had not been running the first time
		second := make(chan map[string]int, 1)
		go func() { e, _ := c18SafeClose(node.close); second <- c18CloseErrs(e) }()
		time.Sleep(12 * time.Second)
		synctest.Wait()
		select {
		case impl.SecondCloseErrs = <-second:
		default:
			impl.Note = "second Close did not return"
		}
		impl.LeakedAfter2nd, _ = c18Goroutines()
		impl.Phase = "cleaned"
		ck(impl)
		if len(impl.LeakedAfter2nd) > 0 {
			// the bubble can never end; record that instead of hanging or crashing
			impl.BubbleEnded = false
			impl.Phase = "done"
			ck(impl)
			os.Exit(3)
		}
	}
	impl.BubbleEnded = true
	impl.Phase = "done"
	ck(impl)
}

// TestC18Child is the re-executed half of TestC18; it does nothing on its own.
func TestC18Child(t *testing.T) {
	inPath, outPath := os.Getenv("VERIF_C18_CHILD"), os.Getenv("VERIF_C18_RESULT")
	if inPath == "" || outPath == "" {
		t.Skip("only runs as a child of TestC18")
	}
	b, err := os.ReadFile(inPath)
	if err != nil {
		t.Fatal(err)
	}
	var in c18Input
	if err := json.Unmarshal(b, &in); err != nil {
		t.Fatal(err)
	}
	ck := func(impl c18Impl) {
		b, _ := json.Marshal(impl)
		_ = os.WriteFile(outPath+".tmp", b, 0o644)
		_ = os.Rename(outPath+".tmp", outPath)
	}
	// watchdog OUTSIDE the bubble: a case takes well under a second of real time; goroutines blocked on a sync.Mutex are not
	// "durably blocked" for synctest, so a lock that is never released stops the virtual clock and the case would hang
	var last atomic.Pointer[c18Impl]
	ck2 := func(impl c18Impl) { last.Store(&impl); ck(impl) }
	go func() {
		time.Sleep(15 * time.Second)
		impl := c18Impl{Phase: "start"}
		if p := last.Load(); p != nil {
			impl = *p
		}
		cls, det := c18Goroutines()
		impl.Leaked, impl.LeakedDetail = cls, det
		impl.Hung = fmt.Sprintf("no progress for 15 s of real time in phase %q; goroutines blocked on a mutex: %d", impl.Phase, c18CountStacks("sync.(*Mutex).Lock", "sync.(*RWMutex)"))
		impl.Phase = "hung"
		ck(impl)
		os.Exit(5)
	}()
	synctest.Test(t, func(t *testing.T) { c18Case(t, in, ck2) })
}

// ---------------------------------------------------------------- parent

func c18RunChild(dir string, idx int, in c18Input) c18Impl {
	inPath := filepath.Join(dir, fmt.Sprintf("in-%d.json", idx))
	outPath := filepath.Join(dir, fmt.Sprintf("out-%d.json", idx))
	b, _ := json.Marshal(in)
	_ = os.WriteFile(inPath, b, 0o644)
	cmd := exec.Command(os.Args[0], "-test.run", "^TestC18Child$", "-test.timeout", "100s")
	coverChild(cmd)
	// GOGC=off: no garbage-collector goroutines, whose scheduling rounds would shift the yield-based schedules
	cmd.Env = append(os.Environ(), "VERIF_C18_CHILD="+inPath, "VERIF_C18_RESULT="+outPath, fmt.Sprintf("GOMAXPROCS=%d", in.Procs), "GOGC=off", "VERIF_OUT=", "VERIF_DIST=")
	var out bytes.Buffer
	cmd.Stdout, cmd.Stderr = &out, &out
	exit := "ok"
	began := time.Now()
	if err := cmd.Start(); err != nil {
		return c18Impl{Exit: "spawn: " + err.Error()}
	}
	done := make(chan error, 1)
	go func() { done <- cmd.Wait() }()
	select {
	case err := <-done:
		if err != nil {
			if ee, ok := err.(*exec.ExitError); ok {
				exit = fmt.Sprintf("exit:%d", ee.ExitCode())
			} else {
				exit = "error"
			}
		}
	case <-time.After(90 * time.Second):
		_ = cmd.Process.Kill()
		<-done
		exit = "timeout"
	}
	var impl c18Impl
	if rb, err := os.ReadFile(outPath); err == nil {
		_ = json.Unmarshal(rb, &impl)
	}
	impl.Exit = exit
	impl.WallMs = time.Since(began).Milliseconds()
	text := out.String()
	if exit != "ok" {
		impl.BubbleEnded = false
		switch {
		case strings.Contains(text, "c18: injected panic") && impl.Phase != "done":
			// the process was taken down by the injected panic
			impl.Survived = false
			impl.Note = "process died: " + c18FirstLine(text, "panic:")
		case exit == "exit:5":
			// the child's own watchdog (see TestC18Child)
			if impl.Hung == "" {
				impl.Hung = "no progress for 15 s of real time"
			}
		case exit != "exit:3" && exit != "exit:4" && exit != "timeout" && (strings.Contains(text, "\npanic: ") || strings.HasPrefix(text, "panic: ") || strings.Contains(text, "fatal error: ")):
			// the process was taken down by a panic that was not injected by the harness
			impl.Survived = false
			impl.Crashed = c18FirstLine(text, "panic: ")
			if impl.Crashed == "" {
				impl.Crashed = c18FirstLine(text, "fatal error: ")
			}
			impl.Note = "process died: " + impl.Crashed
		case strings.Contains(text, "deadlock:"):
			impl.Note = c18FirstLine(text, "deadlock:")
		case impl.Phase != "done" && impl.Note == "":
			impl.Note = "child ended early: " + c18FirstLine(text, "")
		}
	}
	if impl.CloseErrs == nil {
		impl.CloseErrs = map[string]int{}
	}
	if impl.CallsAfterClose == nil {
		impl.CallsAfterClose = map[string]int{}
	}
	if impl.Leaked == nil {
		impl.Leaked = map[string]int{}
	}
	os.Remove(inPath)
	os.Remove(outPath)
	return impl
}

func c18FirstLine(text, key string) string {
	for _, l := range strings.Split(text, "\n") {
		if strings.Contains(l, key) && strings.TrimSpace(l) != "" {
			if len(l) > 200 {
				l = l[:200]
			}
			return strings.TrimSpace(l)
		}
	}
	return ""
}

// ---------------------------------------------------------------- inputs

const (
	c18ms = int64(time.Millisecond)
	c18s  = int64(time.Second)
)

func c18Edge() []c18Input {
	var out []c18Input
	// Close immediately after creation, 0..k yields
	for k := 0; k <= 6; k++ {
		out = append(out, c18Input{Scenario: "close", Yields: k})
	}
	// … one yield, with the scheduler's global-queue poll (every 61st scheduling round of the single P) shifted
	// so that the yielded caller resumes in the middle of the services' start-up
	// (three periods of 61: three independent attempts, the alignment jitters by a round or two between runs)
	for _, base := range []int{0, 61, 122} {
		for pre := 34; pre <= 54; pre++ {
			out = append(out, c18Input{Scenario: "close", Yields: 1, PreYields: base + pre})
		}
	}
	// … with real parallelism between Close and the starting goroutines, many times over (not repeatable; every outcome
	// is an observation): this is where the interleavings live that need a goroutine to be delayed between two adjacent
	// statements — e.g. serviceStart between `running.Store(true)` and its select while Close runs and the service's own
	// result reaches the `stopped` channel first (with the `verif` hooks compiled in, a hook sits in exactly that window)
	for rep := 0; rep < tierN(100, 300); rep++ {
		for _, ps := range [][2]int{{16, 100}, {4, 100}, {16, 10}, {4, 1000}, {2, 100}, {16, 1000}} {
			out = append(out, c18Input{Scenario: "close", Procs: ps[0], Spin: ps[1]})
		}
	}
	// shortly after creation, around the first ticks, around the slower flows, around GC
	for _, at := range []int64{1, 1000, c18ms, 137 * c18ms, c18s - 1, c18s, c18s + 1, c18s + 1000, c18s + 137*c18ms, 1500 * c18ms,
		3*c18s - 1, 3 * c18s, 3*c18s + 1, 5 * c18s, 5*c18s + 1, 30*c18s - 1, 30 * c18s, 30*c18s + 137*c18ms} {
		out = append(out, c18Input{Scenario: "close", CloseAtNs: at})
	}
	// during a pipeline run with virtual latency
	for _, lat := range []int64{700 * c18ms, 3 * c18s, 25 * c18s} {
		for _, honor := range []bool{true, false} {
			if !honor && lat > 3*c18s {
				// a pipeline that ignores cancellation for longer than jobs arrive builds an unbounded
				// backlog; draining it after Close is overload, not a Close defect
				continue
			}
			for _, at := range []int64{c18s + lat/2, 2*c18s + 137*c18ms, c18s + lat - 1, c18s + lat, c18s + lat + 1} {
				out = append(out, c18Input{Scenario: "close", CloseAtNs: at, Work: 3, LatencyNs: lat, HonorCtx: honor})
			}
		}
	}
	// a panic at every site; the plugin stays open long enough to see the flow resume
	// … once and repeatedly (1…12 panics, one per tick of the flow): a containment that leaks something per panic
	// (a worker, a slot, a lock) only shows after several
	for _, site := range c18Sites {
		for count := 1; count <= 12; count++ {
			out = append(out, c18Input{Scenario: "panic", PanicSite: site, PanicAtCall: 1 + count%3, PanicCount: count})
		}
	}
	// Close during the restart cool-down that follows a panic
	for _, site := range c18Sites {
		for _, at := range []int64{c18ms, c18s + 137*c18ms, 5 * c18s, 10*c18s - 1, 10 * c18s, 10*c18s + 1, 10*c18s + 500*c18ms} {
			out = append(out, c18Input{Scenario: "panic-close", PanicSite: site, PanicAtCall: 2, PanicCount: 1, CloseAtNs: at})
		}
		// Close in the middle of / right after a series of panics
		for _, count := range []int{4, 5, 6, 12} {
			out = append(out, c18Input{Scenario: "panic-close", PanicSite: site, PanicAtCall: 1, PanicCount: count, CloseAtNs: int64(count)*c18Interval(site) + 137*c18ms})
			out = append(out, c18Input{Scenario: "panic-close", PanicSite: site, PanicAtCall: 1, PanicCount: count, CloseAtNs: int64(count/2)*c18Interval(site) + 137*c18ms})
		}
	}
	// Close while one provider call of a service is held in flight (it ignores cancellation and then returns
	// normally), early / half-way / just before it returns / just after it returned
	holdSites := []string{c18SiteLog, c18SiteRecov, c18SiteGetter, c18SiteEvents, c18SitePipeline, c18SitePost}
	for _, site := range holdSites {
		for _, hold := range []int64{3 * c18s, 15 * c18s} {
			for _, at := range []int64{c18ms, hold / 2, hold - 1, hold + c18ms} {
				out = append(out, c18Input{Scenario: "hold-close", HoldSite: site, HoldAtCall: 2, HoldNs: hold, CloseAtNs: at})
			}
		}
	}
	// what the pipeline RETURNS as a fault dimension (next to its panics): every result shape, on fresh and on repeating
	// work ids, with the foreground rounds running; the instance must survive, keep working and close clean
	for _, shape := range c18Shapes {
		for _, rep := range []bool{false, true} {
			out = append(out, c18Input{Scenario: "close", CloseAtNs: 6*c18s + 137*c18ms, Work: 3, Shape: shape, RepeatWork: rep, Rounds: rep})
			out = append(out, c18Input{Scenario: "close", CloseAtNs: 6*c18s + 137*c18ms, Work: 3, Shape: shape, RepeatWork: rep, Ineligible: true})
		}
	}
	// unusual but accepted configuration values through the public factory: RunnerConfig and off-chain config at and
	// across their thresholds (0 = "none", 1, negative, huge, overflowing time.Duration)
	for _, rc := range c18RunnerCfgs() {
		rc := rc
		out = append(out, c18Input{Scenario: "close", CloseAtNs: 6*c18s + 137*c18ms, Work: 2, Rounds: true, Runner: &rc})
	}
	for _, oc := range c18OffchainCfgs {
		out = append(out, c18Input{Scenario: "close", CloseAtNs: 6*c18s + 137*c18ms, Work: 2, Rounds: true, Offchain: oc})
		out = append(out, c18Input{Scenario: "panic-close", PanicSite: c18SiteEvents, PanicAtCall: 2, PanicCount: 1, CloseAtNs: 3 * c18s, Offchain: oc})
	}
	// factory reuse (libocr asks the ONE factory for a new instance on every config change): everything above in its most
	// telling variants, on a second instance — the first closed before / after the second is built, same / different
	// config; the second must work (pipeline reached), survive faults, and its Close must stop both instances' everything
	for _, fam := range []string{"", "v2"} {
		for _, reuse := range []int{1, 2} {
			for _, cfg := range []string{"same", "diff"} {
				base := c18Input{Family: fam, Reuse: reuse, ReuseRunNs: 2500 * c18ms, ReuseGapNs: 137 * c18ms, ReuseCfg: cfg}
				for _, at := range []int64{2500 * c18ms, 5*c18s + 137*c18ms, 31 * c18s} {
					in := base
					in.Scenario, in.CloseAtNs, in.Work = "close", at, 2
					out = append(out, in)
				}
				sites := []string{c18SiteLog, c18SitePipeline, c18SiteEvents, c18SiteGC}
				if fam == "v2" {
					sites = []string{c18SiteV2Perform, c18SiteV2Check}
				}
				for _, site := range sites {
					in := base
					in.Scenario, in.PanicSite, in.PanicAtCall, in.PanicCount = "panic", site, 2, 5
					out = append(out, in)
					in.Scenario, in.PanicCount, in.CloseAtNs = "panic-close", 1, 5*c18s
					out = append(out, in)
				}
			}
		}
		// the second instance closed inside its own start-up, and built right after / long after the first was closed
		for _, gap := range []int64{0, c18ms, 12 * c18s} {
			out = append(out, c18Input{Family: fam, Reuse: 1, ReuseRunNs: 1500 * c18ms, ReuseGapNs: gap, ReuseCfg: "same", Scenario: "close", Yields: 1, Work: 2})
			out = append(out, c18Input{Family: fam, Reuse: 1, ReuseRunNs: 1500 * c18ms, ReuseGapNs: gap, ReuseCfg: "diff", Scenario: "close", CloseAtNs: 3*c18s + 137*c18ms, Work: 2})
		}
	}
	// … and the other kind of slow call: one that HONOURS cancellation and returns only when its context ends, in flight at
	// Close, at every site that is handed a context (providers, builder, pipeline, state updater): Close must reach it, and
	// one virtual second after Close returned nothing of the instance may be running
	for _, site := range []string{c18SiteLog, c18SiteRecov, c18SiteGetter, c18SiteEvents, c18SitePipeline, c18SitePost, c18SiteBuilder} {
		for _, at := range []int64{c18ms, 2*c18s + 137*c18ms, 12 * c18s} {
			out = append(out, c18Input{Scenario: "hold-close", HoldSite: site, HoldAtCall: 2, HoldNs: 45 * c18s, HoldCtx: true, CloseAtNs: at})
		}
	}
	for _, site := range []string{c18SiteV2Perform, c18SiteV2Stale, c18SiteV2Source, c18SiteV2Check} {
		for _, at := range []int64{c18ms, 2*c18s + 137*c18ms} {
			out = append(out, c18Input{Family: "v2", Scenario: "hold-close", HoldSite: site, HoldAtCall: 3, HoldNs: 45 * c18s, HoldCtx: true, CloseAtNs: at})
		}
	}
	// the OCR2 (v2) plugin: Close at instants across its life, and while a log poll / registry call is in flight
	for k := 0; k <= 2; k++ {
		out = append(out, c18Input{Family: "v2", Scenario: "close", Yields: k})
	}
	for _, at := range []int64{1, c18ms, c18s - 1, c18s, c18s + 1, c18s + 137*c18ms, 2 * c18s, 5*c18s + 1, 30 * c18s, 30*c18s + 137*c18ms} {
		out = append(out, c18Input{Family: "v2", Scenario: "close", CloseAtNs: at})
	}
	// … panics on its background goroutines (coordinator poll loop: bare goroutine; observer head loop: behind
	// internal/util.RecoverableService), once and repeatedly, then Close; and Close shortly after a panic
	for _, site := range c18SitesV2 {
		for count := 1; count <= 12; count++ {
			out = append(out, c18Input{Family: "v2", Scenario: "panic", PanicSite: site, PanicAtCall: 1 + count%3, PanicCount: count})
		}
		for _, at := range []int64{c18ms, c18s + 137*c18ms, 5 * c18s, 10*c18s - 1, 10 * c18s, 10*c18s + 1, 10*c18s + 500*c18ms, 11*c18s + 137*c18ms} {
			out = append(out, c18Input{Family: "v2", Scenario: "panic-close", PanicSite: site, PanicAtCall: 2, PanicCount: 1, CloseAtNs: at})
		}
	}
	for _, site := range []string{c18SiteV2Perform, c18SiteV2Stale, c18SiteV2Source, c18SiteV2Check} {
		for _, hold := range []int64{500 * c18ms, 3 * c18s, 15 * c18s} {
			for _, at := range []int64{1, c18ms, hold / 2, hold - 1, hold + c18ms} {
				out = append(out, c18Input{Family: "v2", Scenario: "hold-close", HoldSite: site, HoldAtCall: 3, HoldNs: hold, CloseAtNs: at})
			}
		}
	}
	return out
}

const c18MaxI64 = int64(^uint64(0) >> 1)

// RunnerConfig values: worker counts 1 / many, queue length 0 / 1, cache expiry 0 ("never") / 1 ns / negative / huge, sweep
// interval tiny / equal to the expiry / huge.  (A sweep interval <= 0 is not generated: time.NewTicker rejects it on the
// unchanged tree as well.)
func c18RunnerCfgs() []c18RunnerCfg {
	min20, s30 := int64(20*time.Minute), int64(30*time.Second)
	return []c18RunnerCfg{
		{1, 1, min20, s30}, {64, 0, min20, s30}, {4, 100, 0, s30}, {4, 100, 1, s30}, {4, 100, -int64(time.Second), s30},
		{4, 100, c18MaxI64, s30}, {4, 100, c18s, c18s}, {4, 100, min20, 10 * c18ms}, {4, 100, min20, c18MaxI64}, {2, 1, 0, 10 * c18ms},
	}
}

var c18OffchainCfgs = []string{
	`{"performLockoutWindow":1}`, `{"performLockoutWindow":1000}`, `{"performLockoutWindow":9300000000000}`,
	`{"performLockoutWindow":9223372036854775807}`, `{"minConfirmations":2147483647}`, `{"maxUpkeepBatchSize":1,"gasLimitPerReport":1,"gasOverheadPerUpkeep":4294967295}`,
	`{"targetInRounds":1,"targetProbability":"1"}`, `{"targetInRounds":2147483647,"targetProbability":"0.0000001"}`,
	`{"logProviderConfig":{"blockRate":4294967295,"logLimit":4294967295}}`, `{"samplingJobDuration":1,"mercuryLookup":true}`,
}

func c18Gen(r *Rng) c18Input {
	in := c18GenBase(r)
	// value-domain dimensions on top of whatever was generated (v3, cooperative children only)
	if in.Family == "" && in.Procs <= 1 && !(in.Scenario == "close" && in.CloseAtNs == 0) {
		if r.Chance(20) {
			in.Shape = c18Shapes[r.Intn(len(c18Shapes))]
			if in.Work == 0 {
				in.Work = r.Range(1, 4)
			}
		}
		if in.Work > 0 && r.Chance(30) {
			in.RepeatWork = true
		}
		if r.Chance(25) {
			in.Rounds = true
		}
		if r.Chance(15) {
			rcs := c18RunnerCfgs()
			rc := rcs[r.Intn(len(rcs))]
			in.Runner = &rc
		}
		if r.Chance(15) {
			in.Offchain = c18OffchainCfgs[r.Intn(len(c18OffchainCfgs))]
		}
	}
	// factory reuse on top of whatever was generated (not for the parallel start-up children: reuse 2 needs virtual time)
	if r.Chance(25) && in.Procs <= 1 {
		in.Reuse = r.Range(1, 2)
		in.ReuseRunNs = []int64{1500 * c18ms, 2500 * c18ms, 5*c18s + 137*c18ms}[r.Intn(3)]
		in.ReuseGapNs = []int64{0, 1, c18ms, 137 * c18ms, 3 * c18s, 12 * c18s}[r.Intn(6)]
		in.ReuseCfg = []string{"same", "diff"}[r.Intn(2)]
		if in.Reuse == 2 && in.Scenario == "close" && in.CloseAtNs == 0 {
			in.CloseAtNs = 1500 * c18ms
		}
	}
	return in
}

func c18GenBase(r *Rng) c18Input {
	in := c18Input{}
	eps := []int64{-1000, -1, 0, 1, 1000, c18ms, 137 * c18ms, 500 * c18ms}
	grid := func(max int) int64 {
		v := int64(r.Intn(max+1))*c18s + eps[r.Intn(len(eps))]
		if v < 0 {
			v = 0
		}
		return v
	}
	switch r.Intn(13) {
	case 10, 11: // Close while a provider call is in flight
		in.Scenario = "hold-close"
		sites := []string{c18SiteLog, c18SiteRecov, c18SiteGetter, c18SiteEvents, c18SitePipeline, c18SitePost}
		sites = append(sites, c18SiteBuilder)
		in.HoldSite = sites[r.Intn(len(sites))]
		in.HoldAtCall = r.Range(1, 5)
		if r.Chance(40) {
			in.HoldCtx = true
			in.HoldNs = 45 * c18s
			in.CloseAtNs = []int64{0, 1, c18ms, c18s, 2*c18s + 137*c18ms, 7 * c18s, 19 * c18s, 21 * c18s}[r.Intn(8)]
			in.Work = r.Intn(4)
			return in
		}
		in.HoldNs = []int64{137 * c18ms, c18s, 3 * c18s, 7 * c18s, 19 * c18s}[r.Intn(5)]
		in.CloseAtNs = []int64{0, 1, c18ms, in.HoldNs / 2, in.HoldNs - 1, in.HoldNs, in.HoldNs + 1, in.HoldNs + 500*c18ms}[r.Intn(8)]
		in.Work = r.Intn(4)
		return in
	case 12: // the v2 plugin
		in.Family = "v2"
		if r.Chance(40) {
			in.PanicSite = c18SitesV2[r.Intn(len(c18SitesV2))]
			in.PanicAtCall = r.Range(1, 6)
			if r.Bool() {
				in.Scenario = "panic"
				in.PanicCount = r.Range(1, 12)
			} else {
				in.Scenario = "panic-close"
				in.PanicCount = r.Range(1, 8)
				in.CloseAtNs = grid(12)
			}
		} else if r.Bool() {
			in.Scenario = "close"
			in.CloseAtNs = grid(35)
			if r.Chance(20) {
				in.CloseAtNs = 0
				in.Yields = r.Intn(4)
			}
		} else {
			in.Scenario = "hold-close"
			in.HoldSite = []string{c18SiteV2Perform, c18SiteV2Stale, c18SiteV2Source, c18SiteV2Check}[r.Intn(4)]
			in.HoldAtCall = r.Range(1, 6)
			in.HoldNs = []int64{137 * c18ms, c18s, 3 * c18s, 7 * c18s, 19 * c18s}[r.Intn(5)]
			in.CloseAtNs = []int64{0, 1, c18ms, in.HoldNs / 2, in.HoldNs - 1, in.HoldNs, in.HoldNs + 1, in.HoldNs + 500*c18ms}[r.Intn(8)]
		}
		return in
	case 0, 1: // start-up window
		in.Scenario = "close"
		switch r.Intn(3) {
		case 0: // cooperative: yields only
			in.Yields = r.Intn(4)
			in.PreYields = r.Intn(183)
		case 1: // real parallelism between Close and the starting goroutines (not repeatable; any outcome is an observation)
			in.Procs = []int{2, 4, 16}[r.Intn(3)]
			in.Spin = []int{0, 10, 100, 1000, 10000, 100000, 300000}[r.Intn(7)]
		default:
			in.Yields = r.Intn(3)
			in.CloseAtNs = int64(r.Intn(2000))
		}
	case 2, 3, 4: // anywhere on/around the tick grid, with or without work in flight
		in.Scenario = "close"
		in.CloseAtNs = grid(35)
		if r.Chance(60) {
			in.Work = r.Range(1, 12)
			in.LatencyNs = []int64{0, c18ms, 700 * c18ms, 3 * c18s, 19 * c18s, 21 * c18s}[r.Intn(6)]
			in.HonorCtx = r.Bool() || in.LatencyNs > 3*c18s
			in.Ineligible = r.Chance(30)
		}
	case 5, 6: // panic, keep open
		in.Scenario = "panic"
		in.PanicSite = c18Sites[r.Intn(len(c18Sites))]
		in.PanicAtCall = r.Range(1, 6)
		in.PanicCount = r.Range(1, 12)
		in.Work = r.Intn(4)
		in.LatencyNs = []int64{0, c18ms, 700 * c18ms}[r.Intn(3)]
	default: // panic, Close inside / at the edge of / after the cool-down
		in.Scenario = "panic-close"
		in.PanicSite = c18Sites[r.Intn(len(c18Sites))]
		in.PanicAtCall = r.Range(1, 4)
		in.PanicCount = r.Range(1, 8)
		in.Work = r.Intn(4)
		in.CloseAtNs = grid(12)
		if r.Chance(30) {
			in.CloseAtNs = 10*c18s + eps[r.Intn(len(eps))]
		}
	}
	return in
}

func TestC18(t *testing.T) {
	em := NewEmitter(t, "C18")
	defer em.Close()
	dir, err := os.MkdirTemp("", "c18-")
	if err != nil {
		t.Fatal(err)
	}
	defer os.RemoveAll(dir)

	type job struct {
		src string
		in  c18Input
	}
	var jobs []job
	names, raws, replayOnly := corpusInputs(t, "C18")
	for i, raw := range raws {
		var in c18Input
		if err := json.Unmarshal(raw, &in); err != nil {
			t.Fatalf("%s: %v", names[i], err)
		}
		jobs = append(jobs, job{names[i], in})
	}
	if !replayOnly {
		for _, in := range c18Edge() {
			jobs = append(jobs, job{"edge", in})
		}
		for _, in := range c18CovEdge() {
			jobs = append(jobs, job{"edge", in})
		}
		r := NewRng(seed())
		for i, n := 0, tierN(600, 12000); i < n; i++ {
			jobs = append(jobs, job{"gen", c18Gen(r)})
		}
		r2 := NewRng(seed() ^ 0xc18c0)
		for i, n := 0, tierN(60, 1200); i < n; i++ {
			jobs = append(jobs, job{"gen", c18CovGen(r2)})
		}
	}
	impls := make([]c18Impl, len(jobs))
	var wgrp sync.WaitGroup
	sem := make(chan struct{}, 8)
	for i := range jobs {
		jobs[i].in = c18Fill(jobs[i].in)
		wgrp.Add(1)
		sem <- struct{}{}
		go func(i int) {
			defer wgrp.Done()
			defer func() { <-sem }()
			impls[i] = c18RunChild(dir, i, jobs[i].in)
		}(i)
	}
	wgrp.Wait()
	for i, j := range jobs {
		in, impl := j.in, impls[i]
		em.Emit(j.src, in, impl)
		em.Hit("scenario:" + in.Scenario)
		if in.PanicSite != "" {
			em.Hit("panic-site:" + in.PanicSite)
		}
		if in.Scenario == "close" && in.CloseAtNs == 0 {
			em.Hit(fmt.Sprintf("close-after-yields:%d", in.Yields))
		}
		if in.Work > 0 {
			em.Hit("work-in-flight")
		}
		if !impl.Survived {
			em.Hit("observed:process-died")
		}
		if len(impl.Leaked) > 0 {
			em.Hit("observed:leak")
		}
		if !impl.BubbleEnded {
			em.Hit("observed:bubble-not-ended")
		}
		for k := range impl.CloseErrs {
			em.Hit("close-err:" + k)
		}
	}
}
