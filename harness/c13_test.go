package harness

import (
	"bytes"
	"context"
	"encoding/binary"
	"encoding/json"
	"errors"
	"fmt"
	"io"
	"os"
	"os/exec"
	"path/filepath"
	"reflect"
	"sort"
	"strconv"
	"strings"
	"sync"
	"testing"
	"testing/synctest"
	"time"

	ocr2keepersv3 "github.com/smartcontractkit/chainlink-automation/pkg/v3"
	"github.com/smartcontractkit/chainlink-automation/pkg/v3/runner"
	ocr2keepers "github.com/smartcontractkit/chainlink-common/pkg/types/automation"
)

// C13 — Runner returns one result per checked payload, never a stale cached one.
//
// One case is a history on ONE real runner.NewRunner (worker group, cache and
// cache cleaner included): 1–8 caller goroutines, each making 1–4 consecutive
// CheckUpkeeps calls, over a fake pipeline that logs every batch it is called
// with, answers after a virtual latency and fails chosen batches.
//
// How the fake behaves for a payload travels inside the payload's CheckData (the
// runner never looks at it), so the behaviour does not depend on how the runner
// happens to batch: see c13Attr.
//
// The runner's cache accesses (look-up loop of a call; aggregation of one
// batch) are forced onto pairwise distinct virtual instants (c13Scn.claim), which
// are never on the cache cleaner's tick grid.  Time only advances when every
// goroutine in the bubble is durably blocked, hence the logged order of those
// instants is the true order of the cache accesses, with no real concurrency
// between them.

type c13Payload struct {
	UID  string `json:"uid"`
	Trig JTrig  `json:"trig"`
	WID  string `json:"wid"`
	CD   string `json:"cd,omitempty"` // check data = encoded c13Attr (ignored by the model; left out of the logged batches)
}

// c13Attr: behaviour of the fake pipeline for one payload
type c13Attr struct {
	Poison bool   // the batch containing this payload fails
	PES    uint8  // PipelineExecutionState of its result
	Mut    uint8  // 0 contract kept; 1 result dropped; 2 result duplicated; 3 foreign work id; 4 other block number; 5 trigger shape flipped (log extension added / removed; same work id, block, hash)
	Misc   uint8  // bit0 retryable, bit1 eligible, bit2 the batch ignores its context (answers after its latency whatever happens), bit3 RetryInterval set, bit4 non-zero IneligibilityReason
	CID    uint16 // call id (lets the fake attribute a batch to its call)
	Lat    uint64 // latency contribution in ns (a batch takes the maximum over its payloads, at least 1 ns)
}

func (a c13Attr) encode() []byte {
	b := make([]byte, 14)
	if a.Poison {
		b[0] = 1
	}
	b[1], b[2], b[3] = a.PES, a.Mut, a.Misc
	binary.BigEndian.PutUint16(b[4:], a.CID)
	binary.BigEndian.PutUint64(b[6:], a.Lat)
	return b
}
func c13Decode(b []byte) (a c13Attr) {
	if len(b) != 14 {
		return
	}
	a.Poison = b[0] == 1
	a.PES, a.Mut, a.Misc = b[1], b[2], b[3]
	a.CID = binary.BigEndian.Uint16(b[4:])
	a.Lat = binary.BigEndian.Uint64(b[6:])
	return
}

type c13Call struct {
	C        int          `json:"c"`      // call id (unique)
	Caller   int          `json:"caller"` // calls of one caller run consecutively, callers concurrently
	Wait     int64        `json:"wait"`   // ns slept before the call (after the caller's previous return / history start)
	ExpAlign *int64       `json:"expAlign,omitempty"`
	Timeout  int64        `json:"timeout,omitempty"` // caller's context: 0 context.Background(); >0 deadline that many ns after the call starts; <0 already cancelled
	Payloads []c13Payload `json:"payloads"`
	// Obs set: the call is not made on the runner directly but through an Observer's Process: the payloads are what the
	// tick hands out, the pre-processors filter them, the runner is asked about the rest and the post-processor
	// receives its results (Timeout > 0 is then the observer's process limit)
	Obs *c13Obs `json:"obs,omitempty"`
}

// c13Pre: one pre-processor of an observer.  Kind selects what it does to the list (0 nothing, 1 keeps positions
// 0,2,4,…, 2 keeps positions 1,3,5,…, 3 reverses, 4 drops the first, 5 returns none); Fails: it answers an error
type c13Pre struct {
	Kind  int  `json:"kind"`
	Fails bool `json:"fails,omitempty"`
}
type c13Obs struct {
	Generic   bool     `json:"generic,omitempty"` // NewGenericObserver(…, runner.CheckUpkeeps, …) instead of NewRunnableObserver(…, runner, …)
	TickFails bool     `json:"tickFails,omitempty"`
	Pres      []c13Pre `json:"pres"`
	PostFails bool     `json:"postFails,omitempty"`
}

// c13LifeIn: life-cycle calls on top of the Start at the beginning and the Close at the end of every history
type c13LifeIn struct {
	PreClose bool    `json:"preClose,omitempty"` // Close before the runner was ever started
	Starts   []int64 `json:"starts,omitempty"`   // one more Start at these instants (ns since the history started; the runner is running then)
	Closes   []int64 `json:"closes,omitempty"`   // one more Close that many ns after the Close at CloseAt (only with CloseAt > 0)
	Final    bool    `json:"final,omitempty"`    // one more Close after the Close that ends the history
}

// ExpAlign = d: additionally wait until (aggregation instant of the caller's latest
// successful batch) + CacheExpire + d, if that is in the future: TTL boundary ±1 ns.

type c13Input struct {
	Expire  int64 `json:"expire"` // RunnerConfig.CacheExpire in ns; 0 = never
	Clean   int64 `json:"clean"`  // RunnerConfig.CacheClean in ns
	Workers int   `json:"workers"`
	// Racy: instant pipeline AND the calls are not moved to instants of their own: callers that wake
	// at the same virtual instant run truly concurrently (look-up loops against aggregations).  The
	// model is then not compared (the cache a look-up sees is mid-way through another call's
	// writes); the predicate on the observations is evaluated as always.
	Racy bool `json:"racy,omitempty"`
	// CloseAt > 0: Runner.Close() is called that many ns after the history starts, whatever is in flight
	CloseAt int64     `json:"closeAt,omitempty"`
	Instant bool       `json:"instant,omitempty"` // the pipeline answers without any (virtual) delay: batches of a call complete concurrently
	Life    *c13LifeIn `json:"life,omitempty"`
	Calls   []c13Call  `json:"calls"`
}

type c13Ev struct {
	T     string       `json:"t"` // "s" look-up loop of a call, "d" one batch answered (aggregated at this instant)
	C     int          `json:"c"`
	Now   int64        `json:"now"` // virtual ns since the runner was started
	Batch []c13Payload `json:"batch,omitempty"`
	OK    bool         `json:"ok"`
	Res   []JCR        `json:"res,omitempty"`

	rawBatch []ocr2keepers.UpkeepPayload // converted to Batch / Res after the run (keeps the pipeline fast)
	rawRes   []ocr2keepers.CheckResult
}
type c13Ret struct {
	C    int   `json:"c"`
	Vals []JCR `json:"vals"`
	Err  int   `json:"err"` // 0 nil, 1 ErrTooManyErrors, 2 anything else
	// the caller's context was done (cancelled, or its deadline reached) when the call returned
	Cancelled bool `json:"cancelled"`
	// The caller keeps the slice CheckUpkeeps returned.  Vals is its content right after the call
	// returned; at the end of the history (every later and concurrent call on the runner done) the
	// same slice is read again: HeldSame, or its content then in Held.
	// 0 the runner was running until the call returned; 1 Runner.Close() came after the call's
	// look-ups and before its return; 2 the runner had been closed before the call started
	Stopped  int   `json:"stopped,omitempty"`
	HeldSame bool  `json:"heldSame"`
	Held     []JCR `json:"held,omitempty"`

	raw      []ocr2keepers.CheckResult
	startAt  int64
	returnAt int64
}
// c13Proc: what could be seen of one Observer.Process from outside
type c13Proc struct {
	C          int          `json:"c"`
	Code       int          `json:"code"`     // error returned: 0 nil, 1 the tick's, 2 a pre-processor's, 3 ErrTooManyErrors, 4 the post-processor's, 5 anything else
	PreCalls   int          `json:"preCalls"` // pre-processors invoked
	Asked      bool         `json:"asked"`    // the runner was called (its arguments: AskedPs; its answer: the call's entry in rets)
	AskedPs    []c13Payload `json:"askedPs,omitempty"`
	AskedN     int          `json:"askedN"`     // times the runner was called (0 or 1)
	PostCalls  int          `json:"postCalls"`  // times the post-processor was called (0 or 1); its arguments:
	PostRes    []JCR        `json:"postRes,omitempty"`
	PostPs     []c13Payload `json:"postPs,omitempty"`
}

// c13LifeOut: one life-cycle call and how it ended.  Out: 1 an error at once; for "close" 0 = nil; for "start" 0 = it took
// the runner over (did not return until a Close, then nil), 2 = nil at once, 3 = it never returned
type c13LifeOut struct {
	Op  string `json:"op"`
	At  int64  `json:"at"`
	Out int    `json:"out"`
}

type c13Impl struct {
	Events  []c13Ev      `json:"events"`
	Rets    []c13Ret     `json:"rets"`
	Procs   []c13Proc    `json:"procs,omitempty"`
	Life    []c13LifeOut `json:"life,omitempty"`
	Problem string   `json:"problem,omitempty"` // harness-level anomaly (runner did not stop, call did not return)
	Crashed bool     `json:"crashed,omitempty"` // the process died while this history ran (written by the parent process)
	Crash   string   `json:"crash,omitempty"`   // first "panic:" / "fatal error:" line of the dead process
}

func toC13Payload(p ocr2keepers.UpkeepPayload) c13Payload {
	return c13Payload{UID: hx(p.UpkeepID[:]), Trig: toJTrig(p.Trigger), WID: p.WorkID, CD: hx(p.CheckData)}
}
func fromC13Payload(j c13Payload) ocr2keepers.UpkeepPayload {
	return ocr2keepers.UpkeepPayload{UpkeepID: b32(j.UID), Trigger: fromJTrig(j.Trig), WorkID: j.WID, CheckData: unhx(j.CD)}
}

// ---------------------------------------------------------------- scenario state shared by callers and the fake

type c13Scn struct {
	mu      sync.Mutex
	t0      time.Time
	clean   int64
	claimed map[int64]bool
	events  []c13Ev
	rets    []c13Ret
	procs   []c13Proc
	execs   uint64        // pipeline executions so far: makes every produced result unique
	lastOK  map[int]int64 // caller -> aggregation instant of its latest successful batch
	callers map[int]int   // call id -> caller
	instant bool
}

// log records ev at the current instant without moving in time (instant pipeline).
func (s *c13Scn) log(ev c13Ev) {
	s.mu.Lock()
	ev.Now = time.Since(s.t0).Nanoseconds()
	s.events = append(s.events, ev)
	s.mu.Unlock()
}

// c13CtxDone: the context is cancelled or its deadline has been reached.  Decided on the clock as
// well, so that the answer does not depend on whether the context's own timer has already run at
// this very instant.
func c13CtxDone(ctx context.Context) bool {
	if ctx.Err() != nil {
		return true
	}
	if dl, ok := ctx.Deadline(); ok && !time.Now().Before(dl) {
		return true
	}
	return false
}

// claim moves the calling goroutine to a virtual instant that no other cache access
// uses and that is not a tick of the cache cleaner, and logs ev there.
func (s *c13Scn) claim(ev c13Ev) int64 {
	for {
		s.mu.Lock()
		now := time.Since(s.t0).Nanoseconds()
		if !s.claimed[now] && (s.clean <= 0 || now%s.clean != 0) {
			s.claimed[now] = true
			if ev.T != "" { // "" = only move to an instant of one's own (Runner.Close)
				ev.Now = now
				s.events = append(s.events, ev)
			}
			if ev.T == "d" && ev.OK {
				s.lastOK[s.callers[ev.C]] = now
			}
			s.mu.Unlock()
			return now
		}
		s.mu.Unlock()
		time.Sleep(time.Nanosecond)
	}
}

var errC13Pipeline = errors.New("c13: injected pipeline failure")

// CheckUpkeeps is the wrapped pipeline.
func (s *c13Scn) CheckUpkeeps(ctx context.Context, ps ...ocr2keepers.UpkeepPayload) ([]ocr2keepers.CheckResult, error) {
	lat, fail, cid, stubborn := uint64(1), false, 0, false
	for _, p := range ps {
		a := c13Decode(p.CheckData)
		if a.Lat > lat {
			lat = a.Lat
		}
		fail = fail || a.Poison
		stubborn = stubborn || a.Misc&4 != 0
		cid = int(a.CID)
	}
	// a pipeline that honours its context: it gives up with ctx.Err() when the context is done
	// before the answer is ready
	// ... unless it is past the point where the context matters (the answer is on its way and is
	// delivered after the latency, whatever happens to the context meanwhile)
	ctxFail := false
	if stubborn {
		if !s.instant {
			time.Sleep(time.Duration(lat))
		}
	} else if c13CtxDone(ctx) {
		ctxFail = true
	} else if !s.instant {
		tm := time.NewTimer(time.Duration(lat))
		select {
		case <-tm.C:
		case <-ctx.Done():
			tm.Stop()
		}
		ctxFail = c13CtxDone(ctx)
	}
	fail = fail || ctxFail
	s.mu.Lock()
	s.execs++
	exec := s.execs
	s.mu.Unlock()
	var out []ocr2keepers.CheckResult
	if !fail {
		out = make([]ocr2keepers.CheckResult, 0, len(ps))
		for i, p := range ps {
			a := c13Decode(p.CheckData)
			r := ocr2keepers.CheckResult{
				PipelineExecutionState: a.PES, Retryable: a.Misc&1 != 0, Eligible: a.Misc&2 != 0,
				UpkeepID: p.UpkeepID, Trigger: p.Trigger, WorkID: p.WorkID,
				GasAllocated: exec*1000 + uint64(i), // unique per pipeline execution and position
				PerformData:  []byte{byte(exec), byte(i)},
			}
			if a.Misc&8 != 0 {
				r.RetryInterval = 5 * time.Second // "ask again later" (normally zero)
			}
			if a.Misc&16 != 0 {
				r.IneligibilityReason = uint8(1 + exec%9)
			}
			switch a.Mut {
			case 1:
				continue
			case 2:
				out = append(out, r)
			case 3:
				r.WorkID = "foreign-" + p.WorkID[:8]
			case 4:
				r.Trigger.BlockNumber++
			case 5:
				if r.Trigger.LogTriggerExtension == nil {
					r.Trigger.LogTriggerExtension = &ocr2keepers.LogTriggerExtension{TxHash: p.Trigger.BlockHash, Index: uint32(i), BlockHash: p.Trigger.BlockHash, BlockNumber: p.Trigger.BlockNumber}
				} else {
					r.Trigger.LogTriggerExtension = nil
				}
			}
			out = append(out, r)
		}
	}
	ev := c13Ev{T: "d", C: cid, OK: !fail, rawBatch: append([]ocr2keepers.UpkeepPayload(nil), ps...)}
	if !fail {
		ev.rawRes = append([]ocr2keepers.CheckResult(nil), out...)
	}
	if s.instant {
		s.log(ev)
	} else {
		s.claim(ev)
	}
	if fail {
		if ctxFail && ctx.Err() != nil {
			return nil, ctx.Err()
		}
		return nil, errC13Pipeline
	}
	return out, nil
}


// ---------------------------------------------------------------- the stages of an Observer around the runner

var (
	errC13Tick = errors.New("c13: injected tick failure")
	errC13Pre  = errors.New("c13: injected pre-processor failure")
	errC13Post = errors.New("c13: injected post-processor failure")
)

type c13Tick struct {
	ps   []ocr2keepers.UpkeepPayload
	fail bool
}

func (t c13Tick) Value(context.Context) ([]ocr2keepers.UpkeepPayload, error) {
	if t.fail {
		return nil, errC13Tick
	}
	return t.ps, nil
}

func c13PreApply(kind int, ps []ocr2keepers.UpkeepPayload) []ocr2keepers.UpkeepPayload {
	out := make([]ocr2keepers.UpkeepPayload, 0, len(ps))
	switch kind {
	case 1, 2:
		for i, p := range ps {
			if i%2 == kind-1 {
				out = append(out, p)
			}
		}
	case 3:
		for i := len(ps) - 1; i >= 0; i-- {
			out = append(out, ps[i])
		}
	case 4:
		if len(ps) > 0 {
			out = append(out, ps[1:]...)
		}
	case 5:
	default:
		out = append(out, ps...)
	}
	return out
}

type c13PreProc struct {
	kind  int
	fails bool
	calls *int
}

// a failing pre-processor still hands back what it has (the list it would have returned): the error alone must stop the process
func (p *c13PreProc) PreProcess(_ context.Context, ps []ocr2keepers.UpkeepPayload) ([]ocr2keepers.UpkeepPayload, error) {
	*p.calls++
	if p.fails {
		return c13PreApply(p.kind, ps), errC13Pre
	}
	return c13PreApply(p.kind, ps), nil
}

type c13PostProc struct {
	fail  bool
	calls int
	res   []ocr2keepers.CheckResult
	ps    []ocr2keepers.UpkeepPayload
}

func (p *c13PostProc) PostProcess(_ context.Context, res []ocr2keepers.CheckResult, ps []ocr2keepers.UpkeepPayload) error {
	p.calls++
	p.res, p.ps = res, ps
	if p.fail {
		return errC13Post
	}
	return nil
}

// c13RunnerWrap stands between the observer and the real runner: it notes what the runner is asked
type c13RunnerWrap struct {
	do func(context.Context, []ocr2keepers.UpkeepPayload) ([]ocr2keepers.CheckResult, error)
}

func (w *c13RunnerWrap) CheckUpkeeps(ctx context.Context, ps ...ocr2keepers.UpkeepPayload) ([]ocr2keepers.CheckResult, error) {
	return w.do(ctx, ps)
}

func c13BarePayloads(ps []ocr2keepers.UpkeepPayload) []c13Payload {
	out := make([]c13Payload, len(ps))
	for i, p := range ps {
		out[i] = toC13Payload(p)
		out[i].CD = ""
	}
	return out
}

// c13Run executes one history on a fresh real runner inside the current bubble.
func c13Run(t *testing.T, in c13Input) c13Impl {
	s := &c13Scn{t0: time.Now(), clean: in.Clean, claimed: map[int64]bool{}, lastOK: map[int]int64{}, callers: map[int]int{}, instant: in.Instant || in.Racy}
	r, err := runner.NewRunner(quietLogger, s, runner.RunnerConfig{
		Workers: in.Workers, WorkerQueueLength: 100,
		CacheExpire: time.Duration(in.Expire), CacheClean: time.Duration(in.Clean),
	})
	if err != nil {
		return c13Impl{Problem: "NewRunner: " + err.Error()}
	}
	nowNs := func() int64 { return time.Since(s.t0).Nanoseconds() }
	// life-cycle calls, in the order they are made
	type startRec struct {
		idx    int
		done   chan struct{}
		err    error
		atOnce bool
	}
	var lifeMu sync.Mutex
	var life []c13LifeOut
	var starts []*startRec
	doClose := func() error {
		err := r.Close()
		out := 0
		if err != nil {
			out = 1
		}
		lifeMu.Lock()
		life = append(life, c13LifeOut{Op: "close", At: nowNs(), Out: out})
		lifeMu.Unlock()
		return err
	}
	// doStart calls Start on a goroutine of its own and notes whether it came back at once
	doStart := func(settle func()) *startRec {
		rec := &startRec{done: make(chan struct{})}
		lifeMu.Lock()
		rec.idx = len(life)
		life = append(life, c13LifeOut{Op: "start", At: nowNs()})
		starts = append(starts, rec)
		lifeMu.Unlock()
		go func() { rec.err = r.Start(context.Background()); close(rec.done) }()
		settle()
		select {
		case <-rec.done:
			rec.atOnce = true
		default:
		}
		return rec
	}
	if in.Life != nil && in.Life.PreClose {
		doClose() // never started: must answer an error and leave the runner usable
	}
	first := doStart(synctest.Wait) // the running flag is set, the cleaner's ticker exists (first tick at t0+Clean)
	started := first.done

	byCaller := map[int][]c13Call{}
	var order []int
	for _, c := range in.Calls {
		if _, ok := byCaller[c.Caller]; !ok {
			order = append(order, c.Caller)
		}
		byCaller[c.Caller] = append(byCaller[c.Caller], c)
		s.callers[c.C] = c.Caller
	}
	var wgc sync.WaitGroup
	returned := 0
	for _, k := range order {
		wgc.Add(1)
		go func(k int, calls []c13Call) {
			defer wgc.Done()
			for _, c := range calls {
				if c.Wait > 0 {
					time.Sleep(time.Duration(c.Wait))
				}
				if c.ExpAlign != nil && in.Expire > 0 && in.Expire <= int64(10*time.Second) {
					s.mu.Lock()
					last, ok := s.lastOK[k]
					s.mu.Unlock()
					if ok {
						if d := last + in.Expire + *c.ExpAlign - time.Since(s.t0).Nanoseconds(); d > 0 {
							time.Sleep(time.Duration(d))
						}
					}
				}
				ps := make([]ocr2keepers.UpkeepPayload, len(c.Payloads))
				for i, p := range c.Payloads {
					ps[i] = fromC13Payload(p)
				}
				// claimStart moves the caller to an instant of its own for the look-up loop of the call
				claimStart := func() int64 {
					if in.Racy {
						s.log(c13Ev{T: "s", C: c.C})
						return time.Since(s.t0).Nanoseconds()
					}
					return s.claim(c13Ev{T: "s", C: c.C})
				}
				// check is the call on the real runner, with everything seen of it noted
				check := func(ctx context.Context, startAt int64, ps []ocr2keepers.UpkeepPayload) ([]ocr2keepers.CheckResult, error) {
					vals, err := r.CheckUpkeeps(ctx, ps...)
					ret := c13Ret{C: c.C, Vals: toJCRs(vals), Cancelled: c13CtxDone(ctx), raw: vals, startAt: startAt, returnAt: time.Since(s.t0).Nanoseconds()}
					switch {
					case err == nil:
					case errors.Is(err, runner.ErrTooManyErrors):
						ret.Err = 1
					default:
						ret.Err = 2
					}
					s.mu.Lock()
					s.rets = append(s.rets, ret)
					returned++
					s.mu.Unlock()
					return vals, err
				}
				if c.Obs == nil {
					startAt := claimStart()
					ctx, cancel := context.Background(), context.CancelFunc(func() {})
					switch {
					case c.Timeout > 0:
						ctx, cancel = context.WithTimeout(ctx, time.Duration(c.Timeout))
					case c.Timeout < 0:
						ctx, cancel = context.WithCancel(ctx)
						cancel()
					}
					check(ctx, startAt, ps)
					cancel()
					continue
				}
				// through an observer: tick -> pre-processors -> runner -> post-processor
				pr := c13Proc{C: c.C}
				var pres []ocr2keepersv3.PreProcessor[ocr2keepers.UpkeepPayload]
				for _, p := range c.Obs.Pres {
					pres = append(pres, &c13PreProc{kind: p.Kind, fails: p.Fails, calls: &pr.PreCalls})
				}
				post := &c13PostProc{fail: c.Obs.PostFails}
				rw := &c13RunnerWrap{do: func(ctx context.Context, asked []ocr2keepers.UpkeepPayload) ([]ocr2keepers.CheckResult, error) {
					pr.AskedN++
					pr.Asked, pr.AskedPs = true, c13BarePayloads(asked)
					return check(ctx, claimStart(), asked)
				}}
				limit := time.Hour
				parent, cancel := context.Background(), context.CancelFunc(func() {})
				switch {
				case c.Timeout > 0:
					limit = time.Duration(c.Timeout)
				case c.Timeout < 0:
					parent, cancel = context.WithCancel(parent)
					cancel()
				}
				var ob *ocr2keepersv3.Observer[ocr2keepers.UpkeepPayload]
				if c.Obs.Generic {
					ob = ocr2keepersv3.NewGenericObserver[ocr2keepers.UpkeepPayload](pres, post, rw.CheckUpkeeps, limit, quietLogger)
				} else {
					ob = ocr2keepersv3.NewRunnableObserver(pres, post, rw, limit, quietLogger)
				}
				perr := ob.Process(parent, c13Tick{ps: ps, fail: c.Obs.TickFails})
				cancel()
				switch {
				case perr == nil:
				case errors.Is(perr, errC13Tick):
					pr.Code = 1
				case errors.Is(perr, errC13Pre):
					pr.Code = 2
				case errors.Is(perr, runner.ErrTooManyErrors):
					pr.Code = 3
				case errors.Is(perr, errC13Post):
					pr.Code = 4
				default:
					pr.Code = 5
				}
				pr.PostCalls = post.calls
				if post.calls > 0 {
					pr.PostRes, pr.PostPs = toJCRs(post.res), c13BarePayloads(post.ps)
				}
				s.mu.Lock()
				s.procs = append(s.procs, pr)
				s.mu.Unlock()
			}
		}(k, byCaller[k])
	}
	// further Start calls while the runner is running
	closedCh := make(chan struct{})
	if in.Life != nil {
		for _, at := range in.Life.Starts {
			wgc.Add(1)
			go func(at int64) {
				defer wgc.Done()
				if d := at - nowNs(); d > 0 {
					time.Sleep(time.Duration(d))
				}
				doStart(func() { time.Sleep(time.Nanosecond) })
			}(at)
		}
		if in.CloseAt > 0 {
			for _, after := range in.Life.Closes {
				wgc.Add(1)
				go func(after int64) {
					defer wgc.Done()
					<-closedCh
					time.Sleep(time.Duration(after))
					doClose()
				}(after)
			}
		}
	}
	done := make(chan struct{})
	go func() { wgc.Wait(); close(done) }()
	// virtual time runs while this goroutine is blocked; if the callers can never finish the
	// bubble would dead-lock, so bound the wait in virtual time
	problem := ""
	closedAt := int64(0)
	if in.CloseAt > 0 {
		// the node shuts the runner down while calls may be in flight
		if d := in.CloseAt - time.Since(s.t0).Nanoseconds(); d > 0 {
			time.Sleep(time.Duration(d))
		}
		closedAt = s.claim(c13Ev{})
		if err := doClose(); err != nil {
			problem += " Close: " + err.Error()
		}
		close(closedCh)
	}
	select {
	case <-done:
	case <-time.After(24 * time.Hour):
		problem += " a CheckUpkeeps call did not return within 24 virtual hours"
	}
	// what the callers still hold, after everything else that happened on the runner
	s.mu.Lock()
	for i := range s.rets {
		if closedAt > 0 && s.rets[i].returnAt > closedAt {
			s.rets[i].Stopped = 1
			if s.rets[i].startAt > closedAt {
				s.rets[i].Stopped = 2
			}
		}
		held := toJCRs(s.rets[i].raw)
		if reflect.DeepEqual(held, s.rets[i].Vals) {
			s.rets[i].HeldSame = true
		} else {
			s.rets[i].Held = held
		}
	}
	s.mu.Unlock()
	if closedAt == 0 {
		if err := doClose(); err != nil {
			problem += " Close: " + err.Error()
		}
	}
	if in.Life != nil && in.Life.Final {
		doClose() // the runner is closed: must answer an error
	}
	select {
	case <-started:
	case <-time.After(time.Hour):
		problem += " Start did not return after Close"
	}
	synctest.Wait()
	lifeMu.Lock()
	for _, rec := range starts {
		returned := false
		select {
		case <-rec.done:
			returned = true
		default:
		}
		switch {
		case returned && rec.err != nil && rec.atOnce:
			life[rec.idx].Out = 1
		case returned && rec.err == nil && rec.atOnce:
			life[rec.idx].Out = 2
		case returned && rec.err == nil:
			life[rec.idx].Out = 0
		case !returned:
			life[rec.idx].Out = 3
		default:
			life[rec.idx].Out = 4 // an error, but only after it had taken the runner over
		}
	}
	lifeOut := append([]c13LifeOut(nil), life...)
	lifeMu.Unlock()
	s.mu.Lock()
	defer s.mu.Unlock()
	sort.SliceStable(s.rets, func(i, j int) bool { return s.rets[i].C < s.rets[j].C })
	sort.SliceStable(s.procs, func(i, j int) bool { return s.procs[i].C < s.procs[j].C })
	for i := range s.events {
		ev := &s.events[i]
		for _, p := range ev.rawBatch {
			jp := toC13Payload(p)
			jp.CD = ""
			ev.Batch = append(ev.Batch, jp)
		}
		if ev.OK {
			ev.Res = toJCRs(ev.rawRes)
		}
	}
	return c13Impl{Events: s.events, Rets: s.rets, Procs: s.procs, Life: lifeOut, Problem: problem}
}

// ---------------------------------------------------------------- generator

type c13World struct {
	r      *Rng
	uids   []ocr2keepers.UpkeepIdentifier
	blocks []ocr2keepers.BlockKey // several hashes per number: forks
}

func c13NewWorld(r *Rng, pool int) *c13World {
	w := &c13World{r: r}
	for i := 0; i < pool; i++ {
		if r.Chance(4) {
			w.uids = append(w.uids, genUpkeepIDOther(r)) // neither a conditional nor a log upkeep
		} else {
			w.uids = append(w.uids, genUpkeepID(r, r.Chance(30)))
		}
	}
	nb := r.Range(1, 4)
	base := uint64(r.Range(100, 1_000_000))
	if r.Chance(25) { // check block numbers at and across the widths a number may pass through
		edges := []uint64{1 << 31, 1 << 32, 1 << 53, 1 << 63, ^uint64(0) - uint64(nb)}
		base = edges[r.Intn(len(edges))]
		if base != ^uint64(0)-uint64(nb) && r.Chance(50) {
			base -= uint64(r.Range(1, nb))
		}
	}
	for b := 0; b < nb; b++ {
		forks := 1
		if r.Chance(50) {
			forks = r.Range(2, 3)
		}
		for f := 0; f < forks; f++ {
			w.blocks = append(w.blocks, ocr2keepers.BlockKey{Number: ocr2keepers.BlockNumber(base + uint64(b)), Hash: genHash(r)})
		}
	}
	return w
}

func (w *c13World) payload(ui, bi int) ocr2keepers.UpkeepPayload {
	uid := w.uids[ui%len(w.uids)]
	bk := w.blocks[bi%len(w.blocks)]
	trig := ocr2keepers.Trigger{BlockNumber: bk.Number, BlockHash: bk.Hash}
	if utg(uid) == 1 {
		// the log a log-trigger upkeep reacts to is fixed per upkeep here; only the check block varies
		var tx [32]byte
		copy(tx[:], uid[16:])
		trig.LogTriggerExtension = &ocr2keepers.LogTriggerExtension{TxHash: tx, Index: uint32(ui % 3), BlockHash: w.blocks[0].Hash, BlockNumber: w.blocks[0].Number - 1}
	}
	return ocr2keepers.UpkeepPayload{UpkeepID: uid, Trigger: trig, WorkID: wg(uid, trig)}
}

var c13Lats = []uint64{1, 1, 1000, 1_000_000, 3_000_000, 10_000_000, 137_000_000, 1_000_000_000}

func c13Size(r *Rng, big bool) int {
	if big {
		return []int{999, 1000, 1000, 500}[r.Intn(4)]
	}
	switch r.Intn(20) {
	case 0:
		return 0
	case 1:
		return 1
	case 2, 3, 4:
		return r.Range(9, 11)
	case 5, 6:
		return r.Range(19, 21)
	case 7:
		return r.Range(29, 31)
	case 8, 9:
		return r.Range(100, 300)
	default:
		return r.Range(2, 60)
	}
}

func c13Gen(r *Rng, big bool, em *Emitter) c13Input {
	var in c13Input
	switch r.Intn(10) {
	case 0, 1:
		in.Expire = 0
	case 2, 3, 4:
		in.Expire = int64(20 * time.Minute)
	default:
		in.Expire = int64(r.Range(1, 500)) * int64(time.Millisecond)
		if r.Chance(30) {
			in.Expire = int64(r.Range(1, 2000)) // a few ns: expires between the batches of one call
		}
		if r.Chance(10) {
			in.Expire = []int64{1, int64(time.Hour), 100 * 365 * 24 * int64(time.Hour)}[r.Intn(3)] // 1 ns, an hour, a century
		}
	}
	in.Clean = int64(30 * time.Second)
	if r.Chance(30) {
		in.Clean = int64(r.Range(1, 1000)) * int64(time.Millisecond)
	}
	in.Workers = r.Range(1, 8)
	if r.Chance(15) {
		in.Workers = 64
	}
	callers := 1
	if !big && r.Chance(60) {
		callers = r.Range(2, 8)
	}
	adversarial := r.Chance(10)
	stubborn := r.Chance(25) // some pipeline calls do not react to their context any more
	failMode := r.Intn(10)   // per history; refined per call below
	n0 := c13Size(r, big)
	pool := 1 + n0/r.Range(1, 3)
	if r.Chance(30) {
		pool = n0 + 5
	}
	w := c13NewWorld(r, pool)
	var prev []ocr2keepers.UpkeepPayload // payloads of earlier calls in this history
	cid := 0
	for k := 0; k < callers; k++ {
		ncalls := r.Range(2, 4)
		if r.Chance(15) || big {
			ncalls = r.Range(1, 2)
		}
		for j := 0; j < ncalls; j++ {
			call := c13Call{C: cid, Caller: k, Wait: int64(c13Lats[r.Intn(len(c13Lats))]) + int64(r.Intn(1000))}
			if j > 0 && r.Chance(35) {
				d := int64(r.Range(-1, 1))
				call.ExpAlign = &d
			}
			// caller's context: mostly alive for ever; otherwise a deadline placed among the pipeline
			// latencies (some batches answered before it, the others give up at it), or already done
			switch x := r.Intn(100); {
			case x < 22:
				call.Timeout = int64(c13Lats[r.Range(1, len(c13Lats)-1)]) + int64(r.Range(-2, 1500))
				em.Hit("ctx=deadline")
			case x < 25:
				call.Timeout = -1
				em.Hit("ctx=cancelled-before-call")
			default:
				em.Hit("ctx=alive")
			}
			n := n0
			if j > 0 || k > 0 {
				if r.Chance(50) {
					n = c13Size(r, false)
				}
			}
			// failure pattern of this call: none / some / all
			fm := failMode
			if r.Chance(30) {
				fm = r.Intn(10)
			}
			var pPoison int // per mille
			switch {
			case fm < 4:
				pPoison = 0
				em.Hit("call-fail=none")
			case fm < 8:
				pPoison = []int{10, 30, 100, 300}[r.Intn(4)]
				em.Hit("call-fail=some")
			default:
				pPoison = 1000
				em.Hit("call-fail=all")
			}
			for i := 0; i < n; i++ {
				var p ocr2keepers.UpkeepPayload
				switch {
				case len(prev) > 0 && r.Chance(45): // asked before: same unit of work
					p = prev[r.Intn(len(prev))]
				case len(prev) > 0 && r.Chance(30): // same upkeep on another block / fork
					q := prev[r.Intn(len(prev))]
					bk := w.blocks[r.Intn(len(w.blocks))]
					p = q
					p.Trigger.BlockNumber, p.Trigger.BlockHash = bk.Number, bk.Hash
					p.WorkID = wg(p.UpkeepID, p.Trigger)
				default:
					p = w.payload(r.Intn(len(w.uids)), r.Intn(len(w.blocks)))
				}
				a := c13Attr{CID: uint16(cid), Lat: c13Lats[r.Intn(len(c13Lats))], Misc: uint8(r.Intn(4))}
				if r.Chance(70) {
					a.Lat = c13Lats[r.Intn(3)] // mostly fast: many batches complete close together
				}
				a.Poison = r.Intn(1000) < pPoison
				if r.Chance(10) {
					a.PES = uint8(r.Range(1, 9))
					if r.Chance(50) {
						a.Misc |= 8 // failed execution that proposes a retry interval
					}
				}
				if r.Chance(5) { // legal but unusual flag combinations: retry interval / reason on any result
					a.Misc |= uint8(8 << r.Intn(2))
				}
				if stubborn && r.Chance(30) {
					a.Misc |= 4
				}
				if adversarial && r.Chance(8) {
					a.Mut = uint8(r.Range(1, 4))
				}
				if r.Chance(2) {
					a.Mut = 5 // same unit of work, other trigger shape than the payload (and than earlier results)
				}
				p.CheckData = a.encode()
				call.Payloads = append(call.Payloads, toC13Payload(p))
				prev = append(prev, p)
			}
			in.Calls = append(in.Calls, call)
			cid++
		}
	}
	// now and then the node closes the runner while the history is under way
	if !big && r.Chance(12) {
		in.CloseAt = 1000 + int64(c13Lats[r.Range(2, len(c13Lats)-1)]) + int64(r.Range(0, 3_000_000))
		em.Hit("runner-closed-during-history")
	}
	if stubborn {
		em.Hit("pipeline-ignores-context")
	}
	// callers run concurrently: interleave the call list deterministically (order within a caller kept)
	sort.SliceStable(in.Calls, func(i, j int) bool { return in.Calls[i].Caller < in.Calls[j].Caller })
	em.Hit(fmt.Sprintf("callers=%d", callers))
	em.Hit(fmt.Sprintf("n0=%d", c13Bucket(n0)))
	if adversarial {
		em.Hit("adversarial-pipeline")
	}
	if in.Expire == 0 {
		em.Hit("expire=never")
	} else if in.Expire < 1_000_000 {
		em.Hit("expire=ns")
	} else if in.Expire < int64(time.Minute) {
		em.Hit("expire=ms")
	} else {
		em.Hit("expire=20m")
	}
	return in
}

// c13Decorate (a generator stream of its own, so that the histories of c13Gen stay what they were): some calls of a
// history are made through an Observer (pre-processors that filter or fail, a tick or post-processor that fails,
// either constructor), and some histories get further life-cycle calls (Close before Start, Start while running,
// Close after Close).
func c13Decorate(r *Rng, in *c13Input, em *Emitter) {
	if r.Chance(35) {
		n := 0
		for i := range in.Calls {
			c := &in.Calls[i]
			if len(c.Payloads) > 150 || !r.Chance(50) {
				continue
			}
			o := &c13Obs{Generic: r.Chance(50), Pres: []c13Pre{}}
			for k, np := 0, r.Intn(4); k < np; k++ {
				pre := c13Pre{Kind: r.Intn(6), Fails: r.Chance(10)}
				if pre.Kind == 5 && !r.Chance(25) {
					pre.Kind = 0
				}
				o.Pres = append(o.Pres, pre)
			}
			o.TickFails = r.Chance(4)
			o.PostFails = r.Chance(12)
			c.Obs = o
			n++
		}
		if n > 0 {
			em.Hit("history-with-observer-calls")
		}
	}
	if r.Chance(25) {
		l := &c13LifeIn{PreClose: r.Chance(40), Final: r.Chance(60)}
		hi := 5_000_000
		if in.CloseAt > 0 {
			hi = int(in.CloseAt) - 500 // CloseAt >= 2000: the further Starts all find the runner running
		}
		for k, ns := 0, r.Range(0, 3); k < ns; k++ {
			at := r.Range(1, hi)
			if r.Chance(50) {
				at = r.Range(1, 1500)
			}
			l.Starts = append(l.Starts, int64(at))
		}
		if in.CloseAt > 0 {
			for k, nc := 0, r.Range(0, 2); k < nc; k++ {
				l.Closes = append(l.Closes, int64(r.Range(1000, 3_000_000)))
			}
		}
		in.Life = l
		em.Hit("history-with-further-life-cycle-calls")
	}
}

func c13Bucket(n int) int {
	switch {
	case n <= 1:
		return n
	case n < 9:
		return 2
	case n <= 11:
		return 10
	case n <= 21:
		return 20
	case n < 100:
		return 50
	case n < 500:
		return 100
	}
	return 1000
}

// c13GenInstant: one caller, big calls, a pipeline that answers at once, many workers: the batches
// of a call complete concurrently (real concurrency inside the bubble, no virtual time passes), so
// several results are handed to the aggregating goroutine at a time while others are still being
// produced.  Work ids are unique within a call, which makes the cache a call leaves behind
// independent of the order in which its batches are aggregated (the model is given the order in
// which the pipeline answered; the aggregation order may differ).
func c13GenInstant(r *Rng, em *Emitter) c13Input {
	in := c13Input{Instant: true, Clean: int64(30 * time.Second), Workers: []int{2, 4, 8, 16, 16, 32}[r.Intn(6)]}
	switch r.Intn(3) {
	case 0:
		in.Expire = 0
	case 1:
		in.Expire = int64(20 * time.Minute)
	default:
		in.Expire = int64(r.Range(1, 500)) * int64(time.Millisecond)
	}
	var n0 int
	switch x := r.Intn(20); {
	case x < 4:
		n0 = r.Range(21, 60)
	case x < 16:
		n0 = r.Range(100, 450)
	case x < 19:
		n0 = r.Range(451, 999)
	default:
		n0 = 1000
	}
	w := c13NewWorld(r, n0+r.Range(0, n0/2+1))
	ncalls := r.Range(1, 3)
	pPoison := []int{0, 0, 0, 5, 30}[r.Intn(5)]
	for j := 0; j < ncalls; j++ {
		call := c13Call{C: j, Caller: 0, Wait: int64(c13Lats[r.Intn(len(c13Lats))]) + int64(r.Intn(1000))}
		n := n0
		if j > 0 && r.Chance(50) {
			n = r.Range(21, n0)
		}
		for _, ui := range r.Perm(len(w.uids))[:n] {
			p := w.payload(ui, r.Intn(len(w.blocks)))
			a := c13Attr{CID: uint16(j), Lat: 1, Misc: uint8(r.Intn(4))}
			a.Poison = r.Intn(1000) < pPoison
			if r.Chance(10) {
				a.PES = uint8(r.Range(1, 9))
			}
			p.CheckData = a.encode()
			call.Payloads = append(call.Payloads, toC13Payload(p))
		}
		in.Calls = append(in.Calls, call)
	}
	em.Hit("instant-pipeline")
	em.Hit(fmt.Sprintf("instant-n0=%d", c13Bucket(n0)))
	em.Hit(fmt.Sprintf("instant-workers=%d", in.Workers))
	return in
}

// c13GenLong: one call stays in the pipeline (virtual seconds) while more than a thousand short
// calls of other callers start and complete on the same runner; afterwards the long call's batches
// are answered.  Every call must return exactly its own results, however many calls it overlapped.
func c13GenLong(r *Rng, nShort int, em *Emitter) c13Input {
	in := c13Input{Expire: int64(20 * time.Minute), Clean: int64(30 * time.Second), Workers: r.Range(2, 8)}
	if r.Chance(30) {
		in.Expire = 0
	}
	shortCallers := r.Range(1, 3)
	w := c13NewWorld(r, 3*nShort+64)
	next := 0
	fresh := func() int { next++; return next - 1 }
	cid := 0
	mk := func(caller int, wait int64, n int, lat uint64, reuse bool) c13Call {
		call := c13Call{C: cid, Caller: caller, Wait: wait}
		for i := 0; i < n; i++ {
			ui := fresh()
			if reuse && next > 8 && r.Chance(10) {
				ui = r.Intn(next) // asked before: usually served from the cache
			}
			p := w.payload(ui, r.Intn(len(w.blocks)))
			a := c13Attr{CID: uint16(cid), Lat: lat, Misc: uint8(r.Intn(4))}
			if r.Chance(3) {
				a.Poison = true
			}
			p.CheckData = a.encode()
			call.Payloads = append(call.Payloads, toC13Payload(p))
		}
		cid++
		return call
	}
	// the long call(s): first of caller 0, started before every short call
	nLong := r.Range(1, 25)
	in.Workers = (nLong+9)/10 + r.Range(1, 4) // the long call's batches never occupy every worker
	in.Calls = append(in.Calls, mk(0, 1000, nLong, uint64(r.Range(1, 5))*uint64(time.Second), false))
	if r.Chance(50) { // afterwards the same caller asks again
		in.Calls = append(in.Calls, mk(0, 1000, r.Range(1, 12), 1000, true))
	}
	per := nShort/shortCallers + 1
	for k := 1; k <= shortCallers; k++ {
		for j := 0; j < per; j++ {
			wait := int64(r.Range(1, 50))
			if j == 0 {
				wait = int64(2000 + 100*k)
			}
			in.Calls = append(in.Calls, mk(k, wait, r.Range(1, 3), c13Lats[r.Intn(3)], true))
		}
	}
	em.Hit("long-call-history")
	em.Hit(fmt.Sprintf("long-call-short-calls=%d", nShort/100*100))
	return in
}

// c13GenRacy: look-up loops racing with aggregations.  Caller 0 checks n work ids on block N (all
// cached afterwards), then keeps re-checking them on block N; at the very same virtual instant caller
// 1 checks the same work ids on block N+1, so its aggregation replaces the cached entries one by
// one while caller 0's look-up loop walks over them.  Instant pipeline, no instants of their own:
// true concurrency inside the bubble.  Only caller 0 ever asks for block N and only caller 1 for
// N+1, and the first call is over before the race starts, so every cache hit is a result of a
// pipeline call that had completed before the hitting call started (which the predicate requires).
func c13GenRacy(r *Rng, em *Emitter) c13Input {
	in := c13Input{Racy: true, Clean: int64(30 * time.Second), Workers: []int{4, 8, 16, 16}[r.Intn(4)], Expire: int64(20 * time.Minute)}
	if r.Chance(30) {
		in.Expire = 0
	}
	n := []int{60, 100, 200, 200, 400}[r.Intn(5)]
	w := c13NewWorld(r, n)
	bn := uint64(w.blocks[0].Number)
	w.blocks = []ocr2keepers.BlockKey{{Number: ocr2keepers.BlockNumber(bn), Hash: genHash(r)}, {Number: ocr2keepers.BlockNumber(bn + 1), Hash: genHash(r)}}
	cid := 0
	mk := func(caller int, wait int64, bi int) c13Call {
		call := c13Call{C: cid, Caller: caller, Wait: wait}
		for ui := 0; ui < n; ui++ {
			p := w.payload(ui, bi)
			a := c13Attr{CID: uint16(cid), Lat: 1, Misc: 2}
			p.CheckData = a.encode()
			call.Payloads = append(call.Payloads, toC13Payload(p))
		}
		cid++
		return call
	}
	t1 := int64(1_000_137)
	in.Calls = append(in.Calls, mk(0, 1000, 0)) // block N: cached when it returns (same instant)
	readers := r.Range(2, 6)                    // callers 0 … readers-1 re-check block N, all starting at t1, back to back
	for k := 0; k < readers; k++ {
		for j, nj := 0, r.Range(1, 3); j < nj; j++ {
			wait := int64(0)
			if j == 0 {
				wait = t1
				if k == 0 {
					wait = t1 - 1000
				}
			}
			in.Calls = append(in.Calls, mk(k, wait, 0))
		}
	}
	in.Calls = append(in.Calls, mk(readers, t1, 1))        // block N+1, also at t1
	in.Calls = append(in.Calls, mk(readers, 1_000_000, 1)) // later: everything on N+1 is cached
	em.Hit("racy-lookups-vs-aggregation")
	em.Hit(fmt.Sprintf("racy-readers=%d", readers))
	return in
}

// ---------------------------------------------------------------- hand-written edge cases

func c13Edge() []c13Input {
	r := NewRng(131313)
	w := c13NewWorld(r, 1200)
	// blocks: force a known layout  b0: (n,h0)  b1: (n,h1) fork of the same number  b2: (n+1,h2)
	w.blocks = []ocr2keepers.BlockKey{{Number: 500, Hash: genHash(r)}, {Number: 500, Hash: genHash(r)}, {Number: 501, Hash: genHash(r)}}
	cid := 0
	type pp struct {
		ui, bi int
		a      c13Attr
	}
	call := func(caller int, wait int64, align *int64, ps ...pp) c13Call {
		c := c13Call{C: cid, Caller: caller, Wait: wait, ExpAlign: align}
		for _, x := range ps {
			p := w.payload(x.ui, x.bi)
			a := x.a
			a.CID = uint16(cid)
			if a.Lat == 0 {
				a.Lat = 1_000_000
			}
			a.Misc |= 2
			p.CheckData = a.encode()
			c.Payloads = append(c.Payloads, toC13Payload(p))
		}
		cid++
		return c
	}
	many := func(from, n, bi int, a c13Attr) []pp {
		out := make([]pp, n)
		for i := range out {
			out[i] = pp{from + i, bi, a}
		}
		return out
	}
	hist := func(expire int64, workers int, calls ...c13Call) c13Input {
		cid = 0
		return c13Input{Expire: expire, Clean: int64(30 * time.Second), Workers: workers, Calls: calls}
	}
	ok, bad, pes := c13Attr{}, c13Attr{Poison: true}, c13Attr{PES: 3}
	m1, z, p1 := int64(-1), int64(0), int64(1)
	min20 := int64(20 * time.Minute)
	var out []c13Input
	// no payloads at all
	out = append(out, hist(min20, 2, call(0, 1000, nil)))
	// same unit of work twice: second call served from the cache
	out = append(out, hist(min20, 2, call(0, 1000, nil, pp{0, 0, ok}), call(0, 1000, nil, pp{0, 0, ok})))
	// fork: same work id, same number, other hash -> checked afresh; the first fork stays cached (block not higher)
	out = append(out, hist(min20, 2, call(0, 1000, nil, pp{0, 0, ok}), call(0, 1000, nil, pp{0, 1, ok}), call(0, 1000, nil, pp{0, 0, ok}), call(0, 1000, nil, pp{0, 1, ok})))
	// higher block replaces, lower block never cached
	out = append(out, hist(min20, 2, call(0, 1000, nil, pp{0, 2, ok}), call(0, 1000, nil, pp{0, 0, ok}), call(0, 1000, nil, pp{0, 2, ok}, pp{0, 0, ok})))
	// forks of one work id inside one call, then each asked again
	out = append(out, hist(min20, 2, call(0, 1000, nil, pp{0, 0, ok}, pp{0, 1, ok}, pp{0, 2, ok}, pp{0, 0, ok}), call(0, 1000, nil, pp{0, 0, ok}, pp{0, 1, ok}, pp{0, 2, ok})))
	// pipeline execution state != 0 is never cached
	out = append(out, hist(min20, 2, call(0, 1000, nil, pp{0, 0, pes}, pp{1, 0, ok}), call(0, 1000, nil, pp{0, 0, ok}, pp{1, 0, ok})))
	// every batch fails while some payloads are cached: error, the cached results are not returned either
	out = append(out, hist(min20, 2, call(0, 1000, nil, many(0, 5, 0, ok)...), call(0, 1000, nil, append(many(0, 5, 0, ok), many(5, 12, 0, bad)...)...)))
	// one of three batches fails
	out = append(out, hist(min20, 3, call(0, 1000, nil, append(append(many(0, 10, 0, ok), pp{10, 0, bad}), many(11, 14, 0, ok)...)...)))
	// batch boundaries 9 / 10 / 11 / 20 / 21
	for _, n := range []int{9, 10, 11, 20, 21} {
		out = append(out, hist(min20, 4, call(0, 1000, nil, many(0, n, 0, ok)...), call(0, 1000, nil, many(0, n+1, 0, ok)...)))
	}
	// TTL boundary: the look-up happens 1 ns before / exactly at / 1 ns after the entry's expiry
	for _, d := range []*int64{&m1, &z, &p1} {
		out = append(out, hist(int64(50*time.Millisecond), 2, call(0, 1000, nil, pp{0, 0, ok}), call(0, 1000, d, pp{0, 0, ok})))
	}
	// never expires
	out = append(out, hist(0, 2, call(0, 1000, nil, pp{0, 0, ok}), call(0, int64(time.Hour), nil, pp{0, 0, ok})))
	// all failed, no cache
	out = append(out, hist(min20, 2, call(0, 1000, nil, many(0, 25, 0, bad)...)))
	// two callers, same payloads, second starts while the first is still being checked
	out = append(out, hist(min20, 2,
		call(0, 1000, nil, many(0, 30, 0, c13Attr{Lat: 10_000_000})...),
		call(1, 5_000_000, nil, many(0, 30, 0, c13Attr{Lat: 10_000_000})...),
		call(1, 50_000_000, nil, many(0, 30, 0, ok)...)))
	// 1000 payloads, one worker; then again (all cached), then on the fork
	out = append(out, hist(min20, 1, call(0, 1000, nil, many(0, 1000, 0, c13Attr{Lat: 1})...), call(0, 1000, nil, many(0, 1000, 0, ok)...), call(0, 1000, nil, many(0, 1000, 1, c13Attr{Lat: 1})...)))
	// caller's context: deadline between the first batch and the other two -> they give up; 10 results, no error
	slow, fast := c13Attr{Lat: 100_000_000}, c13Attr{Lat: 1_000_000}
	ctxCall := func(timeout int64, ps ...pp) c13Call {
		c := call(0, 1000, nil, ps...)
		c.Timeout = timeout
		return c
	}
	out = append(out, hist(min20, 4, ctxCall(50_000_000, append(many(0, 10, 0, fast), many(10, 15, 0, slow)...)...)))
	// ... with one worker: the later batches are still queued at the deadline and fail as soon as they are started
	out = append(out, hist(min20, 1, ctxCall(50_000_000, append(many(0, 10, 0, fast), many(10, 15, 0, slow)...)...)))
	// deadline before any answer: every batch fails -> error; then the same payloads with a live context
	out = append(out, hist(min20, 4, ctxCall(500_000, many(0, 25, 0, fast)...), call(0, 1000, nil, many(0, 25, 0, fast)...)))
	// deadline after the last answer: nothing special
	out = append(out, hist(min20, 4, ctxCall(int64(time.Second), many(0, 25, 0, fast)...)))
	// deadline exactly at / 1 ns around the instant the only batch answers (1000 ns start + 1 ms latency)
	for _, d := range []int64{999_999, 1_000_000, 1_000_001} {
		out = append(out, hist(min20, 2, ctxCall(d, many(0, 5, 0, fast)...)))
	}
	// context already cancelled: nothing is submitted; cached results are still returned, no error
	out = append(out, hist(min20, 2, call(0, 1000, nil, many(0, 5, 0, ok)...), ctxCall(-1, many(0, 30, 0, ok)...), ctxCall(-1, many(40, 12, 0, ok)...)))
	// instant pipeline, 16 workers, 400 and 1000 distinct payloads: batches complete concurrently
	for _, n := range []int{400, 1000} {
		in := hist(min20, 16, call(0, 1000, nil, many(0, n, 0, c13Attr{Lat: 1})...), call(0, 1000, nil, many(0, n, 1, c13Attr{Lat: 1})...))
		in.Instant = true
		out = append(out, in)
	}
	// Runner.Close() while batches are inside a pipeline that still answers: batch 1 answered before, batches 2 and 3
	// in flight at the close and answered successfully afterwards -> 25 results, no error
	deaf := c13Attr{Lat: 100_000_000, Misc: 4}
	closing := func(at int64, in c13Input) c13Input { in.CloseAt = at; return in }
	out = append(out, closing(50_000_000, hist(min20, 4, call(0, 1000, nil, append(many(0, 10, 0, fast), many(10, 15, 0, deaf)...)...))))
	// ... one worker: batch 2 in flight (answers), batch 3 still queued (fails without reaching the pipeline) -> 20 results
	out = append(out, closing(50_000_000, hist(min20, 1, call(0, 1000, nil, append(many(0, 10, 0, fast), many(10, 15, 0, deaf)...)...))))
	// ... the only batch is in flight and answers -> 7 results, no error; a later call on the closed runner gets only cache hits
	out = append(out, closing(50_000_000, hist(min20, 2, call(0, 1000, nil, many(0, 7, 0, deaf)...), call(0, 1000, nil, many(0, 12, 0, ok)...))))
	// ... a pipeline that does react to the cancelled context: the in-flight batches fail
	out = append(out, closing(50_000_000, hist(min20, 4, call(0, 1000, nil, append(many(0, 10, 0, fast), many(10, 15, 0, slow)...)...))))
	out = append(out, closing(50_000_000, hist(min20, 4, call(0, 1000, nil, many(0, 15, 0, slow)...))))
	// failed executions that propose a retry interval (state != 0, retryable, RetryInterval 5 s), a plain retryable failure and
	// a final failure: none of them may be answered from the cache when the identical payloads are checked again at once
	ri := func(pes, misc uint8) c13Attr { return c13Attr{PES: pes, Misc: misc} }
	out = append(out, hist(min20, 2,
		call(0, 1000, nil, pp{0, 0, ok}, pp{1, 0, ri(3, 1)}, pp{2, 0, ri(5, 0)}, pp{3, 0, ri(4, 1|8)}, pp{4, 0, ri(4, 1|8)}, pp{5, 2, ri(4, 1|8)}),
		call(0, 1000, nil, pp{0, 0, ok}, pp{1, 0, ok}, pp{2, 0, ok}, pp{3, 0, ok}, pp{4, 0, ok}, pp{5, 2, ok}, pp{5, 0, ok})))
	// a success is cached, then the same work id fails with a retry interval on a higher block, then both blocks again
	out = append(out, hist(min20, 2, call(0, 1000, nil, pp{0, 0, ok}), call(0, 1000, nil, pp{0, 2, ri(4, 1|8)}), call(0, 1000, nil, pp{0, 0, ok}, pp{0, 2, ok})))
	// one work id, results of changing trigger shape: cached without a log extension, then checked on the other fork of the
	// same block number with one (and the reverse order for a log upkeep)
	flip := c13Attr{Mut: 5}
	out = append(out, hist(min20, 2, call(0, 1000, nil, pp{0, 0, ok}, pp{1, 0, flip}), call(0, 1000, nil, pp{0, 1, flip}, pp{1, 1, ok}), call(0, 1000, nil, pp{0, 0, ok}, pp{1, 0, ok})))
	out = append(out, hist(min20, 2, call(0, 1000, nil, pp{0, 0, flip}, pp{1, 0, ok}), call(0, 1000, nil, pp{0, 1, ok}, pp{1, 1, flip}), call(0, 1000, nil, pp{0, 0, ok}, pp{1, 0, ok})))
	// contract broken by the pipeline: dropped / duplicated / foreign / other block
	out = append(out, hist(min20, 2, call(0, 1000, nil, pp{0, 0, c13Attr{Mut: 1}}, pp{1, 0, c13Attr{Mut: 2}}, pp{2, 0, c13Attr{Mut: 3}}, pp{3, 0, c13Attr{Mut: 4}}, pp{4, 0, ok}),
		call(0, 1000, nil, pp{0, 0, ok}, pp{1, 0, ok}, pp{2, 0, ok}, pp{3, 0, ok}, pp{3, 2, ok}, pp{4, 0, ok})))
	// ---- life cycle: Close before the first Start, two more Starts while running (one while a batch is inside the
	// pipeline), Close twice at the end; the calls are served as if nothing had happened
	lifeH := func(l c13LifeIn, in c13Input) c13Input { in.Life = &l; return in }
	out = append(out, lifeH(c13LifeIn{PreClose: true, Starts: []int64{500, 500_000}, Final: true},
		hist(min20, 2, call(0, 1000, nil, many(0, 12, 0, ok)...), call(0, 1000, nil, many(0, 14, 0, ok)...))))
	// ... with the runner closed under way: Start before it, Close again after it, a call on the closed runner
	out = append(out, lifeH(c13LifeIn{Starts: []int64{2000}, Closes: []int64{1000, 2_000_000}, Final: true},
		closing(50_000_000, hist(min20, 2, call(0, 1000, nil, many(0, 7, 0, deaf)...), call(0, 1000, nil, many(0, 12, 0, ok)...)))))
	// ---- zero batches: a call on the closed runner with nothing cached (no result, no error), with part of it cached
	// (the hits), an empty call on the closed runner; and a done context with everything / nothing cached
	out = append(out, closing(5_000_000, hist(min20, 2, call(0, 1000, nil, many(0, 5, 0, ok)...), call(0, 10_000_000, nil, many(20, 12, 0, ok)...),
		call(0, 1000, nil, many(0, 12, 0, ok)...), call(0, 1000, nil), call(0, 1000, nil, many(0, 5, 0, ok)...))))
	out = append(out, hist(min20, 2, call(0, 1000, nil, many(0, 25, 0, ok)...), ctxCall(-1, many(0, 25, 0, ok)...), ctxCall(-1, many(30, 25, 0, ok)...), ctxCall(-1)))
	// ---- calls through an Observer
	obs := func(c c13Call, o c13Obs) c13Call {
		if o.Pres == nil {
			o.Pres = []c13Pre{}
		}
		c.Obs = &o
		return c
	}
	for _, generic := range []bool{false, true} {
		// no pre-processor / filters only: 25 payloads -> positions 0,2,4,… -> reversed -> first dropped = 12 asked
		out = append(out, hist(min20, 2,
			obs(call(0, 1000, nil, many(0, 25, 0, ok)...), c13Obs{Generic: generic}),
			obs(call(0, 1000, nil, many(0, 25, 0, ok)...), c13Obs{Generic: generic, Pres: []c13Pre{{Kind: 1}, {Kind: 3}, {Kind: 4}}}),
			obs(call(0, 1000, nil, many(0, 30, 0, ok)...), c13Obs{Generic: generic, Pres: []c13Pre{{Kind: 2}}})))
		// a pre-processor fails: first of one, second of three (the third is not invoked), the last; then the same payloads unhindered
		out = append(out, hist(min20, 2,
			obs(call(0, 1000, nil, many(0, 12, 0, ok)...), c13Obs{Generic: generic, Pres: []c13Pre{{Kind: 0, Fails: true}}}),
			obs(call(0, 1000, nil, many(0, 12, 0, ok)...), c13Obs{Generic: generic, Pres: []c13Pre{{Kind: 1}, {Kind: 3, Fails: true}, {Kind: 4}}}),
			obs(call(0, 1000, nil, many(0, 12, 0, ok)...), c13Obs{Generic: generic, Pres: []c13Pre{{Kind: 4}, {Kind: 5, Fails: true}}}),
			obs(call(0, 1000, nil, many(0, 12, 0, ok)...), c13Obs{Generic: generic, Pres: []c13Pre{{Kind: 4}}})))
		// the tick fails; the post-processor fails (the results were checked and cached all the same); everything filtered away
		out = append(out, hist(min20, 2,
			obs(call(0, 1000, nil, many(0, 12, 0, ok)...), c13Obs{Generic: generic, TickFails: true, Pres: []c13Pre{{Kind: 0}}}),
			obs(call(0, 1000, nil, many(0, 12, 0, ok)...), c13Obs{Generic: generic, PostFails: true, Pres: []c13Pre{{Kind: 0}}}),
			obs(call(0, 1000, nil, many(0, 12, 0, ok)...), c13Obs{Generic: generic, Pres: []c13Pre{{Kind: 5}}}),
			obs(call(0, 1000, nil), c13Obs{Generic: generic, Pres: []c13Pre{{Kind: 1}}}),
			obs(call(0, 1000, nil, many(0, 12, 0, ok)...), c13Obs{Generic: generic, PostFails: true})))
		// every batch fails: the runner's error ends the process, the post-processor is not called; one of two batches fails
		out = append(out, hist(min20, 2,
			obs(call(0, 1000, nil, many(0, 25, 0, bad)...), c13Obs{Generic: generic, Pres: []c13Pre{{Kind: 3}}}),
			obs(call(0, 1000, nil, append(many(0, 10, 0, ok), many(10, 5, 0, bad)...)...), c13Obs{Generic: generic})))
		// the process limit ends between the first batch and the others; a parent context that is already done
		limited := obs(ctxCall(50_000_000, append(many(0, 10, 0, fast), many(10, 15, 0, slow)...)...), c13Obs{Generic: generic, Pres: []c13Pre{{Kind: 0}}})
		out = append(out, hist(min20, 4, limited, obs(ctxCall(-1, many(0, 20, 0, ok)...), c13Obs{Generic: generic})))
	}
	// through an observer on a runner that is closed under way, and afterwards
	out = append(out, closing(50_000_000, hist(min20, 2,
		obs(call(0, 1000, nil, many(0, 7, 0, deaf)...), c13Obs{Pres: []c13Pre{{Kind: 0}}}),
		obs(call(0, 1000, nil, many(0, 12, 0, ok)...), c13Obs{Generic: true, Pres: []c13Pre{{Kind: 3}}}))))
	return out
}

// ---------------------------------------------------------------- entry point

// TestC13 runs the histories in CHILD processes (the test binary re-executed with VERIF_C13_CHILD=lo:hi):
// code reached through the runner runs on goroutines nobody can put a recover around (the result
// reader of util.RunJobs), so a panic there kills the process.  A child appends one complete line per
// history to its own file and names the history it is about to run in a progress file; if it dies,
// the parent records that history as `crashed` (the driver reports it as a violation) and goes on
// with the next one in a new child.
func TestC13(t *testing.T) {
	em := NewEmitter(t, "C13")
	defer em.Close()
	type item struct {
		src string
		in  c13Input
	}
	var items []item
	only := os.Getenv("VERIF_C13_SRC") // debugging aid: run only the histories of one source ("gen-racy", "edge", ...)
	add := func(src string, in c13Input) {
		if only == "" || src == only {
			items = append(items, item{src, in})
		}
	}
	names, raws, replayOnly := corpusInputs(t, "C13")
	for i, raw := range raws {
		var in c13Input
		if err := json.Unmarshal(raw, &in); err != nil {
			t.Fatalf("%s: %v", names[i], err)
		}
		add(names[i], in)
	}
	if !replayOnly {
		for _, in := range c13Edge() {
			add("edge", in)
		}
		r := NewRng(seed())
		n := tierN(700, 7000)
		nbig := tierN(6, 60)
		rd := NewRng(seed() ^ 0xdec13)
		for i := 0; i < n; i++ {
			in := c13Gen(r, i < nbig, em)
			if i >= nbig {
				c13Decorate(rd, &in, em)
			}
			add("gen", in)
		}
		rl := NewRng(seed() ^ 0x10c13)
		for i, nl := 0, tierN(3, 40); i < nl; i++ {
			add("gen-long", c13GenLong(rl, rl.Range(1150, 1400), em))
		}
		ri := NewRng(seed() ^ 0x13c13)
		for i, ni := 0, tierN(120, 2000); i < ni; i++ {
			add("gen-instant", c13GenInstant(ri, em))
		}
		rr := NewRng(seed() ^ 0x4ac13)
		for i, nr := 0, tierN(24, 400); i < nr; i++ {
			add("gen-racy", c13GenRacy(rr, em))
		}
	}
	runOne := func(src string, in c13Input) c13Impl {
		var impl c13Impl
		func() {
			// a call that never returns leaves goroutines blocked for ever: synctest reports that
			// with a panic when the bubble ends; the observations made so far are what counts (the
			// missing return value is judged by the driver)
			defer func() {
				if p := recover(); p != nil {
					impl.Problem += fmt.Sprintf(" bubble: %v", p)
				}
			}()
			synctest.Test(t, func(t *testing.T) { impl = c13Run(t, in) })
		}()
		if impl.Problem != "" {
			em.Hit("problem")
			t.Logf("%s: %s", src, impl.Problem)
		}
		return impl
	}

	if spec := os.Getenv("VERIF_C13_CHILD"); spec != "" {
		var lo, hi int
		fmt.Sscanf(spec, "%d:%d", &lo, &hi)
		em.n = lo
		progress := os.Getenv("VERIF_C13_PROGRESS")
		for i := lo; i < hi && i < len(items); i++ {
			os.WriteFile(progress, []byte(strconv.Itoa(i)), 0o644)
			em.Emit(items[i].src, items[i].in, runOne(items[i].src, items[i].in))
			em.mu.Lock()
			em.w.Flush()
			em.mu.Unlock()
		}
		os.WriteFile(progress, []byte("done"), 0o644)
		return
	}

	dir, err := os.MkdirTemp("", "c13-child-")
	if err != nil {
		t.Fatal(err)
	}
	defer os.RemoveAll(dir)
	restarts := 0
	for lo := 0; lo < len(items); {
		chunk, progress := filepath.Join(dir, fmt.Sprintf("chunk-%d.jsonl", lo)), filepath.Join(dir, "progress")
		os.WriteFile(progress, []byte(strconv.Itoa(lo)), 0o644)
		cmd := exec.Command(os.Args[0], "-test.run", "^TestC13$", "-test.timeout", "50m")
		coverChild(cmd)
		cmd.Env = append(os.Environ(), fmt.Sprintf("VERIF_C13_CHILD=%d:%d", lo, len(items)), "VERIF_C13_PROGRESS="+progress, "VERIF_OUT="+chunk, "VERIF_DIST=")
		var outb bytes.Buffer
		cmd.Stdout, cmd.Stderr = &outb, &outb
		werr := cmd.Run()
		// whatever the child completed
		if f, err := os.Open(chunk); err == nil {
			em.mu.Lock()
			nb, _ := io.Copy(em.w, f)
			em.mu.Unlock()
			f.Close()
			_ = nb
		}
		pb, _ := os.ReadFile(progress)
		if string(pb) == "done" {
			if werr != nil {
				t.Errorf("child: %v\n%s", werr, c13Tail(outb.String(), 3000))
			}
			break
		}
		died, _ := strconv.Atoi(string(pb))
		crash := "the process died"
		for _, line := range strings.Split(outb.String(), "\n") {
			if strings.HasPrefix(line, "panic:") || strings.HasPrefix(line, "fatal error:") {
				crash = line
				break
			}
		}
		if i := strings.Index(crash, " [recovered]"); i > 0 {
			crash = crash[:i]
		}
		em.Hit("child-died")
		t.Logf("history %d (%s): the child process died: %s", died, items[died].src, crash)
		em.n = died
		em.Emit(items[died].src, items[died].in, c13Impl{Crashed: true, Crash: crash})
		lo = died + 1
		em.n = lo
		if restarts++; restarts > 12 {
			t.Errorf("more than 12 histories killed the process; %d histories not run", len(items)-lo)
			break
		}
	}
}

func c13Tail(s string, n int) string {
	if len(s) > n {
		return s[len(s)-n:]
	}
	return s
}
