package harness

import (
	"bytes"
	"context"
	"encoding/json"
	"fmt"
	"io"
	"log"
	"math/big"
	"os"
	"os/exec"
	"path/filepath"
	"regexp"
	"sort"
	"strings"
	"sync"
	"testing"
	"testing/synctest"
	"time"

	ocr2keepers "github.com/smartcontractkit/chainlink-common/pkg/types/automation"

	"github.com/smartcontractkit/chainlink-automation/pkg/v3/types"
	"github.com/smartcontractkit/chainlink-automation/tools/simulator/config"
	"github.com/smartcontractkit/chainlink-automation/tools/simulator/simulate/chain"
	"github.com/smartcontractkit/chainlink-automation/tools/simulator/simulate/loader"
	simupkeep "github.com/smartcontractkit/chainlink-automation/tools/simulator/simulate/upkeep"
	"github.com/smartcontractkit/chainlink-automation/tools/simulator/telemetry"
	"github.com/smartcontractkit/chainlink-automation/tools/simulator/util"
)

// C20 — kind "pipeline": the simulated chain side of a node (the wiring of simulate.HydrateConfig / Group.Add,
// through the public constructors): one block source with the real transmit loader, and per node a listener, an
// active tracker, a perform tracker and a check pipeline that records into the node's entry of the real
// contract-event collector and into its own contract log.  Virtual time (1 s blocks).
//
//   * performs are transmitted through the loader and included in blocks (one upkeep can be performed many times);
//   * batches of payloads — several payloads of ONE upkeep with the same or with different check blocks among
//     them, as retries and proposals of different rounds produce — are checked by every node in one pipeline call;
//   * every slice handed out by PerformTracker.PerformsForUpkeepID is retained with a snapshot (the check pipeline
//     reads these slices after the tracker's lock is released).
//
// Ω: every result a node returns claims a check block at which that node's own record (collector entry AND
// contract-log line) has a check of that upkeep (the per-node half of "checked at that check block by >= f+1
// nodes"); no handed-out history is rewritten afterwards.  Κ: eligibility of every result and the final
// histories against the Lean model.
//
// The components stop through finalizers only, so a bubble that holds them can never end: all scenarios of a run
// share ONE bubble in a CHILD process that leaves with os.Exit.

type c20PUpkeep struct {
	Log        bool  `json:"log"`         // log trigger type (else conditional)
	Always     bool  `json:"always"`      // AlwaysEligible
	EligibleAt []int `json:"eligible_at"` // block offsets from genesis
	CreateAt   int   `json:"create_at"`
}
type c20PPerform struct {
	Block  int `json:"block"` // offset of the block that includes the report (>= 2)
	Upkeep int `json:"upkeep"`
}
type c20PPayload struct {
	Upkeep int `json:"upkeep"`
	Block  int `json:"block"` // check block offset
}
type c20PBatch struct {
	At       int           `json:"at"` // checked after the block with this offset has been processed
	Payloads []c20PPayload `json:"payloads"`
}
type c20PipelineIn struct {
	Nodes    int           `json:"nodes"`
	Blocks   int           `json:"blocks"`
	Upkeeps  []c20PUpkeep  `json:"upkeeps"`
	Performs []c20PPerform `json:"performs"`
	Batches  []c20PBatch   `json:"batches"`
	// race-build variant: every node checks upkeep 0 in a loop while the blocks (and performs) arrive
	ConcurrentChecks bool `json:"concurrent_checks,omitempty"`
}

type c20PResult struct {
	Batch    int    `json:"batch"`
	Node     int    `json:"node"`
	Idx      int    `json:"idx"`
	Upkeep   int    `json:"upkeep"` // -1: the result's upkeep id is none of the scenario's
	Block    int    `json:"block"`  // trigger block of the RESULT, as offset
	Eligible bool   `json:"eligible"`
	SameWork bool   `json:"same_work"` // result.WorkID == payload.WorkID
	Recorded bool   `json:"recorded"`  // the node's collector entry was told of a check (upkeep, block)
	Logged   bool   `json:"logged"`    // the node's contract log has "<id> eligibility .. at block <n>"
	Err      string `json:"err,omitempty"`
}
type c20PHistory struct {
	Node   int   `json:"node"`
	Upkeep int   `json:"upkeep"`
	Final  []int `json:"final"` // PerformsForUpkeepID at the end, as offsets
}
type c20PipelineImpl struct {
	Err       string        `json:"err"`
	Results   []c20PResult  `json:"results"`
	History   []c20PHistory `json:"history"`
	Handed    int           `json:"handed"`  // slices handed out by PerformsForUpkeepID that were retained
	Mutated   int           `json:"mutated"` // … whose content differs from the snapshot taken when they were handed out
	MutatedAt string        `json:"mutated_at,omitempty"`
	Loops     int           `json:"loops"` // concurrent check calls made (race variant)
	// filled by the parent
	Crash     string   `json:"crash"`
	Races     int      `json:"races"`
	RaceSites []string `json:"race_sites"`
	RaceBuild bool     `json:"race_build"`
}

type c20NullNet struct{}

func (c20NullNet) Register(string, time.Duration, error) {}
func (c20NullNet) AddRateDataPoint(int)                  {}

type c20CheckRecorder struct {
	inner *telemetry.WrappedContractCollector
	mu    sync.Mutex
	seen  map[string]bool
}

func (r *c20CheckRecorder) CheckID(id string, block uint64, hash [32]byte) {
	r.inner.CheckID(id, block, hash)
	r.mu.Lock()
	r.seen[fmt.Sprintf("%s@%d", id, block)] = true
	r.mu.Unlock()
}
func (r *c20CheckRecorder) has(id string, block uint64) bool {
	r.mu.Lock()
	defer r.mu.Unlock()
	return r.seen[fmt.Sprintf("%s@%d", id, block)]
}

type c20LockedBuf struct {
	mu sync.Mutex
	b  bytes.Buffer
}

func (l *c20LockedBuf) Write(p []byte) (int, error) {
	l.mu.Lock()
	defer l.mu.Unlock()
	return l.b.Write(p)
}
func (l *c20LockedBuf) String() string { l.mu.Lock(); defer l.mu.Unlock(); return l.b.String() }

var c20PipeLogRe = regexp.MustCompile(`\[check-pipeline\].* (\d+) eligibility (true|false) at block (\d+)`)

type c20PNode struct {
	pipeline *simupkeep.CheckPipeline
	active   *simupkeep.ActiveTracker
	performs *simupkeep.PerformTracker
	rec      *c20CheckRecorder
	logs     *c20LockedBuf
}

type c20Retained struct {
	node, upkeep int
	slice        []*big.Int
	snapshot     []string
}

const c20PGenesis = 5000

// c20PipelineScenario runs one scenario; must be called inside a synctest bubble.
func c20PipelineScenario(in c20PipelineIn) (impl c20PipelineImpl) {
	impl.Results, impl.History = []c20PResult{}, []c20PHistory{}
	defer func() {
		if p := recover(); p != nil {
			impl.Err = fmt.Sprintf("panic: %v", p)
		}
	}()
	discard := log.New(io.Discard, "", 0)
	genesis := big.NewInt(c20PGenesis)
	plan := config.SimulationPlan{
		Node:   config.Node{Count: in.Nodes, MaxServiceWorkers: 10, MaxQueueSize: 100},
		Blocks: config.Blocks{Genesis: genesis, Cadence: config.Duration(time.Second), Duration: in.Blocks, EndPadding: 2},
		RPC:    config.RPC{ErrorRate: 0, RateLimitThreshold: 1_000_000, AverageLatency: 1},
	}
	ups := make([]chain.SimulatedUpkeep, len(in.Upkeeps))
	idOf := map[string]int{}
	for i, u := range in.Upkeeps {
		ut, ct := uint8(types.ConditionTrigger), chain.ConditionalType
		if u.Log {
			ut, ct = uint8(types.LogTrigger), chain.LogTriggerType
		}
		id := util.NewUpkeepID(big.NewInt(int64(4200+i)).Bytes(), ut)
		su := chain.SimulatedUpkeep{ID: big.NewInt(int64(4200 + i)), CreateInBlock: big.NewInt(int64(c20PGenesis + u.CreateAt)), UpkeepID: id,
			Type: ct, AlwaysEligible: u.Always, EligibleAt: []*big.Int{}, TriggeredBy: "t", Expected: true}
		for _, e := range u.EligibleAt {
			su.EligibleAt = append(su.EligibleAt, big.NewInt(int64(c20PGenesis+e)))
		}
		ups[i] = su
		idOf[ocr2keepers.UpkeepIdentifier(id).String()] = i
	}
	transmitter, err := loader.NewOCR3TransmitLoader(plan, nil, discard)
	if err != nil {
		impl.Err = err.Error()
		return impl
	}
	create := func(block *chain.Block) {
		for _, u := range ups {
			if block.Number.Cmp(u.CreateInBlock) == 0 {
				block.Transactions = append(block.Transactions, chain.UpkeepCreatedTransaction{Upkeep: u})
			}
		}
	}
	broadcaster := chain.NewBlockBroadcaster(plan.Blocks, 0, discard, nil, transmitter.Load, create)
	collector := telemetry.NewContractEventCollector(discard)
	nodes := make([]*c20PNode, in.Nodes)
	for i := range nodes {
		name := fmt.Sprintf("node-%d", i)
		_ = collector.AddNode(name)
		buf := &c20LockedBuf{}
		listener := chain.NewListener(broadcaster, discard)
		active := simupkeep.NewActiveTracker(listener, discard)
		performs := simupkeep.NewPerformTracker(listener, discard)
		rec := &c20CheckRecorder{inner: collector.ContractEventCollectorNode(name), seen: map[string]bool{}}
		nodes[i] = &c20PNode{
			pipeline: simupkeep.NewCheckPipeline(plan, active, performs, c20NullNet{}, rec, log.New(buf, "[contract] ", log.Ldate|log.Ltime)),
			active:   active, performs: performs, rec: rec, logs: buf,
		}
	}
	synctest.Wait() // the listeners and trackers subscribe from their own goroutines

	payloadOf := func(p c20PPayload) ocr2keepers.UpkeepPayload {
		id := ocr2keepers.UpkeepIdentifier(ups[p.Upkeep].UpkeepID)
		bn := ocr2keepers.BlockNumber(c20PGenesis + p.Block)
		var trig ocr2keepers.Trigger
		if in.Upkeeps[p.Upkeep].Log {
			trig = ocr2keepers.NewLogTrigger(bn, [32]byte{byte(p.Block)}, &ocr2keepers.LogTriggerExtension{
				TxHash: [32]byte{0xaa, byte(p.Block), byte(p.Upkeep)}, Index: uint32(p.Block), BlockHash: [32]byte{byte(p.Block)}, BlockNumber: bn})
		} else {
			trig = ocr2keepers.NewTrigger(bn, [32]byte{byte(p.Block)})
		}
		return ocr2keepers.UpkeepPayload{UpkeepID: id, Trigger: trig, WorkID: util.UpkeepWorkID(id, trig)}
	}
	var retained []c20Retained
	snapshot := func() {
		for n, nd := range nodes {
			for u := range ups {
				if in.Upkeeps[u].Log {
					continue
				}
				s := nd.performs.PerformsForUpkeepID(ocr2keepers.UpkeepIdentifier(ups[u].UpkeepID).String())
				if len(s) == 0 {
					continue
				}
				snap := make([]string, len(s))
				for i, b := range s {
					snap[i] = b.String()
				}
				retained = append(retained, c20Retained{n, u, s, snap})
			}
		}
	}

	stopLoops := make(chan struct{})
	var loopWG sync.WaitGroup
	var loops int64
	var loopMu sync.Mutex
	if in.ConcurrentChecks {
		for _, nd := range nodes {
			loopWG.Add(1)
			go func(nd *c20PNode) {
				defer loopWG.Done()
				for k := 0; ; k++ {
					select {
					case <-stopLoops:
						return
					default:
					}
					_, _ = nd.pipeline.CheckUpkeeps(context.Background(), payloadOf(c20PPayload{Upkeep: 0, Block: 1 + k%3}))
					loopMu.Lock()
					loops++
					loopMu.Unlock()
					time.Sleep(37 * time.Millisecond)
				}
			}(nd)
		}
	}

	t0 := time.Now()
	_ = broadcaster.Start()
	round := uint64(0)
	for b := 0; b <= in.Blocks; b++ {
		// harness operations sit half a second off the block grid: block b is produced at t0 + b s
		if d := time.Duration(b)*time.Second + 500*time.Millisecond - time.Since(t0); d > 0 {
			time.Sleep(d)
		}
		synctest.Wait()
		snapshot()
		// reports that the next block will include
		for _, pf := range in.Performs {
			if pf.Block != b+1 {
				continue
			}
			round++
			id := ocr2keepers.UpkeepIdentifier(ups[pf.Upkeep].UpkeepID)
			trig := ocr2keepers.NewTrigger(ocr2keepers.BlockNumber(c20PGenesis+b), [32]byte{byte(b)})
			rep, _ := util.EncodeCheckResultsToReportBytes([]ocr2keepers.CheckResult{{Eligible: true, UpkeepID: id, Trigger: trig,
				WorkID: fmt.Sprintf("%s-%d", util.UpkeepWorkID(id, trig), round)}})
			_ = transmitter.Transmit("node-0", rep, round)
		}
		for bi, batch := range in.Batches {
			if batch.At != b {
				continue
			}
			payloads := make([]ocr2keepers.UpkeepPayload, len(batch.Payloads))
			for i, p := range batch.Payloads {
				payloads[i] = payloadOf(p)
			}
			var wg sync.WaitGroup
			var mu sync.Mutex
			for n, nd := range nodes {
				wg.Add(1)
				go func(n int, nd *c20PNode) {
					defer wg.Done()
					res, err := nd.pipeline.CheckUpkeeps(context.Background(), payloads...)
					mu.Lock()
					defer mu.Unlock()
					if err != nil || len(res) != len(payloads) {
						impl.Results = append(impl.Results, c20PResult{Batch: bi, Node: n, Idx: -1, Upkeep: -1, Err: fmt.Sprintf("%v (%d results for %d payloads)", err, len(res), len(payloads))})
						return
					}
					logText := nd.logs.String()
					for i, r := range res {
						idStr := r.UpkeepID.String()
						u, ok := idOf[idStr]
						if !ok {
							u = -1
						}
						blk := uint64(r.Trigger.BlockNumber)
						logged := false
						for _, line := range strings.Split(logText, "\n") {
							if m := c20PipeLogRe.FindStringSubmatch(line); m != nil && m[1] == idStr && m[3] == fmt.Sprint(blk) {
								logged = true
								break
							}
						}
						impl.Results = append(impl.Results, c20PResult{Batch: bi, Node: n, Idx: i, Upkeep: u, Block: int(blk) - c20PGenesis, Eligible: r.Eligible,
							SameWork: r.WorkID == payloads[i].WorkID, Recorded: nd.rec.has(idStr, blk), Logged: logged})
					}
				}(n, nd)
			}
			wg.Wait()
		}
	}
	close(stopLoops)
	loopWG.Wait()
	synctest.Wait()
	snapshot()
	sort.SliceStable(impl.Results, func(a, b int) bool {
		x, y := impl.Results[a], impl.Results[b]
		if x.Batch != y.Batch {
			return x.Batch < y.Batch
		}
		if x.Node != y.Node {
			return x.Node < y.Node
		}
		return x.Idx < y.Idx
	})
	for n, nd := range nodes {
		for u := range ups {
			if in.Upkeeps[u].Log {
				continue
			}
			h := c20PHistory{Node: n, Upkeep: u, Final: []int{}}
			for _, b := range nd.performs.PerformsForUpkeepID(ocr2keepers.UpkeepIdentifier(ups[u].UpkeepID).String()) {
				h.Final = append(h.Final, int(b.Int64())-c20PGenesis)
			}
			impl.History = append(impl.History, h)
		}
	}
	impl.Handed = len(retained)
	for _, r := range retained {
		for i, b := range r.slice {
			if b.String() != r.snapshot[i] {
				impl.Mutated++
				if impl.MutatedAt == "" {
					impl.MutatedAt = fmt.Sprintf("node %d upkeep %d: element %d of a history of %d entries was block %s when it was handed out and is block %s now", r.node, r.upkeep, i, len(r.slice),
						r.snapshot[i], b.String())
				}
				break
			}
		}
	}
	loopMu.Lock()
	impl.Loops = int(loops)
	loopMu.Unlock()
	return impl
}

const c20PipeInEnv = "C20_PIPELINE_IN"
const c20PipeOutEnv = "C20_PIPELINE_OUT"

// TestC20PipelineChild is the helper run in the child process only: all scenarios in one bubble, then os.Exit.
func TestC20PipelineChild(t *testing.T) {
	inPath, outPath := os.Getenv(c20PipeInEnv), os.Getenv(c20PipeOutEnv)
	if inPath == "" || outPath == "" {
		t.Skip("helper for TestC20 (child process only)")
	}
	b, err := os.ReadFile(inPath)
	if err != nil {
		t.Fatal(err)
	}
	var ins []c20PipelineIn
	if err := json.Unmarshal(b, &ins); err != nil {
		t.Fatal(err)
	}
	outs := make([]c20PipelineImpl, 0, len(ins))
	write := func() {
		o, _ := json.Marshal(outs)
		_ = os.WriteFile(outPath, o, 0o644)
	}
	defer write() // a detected race ends the test through runtime.Goexit
	synctest.Test(t, func(t *testing.T) {
		for _, in := range ins {
			outs = append(outs, c20PipelineScenario(in))
			write()
		}
		os.Exit(0) // the chain components stop through finalizers only: the bubble could never end
	})
}

// c20RunPipelines runs the scenarios in one child process and returns one impl per scenario.
func c20RunPipelines(ins []c20PipelineIn, exe string, raceBuild bool) []c20PipelineImpl {
	outs := make([]c20PipelineImpl, len(ins))
	for attempt := 0; attempt < 3; attempt++ {
		var tsan bool
		outs, tsan = c20RunPipelinesOnce(ins, exe, raceBuild)
		if !tsan {
			break
		}
	}
	return outs
}

func c20RunPipelinesOnce(ins []c20PipelineIn, exe string, raceBuild bool) ([]c20PipelineImpl, bool) {
	outs := make([]c20PipelineImpl, len(ins))
	fail := func(msg string) []c20PipelineImpl {
		for i := range outs {
			if outs[i].Results == nil {
				outs[i] = c20PipelineImpl{Results: []c20PResult{}, History: []c20PHistory{}, RaceSites: []string{}, Crash: msg, RaceBuild: raceBuild}
			}
		}
		return outs
	}
	dir, err := os.MkdirTemp("", "c20pipe")
	if err != nil {
		return fail("harness: " + err.Error()), false
	}
	defer os.RemoveAll(dir)
	inPath, outPath := filepath.Join(dir, "in.json"), filepath.Join(dir, "out.json")
	b, _ := json.Marshal(ins)
	_ = os.WriteFile(inPath, b, 0o644)
	cmd := exec.Command(exe, "-test.run", "^TestC20PipelineChild$", "-test.timeout", "10m")
	coverChild(cmd)
	cmd.Env = append(os.Environ(), c20PipeInEnv+"="+inPath, c20PipeOutEnv+"="+outPath, "VERIF_OUT="+filepath.Join(dir, "unused.jsonl"))
	var buf bytes.Buffer
	cmd.Stdout, cmd.Stderr = &buf, &buf
	_ = cmd.Run()
	out := buf.String()
	var got []c20PipelineImpl
	if o, err := os.ReadFile(outPath); err == nil {
		_ = json.Unmarshal(o, &got)
	}
	for i := range got {
		if i < len(outs) {
			outs[i] = got[i]
		}
	}
	races, sites := 0, []string{}
	for _, rep := range c20RaceReports(out) {
		if !rep.ignored {
			races++
			sites = append(sites, rep.site)
		}
	}
	sort.Strings(sites)
	crash, at, _ := c20CrashSite(out)
	if crash != "" {
		crash += " at " + at
	}
	for i := range outs {
		if outs[i].Results == nil {
			msg := crash
			if msg == "" && races == 0 {
				msg = "no result from the child: " + c20Tail(out, 300)
			}
			outs[i] = c20PipelineImpl{Results: []c20PResult{}, History: []c20PHistory{}, Crash: msg}
		}
		outs[i].Races, outs[i].RaceSites, outs[i].RaceBuild = races, sites, raceBuild
	}
	return outs, strings.Contains(out, "ThreadSanitizer: CHECK failed")
}

// ---------------------------------------------------------------- generator

func c20GenPipeline(r *Rng) c20PipelineIn {
	in := c20PipelineIn{Nodes: []int{2, 4, 4}[r.Intn(3)], Upkeeps: []c20PUpkeep{}, Performs: []c20PPerform{}, Batches: []c20PBatch{}}
	long := r.Chance(35) // one conditional upkeep performed many times (a long run with a short eligibility cadence)
	in.Blocks = r.Range(12, 26)
	if long {
		in.Blocks = r.Range(36, 70)
	}
	nUp := r.Range(1, 3)
	for i := 0; i < nUp; i++ {
		u := c20PUpkeep{CreateAt: r.Range(0, 2), EligibleAt: []int{}}
		switch {
		case i == 0 && long:
			// conditional, eligible every 1–2 blocks
		case r.Chance(50):
			u.Log = true
			u.Always = r.Chance(30)
		}
		if !u.Always {
			step := r.Range(1, 7)
			if i == 0 && long {
				step = r.Range(1, 2)
			}
			for e := u.CreateAt + r.Range(1, 6); e <= in.Blocks; e += step {
				u.EligibleAt = append(u.EligibleAt, e)
				if r.Chance(10) {
					break
				}
			}
		}
		in.Upkeeps = append(in.Upkeeps, u)
	}
	// performs of the conditional upkeeps
	for i, u := range in.Upkeeps {
		if u.Log {
			continue
		}
		switch {
		case i == 0 && long:
			for b := u.CreateAt + 2; b <= in.Blocks; b++ {
				if !r.Chance(8) {
					in.Performs = append(in.Performs, c20PPerform{Block: b, Upkeep: i})
				}
			}
		default:
			for k, n := 0, r.Intn(5); k < n; k++ {
				in.Performs = append(in.Performs, c20PPerform{Block: r.Range(u.CreateAt+2, in.Blocks), Upkeep: i})
			}
		}
	}
	// batches: payloads of one upkeep at the same and at different check blocks among them
	nB := r.Range(2, 6)
	for k := 0; k < nB; k++ {
		at := r.Range(4, in.Blocks)
		batch := c20PBatch{At: at, Payloads: []c20PPayload{}}
		for j, n := 0, r.Range(1, 4); j < n; j++ {
			u := r.Intn(nUp)
			blk := at - r.Intn(4)
			if blk <= in.Upkeeps[u].CreateAt {
				blk = at
			}
			batch.Payloads = append(batch.Payloads, c20PPayload{Upkeep: u, Block: blk})
			if r.Chance(45) { // a second payload of the SAME upkeep: same block, an earlier or a later one
				b2 := []int{blk, blk - r.Range(1, 6), blk + r.Range(1, 3)}[r.Intn(3)]
				if b2 <= in.Upkeeps[u].CreateAt || b2 > at {
					b2 = blk
				}
				batch.Payloads = append(batch.Payloads, c20PPayload{Upkeep: u, Block: b2})
			}
		}
		in.Batches = append(in.Batches, batch)
	}
	return in
}

func c20PipelineEdge() []c20PipelineIn {
	many := c20PipelineIn{Nodes: 2, Blocks: 48, Upkeeps: []c20PUpkeep{{EligibleAt: []int{}, CreateAt: 0}}, Performs: []c20PPerform{}, Batches: []c20PBatch{}}
	for e := 2; e <= 48; e++ {
		many.Upkeeps[0].EligibleAt = append(many.Upkeeps[0].EligibleAt, e)
	}
	for b := 3; b <= 46; b++ {
		many.Performs = append(many.Performs, c20PPerform{Block: b, Upkeep: 0})
	}
	for _, at := range []int{10, 33, 36, 40, 47} {
		many.Batches = append(many.Batches, c20PBatch{At: at, Payloads: []c20PPayload{{0, at}, {0, at - 1}}})
	}
	return []c20PipelineIn{
		// a log upkeep eligible from block 10 on, two payloads in one call: checked at block 12 and at block 5
		{Nodes: 4, Blocks: 16, Upkeeps: []c20PUpkeep{{Log: true, EligibleAt: []int{10}, CreateAt: 1}}, Performs: []c20PPerform{},
			Batches: []c20PBatch{{At: 13, Payloads: []c20PPayload{{0, 12}, {0, 5}}}, {At: 14, Payloads: []c20PPayload{{0, 12}, {0, 12}}}}},
		// a conditional upkeep performed in 44 consecutive blocks
		many,
	}
}
