package harness

import (
	"context"
	"fmt"
	"testing"
	"testing/synctest"
	"time"

	"github.com/smartcontractkit/libocr/offchainreporting2plus/ocr3types"

	ocr2keepersv3 "github.com/smartcontractkit/chainlink-automation/pkg/v3"
	ocr2keepers "github.com/smartcontractkit/chainlink-common/pkg/types/automation"
)

// C10 at the level of one node (Kind "node").
//
// The staging store is the one inside a plugin instance built by the public factory.  Nothing of it is reachable
// directly, so the history uses the instance's own paths:
//
//	stage  log payloads are handed to the log provider; the log-trigger flow of the instance (1 s ticker) takes them,
//	       runs them through the real runner (whose check pipeline is the harness's table look-up) and the eligible
//	       post-processor, which stages the results.  The op lasts `Delay` = one ticker interval; the instant at which
//	       the flow took the payloads is observed at the log provider and recorded (AddAt): it is the time of the Add.
//	obs    Observation(seqNr, previous outcome): the previous outcome's agreed performables go through
//	       RemoveFromStagingHook, then AddFromStagingHook puts the store's view into the observation.  With fewer
//	       staged results than ObservationPerformablesLimit and nothing in flight at the coordinator, the observation's
//	       performables ARE the view.  Ctx "first" = no previous outcome (pure view).
//
// An agreed outcome is a list of RESULTS, one per unit of work: several of them can belong to one upkeep (a log-trigger
// upkeep has one work id per log; the outcome validation only forbids equal WORK ids).  The generator therefore builds
// families — 2–10 logs of one upkeep — next to single-log upkeeps (some with ids one bit away from a family's) and
// conditional upkeeps that other nodes staged, and lets outcomes agree on several members of a family at once, in any
// order, mixed with the rest; later observations (no outcome / other outcomes / around the TTL) look at what is left.

const c10LogTick = int64(time.Second) // flows.LogCheckInterval: only used to size the stage window and to aim time steps

func c10NodeKey(wid string, tr ocr2keepers.Trigger) string {
	return fmt.Sprintf("%s|%d|%x", wid, uint64(tr.BlockNumber), tr.BlockHash[:])
}

// c10RunNode executes a node history inside the current bubble.
func c10RunNode(t *testing.T, in c10Input) c10Impl {
	t0 := time.Now()
	if in.StartDt > 0 {
		time.Sleep(time.Duration(in.StartDt))
	}
	var digest [32]byte
	digest[0], digest[31] = 0xc1, 0x0a
	n := NewNode(t, NodeOpts{N: 4, F: 1, Digest: digest})
	defer func() {
		n.Close()
		time.Sleep(11 * time.Second)
		synctest.Wait()
	}()
	env := &c10Env{res: fromJCRs(in.Res), index: map[string]int{}}
	byKey := map[string]int{}
	for i, j := range in.Res {
		if _, dup := env.index[c10Key(j)]; !dup {
			env.index[c10Key(j)] = i
		}
		if k := c10NodeKey(env.res[i].WorkID, env.res[i].Trigger); byKey[k] == 0 {
			byKey[k] = i + 1
		}
	}
	// the check pipeline: every payload is answered with the table's result for (work id, check block, block hash)
	n.Run.mu.Lock()
	n.Run.fn = func(_ context.Context, ps []ocr2keepers.UpkeepPayload) ([]ocr2keepers.CheckResult, error) {
		out := make([]ocr2keepers.CheckResult, 0, len(ps))
		for _, p := range ps {
			if i := byKey[c10NodeKey(p.WorkID, p.Trigger)]; i > 0 {
				out = append(out, env.res[i-1])
			}
		}
		return out, nil
	}
	n.Run.mu.Unlock()
	// the instants at which the log flow takes payloads (the provider calls this with its lock held)
	var takenAt []int64
	n.Logs.mu.Lock()
	n.Logs.panicOn = func() bool {
		if len(n.Logs.payloads) > 0 {
			takenAt = append(takenAt, int64(time.Since(t0)))
		}
		return false
	}
	n.Logs.mu.Unlock()
	synctest.Wait()
	impl := c10Impl{Start: int64(time.Since(t0)), Ops: make([]c10OpOut, 0, len(in.Ops))}
	seq := uint64(1)
	for _, op := range in.Ops {
		if op.Dt > 0 {
			time.Sleep(time.Duration(op.Dt))
		}
		synctest.Wait() // whatever ticks at this instant runs first
		out := c10OpOut{At: int64(time.Since(t0))}
		out.Inv = env.ctr.Add(1)
		switch op.K {
		case "stage":
			rs := env.pick(op.Rs)
			n.Logs.mu.Lock()
			mark := len(takenAt)
			for _, r := range rs {
				n.Logs.payloads = append(n.Logs.payloads, ocr2keepers.UpkeepPayload{UpkeepID: r.UpkeepID, Trigger: r.Trigger, WorkID: r.WorkID})
			}
			n.Logs.mu.Unlock()
			time.Sleep(time.Duration(op.Delay))
			synctest.Wait() // the flow's goroutine has handed every eligible result to the store
			n.Logs.mu.Lock()
			switch got := len(takenAt) - mark; {
			case len(rs) == 0:
			case got == 1:
				out.AddAt = takenAt[mark]
			default:
				out.Err = fmt.Sprintf("the log flow took the payloads %d times within %d ns", got, op.Delay)
			}
			n.Logs.mu.Unlock()
		case "obs":
			var prev []byte
			if op.Ctx != "first" {
				o := ocr2keepersv3.AutomationOutcome{AgreedPerformables: env.pick(op.Rs), SurfacedProposals: [][]ocr2keepers.CoordinatedBlockProposal{}}
				prev = must(o.Encode())
			}
			out.View = &c10View{Ix: []int{}}
			raw, err := n.Plugin.Observation(context.Background(), ocr3types.OutcomeContext{SeqNr: seq, PreviousOutcome: prev}, nil)
			seq++
			if err != nil {
				out.Err = "Observation: " + err.Error()
			} else if o, err := ocr2keepersv3.DecodeAutomationObservation(raw, utg, wg); err != nil {
				out.Err = "observation does not decode: " + err.Error()
			} else {
				out.View = env.canonView(o.Performable)
			}
		default:
			panic("c10 node: unknown op " + op.K)
		}
		out.Res = env.ctr.Add(1)
		impl.Ops = append(impl.Ops, out)
	}
	return impl
}

// ---------------------------------------------------------------- generator

type c10NodeUnit struct {
	wid  string
	uid  ocr2keepers.UpkeepIdentifier
	vars []int // table indices: check blocks ascending, possibly two contents for one block
	log  bool  // can be staged on this node (log-trigger); conditional units are agreed by others only
	fam  int   // family number (units of one upkeep), -1 = none
}

type c10NodePool struct {
	res   []JCR
	blk   []uint64
	units []c10NodeUnit
	fams  [][]int // unit numbers per family
}

func c10MakeNodePool(r *Rng) *c10NodePool {
	p := &c10NodePool{}
	taken := map[string]bool{}
	isTaken := func(w string) bool { return taken[w] }
	addUnit := func(base ocr2keepers.CheckResult, fam int) {
		taken[base.WorkID] = true
		u := c10NodeUnit{wid: base.WorkID, uid: base.UpkeepID, log: base.Trigger.LogTriggerExtension != nil, fam: fam}
		b0 := uint64(r.Range(100, 5000))
		blocks := []uint64{b0}
		if r.Chance(50) {
			blocks = append(blocks, b0+uint64(r.Range(1, 3)))
		}
		if r.Chance(20) {
			blocks = append(blocks, blocks[len(blocks)-1]) // same check block, another hash and content
		}
		for _, blk := range blocks {
			c := base
			c.Trigger.BlockNumber = ocr2keepers.BlockNumber(blk)
			c.Trigger.BlockHash = genHash(r)
			c.PerformData = r.Bytes(1 + r.Intn(8))
			if wg(c.UpkeepID, c.Trigger) != base.WorkID {
				panic("c10 node: work id depends on the check block")
			}
			u.vars = append(u.vars, len(p.res))
			p.res = append(p.res, toJCR(c))
			p.blk = append(p.blk, blk)
		}
		if fam >= 0 {
			p.fams[fam] = append(p.fams[fam], len(p.units))
		}
		p.units = append(p.units, u)
	}
	nf := r.Range(1, 3)
	var famIDs []ocr2keepers.UpkeepIdentifier
	for f := 0; f < nf; f++ {
		p.fams = append(p.fams, nil)
		first := genResult(r, genUpkeepID(r, true), 1000)
		famIDs = append(famIDs, first.UpkeepID)
		size := []int{2, 2, 3, 4, 6, 10}[r.Intn(6)]
		if f > 0 {
			size = r.Range(2, 5)
		}
		addUnit(first, f)
		for k := 1; k < size; k++ {
			addUnit(c10Sibling(r, first, isTaken), f)
		}
	}
	for i, n := 0, r.Range(0, 4); i < n; i++ { // single-log upkeeps, some with ids one bit away from a family's
		uid := genUpkeepID(r, true)
		if r.Bool() {
			uid = famIDs[r.Intn(len(famIDs))]
			uid[[]int{0, 3, 16, 30, 31}[r.Intn(5)]] ^= byte(1) << r.Intn(8)
		}
		if c := genResult(r, uid, 1000); !taken[c.WorkID] {
			addUnit(c, -1)
		}
	}
	for i, n := 0, r.Range(0, 3); i < n; i++ { // conditional upkeeps: staged and agreed elsewhere
		if c := genResult(r, genUpkeepID(r, false), 1000); !taken[c.WorkID] {
			addUnit(c, -1)
		}
	}
	return p
}

type c10NodeShadow struct {
	ttl, now int64
	at       map[int]int64 // unit -> (approximate) instant of its staging
}

func (s *c10NodeShadow) live() []int {
	var out []int
	for u := 0; u < 64; u++ {
		if at, ok := s.at[u]; ok && s.now-at <= s.ttl {
			out = append(out, u)
		}
	}
	return out
}

// c10GenNode: 2–6 rounds of { stage some units — preferably many logs of one upkeep —, look, an outcome that agrees
// on several units of one upkeep mixed with others, later looks }, with time steps up to and across the TTL.
func c10GenNode(r *Rng, ttl, gci int64, em *Emitter) c10Input {
	in := c10Input{Kind: "node", TTL: ttl, GCI: gci, StartDt: int64(r.Intn(3)) * 417 * int64(time.Millisecond)}
	p := c10MakeNodePool(r)
	in.Res = p.res
	sh := &c10NodeShadow{ttl: ttl, now: in.StartDt, at: map[int]int64{}}
	push := func(op c10Op) {
		sh.now += op.Dt
		if op.K == "stage" {
			// the flow's ticker started with the instance: the payloads are taken at the next whole interval
			at := in.StartDt + ((sh.now-in.StartDt)/c10LogTick+1)*c10LogTick
			for _, i := range op.Rs {
				for u, un := range p.units {
					if un.wid == p.res[i].WID {
						if old, ok := sh.at[u]; !ok || at-old > ttl {
							sh.at[u] = at
						}
					}
				}
			}
		}
		sh.now += op.Delay
		if op.K == "obs" {
			for _, i := range op.Rs {
				for u, un := range p.units {
					if un.wid == p.res[i].WID {
						delete(sh.at, u)
					}
				}
			}
		}
		em.Hit("node op=" + op.K)
		in.Ops = append(in.Ops, op)
	}
	dt := func() int64 {
		live := sh.live()
		switch x := r.Intn(100); {
		case x < 25:
			return 0
		case x < 40:
			return int64(r.Range(1, 1000))
		case x < 65:
			return int64(r.Range(0, 12))*int64(time.Second) + int64(r.Intn(1000))*int64(time.Millisecond)
		case x < 88 && len(live) > 0:
			d := sh.at[live[r.Intn(len(live))]] + ttl + []int64{-1, 0, 1, 2}[r.Intn(4)] - sh.now
			if d > 0 {
				em.Hit("node dt=ttl-boundary")
				return d
			}
			return int64(r.Range(1, 50))
		case x < 94:
			return ttl/2 + int64(r.U64()%uint64(ttl/2+1))
		}
		return int64(r.Range(1, 40)) * int64(time.Second)
	}
	look := func() {
		op := c10Op{K: "obs", Dt: dt(), Rs: []int{}}
		if r.Bool() {
			op.Ctx = "first"
		}
		push(op)
	}
	anyVar := func(u int) int { v := p.units[u].vars; return v[r.Intn(len(v))] }
	stageable := func() (out []int) {
		for u, un := range p.units {
			if un.log {
				out = append(out, u)
			}
		}
		return
	}()
	rounds := r.Range(2, 6)
	maxAgreedOfOne := 0
	for k := 0; k < rounds; k++ {
		// ---- stage
		if k == 0 || r.Chance(75) {
			pick := map[int]bool{}
			if k == 0 || r.Chance(70) { // many logs of one upkeep
				f := p.fams[r.Intn(len(p.fams))]
				m := len(f)
				if k > 0 && m > 2 {
					m = r.Range(2, m)
				}
				for _, j := range r.Perm(len(f))[:m] {
					pick[f[j]] = true
				}
			}
			for i, m := 0, r.Intn(5); i < m; i++ {
				pick[stageable[r.Intn(len(stageable))]] = true
			}
			var us []int
			for _, u := range stageable {
				if pick[u] {
					us = append(us, u)
				}
			}
			op := c10Op{K: "stage", Dt: dt(), Delay: c10LogTick}
			for _, j := range r.Perm(len(us)) {
				op.Rs = append(op.Rs, anyVar(us[j])) // one result per unit and op: the runner answers in any order
			}
			push(op)
			em.Hit(fmt.Sprintf("node staged=%d", bucket(len(op.Rs))))
		}
		if r.Chance(50) {
			look()
		}
		// ---- an outcome
		live := sh.live()
		agreed := map[int]bool{}
		byFam := map[int][]int{}
		for _, u := range live {
			if f := p.units[u].fam; f >= 0 {
				byFam[f] = append(byFam[f], u)
			}
		}
		best := -1
		for f := range p.fams { // a family with several live units, if there is one
			if len(byFam[f]) >= 2 && (best < 0 || r.Bool()) {
				best = f
			}
		}
		if best >= 0 && r.Chance(85) {
			f := byFam[best]
			m := len(f)
			if m > 10 {
				m = 10
			}
			if m > 2 && r.Chance(60) {
				m = r.Range(2, m)
			}
			for _, j := range r.Perm(len(f))[:m] {
				agreed[f[j]] = true
			}
			if m > maxAgreedOfOne {
				maxAgreedOfOne = m
			}
		}
		for i, m := 0, r.Intn(4); i < m && len(live) > 0; i++ {
			agreed[live[r.Intn(len(live))]] = true
		}
		for i, m := 0, r.Intn(3); i < m; i++ { // staged elsewhere, gone already, or never here
			agreed[r.Intn(len(p.units))] = true
		}
		var us []int
		for u := range p.units {
			if agreed[u] {
				us = append(us, u)
			}
		}
		op := c10Op{K: "obs", Dt: dt(), Rs: []int{}}
		for _, j := range r.Perm(len(us)) {
			op.Rs = append(op.Rs, anyVar(us[j]))
		}
		push(op)
		// ---- what later observations show
		for i, m := 0, r.Range(1, 2); i < m; i++ {
			look()
		}
	}
	em.Hit(fmt.Sprintf("node rounds=%d", rounds))
	em.Hit(fmt.Sprintf("node units=%d", bucket(len(p.units))))
	em.Hit(fmt.Sprintf("node agreed-of-one-upkeep=%d", maxAgreedOfOne))
	return in
}

// c10NodeEdge: hand-written node histories.
func c10NodeEdge(ttl, gci int64) []c10Input {
	r := NewRng(202020)
	taken := map[string]bool{}
	isTaken := func(w string) bool { return taken[w] }
	var res []JCR
	put := func(c ocr2keepers.CheckResult) int {
		taken[c.WorkID] = true
		res = append(res, toJCR(c))
		return len(res) - 1
	}
	first := genResult(r, genUpkeepID(r, true), 500)
	fam := []int{put(first)}
	for i := 0; i < 9; i++ {
		fam = append(fam, put(c10Sibling(r, first, isTaken)))
	}
	higher := first
	higher.Trigger.BlockNumber = 501
	higher.Trigger.BlockHash = genHash(r)
	higher.PerformData = []byte{0x51}
	hi := put(higher) // the first log again, checked one block later
	nearID := first.UpkeepID
	nearID[31] ^= 1
	near := put(genResult(r, nearID, 500))
	single := put(genResult(r, genUpkeepID(r, true), 500))
	cond := put(genResult(r, genUpkeepID(r, false), 500))
	sec := int64(time.Second)
	stage := func(dt int64, ix ...int) c10Op { return c10Op{K: "stage", Dt: dt, Rs: ix, Delay: c10LogTick} }
	obs := func(dt int64, ix ...int) c10Op {
		if ix == nil {
			ix = []int{}
		}
		return c10Op{K: "obs", Dt: dt, Rs: ix}
	}
	look := func(dt int64) c10Op { return c10Op{K: "obs", Dt: dt, Rs: []int{}, Ctx: "first"} }
	mk := func(ops ...c10Op) c10Input { return c10Input{Kind: "node", TTL: ttl, GCI: gci, Res: res, Ops: ops} }
	return []c10Input{
		// two logs of one upkeep agreed in one round, the third and the others stay until their own round / the TTL
		mk(stage(137, fam[0], fam[1], fam[2], near, single), look(1), obs(sec, fam[1], cond, fam[0]), look(1), look(3*sec),
			obs(sec, fam[2], single), look(1), look(ttl), look(sec)),
		// all ten logs of one upkeep staged, ten agreed at once in another order with foreign results in between
		mk(stage(1, fam...), look(1), obs(1, fam[9], fam[3], cond, fam[0], fam[7], near, fam[1], fam[8], fam[2], fam[6], fam[5], fam[4]), look(0), look(2*sec)),
		// agreed at another check block than staged; staged again after the agreement (lower block) and agreed again
		mk(stage(1, hi, fam[1]), obs(1, fam[0], fam[1]), look(0), stage(1, fam[0], fam[1]), look(1), obs(1, fam[1], hi), look(0)),
		// an upkeep id one bit away is another upkeep: agreeing on its result removes nothing of the family
		mk(stage(1, fam[0], fam[1], near), obs(1, near), look(0), obs(1, fam[1]), look(0), obs(1, fam[0]), look(0)),
		// the TTL at the node: staged at the flow's tick, viewed at age ttl and ttl+1
		mk(stage(0, fam[0], fam[1]), look(ttl-1), look(1), look(1), obs(0, fam[0], fam[1]), look(0)),
	}
}
