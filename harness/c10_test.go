package harness

import (
	"bytes"
	"context"
	"encoding/json"
	"fmt"
	"log"
	"runtime"
	"strings"
	"sync"
	"sync/atomic"
	"testing"
	"testing/synctest"
	"time"

	ocr2keepersv3 "github.com/smartcontractkit/chainlink-automation/pkg/v3"
	"github.com/smartcontractkit/chainlink-automation/pkg/v3/flows"
	"github.com/smartcontractkit/chainlink-automation/pkg/v3/plugin/hooks"
	"github.com/smartcontractkit/chainlink-automation/pkg/v3/postprocessors"
	"github.com/smartcontractkit/chainlink-automation/pkg/v3/stores"
	ocr2keepers "github.com/smartcontractkit/chainlink-common/pkg/types/automation"
)

// C10 — Staged results kept until agreed, replaced only by newer checks, never doubled.
//
// The real store (stores.New) with its GC goroutine (Start) runs inside a
// synctest bubble; adds also go through eligiblePostProcessor.PostProcess and
// removals through RemoveFromStagingHook.RunHook.  The TTL is an unexported
// package variable: it is *measured* once per run by black-box probing in
// virtual time (c10Calibrate) and passed to the model, which cross-checks it
// against the extracted constant.  Since "fix: result store: an expired, not
// yet collected entry no longer blocks a new result" the collector cannot be
// observed through Add/Remove/View any more (Props/C10 gc_transparent), so its
// interval cannot be measured; the generator aims at the ticks of the interval
// the design assumes (c10AssumedGCI) and the model takes the extracted constant.
// A probe (c10DeadEntryBlocks) records whether the pre-fix behaviour is back.
//
// A unit of work is not an upkeep: the pools (c10MakePool) span the identity dimensions of results — several work
// ids of one upkeep (2–10 logs of a log-trigger upkeep), one work id at several check blocks, one check block with
// several hashes, log block numbers that are not part of the identity, upkeep ids one bit apart, and (the store's
// keys being plain strings) work ids that share long prefixes, contain one another or differ in case only — and
// outcomes handed to the hook agree on several results of one upkeep at once, mixed with others, in any order.
// The same histories at the level of one node (plugin instance from the public factory: log flow -> runner ->
// eligible post-processor -> store; Observation with a previous outcome -> RemoveFromStagingHook -> the view inside
// the observation) are in c10_node_test.go.
//
// Input: a table of results and a list of operations referring to it by index;
// every operation carries the virtual nanoseconds slept before it.  A "burst"
// operation runs several goroutines (un-timed, same virtual instant) and
// records invocation/response stamps from one global atomic counter, which the
// driver uses for an exact, bounded linearizability search against the model.

type c10Op struct {
	K  string `json:"k"`            // add | padd | flow | rm | hook | view | burst ; node cases (c10_node_test.go): stage | obs
	Dt int64  `json:"dt"`           // virtual ns slept before the operation (main goroutine only)
	Rs []int  `json:"rs,omitempty"` // add / padd / flow / hook: indices into Input.Res
	// padd: the context handed to PostProcess: "" live, "done" cancelled before the call, "expired" deadline
	// already passed, "cancel" cancelled right after the N-th Add of this batch reached the store
	Ctx string `json:"ctx,omitempty"`
	N   int    `json:"n,omitempty"`
	// flow: Observer.Process (ObservationProcessLimit) -> runner answering after Delay virtual ns -> combined
	// post-processor{eligible} -> store; main sequence only (the call takes Delay ns of virtual time)
	Delay int64     `json:"delay,omitempty"`
	Ids   []string  `json:"ids,omitempty"` // rm
	Y     bool      `json:"y,omitempty"`   // burst member: yield the processor before the call
	Th    [][]c10Op `json:"th,omitempty"`  // burst: one list per goroutine
}

type c10Input struct {
	TTL     int64   `json:"ttl"`     // observed storeTTL (ns)
	GCI     int64   `json:"gci"`     // assumed gcInterval (ns): only used to aim time steps at ticks
	StartDt int64   `json:"startDt"` // virtual ns between bubble start and Start()
	Res     []JCR   `json:"res"`
	Ops     []c10Op `json:"ops"`
	// Kind "gc-race": no history; the GC-vs-Add stress of c10GCRace with these parameters
	// Kind "node": the history runs on a plugin instance built by the public factory (c10_node_test.go)
	Kind string    `json:"kind,omitempty"`
	Race *c10RaceP `json:"race,omitempty"`
}

// a view as returned by the real store: indices into Input.Res for results that
// are byte-identical to a table entry, anything else in full.
type c10View struct {
	Ix      []int `json:"ix"`
	Foreign []JCR `json:"foreign,omitempty"`
}

type c10Call struct {
	Th   int      `json:"th"`
	Ix   int      `json:"ix"`
	Inv  uint64   `json:"inv"`
	Res  uint64   `json:"res"`
	View *c10View `json:"view,omitempty"`
}

type c10OpOut struct {
	At    int64     `json:"at"` // virtual ns since bubble start, read just before the call
	Inv   uint64    `json:"inv"`
	Res   uint64    `json:"res"`
	View  *c10View  `json:"view,omitempty"`
	Calls []c10Call `json:"calls,omitempty"`
	// node cases: the virtual instant at which the log flow of the instance took the staged payloads from the
	// log provider (stage), and the error of the Observation call, if any (obs)
	AddAt int64  `json:"addAt,omitempty"`
	Err   string `json:"err,omitempty"`
}

type c10Impl struct {
	Start int64      `json:"start"` // virtual ns at which Start() created its ticker
	Ops   []c10OpOut `json:"ops"`
}

// ---------------------------------------------------------------- running the real code

type c10Env struct {
	store interface {
		Add(...ocr2keepers.CheckResult)
		Remove(...string)
		View() ([]ocr2keepers.CheckResult, error)
	}
	pp    postprocessors.PostProcessor
	hook  hooks.RemoveFromStagingHook
	res   []ocr2keepers.CheckResult
	index map[string]int
	ctr   atomic.Uint64
}

func c10Key(j JCR) string { b, _ := json.Marshal(j); return string(b) }

func (e *c10Env) pick(ix []int) []ocr2keepers.CheckResult {
	out := make([]ocr2keepers.CheckResult, 0, len(ix))
	for _, i := range ix {
		out = append(out, e.res[i])
	}
	return out
}

func (e *c10Env) canonView(rs []ocr2keepers.CheckResult) *c10View {
	v := &c10View{Ix: []int{}}
	for _, r := range rs {
		j := toJCR(r)
		if i, ok := e.index[c10Key(j)]; ok {
			v.Ix = append(v.Ix, i)
		} else {
			v.Foreign = append(v.Foreign, j)
		}
	}
	return v
}

// exec performs one non-burst operation on the real code and returns the view, if any.
func (e *c10Env) exec(op c10Op) *c10View {
	switch op.K {
	case "add":
		e.store.Add(e.pick(op.Rs)...)
	case "padd":
		ctx, cancel := context.WithCancel(context.Background())
		pp := e.pp
		switch op.Ctx {
		case "done":
			cancel()
		case "expired":
			cancel()
			ctx, cancel = context.WithDeadline(context.Background(), time.Now().Add(-time.Nanosecond))
		case "cancel":
			pp = postprocessors.NewEligiblePostProcessor(&c10CancellingAdder{inner: e.store, cancel: cancel, after: int32(op.N)}, quietLogger)
		}
		_ = pp.PostProcess(ctx, e.pick(op.Rs), nil)
		cancel()
	case "flow":
		rs := e.pick(op.Rs)
		ps := make([]ocr2keepers.UpkeepPayload, len(rs))
		for i, r := range rs {
			ps[i] = ocr2keepers.UpkeepPayload{UpkeepID: r.UpkeepID, Trigger: r.Trigger, WorkID: r.WorkID}
		}
		obs := ocr2keepersv3.NewRunnableObserver(nil, postprocessors.NewCombinedPostprocessor(e.pp),
			c10SlowRunner{delay: time.Duration(op.Delay), results: rs}, flows.ObservationProcessLimit, quietLogger)
		_ = obs.Process(context.Background(), c10Tick{ps})
	case "rm":
		e.store.Remove(op.Ids...)
	case "hook":
		e.hook.RunHook(ocr2keepersv3.AutomationOutcome{AgreedPerformables: e.pick(op.Rs)})
	case "view":
		rs, _ := e.store.View()
		return e.canonView(rs)
	default:
		panic("c10: unknown op " + op.K)
	}
	return nil
}

// c10CancellingAdder forwards to the store and ends the context of the pipeline run right after the
// `after`-th Add of the batch (ticker closed / process limit hit between two results).
type c10CancellingAdder struct {
	inner interface {
		Add(...ocr2keepers.CheckResult)
	}
	cancel context.CancelFunc
	after  int32
	n      atomic.Int32
}

func (a *c10CancellingAdder) Add(rs ...ocr2keepers.CheckResult) {
	a.inner.Add(rs...)
	if a.n.Add(1) == a.after {
		a.cancel()
	}
}

type c10Tick struct{ payloads []ocr2keepers.UpkeepPayload }

func (t c10Tick) Value(context.Context) ([]ocr2keepers.UpkeepPayload, error) { return t.payloads, nil }

// c10SlowRunner: a check pipeline whose call does not abort on ctx and answers after `delay` (virtual) —
// possibly after the observer's process limit.  A collector tick due at the instant it answers runs first.
type c10SlowRunner struct {
	delay   time.Duration
	results []ocr2keepers.CheckResult
}

func (r c10SlowRunner) CheckUpkeeps(context.Context, ...ocr2keepers.UpkeepPayload) ([]ocr2keepers.CheckResult, error) {
	if r.delay > 0 {
		time.Sleep(r.delay)
		synctest.Wait()
	}
	return r.results, nil
}

// c10Run executes the history inside the current bubble.
func c10Run(t *testing.T, in c10Input) c10Impl {
	t0 := time.Now()
	st := stores.New(quietLogger)
	env := &c10Env{store: st, pp: postprocessors.NewEligiblePostProcessor(st, quietLogger),
		hook: hooks.NewRemoveFromStagingHook(st, quietLogger), res: fromJCRs(in.Res), index: map[string]int{}}
	for i, j := range in.Res {
		if _, dup := env.index[c10Key(j)]; !dup {
			env.index[c10Key(j)] = i
		}
	}
	if in.StartDt > 0 {
		time.Sleep(time.Duration(in.StartDt))
	}
	stopped := make(chan struct{})
	go func() {
		_ = st.Start(context.Background())
		close(stopped)
	}()
	synctest.Wait() // the GC goroutine has created its ticker and waits for the first tick
	impl := c10Impl{Start: int64(time.Since(t0)), Ops: make([]c10OpOut, 0, len(in.Ops))}
	for _, op := range in.Ops {
		if op.Dt > 0 {
			time.Sleep(time.Duration(op.Dt))
		}
		// a GC tick due at this very instant runs before the operation (all other goroutines durably blocked)
		synctest.Wait()
		out := c10OpOut{At: int64(time.Since(t0))}
		if op.K == "burst" {
			out.Inv = env.ctr.Add(1)
			out.Calls = env.burst(op.Th)
			out.Res = env.ctr.Add(1)
		} else {
			out.Inv = env.ctr.Add(1)
			out.View = env.exec(op)
			out.Res = env.ctr.Add(1)
		}
		impl.Ops = append(impl.Ops, out)
	}
	_ = st.Close()
	<-stopped
	synctest.Wait()
	return impl
}

// burst runs the goroutines' operation lists concurrently at one virtual instant.
func (e *c10Env) burst(th [][]c10Op) []c10Call {
	var wg sync.WaitGroup
	var arrived atomic.Int32 // spin barrier: all goroutines are running before the first call is issued
	per := make([][]c10Call, len(th))
	for g := range th {
		wg.Add(1)
		go func(g int) {
			defer wg.Done()
			arrived.Add(1)
			for spin := 0; arrived.Load() < int32(len(th)); spin++ {
				if spin > 1<<22 { // fewer processors than goroutines: let the others start
					runtime.Gosched()
				}
			}
			for ix, op := range th[g] {
				if op.Y {
					runtime.Gosched()
				}
				c := c10Call{Th: g, Ix: ix}
				c.Inv = e.ctr.Add(1)
				c.View = e.exec(op)
				c.Res = e.ctr.Add(1)
				per[g] = append(per[g], c)
			}
		}(g)
	}
	wg.Wait()
	var out []c10Call
	for _, p := range per {
		out = append(out, p...)
	}
	return out
}

// ---------------------------------------------------------------- observing TTL and GC interval

func c10Probe(t *testing.T, f func() bool) (ok bool) {
	synctest.Test(t, func(t *testing.T) { ok = f() })
	return ok
}

// smallest x in (lo, hi] with p(x), given !p(lo) and p monotone; -1 if !p(hi)
func c10Least(lo, hi int64, p func(int64) bool) int64 {
	if !p(hi) {
		return -1
	}
	for hi-lo > 1 {
		mid := lo + (hi-lo)/2
		if p(mid) {
			hi = mid
		} else {
			lo = mid
		}
	}
	return hi
}

const c10AssumedGCI = int64(30 * time.Second)

func c10ProbeResults() (hi, lo ocr2keepers.CheckResult) {
	r := NewRng(99)
	uid := genUpkeepID(r, false)
	return genResult(r, uid, 10), genResult(r, uid, 5)
}

// c10Calibrate measures storeTTL of the code under test in virtual time.  If it cannot be
// measured (no expiry observed) the value the design assumes is used, with a note: the
// generated cases then show the deviation.
func c10Calibrate(t *testing.T) (ttl int64, note string) {
	ttl = int64(5 * time.Minute)
	hi, lo := c10ProbeResults()
	if hi.WorkID != lo.WorkID {
		t.Fatalf("c10: work id depends on the check block")
	}
	// expired(d): a result added d ns ago is no longer viewed   (d > ttl)
	expired := func(d int64) bool {
		return c10Probe(t, func() bool {
			st := stores.New(quietLogger)
			st.Add(hi)
			time.Sleep(time.Duration(d))
			v, _ := st.View()
			return len(v) == 0
		})
	}
	if expired(0) {
		return ttl, "a result is not viewed 0 ns after Add"
	}
	d := c10Least(0, 1<<55, expired)
	if d < 0 {
		return ttl, "no expiry within 2^55 ns"
	}
	return d - 1, ""
}

// c10DeadEntryBlocks: does an entry one ns past its TTL (collector not started) still reject a
// lower check block?  true = the behaviour before efb208c.
func c10DeadEntryBlocks(t *testing.T, ttl int64) bool {
	hi, lo := c10ProbeResults()
	return c10Probe(t, func() bool {
		st := stores.New(quietLogger)
		st.Add(hi)
		time.Sleep(time.Duration(ttl + 1))
		st.Add(lo)
		v, _ := st.View()
		return len(v) == 0
	})
}

// ---------------------------------------------------------------- GC tick vs Add, truly concurrent

// c10LogSpy is the writer behind the store's logger: it notes the virtual instants at which
// gc() announces itself ("Garbage collecting result store") and counts them, so that the
// collector's ticks can be observed although no view depends on them.
type c10LogSpy struct {
	t0    time.Time
	seen  atomic.Int64
	mu    sync.Mutex
	ticks []int64
}

func (w *c10LogSpy) Write(p []byte) (int, error) {
	if bytes.Contains(p, []byte("arbage collecting")) {
		at := int64(time.Since(w.t0))
		w.mu.Lock()
		w.ticks = append(w.ticks, at)
		w.mu.Unlock()
		w.seen.Add(1)
	}
	return len(p), nil
}

// c10ObserveGCI reads the collector's interval off its log lines; 0 if nothing was logged.
func c10ObserveGCI(t *testing.T) (gci int64) {
	synctest.Test(t, func(t *testing.T) {
		spy := &c10LogSpy{t0: time.Now()}
		st := stores.New(log.New(spy, "", 0))
		stopped := make(chan struct{})
		go func() { _ = st.Start(context.Background()); close(stopped) }()
		synctest.Wait()
		time.Sleep(6 * time.Hour)
		synctest.Wait()
		_ = st.Close()
		<-stopped
		if len(spy.ticks) >= 2 && spy.ticks[1]-spy.ticks[0] == spy.ticks[0] {
			gci = spy.ticks[0]
		}
	})
	return gci
}

type c10RaceP struct {
	IDs     int    `json:"ids"`     // work ids staged and re-added each round
	Adders  int    `json:"adders"`  // goroutines that wake at the instant of the tick
	Rounds  int    `json:"rounds"`  // race ticks per bubble
	Bubbles int    `json:"bubbles"` // stores
	Seed    uint64 `json:"seed"`
}

type c10RaceImpl struct {
	Trials      int   `json:"trials"`      // race ticks
	Lost        int   `json:"lost"`        // race ticks after which a fresh result was missing
	LostResults int   `json:"lostResults"` // fresh results missing in total
	OnTick      int   `json:"onTick"`      // race ticks at whose instant gc() announced itself (power of the test)
	Period      int64 `json:"period"`      // virtual ns between race ticks
}

// c10GCRaceBubble: one store, `Rounds` encounters of a GC tick with Adds for work ids whose
// entries have outlived the TTL but were not collected yet.  The entries of round r are staged
// at the instant of race tick r (period P = the first tick after the TTL) and are exactly the
// dead, uncollected victims of race tick r+1.  Adders sleep until the very instant of the tick,
// so the collector goroutine and the adders are runnable together; every other adder
// additionally spins (un-timed, bounded) until gc() has announced itself, which puts its Add
// between a scan and an eviction if the two are not one critical section.  Whichever of
// gc / Add gets the lock first, the fresh result must be in the view taken afterwards.
func c10GCRaceBubble(t *testing.T, ttl, gci int64, p c10RaceP, r *Rng, out *c10RaceImpl) {
	period := (ttl/gci + 1) * gci
	out.Period = period
	spy := &c10LogSpy{t0: time.Now()}
	st := stores.New(log.New(spy, "", 0))
	stopped := make(chan struct{})
	go func() { _ = st.Start(context.Background()); close(stopped) }()
	synctest.Wait()
	base := make([]ocr2keepers.CheckResult, p.IDs)
	for i := range base {
		base[i] = genResult(r, genUpkeepID(r, i%2 == 0), 1000)
	}
	fresh := func(i, round int) ocr2keepers.CheckResult {
		c := base[i]
		c.Trigger.BlockNumber = ocr2keepers.BlockNumber(1000 - round/2) // equal, then lower, than the dead entry's
		c.PerformData = []byte{byte(round), byte(round >> 8), byte(i)}
		return c
	}
	for i := range base {
		st.Add(fresh(i, 0)) // at virtual 0 = Start: dead at tick `period`, not yet at the tick before
	}
	until := func(at int64) { time.Sleep(time.Duration(at) - time.Since(spy.t0)) }
	var wg sync.WaitGroup
	for g := 0; g < p.Adders; g++ {
		wg.Add(1)
		go func(g int) {
			defer wg.Done()
			for round := 1; round <= p.Rounds; round++ {
				at := int64(round) * period
				until(at)
				if g%2 == 1 { // wait (bounded) for the collector to be inside gc()
					want := at / gci
					for spin := 0; spy.seen.Load() < want && spin < 1<<22; spin++ {
					}
				}
				for i := g; i < p.IDs; i += p.Adders {
					st.Add(fresh(i, round))
				}
			}
		}(g)
	}
	for round := 1; round <= p.Rounds; round++ {
		at := int64(round) * period
		until(at)
		synctest.Wait() // the tick's gc() and every adder of this round are done
		out.Trials++
		spy.mu.Lock()
		if n := len(spy.ticks); n > 0 && spy.ticks[n-1] == at {
			out.OnTick++
		}
		spy.mu.Unlock()
		v, _ := st.View()
		have := map[string]bool{}
		for _, c := range v {
			have[c10Key(toJCR(c))] = true
		}
		miss := 0
		for i := range base {
			if !have[c10Key(toJCR(fresh(i, round)))] {
				miss++
			}
		}
		if miss > 0 {
			out.Lost++
			out.LostResults += miss
		}
	}
	wg.Wait()
	_ = st.Close()
	<-stopped
}

func c10GCRace(t *testing.T, ttl, gci int64, p c10RaceP) c10RaceImpl {
	var out c10RaceImpl
	r := NewRng(p.Seed)
	for b := 0; b < p.Bubbles; b++ {
		synctest.Test(t, func(t *testing.T) { c10GCRaceBubble(t, ttl, gci, p, r, &out) })
	}
	return out
}

// ---------------------------------------------------------------- generator

// c10Shadow approximates the store for the generator only (to aim at decision boundaries).
type c10Shadow struct {
	ttl, gci, start, now int64
	m                    map[string]struct {
		blk uint64
		at  int64
	}
}

func (s *c10Shadow) nextTick() int64 {
	if s.now < s.start {
		return s.start + s.gci
	}
	k := (s.now-s.start)/s.gci + 1
	return s.start + k*s.gci
}
func (s *c10Shadow) advance(dt int64) {
	to := s.now + dt
	for tk := s.nextTick(); tk <= to; tk += s.gci {
		for k, v := range s.m {
			if tk-v.at > s.ttl {
				delete(s.m, k)
			}
		}
	}
	s.now = to
}
func (s *c10Shadow) add(wid string, blk uint64) {
	if v, ok := s.m[wid]; !ok || v.blk < blk {
		s.m[wid] = struct {
			blk uint64
			at  int64
		}{blk, s.now}
	}
}

type c10Pool struct {
	res   []JCR
	wids  []string
	byWid map[string][]int // indices of eligible results per work id
	blkOf []uint64
	bad   []int // ineligible / failed-pipeline results (only the post-processor may see them)
	// identities: a unit of work is NOT an upkeep — a log-trigger upkeep has one work id per log
	uidOf map[string]string   // work id -> upkeep id (hex)
	byUID map[string][]string // upkeep id -> its work ids, in pool order
	mode  int
}

// identity layouts of a pool's units of work
const (
	c10Plain     = iota // every work id belongs to an upkeep of its own
	c10Families         // log-trigger upkeeps with several logs each (one work id per log) next to other upkeeps
	c10Synthetic        // work ids are free strings: long common prefixes, one a prefix of another, case variants
)

// block numbers at and around 2^31, 2^32, 2^53, 2^63 and the ends of the uint64 range
var c10WideBlocks = []uint64{0, 1, 5, 1<<31 - 1, 1 << 31, 1<<32 - 1, 1 << 32, 1<<53 - 1, 1<<53 + 1,
	1<<63 - 1, 1 << 63, 1<<63 + 1, 1<<63 + 5, 1<<63 + 10, 1<<64 - 8, 1<<64 - 2, 1<<64 - 1}

// c10NextBase: the next unit of work of a pool — a fresh upkeep or, in the layouts other than c10Plain, one that
// shares part of its identity with an earlier unit: the upkeep (another log of the same log-trigger upkeep: another
// transaction, the same transaction and a later log index, the same transaction and index in another block — a
// re-org), or all of the upkeep id but one bit.
func c10NextBase(r *Rng, mode int, prev []ocr2keepers.CheckResult) ocr2keepers.CheckResult {
	taken := func(w string) bool {
		for _, b := range prev {
			if b.WorkID == w {
				return true
			}
		}
		return false
	}
	var logs []ocr2keepers.CheckResult
	for _, b := range prev {
		if b.Trigger.LogTriggerExtension != nil {
			logs = append(logs, b)
		}
	}
	if mode != c10Plain && len(logs) > 0 && r.Chance(70) {
		b := logs[r.Intn(len(logs))]
		if r.Chance(50) {
			b = logs[0] // one family grows large
		}
		return c10Sibling(r, b, taken)
	}
	if mode != c10Plain && len(prev) > 0 && r.Chance(40) {
		uid := prev[r.Intn(len(prev))].UpkeepID
		uid[[]int{0, 3, 16, 30, 31}[r.Intn(5)]] ^= byte(1) << r.Intn(8) // never the type byte (15)
		if c := genResult(r, uid, 1000); !taken(c.WorkID) {
			return c
		}
	}
	return genResult(r, genUpkeepID(r, (mode == c10Families && len(logs) == 0) || r.Chance(50)), 1000)
}

// c10Sibling: another log of b's (log-trigger) upkeep — a different unit of work of the same upkeep.
func c10Sibling(r *Rng, b ocr2keepers.CheckResult, taken func(string) bool) ocr2keepers.CheckResult {
	for {
		c := genResult(r, b.UpkeepID, uint64(b.Trigger.BlockNumber))
		ext := *b.Trigger.LogTriggerExtension
		switch r.Intn(4) {
		case 0: // unrelated log of the same upkeep
			ext = *c.Trigger.LogTriggerExtension
		case 1: // a later log of the same transaction
			ext.Index += uint32(1 + r.Intn(3))
		case 2: // same transaction and index, seen in another block
			ext.BlockHash = genHash(r)
		default: // same block, another transaction
			ext.TxHash = genHash(r)
		}
		c.Trigger.LogTriggerExtension = &ext
		c.WorkID = wg(c.UpkeepID, c.Trigger)
		if !taken(c.WorkID) {
			return c
		}
	}
}

// c10SyntheticWid: the store's keys are strings and nothing else; ids that differ late, contain one another or
// differ in case only are different units of work.
func c10SyntheticWid(r *Rng, stem string, taken map[string]bool) string {
	for try := 0; ; try++ {
		var w string
		switch r.Intn(6) {
		case 0:
			w = stem[:len(stem)-1] + string("0123456789abcdef"[r.Intn(16)])
		case 1:
			w = stem[:len(stem)-1-r.Intn(8)] // a proper prefix
		case 2:
			w = stem + string("0123456789abcdef"[r.Intn(16)]) // the stem is a proper prefix of it
		case 3:
			w = strings.ToUpper(stem)
		case 4:
			w = stem[:len(stem)-2] + string("0123456789abcdef"[r.Intn(16)]) + stem[len(stem)-1:]
		default:
			w = string("0123456789abcdef"[r.Intn(16)]) + stem[1:]
		}
		if try > 40 {
			w = fmt.Sprintf("%s%x", stem[:len(stem)-8], r.U64()%(1<<32))
		}
		if !taken[w] {
			return w
		}
	}
}

func c10MakePool(r *Rng, nIDs int) *c10Pool {
	mode := c10Plain
	switch x := r.Intn(100); {
	case x < 35:
		mode = c10Families
		if r.Chance(60) { // room for 2–10 logs of one upkeep next to other upkeeps
			nIDs += r.Range(2, 8)
		}
	case x < 45:
		mode = c10Synthetic
		nIDs += r.Intn(3)
	}
	return c10MakePoolMode(r, nIDs, mode)
}

func c10MakePoolMode(r *Rng, nIDs int, mode int) *c10Pool {
	p := &c10Pool{byWid: map[string][]int{}, uidOf: map[string]string{}, byUID: map[string][]string{}, mode: mode}
	var bases []ocr2keepers.CheckResult
	takenW := map[string]bool{}
	for i := 0; i < nIDs; i++ {
		base := c10NextBase(r, mode, bases)
		if mode == c10Synthetic {
			if i > 0 {
				base.WorkID = c10SyntheticWid(r, bases[0].WorkID, takenW)
			}
			if i > 0 && r.Chance(30) { // and several of them under one upkeep id
				if o := bases[r.Intn(len(bases))]; (o.Trigger.LogTriggerExtension == nil) == (base.Trigger.LogTriggerExtension == nil) {
					base.UpkeepID = o.UpkeepID
				}
			}
		}
		takenW[base.WorkID] = true
		bases = append(bases, base)
		p.wids = append(p.wids, base.WorkID)
		uid := hx(base.UpkeepID[:])
		p.uidOf[base.WorkID] = uid
		p.byUID[uid] = append(p.byUID[uid], base.WorkID)
		// check blocks of this work id: ordinary neighbours, or values at and across the powers of two a
		// uint64 comparison can go wrong at (pairs up to 2^64-1 apart)
		var blocks []uint64
		if r.Chance(65) {
			b0 := uint64(r.Range(2, 1000))
			for b, nb := 0, r.Range(2, 5); b < nb; b++ {
				blocks = append(blocks, b0+uint64(b))
			}
		} else {
			seen := map[uint64]bool{}
			for len(blocks) < r.Range(2, 5) {
				b := c10WideBlocks[r.Intn(len(c10WideBlocks))]
				if r.Chance(30) {
					b += uint64(r.Intn(7)) // wraps past 2^64-1 on purpose: still a valid uint64
				}
				if !seen[b] {
					seen[b] = true
					blocks = append(blocks, b)
				}
			}
		}
		for _, blk := range blocks {
			for v := 0; v < 1+r.Intn(2); v++ { // same work id and block, different content
				c := base
				c.Trigger.BlockNumber = ocr2keepers.BlockNumber(blk)
				c.Trigger.BlockHash = genHash(r)
				if v > 0 && r.Chance(30) {
					c.Trigger.BlockHash = [32]byte{} // … or the same (zero) hash and different perform data
				}
				if ext := base.Trigger.LogTriggerExtension; ext != nil && r.Chance(25) {
					e := *ext // the log's own block number is not part of its identity
					e.BlockNumber = ocr2keepers.BlockNumber(blk - uint64(r.Intn(3)))
					c.Trigger.LogTriggerExtension = &e
				}
				c.PerformData = r.Bytes(1 + r.Intn(8))
				// flag combinations a pipeline may legally return with state 0 and Eligible: they do not make
				// the result any less eligible
				switch r.Intn(6) {
				case 0:
					c.Retryable = true
				case 1:
					c.IneligibilityReason = uint8(r.Range(1, 9))
				case 2:
					c.Retryable = true
					c.IneligibilityReason = uint8(r.Range(1, 9))
				}
				if mode != c10Synthetic && wg(c.UpkeepID, c.Trigger) != base.WorkID {
					panic("c10: work id depends on the check block")
				}
				p.byWid[base.WorkID] = append(p.byWid[base.WorkID], len(p.res))
				p.res = append(p.res, toJCR(c))
				p.blkOf = append(p.blkOf, blk)
			}
		}
		if r.Chance(60) { // something the eligible post-processor must filter out
			c := base
			blk := blocks[len(blocks)-1] + 9
			c.Trigger.BlockNumber = ocr2keepers.BlockNumber(blk)
			switch r.Intn(4) {
			case 0:
				c.Eligible = false
				c.IneligibilityReason = 1
			case 1:
				c.Eligible = false
				c.Retryable = true
			case 2:
				c.PipelineExecutionState = uint8(r.Range(1, 3))
				c.Retryable = r.Bool()
			default:
				c.PipelineExecutionState = uint8(r.Range(1, 3))
			}
			p.bad = append(p.bad, len(p.res))
			p.res = append(p.res, toJCR(c))
			p.blkOf = append(p.blkOf, blk)
		}
	}
	return p
}

// family returns the work ids that share wid's upkeep id (wid included), in pool order.
func (p *c10Pool) family(wid string) []string { return p.byUID[p.uidOf[wid]] }

// c10GenAgreed: the agreed performables of one outcome, as the hook receives them: one result, or several — of
// ONE upkeep (2–10 logs of a log-trigger upkeep agreed in the same round) mixed with results of other upkeeps, in
// any order; now and then the same result twice (nothing at the hook forbids it).
func c10GenAgreed(r *Rng, p *c10Pool, wid string) []int {
	if r.Chance(30) {
		return []int{p.anyOf(r, wid)}
	}
	fam := p.family(wid)
	if len(fam) < 2 && r.Chance(70) { // prefer an upkeep with several units of work
		for _, w := range p.wids {
			if len(p.family(w)) > len(fam) {
				fam = p.family(w)
			}
		}
	}
	var rs []int
	k := len(fam)
	if k > 10 {
		k = 10
	}
	if k > 2 {
		k = r.Range(2, k)
	}
	for _, j := range r.Perm(len(fam))[:k] {
		rs = append(rs, p.anyOf(r, fam[j]))
	}
	for i, n := 0, r.Intn(4); i < n; i++ {
		rs = append(rs, p.anyOf(r, p.wids[r.Intn(len(p.wids))]))
	}
	if r.Chance(10) {
		rs = append(rs, rs[r.Intn(len(rs))])
	}
	out := make([]int, len(rs))
	for i, j := range r.Perm(len(rs)) {
		out[i] = rs[j]
	}
	return out
}

func (p *c10Pool) anyOf(r *Rng, wid string) int { l := p.byWid[wid]; return l[r.Intn(len(l))] }

// relTo picks a result of wid whose block is below / equal / above blk when one exists.
func (p *c10Pool) relTo(r *Rng, wid string, blk uint64, rel int) int {
	var c []int
	for _, i := range p.byWid[wid] {
		b := p.blkOf[i]
		if (rel < 0 && b < blk) || (rel == 0 && b == blk) || (rel > 0 && b > blk) {
			c = append(c, i)
		}
	}
	if len(c) == 0 {
		return p.anyOf(r, wid)
	}
	return c[r.Intn(len(c))]
}

func c10GenOp(r *Rng, p *c10Pool, sh *c10Shadow, focus string, seq bool) c10Op {
	wid := p.wids[r.Intn(len(p.wids))]
	if focus != "" && r.Chance(70) {
		wid = focus
	}
	pickAdd := func() int {
		if v, ok := sh.m[wid]; ok {
			return p.relTo(r, wid, v.blk, r.Intn(3)-1)
		}
		return p.anyOf(r, wid)
	}
	x := r.Intn(100)
	switch {
	case x < 33:
		op := c10Op{K: "add"}
		n := 1
		if r.Chance(25) {
			n = r.Range(2, 3)
		}
		for i := 0; i < n; i++ {
			if i > 0 && r.Chance(60) {
				wid = p.wids[r.Intn(len(p.wids))]
			}
			op.Rs = append(op.Rs, pickAdd())
		}
		return op
	case x < 43:
		op := c10Op{K: "padd", Rs: []int{pickAdd()}}
		if seq && r.Chance(25) {
			// the whole observer pipeline; the check answers around the process limit
			lim := int64(flows.ObservationProcessLimit)
			op.K = "flow"
			op.Delay = []int64{0, 1, lim - 1, lim, lim + 1, lim + int64(r.Range(1, 9))*int64(time.Second)}[r.Intn(6)]
		} else if r.Chance(55) {
			op.Ctx = []string{"done", "expired", "cancel"}[r.Intn(3)]
		}
		for i, n := 0, r.Intn(4); i < n; i++ { // a batch over several work ids
			wid = p.wids[r.Intn(len(p.wids))]
			op.Rs = append(op.Rs, pickAdd())
		}
		if len(p.bad) > 0 && r.Chance(60) {
			op.Rs = append(op.Rs, p.bad[r.Intn(len(p.bad))])
			j := r.Intn(len(op.Rs))
			op.Rs[j], op.Rs[len(op.Rs)-1] = op.Rs[len(op.Rs)-1], op.Rs[j]
		}
		if op.Ctx == "cancel" {
			op.N = r.Range(1, len(op.Rs))
		}
		return op
	case x < 53:
		op := c10Op{K: "rm", Ids: []string{wid}}
		if r.Chance(20) {
			op.Ids = append(op.Ids, fmt.Sprintf("%064x", r.U64())) // unknown id
		}
		if r.Chance(20) {
			op.Ids = append(op.Ids, p.wids[r.Intn(len(p.wids))])
		}
		if fam := p.family(wid); len(fam) > 1 && r.Chance(25) { // other units of work of the same upkeep
			for _, j := range r.Perm(len(fam))[:r.Range(1, len(fam))] {
				op.Ids = append(op.Ids, fam[j])
			}
		}
		return op
	case x < 61:
		return c10Op{K: "hook", Rs: c10GenAgreed(r, p, wid)}
	}
	return c10Op{K: "view"}
}

func (sh *c10Shadow) apply(p *c10Pool, op c10Op) {
	switch op.K {
	case "add", "padd", "flow":
		if op.K == "flow" {
			sh.advance(op.Delay)
		}
		for _, i := range op.Rs {
			j := p.res[i]
			if op.K != "add" && (j.PES != 0 || !j.Eligible) {
				continue
			}
			sh.add(j.WID, p.blkOf[i])
		}
	case "rm":
		for _, id := range op.Ids {
			delete(sh.m, id)
		}
	case "hook":
		for _, i := range op.Rs {
			delete(sh.m, p.res[i].WID)
		}
	case "burst":
		for _, th := range op.Th {
			for _, o := range th {
				sh.apply(p, o)
			}
		}
	}
}

// c10GenDt: time steps concentrated at the TTL and GC-interval boundaries (±1 ns).
func c10GenDt(r *Rng, sh *c10Shadow, em *Emitter) (dt int64, focus string) {
	off := []int64{-1, 0, 1, 2}
	x := r.Intn(100)
	switch {
	case x < 30:
		em.Hit("dt=0")
		return 0, ""
	case x < 42:
		em.Hit("dt=ns")
		return int64(r.Range(1, 1000)), ""
	case x < 55:
		em.Hit("dt=seconds")
		return int64(r.Range(0, 20))*int64(time.Second) + 137*int64(time.Millisecond) + int64(r.Intn(1000)), ""
	case x < 80 && len(sh.m) > 0:
		// to the TTL boundary of a stored entry
		i, n := 0, r.Intn(len(sh.m))
		for k, v := range sortedShadow(sh) {
			_ = k
			if i == n {
				d := v.at + sh.ttl + off[r.Intn(4)] - sh.now
				if d > 0 {
					em.Hit("dt=ttl-boundary")
					return d, v.wid
				}
			}
			i++
		}
		em.Hit("dt=ns")
		return int64(r.Range(1, 50)), ""
	case x < 93:
		d := sh.nextTick() + off[r.Intn(3)] - sh.now
		if d <= 0 {
			d += sh.gci
		}
		em.Hit("dt=gc-boundary")
		return d, ""
	}
	em.Hit("dt=large")
	return sh.ttl/2 + int64(r.U64()%uint64(sh.ttl/2+1)), ""
}

type c10ShadowEnt struct {
	wid string
	at  int64
}

// sortedShadow lists the shadow entries in a deterministic order (Go map order must not leak into the generator).
func sortedShadow(sh *c10Shadow) []c10ShadowEnt {
	out := make([]c10ShadowEnt, 0, len(sh.m))
	for k, v := range sh.m {
		out = append(out, c10ShadowEnt{k, v.at})
	}
	for i := 1; i < len(out); i++ {
		for j := i; j > 0 && out[j].wid < out[j-1].wid; j-- {
			out[j], out[j-1] = out[j-1], out[j]
		}
	}
	return out
}

func c10NewShadow(ttl, gci, start int64) *c10Shadow {
	return &c10Shadow{ttl: ttl, gci: gci, start: start, now: start, m: map[string]struct {
		blk uint64
		at  int64
	}{}}
}

// c10GenSeq: a sequential history of 20–200 operations over 1–6 work ids.
func c10GenSeq(r *Rng, ttl, gci int64, em *Emitter) c10Input {
	in := c10Input{TTL: ttl, GCI: gci}
	if r.Chance(70) {
		in.StartDt = int64(r.U64() % uint64(gci))
	}
	p := c10MakePool(r, r.Range(1, 6))
	in.Res = p.res
	n := r.Range(20, 60)
	if r.Chance(25) {
		n = r.Range(61, 200)
	}
	em.Hit(fmt.Sprintf("seq ops=%d", bucket(n)))
	em.Hit(fmt.Sprintf("seq ids=%d", len(p.wids)))
	sh := c10NewShadow(ttl, gci, in.StartDt)
	focus := ""
	for len(in.Ops) < n {
		dt, f := c10GenDt(r, sh, em)
		if f != "" {
			focus = f
		}
		op := c10GenOp(r, p, sh, focus, true)
		op.Dt = dt
		sh.advance(dt)
		sh.apply(p, op)
		em.Hit("op=" + op.K)
		in.Ops = append(in.Ops, op)
		if ((f != "" && op.K != "view") || (op.K == "hook" && len(op.Rs) > 1)) && r.Chance(70) { // look at the effect right at the boundary / after an outcome
			in.Ops = append(in.Ops, c10Op{K: "view"})
			em.Hit("op=view")
		}
	}
	in.Ops = append(in.Ops, c10Op{K: "view", Dt: int64(r.Intn(3))})
	return in
}

// c10GenConc: short sequential prefix, then 1–3 bursts of 4–8 goroutines (3–6 calls each)
// separated by time steps that cross TTL / GC boundaries, each followed by a view.
func c10GenConc(r *Rng, ttl, gci int64, em *Emitter) c10Input {
	in := c10Input{TTL: ttl, GCI: gci}
	if r.Bool() {
		in.StartDt = int64(r.U64() % uint64(gci))
	}
	p := c10MakePool(r, r.Range(1, 3))
	in.Res = p.res
	sh := c10NewShadow(ttl, gci, in.StartDt)
	push := func(op c10Op) {
		sh.advance(op.Dt)
		sh.apply(p, op)
		in.Ops = append(in.Ops, op)
	}
	for i, n := 0, r.Range(0, 8); i < n; i++ {
		dt, _ := c10GenDt(r, sh, em)
		op := c10GenOp(r, p, sh, "", true)
		op.Dt = dt
		push(op)
	}
	nb := r.Range(1, 3)
	for b := 0; b < nb; b++ {
		dt, _ := c10GenDt(r, sh, em)
		bu := c10Op{K: "burst", Dt: dt}
		g := r.Range(4, 8)
		calls := 0
		for i := 0; i < g; i++ {
			var ops []c10Op
			for j, m := 0, r.Range(3, 6); j < m; j++ {
				op := c10GenOp(r, p, sh, "", false)
				op.Y = r.Chance(30)
				ops = append(ops, op)
				calls++
			}
			bu.Th = append(bu.Th, ops)
		}
		em.Hit(fmt.Sprintf("burst goroutines=%d", g))
		em.Hit(fmt.Sprintf("burst calls=%d", bucket(calls)))
		push(bu)
		push(c10Op{K: "view"})
		if r.Chance(50) {
			dt, _ := c10GenDt(r, sh, em)
			op := c10GenOp(r, p, sh, "", true)
			op.Dt = dt
			push(op)
			push(c10Op{K: "view"})
		}
	}
	em.Hit(fmt.Sprintf("conc bursts=%d", nb))
	return in
}

// c10GenVolume: n distinct work ids live at the same time (n above any plausible cap of the staging
// area), staged in batches through Add / the post-processor (all context variants) / the observer flow,
// with `old` earlier entries running out of TTL meanwhile; views before and after collector ticks, and
// after a batch of removals.  Every live, unremoved result must be in every view.
func c10GenVolume(r *Rng, ttl, gci int64, n int, em *Emitter) c10Input {
	in := c10Input{TTL: ttl, GCI: gci, StartDt: int64(r.U64() % uint64(gci))}
	old := r.Range(10, 60)
	var logUIDs []ocr2keepers.UpkeepIdentifier
	famOf := map[ocr2keepers.UpkeepIdentifier][]int{} // live (index < n) units of work per log-trigger upkeep
	for i := 0; i < n+old; i++ {
		blk := uint64(r.Range(5, 5000))
		if r.Chance(10) {
			blk = c10WideBlocks[3+r.Intn(len(c10WideBlocks)-3)]
		}
		uid := genUpkeepID(r, i%3 != 0)
		if i%3 != 0 {
			if len(logUIDs) > 0 && r.Chance(50) { // another log of an upkeep that is there already
				uid = logUIDs[r.Intn(len(logUIDs))]
			} else {
				logUIDs = append(logUIDs, uid)
			}
			if i < n {
				famOf[uid] = append(famOf[uid], i)
			}
		}
		c := genResult(r, uid, blk)
		c.Retryable = r.Chance(15)
		in.Res = append(in.Res, toJCR(c))
	}
	now := in.StartDt
	push := func(op c10Op) {
		now += op.Dt + op.Delay
		in.Ops = append(in.Ops, op)
	}
	toTick := func(off int64) int64 { // ns from now to the next collector tick (+off)
		k := (now-in.StartDt)/gci + 1
		return in.StartDt + k*gci + off - now
	}
	seq := func(lo, hi int) []int {
		out := make([]int, 0, hi-lo)
		for i := lo; i < hi; i++ {
			out = append(out, i)
		}
		return out
	}
	push(c10Op{K: "add", Dt: 1, Rs: seq(n, n+old)})
	push(c10Op{K: "view", Dt: ttl - int64(r.Range(1, 25))*int64(time.Second)})
	for lo := 0; lo < n; {
		hi := lo + r.Range(40, 400)
		if hi > n {
			hi = n
		}
		op := c10Op{Dt: int64(r.Intn(300)) * int64(time.Millisecond), Rs: seq(lo, hi)}
		switch x := r.Intn(10); {
		case x < 4:
			op.K = "add"
		case x < 9:
			op.K = "padd"
			op.Ctx = []string{"", "done", "expired", "cancel"}[r.Intn(4)]
			if op.Ctx == "cancel" {
				op.N = r.Range(1, hi-lo)
			}
		default:
			op.K = "flow"
			op.Delay = int64(r.Intn(3)) * int64(time.Second)
		}
		em.Hit("volume batch=" + op.K + "/" + op.Ctx)
		push(op)
		lo = hi
	}
	push(c10Op{K: "view"})
	push(c10Op{K: "view", Dt: toTick([]int64{0, 1}[r.Intn(2)])})
	push(c10Op{K: "view", Dt: toTick(0)})
	hook := c10Op{K: "hook", Dt: 5}
	for i := 0; i < 22; i++ {
		hook.Rs = append(hook.Rs, r.Intn(n))
	}
	for _, uid := range logUIDs { // … and up to ten logs of one upkeep, anywhere in the outcome
		if f := famOf[uid]; len(f) >= 2 {
			for _, j := range r.Perm(len(f)) {
				if len(hook.Rs) >= 32 {
					break
				}
				k := r.Intn(len(hook.Rs) + 1)
				hook.Rs = append(hook.Rs[:k], append([]int{f[j]}, hook.Rs[k:]...)...)
			}
			break
		}
	}
	push(hook)
	push(c10Op{K: "view", Dt: toTick(1)})
	em.Hit(fmt.Sprintf("volume n=%d", n/1000*1000))
	return in
}

// ---------------------------------------------------------------- hand-written edge cases

func c10Edge(ttl, gci int64) []c10Input {
	r := NewRng(101010)
	uid := genUpkeepID(r, false)
	base := genResult(r, uid, 10)
	w := base.WorkID
	at := func(b uint64, pd byte) JCR {
		c := base
		c.Trigger.BlockNumber = ocr2keepers.BlockNumber(b)
		c.PerformData = []byte{pd}
		return toJCR(c)
	}
	other := genResult(r, genUpkeepID(r, true), 7)
	inel := base
	inel.Eligible = false
	inel.Trigger.BlockNumber = 99
	retry := other // state 0, eligible, and flagged retryable with a reason: still an eligible result
	retry.Retryable = true
	retry.IneligibilityReason = 3
	// three logs of one log-trigger upkeep L (three units of work), and an upkeep whose id differs from L's in one bit
	lu := genUpkeepID(r, true)
	la := genResult(r, lu, 20)
	lb := la
	lbExt := *la.Trigger.LogTriggerExtension
	lbExt.Index++
	lb.Trigger.LogTriggerExtension = &lbExt
	lb.WorkID = wg(lu, lb.Trigger)
	lb.PerformData = []byte{0xb}
	lc := genResult(r, lu, 21)
	nearID := lu
	nearID[31] ^= 1
	ln := genResult(r, nearID, 20)
	// 0: w@10  1: w@10'  2: w@5  3: w@11  4: other@7  5: w@99 ineligible
	// 6: w@2^63+5  7: w@2^64-1  8: w@0  9: other@7 retryable
	// 10: L log a  11: L log b (same transaction, next index)  12: L log c  13: near-L upkeep
	res := []JCR{at(10, 1), at(10, 2), at(5, 3), at(11, 4), toJCR(other), toJCR(inel),
		at(1<<63+5, 6), at(1<<64-1, 7), at(0, 8), toJCR(retry), toJCR(la), toJCR(lb), toJCR(lc), toJCR(ln)}
	mk := func(start int64, ops ...c10Op) c10Input {
		return c10Input{TTL: ttl, GCI: gci, StartDt: start, Res: res, Ops: ops}
	}
	add := func(dt int64, ix ...int) c10Op { return c10Op{K: "add", Dt: dt, Rs: ix} }
	view := func(dt int64) c10Op { return c10Op{K: "view", Dt: dt} }
	tickAfterTTL := (ttl/gci + 1) * gci // first tick (start 0) that can collect an entry added at 0
	out := []c10Input{
		// TTL boundary: age == ttl is still viewed, ttl+1 is not
		mk(0, add(1, 0), view(ttl-1), view(1), view(1), view(1)),
		// a dead, not yet collected entry must not reject a lower add (the defect repaired by efb208c); again after the tick
		mk(0, add(0, 0), add(ttl+1, 2), view(0), add(tickAfterTTL-ttl-1, 2), view(0)),
		// equal block, different content: the first one stays; higher replaces; lower is ignored
		mk(7, add(3, 0), add(3, 1), view(0), add(5, 3), view(0), add(5, 2), view(0)),
		// operation exactly on the tick that collects
		mk(0, add(0, 0), add(tickAfterTTL, 2), view(0)),
		// tick that sees age == ttl keeps the entry: lower add rejected, result still viewed
		mk(0, add(gci, 0), add(ttl, 2), view(0), view(1)),
		// removals: unknown id, hook, re-add after removal with a lower block
		mk(5, add(1, 3, 4), c10Op{K: "rm", Dt: 1, Ids: []string{"nope"}}, view(0), c10Op{K: "hook", Dt: 1, Rs: []int{0}}, view(0),
			add(1, 2), view(0), c10Op{K: "rm", Dt: 1, Ids: []string{w, other.WorkID, w}}, view(0)),
		// post-processor filters ineligible results; one call with the same work id thrice
		mk(5, c10Op{K: "padd", Dt: 1, Rs: []int{5, 2, 5}}, view(0), add(1, 2, 3, 0), view(0), add(1, 0, 3, 2), view(0)),
		// the context of the pipeline run is no reason to skip an eligible result: done before the call, deadline
		// passed, ended after the first of three, and a check that answers one ns after the observer's process limit
		mk(5, c10Op{K: "padd", Dt: 1, Rs: []int{0, 4}, Ctx: "done"}, view(0), c10Op{K: "hook", Dt: 1, Rs: []int{0, 4}},
			c10Op{K: "padd", Dt: 1, Rs: []int{4, 5, 2}, Ctx: "expired"}, view(0),
			c10Op{K: "padd", Dt: 1, Rs: []int{2, 4, 3}, Ctx: "cancel", N: 1}, view(0)),
		mk(5, c10Op{K: "flow", Dt: 1, Rs: []int{0, 4}, Delay: int64(flows.ObservationProcessLimit) + 1}, view(0),
			c10Op{K: "flow", Dt: gci - int64(flows.ObservationProcessLimit), Rs: []int{3}, Delay: int64(flows.ObservationProcessLimit)}, view(0)),
		// check blocks more than 2^63 apart: higher replaces, lower never does (uint64 order, no wrap-around)
		mk(3, add(1, 2), add(1, 6), view(0), add(1, 2), view(0), add(1, 7), view(0), add(1, 8), add(1, 0), view(0)),
		mk(3, add(1, 8), add(1, 7), view(0), add(1, 8), add(1, 6), view(0)),
		// retryable / reason flags on a state-0 eligible result do not make it less eligible
		mk(3, c10Op{K: "padd", Dt: 1, Rs: []int{9, 5}}, view(0), c10Op{K: "flow", Dt: 1, Rs: []int{9, 0}, Delay: 1}, view(0)),
		// empty calls
		mk(0, add(0), c10Op{K: "rm"}, c10Op{K: "hook"}, c10Op{K: "padd"}, view(0)),
		// one outcome agrees on several logs of ONE upkeep: every agreed unit of work leaves, the third log and the
		// near-id upkeep stay; then the rest in another order with one that is gone already
		mk(5, add(1, 10, 11, 12, 13, 4), view(0), c10Op{K: "hook", Dt: 1, Rs: []int{11, 4, 10}}, view(0), view(int64(time.Second)),
			c10Op{K: "hook", Dt: 1, Rs: []int{12, 10, 13}}, view(0)),
		mk(5, c10Op{K: "padd", Dt: 1, Rs: []int{10, 11, 12}}, c10Op{K: "hook", Dt: 1, Rs: []int{12, 11, 10}}, view(0), add(1, 10), view(0),
			c10Op{K: "hook", Dt: 1, Rs: []int{13}}, view(0), c10Op{K: "rm", Dt: 1, Ids: []string{lb.WorkID, la.WorkID}}, view(0)),
		// burst on one work id
		mk(3, add(1, 2), c10Op{K: "burst", Dt: 1, Th: [][]c10Op{
			{add(0, 0), view(0), add(0, 3)}, {view(0), add(0, 1), view(0)},
			{{K: "rm", Ids: []string{w}}, view(0), add(0, 2)}, {view(0), {K: "hook", Rs: []int{3}}, view(0)}}}, view(0),
			view(ttl), view(1), view(1)),
	}
	return out
}

// c10IdentityHits records which identity dimensions the results of a case's table span (input distribution):
// one upkeep / several work ids, one work id / several check blocks, one block / several hashes, work ids that
// share a long prefix or contain one another, upkeep ids a byte apart.
func c10IdentityHits(em *Emitter, res []JCR) {
	if len(res) > 400 {
		return
	}
	common := func(a, b string) int {
		n := 0
		for n < len(a) && n < len(b) && a[n] == b[n] {
			n++
		}
		return n
	}
	hit := map[string]bool{}
	for i, a := range res {
		for _, b := range res[i+1:] {
			if a.WID == b.WID {
				if a.Trig.BN != b.Trig.BN {
					hit["ids: one work id, several check blocks"] = true
				} else if a.Trig.BH != b.Trig.BH {
					hit["ids: one check block, several block hashes"] = true
				}
				if a.Trig.Ext != nil && b.Trig.Ext != nil && a.Trig.Ext.BN != b.Trig.Ext.BN {
					hit["ids: one work id, several log block numbers"] = true
				}
			}
			if a.WID != b.WID {
				if a.UID == b.UID {
					hit["ids: one upkeep, several work ids"] = true
				}
				if c := common(a.WID, b.WID); c == len(a.WID) || c == len(b.WID) {
					hit["ids: a work id is a prefix of another"] = true
				} else if c >= 32 {
					hit["ids: work ids share a prefix of 32+ characters"] = true
				}
				if strings.EqualFold(a.WID, b.WID) {
					hit["ids: work ids differ in case only"] = true
				}
			}
			if a.UID != b.UID && len(a.UID) == len(b.UID) {
				d := 0
				for k := range a.UID {
					if a.UID[k] != b.UID[k] {
						d++
					}
				}
				if d <= 2 {
					hit["ids: upkeep ids one byte apart"] = true
				}
			}
		}
	}
	for k := range hit {
		em.Hit(k)
	}
}

// ---------------------------------------------------------------- entry point

func TestC10(t *testing.T) {
	em := NewEmitter(t, "C10")
	defer em.Close()
	ttl, note := c10Calibrate(t)
	gci := c10AssumedGCI
	if note != "" {
		em.Hit("calibration incomplete: " + note)
	}
	if ttl <= 2 {
		t.Fatalf("c10: observed ttl=%d: too small to place boundary cases", ttl)
	}
	em.Hit(fmt.Sprintf("observed ttl=%dns, assumed gci=%dns", ttl, gci))
	em.Hit(fmt.Sprintf("probe: dead entry blocks a lower add=%v", c10DeadEntryBlocks(t, ttl)))
	if g := c10ObserveGCI(t); g > 0 {
		gci = g
		em.Hit(fmt.Sprintf("gc interval read off the store's log=%dns", g))
	} else {
		em.Hit("gc interval not observable in the store's log: assumed")
	}
	run := func(src string, in c10Input) {
		in.TTL, in.GCI = ttl, gci // what the code under test shows now (corpus files may be older)
		c10IdentityHits(em, in.Res)
		if in.Kind == "gc-race" && in.Race != nil {
			em.Emit(src, in, c10GCRace(t, ttl, gci, *in.Race))
			return
		}
		if in.Kind == "node" {
			synctest.Test(t, func(t *testing.T) { em.Emit(src, in, c10RunNode(t, in)) })
			return
		}
		synctest.Test(t, func(t *testing.T) { em.Emit(src, in, c10Run(t, in)) })
	}
	names, raws, replayOnly := corpusInputs(t, "C10")
	for i, raw := range raws {
		var in c10Input
		if err := json.Unmarshal(raw, &in); err != nil {
			t.Fatalf("%s: %v", names[i], err)
		}
		run(names[i], in)
	}
	if replayOnly {
		return
	}
	for _, in := range c10Edge(ttl, gci) {
		run("edge", in)
	}
	for _, in := range c10NodeEdge(ttl, gci) {
		run("edge-node", in)
	}
	rn := NewRng(seed() + 1010)
	for i, n := 0, tierN(150, 1500); i < n; i++ {
		run("gen-node", c10GenNode(rn, ttl, gci, em))
	}
	run("gc-race", c10Input{Kind: "gc-race", Res: []JCR{}, Ops: []c10Op{},
		Race: &c10RaceP{IDs: 24, Adders: 8, Rounds: 25, Bubbles: tierN(40, 400), Seed: seed()}})
	rv := NewRng(seed() + 7777)
	vols := []int{2001, rv.Range(2002, 2600)}
	if thorough() {
		vols = append(vols, 2048, rv.Range(2600, 3500), rv.Range(3500, 4500), 5000)
	}
	for _, n := range vols {
		run("gen-volume", c10GenVolume(rv, ttl, gci, n, em))
	}
	r := NewRng(seed())
	for i, n := 0, tierN(4000, 40000); i < n; i++ {
		run("gen", c10GenSeq(r, ttl, gci, em))
	}
	for i, n := 0, tierN(600, 8000); i < n; i++ {
		run("gen-conc", c10GenConc(r, ttl, gci, em))
	}
}
