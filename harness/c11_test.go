package harness

import (
	"context"
	"encoding/json"
	"fmt"
	"sort"
	"sync"
	"testing"
	"testing/synctest"
	"time"

	ocr2keepersv3 "github.com/smartcontractkit/chainlink-automation/pkg/v3"
	"github.com/smartcontractkit/chainlink-automation/pkg/v3/flows"
	"github.com/smartcontractkit/chainlink-automation/pkg/v3/plugin/hooks"
	"github.com/smartcontractkit/chainlink-automation/pkg/v3/preprocessors"
	"github.com/smartcontractkit/chainlink-automation/pkg/v3/random"
	"github.com/smartcontractkit/chainlink-automation/pkg/v3/stores"
	"github.com/smartcontractkit/chainlink-automation/pkg/v3/types"
	simutil "github.com/smartcontractkit/chainlink-automation/tools/simulator/util"
	ocr2keepers "github.com/smartcontractkit/chainlink-common/pkg/types/automation"
)

// C11 — Proposals: viewed exactly, dropped once surfaced, finalised once per block.
//
// One case = one history of operations on a real metadata store
// (stores.NewMetadataStore, fake block subscriber) and a real proposal queue
// (stores.NewProposalQueue), both created inside a synctest bubble so that
// timeFn/time.Now/time.Since are virtual.  "outcome" operations go through the
// real pre-build hooks (hooks.NewRemoveFromMetadataHook, hooks.NewAddToProposalQHook)
// in the order ocr3Plugin.Observation runs them.  The store has a life cycle (mstart / mclose), the build hooks of
// the observation and the proposal filterer of the recovery proposal flow are viewers of its pending sets
// (observe / filter); generators for these dynamics are in c11_dyn_test.go, the plugin-level ones in
// c11_plugin_test.go.

type c11Op struct {
	// add | remove | view | adv | enq | deq | outcome | start | tick | obs (plugin mode)
	// mstart / mclose: MetadataStore.Start (in its own goroutine, as the service recoverer runs it) / Close on
	//   the store of the history; everything else goes on whether or not the store is (already, still) running
	// observe: the two build hooks of the observation (hooks.AddLogProposalsHook, hooks.AddConditionalProposalsHook;
	//   ONE instance of each for the whole history, as the plugin holds them) run on a new observation, with the
	//   limits and the keyed random source ocr3Plugin.Observation passes; result: the observation's proposals
	// filter: the real proposal filterer (preprocessors.NewProposalFilterer, first stage of the recovery proposal
	//   flow) of upkeep type T pre-processes payloads for Ps — or for the Ps of the earlier operation Ref (1-based);
	//   result: the payloads that pass.  probe (plugin mode): the same through the node's own flow, see c11RunPlugin.
	Op       string    `json:"op"`
	Ref      int       `json:"ref,omitempty"`
	Ps       []JProp   `json:"ps,omitempty"`
	T        uint8     `json:"t"`
	N        int       `json:"n"`
	D        int64     `json:"d"` // nanoseconds
	Surfaced [][]JProp `json:"surfaced,omitempty"`
	// start: the final flow of upkeep type T is started at this instant (its 1 s ticker with it).
	// tick:  that flow's ticker fires at this instant (declared by the history, performed by the real
	//        ticker); the payload builder's behaviour for the tick's batch call:
	// obs (plugin mode): one Observation call; First = no previous outcome, otherwise the previous outcome
	// carries Surfaced.  Result: the proposals of the returned observation.
	First   bool  `json:"first,omitempty"`
	Sleep   int64 `json:"sleep"`   // how long BuildPayloads takes (ns)
	Fail    int   `json:"fail"`    // < 0: no error; otherwise it fails at argument index Fail % len(args)
	Partial bool  `json:"partial"` // a failing call returns the payloads built so far with the error
	// outcome / obs with Pick set: the surfaced proposals are chosen when the history runs, from what the node
	// did with its LAST observation: up to PickN of Cand that it did not propose ("deferred": pending here, cut off
	// by the observation limit, surfaced through other nodes) or that it did propose ("sent").  They go first
	// into the latest round; the resolved history is written back into Surfaced (and Pick cleared), so the
	// emitted case is an ordinary one.
	// Pick "again": the previous outcome once more, unchanged.  Carry: the rounds after the latest one are the
	// (resolved) history of the previous outcome.
	Pick  string  `json:"pick,omitempty"`
	PickN int     `json:"pick_n,omitempty"`
	Cand  []JProp `json:"cand,omitempty"`
	Carry bool    `json:"carry,omitempty"`
}
type c11Type struct {
	UID string `json:"uid"`
	T   uint8  `json:"t"`
}
type c11Input struct {
	Types []c11Type `json:"types"` // upkeep id -> type as reported by the type getter (filled by the run function)
	Ops   []c11Op   `json:"ops"`
	// "" = the stores, hooks and final flows driven directly; "plugin" = one plugin instance built by the
	// public factory (c11_plugin_test.go); "stress" = concurrent remove/add/view in a child process
	// (c11_stress_test.go)
	Mode   string       `json:"mode,omitempty"`
	Decoy  bool         `json:"decoy,omitempty"` // plugin mode: another instance of the same factory is built and closed first
	Early  bool         `json:"early,omitempty"` // plugin mode: the leading add operations are fed before the services have started
	Stress *c11StressIn `json:"stress,omitempty"`
}
type c11Impl struct {
	// one entry per op; null for operations without a result.  view: the result; deq: the result as read
	// right after the call; tick: the payloads that reached the runner of that final flow.
	Outs [][]JProp `json:"outs"`
	// deq: the same result slice as re-read at the end of the history (a caller holds it while other
	// Dequeue calls happen); tick: the proposals the payload builder was called with (= Dequeue's result)
	Aux [][]JProp `json:"aux"`
	// final-flow ticks / runner calls the history does not declare, and declared ticks that did not happen
	Extra int `json:"extra"`
	// plugin mode: an error returned by Observation / decoding
	Err string `json:"err,omitempty"`
	// mstart / mclose: "ok" (Start: runs; Close: no error), "refused" (the already-running / not-running error),
	// anything else verbatim
	Life []string `json:"life,omitempty"`
	// stress mode
	Exit  string          `json:"exit,omitempty"`  // "ok", "exit:<code>", "timeout"
	Crash string          `json:"crash,omitempty"` // first "fatal error:" / "panic:" line of the child
	Final []JProp         `json:"final"`           // the view after the concurrent phase
	Views []c11StressView `json:"views,omitempty"`
}

const (
	c11MetaExpiry  = int64(24 * time.Hour)
	c11QueueExpiry = int64(20 * time.Second)
)

// ---------------------------------------------------------------- run

// c11Blocks is the block subscriber under the store of a history.  Unsubscribe does NOT close the channel
// (a subscriber may or may not; fakeBlocks does): the same instance is started again after Close, and Start
// reads that channel.
type c11Blocks struct {
	mu   sync.Mutex
	next int
	subs map[int]chan ocr2keepers.BlockHistory
}

func (f *c11Blocks) Subscribe() (int, chan ocr2keepers.BlockHistory, error) {
	f.mu.Lock()
	defer f.mu.Unlock()
	if f.subs == nil {
		f.subs = map[int]chan ocr2keepers.BlockHistory{}
	}
	f.next++
	ch := make(chan ocr2keepers.BlockHistory, 100)
	f.subs[f.next] = ch
	return f.next, ch, nil
}
func (f *c11Blocks) Unsubscribe(id int) error {
	f.mu.Lock()
	defer f.mu.Unlock()
	delete(f.subs, id)
	return nil
}
func (f *c11Blocks) Start(context.Context) error { return nil }
func (f *c11Blocks) Close() error                { return nil }

// c11IdleCoordinator: nothing is in flight in these histories (what the coordinator withholds is C07's subject)
type c11IdleCoordinator struct{}

func (c11IdleCoordinator) PreProcess(_ context.Context, ps []ocr2keepers.UpkeepPayload) ([]ocr2keepers.UpkeepPayload, error) {
	return ps, nil
}
func (c11IdleCoordinator) Accept(ocr2keepers.ReportedUpkeep) bool         { return true }
func (c11IdleCoordinator) ShouldTransmit(ocr2keepers.ReportedUpkeep) bool { return true }
func (c11IdleCoordinator) FilterResults(rs []ocr2keepers.CheckResult) ([]ocr2keepers.CheckResult, error) {
	return rs, nil
}
func (c11IdleCoordinator) FilterProposals(ps []ocr2keepers.CoordinatedBlockProposal) ([]ocr2keepers.CoordinatedBlockProposal, error) {
	return ps, nil
}

// c11Resolve fills in the surfaced history of an outcome / obs operation that depends on the run (see c11Op.Pick):
// lastObs = the node's last observation, lastSf = the (resolved) history of the previous outcome.
func c11Resolve(op *c11Op, lastObs []JProp, lastSf [][]JProp) {
	if op.Pick == "" && !op.Carry {
		return
	}
	defer func() { op.Pick, op.PickN, op.Cand, op.Carry = "", 0, nil, false }()
	if op.Pick == "again" { // the previous outcome once more, unchanged
		op.Surfaced = make([][]JProp, len(lastSf))
		for i := range lastSf {
			op.Surfaced[i] = append([]JProp{}, lastSf[i]...)
		}
		return
	}
	var latest []JProp
	var older [][]JProp
	if len(op.Surfaced) > 0 {
		latest, older = op.Surfaced[0], op.Surfaced[1:]
	}
	if op.Carry {
		older = lastSf
	}
	if len(older) > ocr2keepersv3.OutcomeSurfacedProposalsRoundHistoryLimit-1 {
		older = older[:ocr2keepersv3.OutcomeSurfacedProposalsRoundHistoryLimit-1]
	}
	used := map[string]bool{} // an outcome carries a work id once over its whole history
	for _, round := range older {
		for _, p := range round {
			used[p.WID] = true
		}
	}
	inLast := map[string]bool{}
	for _, p := range lastObs {
		inLast[p.WID] = true
	}
	var round []JProp
	if op.Pick == "deferred" || op.Pick == "sent" {
		n := 0
		for _, p := range op.Cand {
			if n >= op.PickN {
				break
			}
			if used[p.WID] || inLast[p.WID] != (op.Pick == "sent") {
				continue
			}
			used[p.WID] = true
			round = append(round, p)
			n++
		}
	}
	for _, p := range latest {
		if !used[p.WID] {
			used[p.WID] = true
			round = append(round, p)
		}
	}
	if len(round) > ocr2keepersv3.OutcomeSurfacedProposalsLimit {
		round = round[:ocr2keepersv3.OutcomeSurfacedProposalsLimit]
	}
	if round == nil {
		round = []JProp{}
	}
	op.Surfaced = [][]JProp{round}
	for _, o := range older {
		op.Surfaced = append(op.Surfaced, append([]JProp{}, o...))
	}
}

func c11Run(t *testing.T, in *c11Input) c11Impl {
	ms, err := stores.NewMetadataStore(&c11Blocks{}, utg)
	if err != nil {
		t.Fatalf("NewMetadataStore: %v", err)
	}
	pq := stores.NewProposalQueue(utg)
	rmHook := hooks.NewRemoveFromMetadataHook(ms, quietLogger)
	addHook := hooks.NewAddToProposalQHook(pq, quietLogger)
	logHook := hooks.NewAddLogProposalsHook(ms, c11IdleCoordinator{}, quietLogger)
	condHook := hooks.NewAddConditionalProposalsHook(ms, c11IdleCoordinator{}, quietLogger)
	digest := [32]byte{0xc1, 0x1}
	seq := uint64(10)

	seen := map[string]uint8{}
	note := func(ps []JProp) {
		for _, p := range ps {
			if _, ok := seen[p.UID]; !ok {
				seen[p.UID] = uint8(utg(ocr2keepers.UpkeepIdentifier(b32(p.UID))))
			}
		}
	}
	impl := c11Impl{Outs: make([][]JProp, len(in.Ops)), Aux: make([][]JProp, len(in.Ops))}
	held := map[int][]ocr2keepers.CoordinatedBlockProposal{} // Dequeue results, kept like a flow keeps its batch
	var rig *c11FlowRig
	life := false
	for _, op := range in.Ops {
		if (op.Op == "start" || op.Op == "tick") && rig == nil {
			rig = newC11FlowRig(in, ms, pq)
		}
		if op.Op == "mstart" || op.Op == "mclose" {
			life = true
		}
	}
	if life {
		impl.Life = make([]string, len(in.Ops))
	}
	filterers := map[uint8]ocr2keepersv3.PreProcessor[ocr2keepers.UpkeepPayload]{}
	var started chan error // the running Start call, if any
	var lastObs []JProp
	var lastSf [][]JProp
	for i := range in.Ops {
		op := &in.Ops[i]
		switch op.Op {
		case "add":
			note(op.Ps)
			ms.AddProposals(fromJProps(op.Ps)...)
		case "remove":
			note(op.Ps)
			ms.RemoveProposals(fromJProps(op.Ps)...)
		case "view":
			impl.Outs[i] = toJProps(ms.ViewProposals(types.UpkeepType(op.T)))
		case "adv":
			if op.D > 0 {
				time.Sleep(time.Duration(op.D))
				synctest.Wait() // whatever the flows' tickers started at instants passed has run
			}
		case "mstart":
			done := make(chan error, 1)
			go func() { done <- ms.Start(context.Background()) }()
			synctest.Wait()
			select {
			case err := <-done:
				if err != nil && err.Error() == "service already running" {
					impl.Life[i] = "refused"
				} else {
					impl.Life[i] = fmt.Sprintf("Start returned at once: %v", err)
				}
			default:
				impl.Life[i] = "ok"
				started = done
			}
		case "mclose":
			err := ms.Close()
			switch {
			case err == nil:
				impl.Life[i] = "ok"
			case err.Error() == "service not running":
				impl.Life[i] = "refused"
			default:
				impl.Life[i] = "Close: " + err.Error()
			}
			synctest.Wait()
			if err == nil && started != nil {
				select {
				case <-started:
				default:
					impl.Life[i] = "Close returned but Start still runs"
				}
				started = nil
			}
		case "filter":
			ps := op.Ps
			if op.Ref > 0 && op.Ref <= len(in.Ops) {
				ps = in.Ops[op.Ref-1].Ps
			}
			note(ps)
			f, ok := filterers[op.T]
			if !ok {
				f = preprocessors.NewProposalFilterer(ms, types.UpkeepType(op.T))
				filterers[op.T] = f
			}
			var pls []ocr2keepers.UpkeepPayload
			for _, p := range fromJProps(ps) {
				pls = append(pls, ocr2keepers.UpkeepPayload{UpkeepID: p.UpkeepID, Trigger: p.Trigger, WorkID: p.WorkID})
			}
			passed, err := f.PreProcess(context.Background(), pls)
			if err != nil {
				impl.Err = "proposal filterer: " + err.Error()
			}
			impl.Outs[i] = []JProp{}
			for _, pl := range passed {
				impl.Outs[i] = append(impl.Outs[i], toJProp(ocr2keepers.CoordinatedBlockProposal{UpkeepID: pl.UpkeepID, Trigger: pl.Trigger, WorkID: pl.WorkID}))
			}
		case "observe":
			seq++
			rsrc := random.GetRandomKeySource(digest[:], seq)
			obs := ocr2keepersv3.AutomationObservation{}
			if err := logHook.RunHook(&obs, ocr2keepersv3.ObservationLogRecoveryProposalsLimit, rsrc); err != nil {
				impl.Err = "add-log-proposals hook: " + err.Error()
			}
			if err := condHook.RunHook(&obs, ocr2keepersv3.ObservationConditionalsProposalsLimit, rsrc); err != nil {
				impl.Err = "add-conditional-proposals hook: " + err.Error()
			}
			impl.Outs[i] = toJProps(obs.UpkeepProposals)
			lastObs = impl.Outs[i]
		case "start":
			rig.start(t, op.T)
		case "tick":
			// performed by the real ticker of that flow; observations are filled in by rig.finish
		case "enq":
			note(op.Ps)
			if err := pq.Enqueue(fromJProps(op.Ps)...); err != nil {
				t.Fatalf("Enqueue: %v", err)
			}
		case "deq":
			ps, err := pq.Dequeue(types.UpkeepType(op.T), op.N)
			if err != nil {
				t.Fatalf("Dequeue: %v", err)
			}
			impl.Outs[i] = toJProps(ps)
			held[i] = ps
		case "outcome":
			c11Resolve(op, lastObs, lastSf)
			lastSf = op.Surfaced
			outcome := ocr2keepersv3.AutomationOutcome{}
			for _, round := range op.Surfaced {
				note(round)
				outcome.SurfacedProposals = append(outcome.SurfacedProposals, fromJProps(round))
			}
			rmHook.RunHook(outcome)
			addHook.RunHook(outcome)
		default:
			t.Fatalf("unknown op %q", op.Op)
		}
	}
	if started != nil {
		_ = ms.Close()
		synctest.Wait()
	}
	if rig != nil {
		rig.finish(in, &impl)
	}
	for i, ps := range held {
		impl.Aux[i] = toJProps(ps)
	}
	// every proposal an observation mentions needs its type in the table
	for _, l := range [][][]JProp{impl.Outs, impl.Aux} {
		for _, ps := range l {
			note(ps)
		}
	}
	in.Types = in.Types[:0]
	for uid, ty := range seen {
		in.Types = append(in.Types, c11Type{UID: uid, T: ty})
	}
	sort.Slice(in.Types, func(a, b int) bool { return in.Types[a].UID < in.Types[b].UID })
	return impl
}

func sortC11Types(ts []c11Type) {
	sort.Slice(ts, func(a, b int) bool { return ts[a].UID < ts[b].UID })
}

// ---------------------------------------------------------------- generators

// c11Ident is one upkeep/work id pair; proposals for it differ in check block only.
type c11Ident struct {
	uid ocr2keepers.UpkeepIdentifier
	wid string
	ext *ocr2keepers.LogTriggerExtension
}

func (id c11Ident) at(r *Rng, block uint64) JProp {
	var bh [32]byte
	bh[0], bh[31] = byte(block), byte(r.U64()) // a re-coordination has another block hash
	return toJProp(ocr2keepers.CoordinatedBlockProposal{UpkeepID: id.uid,
		Trigger: ocr2keepers.Trigger{BlockNumber: ocr2keepers.BlockNumber(block), BlockHash: bh, LogTriggerExtension: id.ext},
		WorkID:  id.wid})
}

var c11KeySets = [][]string{
	{"a", "b", "c", "d", "e", "f"},
	{"", "a", "aa", "ab", "b", "ba"},
	{"A", "a", "B", "b", "0", "9"},
	{"k1", "k10", "k2", "k20", "k3", "k"},
	{"zz", "z", "y", "x~", "x", "x "},
}

// c11Siblings lists the groups of identities (indices into pool) that share an upkeep id.
func c11Siblings(pool []c11Ident) [][]int {
	by := map[ocr2keepers.UpkeepIdentifier][]int{}
	var order []ocr2keepers.UpkeepIdentifier
	for i, id := range pool {
		if _, ok := by[id.uid]; !ok {
			order = append(order, id.uid)
		}
		by[id.uid] = append(by[id.uid], i)
	}
	var out [][]int
	for _, u := range order {
		if len(by[u]) >= 2 {
			out = append(out, by[u])
		}
	}
	return out
}

// c11Pool builds n identities of the given types with work ids in a random order of a key set
// (or real keccak work ids), so that sorted order and insertion order are unrelated.  Runs of
// 2-4 log identities share one upkeep id (several logs of one upkeep: same UpkeepID, different
// WorkID), so keying anything by upkeep id instead of work id shows.
func c11Pool(r *Rng, n int, typ func(i int) uint8) []c11Ident {
	var keys []string
	real := r.Chance(25)
	if !real {
		set := c11KeySets[r.Intn(len(c11KeySets))]
		for _, i := range r.Perm(len(set)) {
			keys = append(keys, set[i])
		}
	}
	out := make([]c11Ident, n)
	group := 0 // size of the current run of identities that share one log upkeep
	for i := range out {
		ty := typ(i)
		id := c11Ident{uid: ocr2keepers.UpkeepIdentifier(simutil.NewUpkeepID(r.Bytes(8), ty))}
		// a log upkeep has one work id per log: 2-4 identities share the upkeep id
		if ty == uint8(types.LogTrigger) && i > 0 && out[i-1].ext != nil && group < 4 && r.Chance(55) {
			id.uid = out[i-1].uid
			group++
		} else {
			group = 1
		}
		if ty == uint8(types.LogTrigger) {
			id.ext = &ocr2keepers.LogTriggerExtension{TxHash: genHash(r), Index: uint32(r.Intn(4)), BlockHash: genHash(r), BlockNumber: ocr2keepers.BlockNumber(90 + r.Intn(5))}
		}
		if real {
			id.wid = wg(id.uid, ocr2keepers.Trigger{LogTriggerExtension: id.ext})
		} else {
			id.wid = keys[i%len(keys)]
		}
		out[i] = id
	}
	return out
}

type c11B struct {
	r    *Rng
	ops  []c11Op
	now  int64
	adds map[string]int64 // "<type>/<work id>" -> last add time (boundary targeting only)
	enqs []int64          // times of enqueue calls
}

func newC11B(r *Rng) *c11B { return &c11B{r: r, adds: map[string]int64{}} }

func (b *c11B) adv(d int64) {
	if d <= 0 {
		return
	}
	b.ops = append(b.ops, c11Op{Op: "adv", D: d})
	b.now += d
}
func (b *c11B) add(ps ...JProp) {
	b.ops = append(b.ops, c11Op{Op: "add", Ps: ps})
	for _, p := range ps {
		b.adds[fmt.Sprintf("%d/%s", utg(ocr2keepers.UpkeepIdentifier(b32(p.UID))), p.WID)] = b.now
	}
}
func (b *c11B) remove(ps ...JProp) { b.ops = append(b.ops, c11Op{Op: "remove", Ps: ps}) }
func (b *c11B) view(t uint8)       { b.ops = append(b.ops, c11Op{Op: "view", T: t}) }
func (b *c11B) enq(ps ...JProp) {
	b.ops = append(b.ops, c11Op{Op: "enq", Ps: ps})
	b.enqs = append(b.enqs, b.now)
}
func (b *c11B) deq(t uint8, n int) { b.ops = append(b.ops, c11Op{Op: "deq", T: t, N: n}) }
func (b *c11B) outcome(sf [][]JProp) {
	cp := make([][]JProp, len(sf))
	for i := range sf {
		cp[i] = append([]JProp{}, sf[i]...)
	}
	b.ops = append(b.ops, c11Op{Op: "outcome", Surfaced: cp})
	b.enqs = append(b.enqs, b.now)
	// every surfaced work id must have left the pending sets: observe both right after the hooks
	b.view(uint8(types.LogTrigger))
	b.view(uint8(types.ConditionTrigger))
}
func (b *c11B) input() c11Input { return c11Input{Types: []c11Type{}, Ops: b.ops} }

// advance to (t0 + ttl + delta) if that lies in the future
func (b *c11B) advTo(t0, ttl, delta int64) bool {
	target := t0 + ttl + delta
	if target <= b.now {
		return false
	}
	b.adv(target - b.now)
	return true
}

func c11Delta(r *Rng) int64 {
	switch r.Intn(6) {
	case 0:
		return -1
	case 1, 2:
		return 0
	case 3, 4:
		return 1
	}
	return int64(r.Range(2, 1_000_000_000))
}

// c11GenLayout: old entries added first, new ones later, then views around the expiry boundary
// of the old ones: expired entries end up before / between / after live ones in key order.
func c11GenLayout(r *Rng, em *Emitter) c11Input {
	b := newC11B(r)
	twoTypes := r.Chance(20)
	k := r.Range(2, 6)
	pool := c11Pool(r, k, func(i int) uint8 {
		if twoTypes {
			return uint8(i % 2)
		}
		return 1
	})
	if r.Chance(40) {
		for i := range pool {
			pool[i].uid = ocr2keepers.UpkeepIdentifier(simutil.NewUpkeepID(r.Bytes(8), 0))
			pool[i].ext = nil
		}
	}
	old := map[int]bool{}
	for i := range pool {
		if r.Chance(50) {
			old[i] = true
		}
	}
	if len(old) == 0 {
		old[r.Intn(k)] = true
	}
	// where do the old keys sit in sorted order?
	idx := make([]int, k)
	for i := range idx {
		idx[i] = i
	}
	sort.Slice(idx, func(x, y int) bool { return pool[idx[x]].wid < pool[idx[y]].wid })
	pat := ""
	for _, i := range idx {
		if old[i] {
			pat += "x"
		} else {
			pat += "-"
		}
	}
	em.Hit("layout:" + c11Shape(pat))
	var olds, news []JProp
	for _, i := range r.Perm(k) {
		if old[i] {
			olds = append(olds, pool[i].at(r, 100))
		} else {
			news = append(news, pool[i].at(r, 100))
		}
	}
	addAll := func(ps []JProp) {
		if r.Bool() {
			b.add(ps...)
		} else {
			for _, p := range ps {
				b.add(p)
			}
		}
	}
	addAll(olds)
	t0 := b.now
	b.adv([]int64{1, int64(time.Hour), 2 * int64(time.Hour), 23 * int64(time.Hour), int64(137 * time.Millisecond)}[r.Intn(5)])
	if len(news) > 0 {
		addAll(news)
	}
	t1 := b.now
	if r.Chance(30) {
		b.view(uint8(r.Intn(2))) // sorts the key slice before anything expires
	}
	b.advTo(t0, c11MetaExpiry, c11Delta(r))
	b.view(1)
	b.view(0)
	if r.Chance(50) {
		b.view(1) // a second view sees the same live set
		b.view(0)
	}
	if r.Chance(40) && len(olds) > 0 {
		b.add(olds[r.Intn(len(olds))]) // re-add a purged proposal
		b.view(1)
		b.view(0)
	}
	if r.Chance(60) {
		b.advTo(t1, c11MetaExpiry, c11Delta(r))
		b.view(1)
		b.view(0)
	}
	return b.input()
}

func c11Shape(pat string) string {
	// collapse runs: "xx--x" -> "x-x"
	out := []byte{}
	for i := 0; i < len(pat); i++ {
		if i == 0 || pat[i] != pat[i-1] {
			out = append(out, pat[i])
		}
	}
	return string(out)
}

// c11GenMetaWalk: random add/remove/view/advance history over both pending sets.
func c11GenMetaWalk(r *Rng, em *Emitter) c11Input {
	b := newC11B(r)
	k := r.Range(1, 6)
	pool := c11Pool(r, k, func(i int) uint8 {
		switch r.Intn(10) {
		case 0:
			return 2 // neither conditional nor log: ignored by the store
		case 1, 2, 3:
			return 0
		}
		return 1
	})
	pick := func() JProp { return pool[r.Intn(k)].at(r, uint64(100+r.Intn(3))) }
	n := r.Range(8, 30)
	for i := 0; i < n; i++ {
		switch x := r.Intn(100); {
		case x < 30:
			ps := []JProp{pick()}
			for r.Chance(35) {
				ps = append(ps, pick())
			}
			b.add(ps...)
		case x < 42:
			ps := []JProp{pick()}
			if r.Chance(30) {
				ps = append(ps, pick())
			}
			b.remove(ps...)
		case x < 47:
			b.outcome([][]JProp{{pick()}, {}, {pick(), pick()}})
		case x < 53:
			// several logs of one upkeep pending, two or more of them surfaced in one outcome
			// (same round or different rounds): each work id must leave the pending set
			sib := c11Siblings(pool)
			if len(sib) == 0 {
				b.view(uint8(r.Intn(2)))
				break
			}
			g := sib[r.Intn(len(sib))]
			var pend []JProp
			for _, i := range g {
				if r.Chance(85) {
					pend = append(pend, pool[i].at(r, 100))
				}
			}
			if len(pend) > 0 {
				b.add(pend...)
			}
			perm := r.Perm(len(g))
			k := r.Range(2, len(g))
			var sf [][]JProp
			if r.Bool() {
				var round []JProp
				for _, j := range perm[:k] {
					round = append(round, pool[g[j]].at(r, 100))
				}
				sf = [][]JProp{round}
				em.Hit("same-upkeep-outcome:same-round")
			} else {
				for _, j := range perm[:k] {
					sf = append(sf, []JProp{pool[g[j]].at(r, uint64(100+r.Intn(2)))})
					if r.Chance(40) {
						sf = append(sf, []JProp{})
					}
				}
				em.Hit("same-upkeep-outcome:different-rounds")
			}
			b.outcome(sf)
		case x < 78:
			t := uint8(r.Intn(2))
			if r.Chance(4) {
				t = uint8(r.Range(2, 5))
			}
			b.view(t)
		default:
			switch r.Intn(6) {
			case 0:
				b.adv(1)
			case 1:
				b.adv(int64(r.Range(1, 3)) * int64(time.Hour))
			case 2:
				b.adv(25 * int64(time.Hour))
			default:
				// to the expiry boundary of some earlier add
				if len(b.adds) == 0 {
					b.adv(int64(time.Hour))
					break
				}
				keys := make([]string, 0, len(b.adds))
				for kk := range b.adds {
					keys = append(keys, kk)
				}
				sort.Strings(keys)
				if !b.advTo(b.adds[keys[r.Intn(len(keys))]], c11MetaExpiry, c11Delta(r)) {
					b.adv(int64(r.Range(1, 1000)))
				}
			}
		}
	}
	b.view(1)
	b.view(0)
	em.Hit("meta-walk")
	return b.input()
}

// c11GenQueue: enqueue/dequeue/advance histories around the 20 s window and the >= block test.
func c11GenQueue(r *Rng, em *Emitter) c11Input {
	b := newC11B(r)
	k := r.Range(1, 5)
	pool := c11Pool(r, k, func(i int) uint8 {
		switch r.Intn(12) {
		case 0:
			return 2
		case 1, 2, 3, 4:
			return 0
		}
		return 1
	})
	pick := func() JProp { return pool[r.Intn(k)].at(r, uint64(100+r.Intn(3))) }
	n := r.Range(10, 40)
	for i := 0; i < n; i++ {
		switch x := r.Intn(100); {
		case x < 35:
			ps := []JProp{pick()}
			for r.Chance(40) {
				ps = append(ps, pick())
			}
			b.enq(ps...)
		case x < 42:
			b.outcome([][]JProp{{pick(), pick()}, {pick()}})
		case x < 49:
			// two work ids of one upkeep: both queued, one re-coordinated on a higher block, the other not
			sib := c11Siblings(pool)
			if len(sib) == 0 {
				b.enq(pick())
				break
			}
			g := sib[r.Intn(len(sib))]
			perm := r.Perm(len(g))
			a, c := pool[g[perm[0]]], pool[g[perm[1]]]
			b.enq(a.at(r, 100), c.at(r, 100))
			if r.Chance(70) {
				b.deq(1, []int{1, 50, 50}[r.Intn(3)])
			}
			if r.Bool() {
				b.enq(a.at(r, 101), c.at(r, 100))
			} else {
				b.outcome([][]JProp{{c.at(r, 100)}, {a.at(r, 101)}, {a.at(r, 100)}})
			}
			b.deq(1, 50)
			em.Hit("same-upkeep-queue")
		case x < 77:
			t := uint8(r.Intn(2))
			if r.Chance(6) {
				t = 2
			}
			b.deq(t, []int{0, 1, 1, 2, 50, 50, 50}[r.Intn(7)])
		default:
			switch r.Intn(7) {
			case 0:
				b.adv(1)
			case 1:
				b.adv(int64(137 * time.Millisecond))
			case 2:
				b.adv(int64(time.Second))
			case 3:
				b.adv(int64(r.Range(1, 19)) * int64(time.Second))
			default:
				if len(b.enqs) == 0 || !b.advTo(b.enqs[r.Intn(len(b.enqs))], c11QueueExpiry, c11Delta(r)) {
					b.adv(int64(r.Range(1, 3_000_000_000)))
				}
			}
		}
	}
	b.deq(1, 50)
	b.deq(0, 50)
	em.Hit("queue-walk")
	return b.input()
}

// c11GenRounds: 25 plugin rounds.  Every round the outcome carries the surfaced proposals of the
// latest <= 20 rounds (so each proposal is re-enqueued and re-removed round after round); after
// the pre-build hooks the two final flows dequeue, and the observation hooks view both sets.
func c11GenRounds(r *Rng, em *Emitter) c11Input {
	b := newC11B(r)
	k := r.Range(2, 6)
	pool := c11Pool(r, k, func(i int) uint8 { return uint8(r.Intn(2)) })
	block := make([]uint64, k)
	for i := range block {
		block[i] = 100
	}
	profile := r.Intn(4) // fast, nominal, slow, mixed
	em.Hit(fmt.Sprintf("rounds:profile=%d", profile))
	var history [][]JProp // latest first
	const histLimit = ocr2keepersv3.OutcomeSurfacedProposalsRoundHistoryLimit
	for round := 0; round < 25; round++ {
		var d int64
		switch p := profile; {
		case p == 0:
			d = int64(r.Range(137, 900)) * int64(time.Millisecond)
		case p == 1:
			d = int64(time.Second) + int64(r.Range(-3, 3))
		case p == 2:
			d = int64(r.Range(1050, 2500)) * int64(time.Millisecond)
		default:
			d = []int64{int64(137 * time.Millisecond), int64(time.Second), int64(1100 * time.Millisecond), int64(3 * time.Second), 1}[r.Intn(5)]
		}
		b.adv(d)
		// the node's own flows propose work (pending set) ...
		var fresh []JProp
		for j := 0; j < k; j++ {
			if r.Chance(25) {
				fresh = append(fresh, pool[j].at(r, block[j]))
			}
		}
		if len(fresh) > 0 {
			b.add(fresh...)
		}
		// ... and the network surfaces some proposals this round (own or others')
		var latest []JProp
		for j := 0; j < k; j++ {
			if r.Chance(20) {
				switch r.Intn(5) {
				case 0:
					block[j]++ // re-coordination on a higher block
				case 1:
					if block[j] > 100 {
						latest = append(latest, pool[j].at(r, block[j]-1)) // stale, lower block
						continue
					}
				}
				latest = append(latest, pool[j].at(r, block[j]))
			}
		}
		history = append([][]JProp{latest}, history...)
		if len(history) > histLimit {
			history = history[:histLimit]
		}
		b.outcome(history)
		// the final flows' ticks: Dequeue(LogTrigger, FinalRecoveryBatchSize), Dequeue(ConditionTrigger, FinalConditionalBatchSize)
		nl, nc := flows.FinalRecoveryBatchSize, flows.FinalConditionalBatchSize
		if r.Chance(15) {
			nl, nc = 1, 1
		}
		b.deq(uint8(types.LogTrigger), nl)
		b.deq(uint8(types.ConditionTrigger), nc)
		if r.Chance(30) { // a second tick of a final flow within the round
			b.adv(int64(r.Range(1, 400)) * int64(time.Millisecond))
			b.deq(uint8(r.Intn(2)), 50)
		}
		b.view(1)
		b.view(0)
	}
	return b.input()
}

// c11GenVolume: the plugin at its limits: every round surfaces up to OutcomeSurfacedProposalsLimit new proposals
// and the outcome carries the full OutcomeSurfacedProposalsRoundHistoryLimit-round history; rounds faster than
// 1 s, so that well over a thousand distinct work ids pass through the queue inside one 20 s window while
// the whole history is enqueued again every round.  Both final flows dequeue their batch size per round.
func c11GenVolume(r *Rng, em *Emitter) c11Input {
	b := newC11B(r)
	rounds := r.Range(22, 27)
	perRound := ocr2keepersv3.OutcomeSurfacedProposalsLimit
	if r.Chance(30) {
		perRound = r.Range(40, perRound)
	}
	step := int64(r.Range(137, 700)) * int64(time.Millisecond)
	var history [][]JProp
	seq := 0
	for round := 0; round < rounds; round++ {
		b.adv(step + int64(r.Intn(1000)))
		var latest []JProp
		for i := 0; i < perRound; i++ {
			ty := uint8(i % 2)
			id := c11Ident{uid: ocr2keepers.UpkeepIdentifier(simutil.NewUpkeepID(r.Bytes(8), ty)), wid: fmt.Sprintf("v%05d", (r.Intn(90)+10)*1000+seq)}
			seq++
			latest = append(latest, id.at(r, uint64(100+round)))
		}
		history = append([][]JProp{latest}, history...)
		if len(history) > ocr2keepersv3.OutcomeSurfacedProposalsRoundHistoryLimit {
			history = history[:ocr2keepersv3.OutcomeSurfacedProposalsRoundHistoryLimit]
		}
		b.outcome(history)
		b.deq(uint8(types.LogTrigger), flows.FinalRecoveryBatchSize)
		b.deq(uint8(types.ConditionTrigger), flows.FinalConditionalBatchSize)
		if r.Chance(20) {
			b.deq(uint8(r.Intn(2)), flows.FinalRecoveryBatchSize)
		}
	}
	em.Hit("volume")
	return b.input()
}

func c11Gen(r *Rng, em *Emitter) c11Input {
	switch x := r.Intn(100); {
	case x < 35:
		return c11GenLayout(r, em)
	case x < 60:
		return c11GenMetaWalk(r, em)
	case x < 80:
		return c11GenQueue(r, em)
	case x < 90:
		return c11GenFlows(r, em)
	}
	return c11GenRounds(r, em)
}

// ---------------------------------------------------------------- hand-written edge cases

func c11Edge() []c11Input {
	r := NewRng(110011)
	H, S := int64(time.Hour), int64(time.Second)
	ids := func(ty uint8, wids ...string) []c11Ident {
		out := make([]c11Ident, len(wids))
		for i, w := range wids {
			out[i] = c11Ident{uid: ocr2keepers.UpkeepIdentifier(simutil.NewUpkeepID(r.Bytes(8), ty)), wid: w}
		}
		return out
	}
	var out []c11Input

	// 1. the defect repaired by "fix: metadata store: iterate over a copy of the ordered keys":
	//    a expired and sorted first; the pre-fix loop returned [c, c]
	for _, ty := range []uint8{1, 0} {
		p := ids(ty, "a", "b", "c")
		b := newC11B(r)
		b.add(p[0].at(r, 100))
		b.adv(2 * H)
		b.add(p[1].at(r, 100), p[2].at(r, 100))
		b.adv(23 * H)
		b.view(ty)
		b.view(ty)
		out = append(out, b.input())
	}
	// 2. expired between, after, two adjacent expired, all expired, none expired; every insertion order of 3 keys
	for _, lay := range []string{"-x-", "--x", "xx-", "x-x", "-xx", "xxx", "---", "x--"} {
		for _, perm := range [][]int{{0, 1, 2}, {0, 2, 1}, {1, 0, 2}, {1, 2, 0}, {2, 0, 1}, {2, 1, 0}} {
			p := ids(1, "a", "b", "c")
			b := newC11B(r)
			for _, i := range perm {
				if lay[i] == 'x' {
					b.add(p[i].at(r, 100))
				}
			}
			b.adv(H)
			for _, i := range perm {
				if lay[i] == '-' {
					b.add(p[i].at(r, 100))
				}
			}
			b.adv(23*H + 1)
			b.view(1)
			b.adv(H - 1) // exactly 24 h after the second batch: still live
			b.view(1)
			b.adv(1)
			b.view(1)
			out = append(out, b.input())
		}
	}
	// 3. boundary: exactly 24 h is not expired, +1 ns is; re-adding refreshes the creation time
	{
		p := ids(0, "k")
		b := newC11B(r)
		b.add(p[0].at(r, 100))
		b.adv(24 * H)
		b.view(0)
		b.adv(1)
		b.view(0)
		b.view(0)
		b.add(p[0].at(r, 100))
		b.adv(24 * H)
		b.add(p[0].at(r, 101)) // replaces value and creation time
		b.adv(1)
		b.view(0)
		out = append(out, b.input())
	}
	// 4. remove / outcome removal, removal of something absent, other upkeep type, same work id in both sets
	{
		l, c, o := ids(1, "w1", "w2", "w3"), ids(0, "w1", "w9"), ids(2, "w5")
		b := newC11B(r)
		b.add(l[0].at(r, 100), c[0].at(r, 100), l[1].at(r, 100), o[0].at(r, 100), c[1].at(r, 100), l[2].at(r, 100))
		b.view(1)
		b.view(0)
		b.view(2)
		b.remove(l[0].at(r, 555), o[0].at(r, 1)) // removal goes by work id and type only
		b.view(1)
		b.view(0)
		b.outcome([][]JProp{{c[0].at(r, 100)}, {}, {l[2].at(r, 100), l[2].at(r, 100)}})
		b.view(1)
		b.view(0)
		b.remove(l[0].at(r, 100))
		b.view(1)
		out = append(out, b.input())
	}
	// 5. queue: once per block, higher supersedes, lower/equal ignored, window boundary, re-hand after the window
	{
		p := ids(1, "q")[0]
		b := newC11B(r)
		b.enq(p.at(r, 100))
		b.deq(0, 50) // other type: nothing
		b.deq(1, 50) // handed
		b.enq(p.at(r, 100))
		b.deq(1, 50) // equal block: ignored, nothing
		b.enq(p.at(r, 99))
		b.deq(1, 50) // lower: ignored
		b.adv(5 * S)
		b.enq(p.at(r, 101))
		b.deq(1, 50) // higher: handed
		b.enq(p.at(r, 100), p.at(r, 101))
		b.deq(1, 50)  // nothing
		b.adv(20 * S) // exactly 20 s after the supersede: not expired
		b.deq(1, 50)
		b.enq(p.at(r, 101))
		b.deq(1, 50)        // still ignored
		b.adv(1)            // 20 s + 1 ns: expired, purged by the next dequeue
		b.enq(p.at(r, 101)) // still ignored: the expired record is purged only by Dequeue
		b.deq(1, 50)
		b.enq(p.at(r, 100)) // gone: even a lower block is accepted now
		b.deq(1, 50)        // handed again (after the window)
		out = append(out, b.input())
	}
	// 6. limits: n = 0, n = 1 of three, both types, unknown type
	{
		l, c, o := ids(1, "l1", "l2", "l3"), ids(0, "c1"), ids(3, "o1")
		b := newC11B(r)
		b.enq(l[0].at(r, 100), l[1].at(r, 100), c[0].at(r, 100), l[2].at(r, 100), o[0].at(r, 100))
		b.deq(1, 0)
		b.deq(1, 1)
		b.deq(1, 1)
		b.deq(3, 5)
		b.deq(0, 50)
		b.deq(1, 50)
		b.deq(1, 50)
		out = append(out, b.input())
	}
	// 9. removal while the key slice is not sorted (no view since the adds), then the same work id again:
	//    the key must be in the slice exactly once, whatever order the keys were added in
	for _, perm := range [][]int{{2, 0, 1}, {1, 2, 0}, {2, 1, 0}, {0, 2, 1}} {
		for _, victim := range []int{0, 1, 2} {
			p := ids(1, "a", "b", "c")
			b := newC11B(r)
			for _, i := range perm {
				b.add(p[i].at(r, 100))
			}
			b.remove(p[victim].at(r, 100))
			b.add(p[victim].at(r, 101))
			b.view(1)
			b.remove(p[victim].at(r, 101))
			b.view(1)
			b.outcome([][]JProp{{p[(victim+1)%3].at(r, 100)}})
			b.add(p[(victim+1)%3].at(r, 100), p[victim].at(r, 100))
			b.view(1)
			out = append(out, b.input())
		}
	}
	// 8. several logs of ONE log upkeep (same UpkeepID, different WorkID)
	{
		uid := ocr2keepers.UpkeepIdentifier(simutil.NewUpkeepID(r.Bytes(8), 1))
		mk := func(w string, idx uint32) c11Ident {
			return c11Ident{uid: uid, wid: w, ext: &ocr2keepers.LogTriggerExtension{TxHash: genHash(r), Index: idx, BlockHash: genHash(r), BlockNumber: 90}}
		}
		A, B, C, D := mk("log-A", 0), mk("log-B", 1), mk("log-C", 2), mk("log-D", 3)
		other := ids(1, "other")[0]
		// 8a. two of them surfaced in the same round, a third one not surfaced
		b := newC11B(r)
		b.add(A.at(r, 100), B.at(r, 100), C.at(r, 100), other.at(r, 100))
		b.view(1)
		b.outcome([][]JProp{{A.at(r, 100), B.at(r, 100)}})
		b.view(1) // [log-C, other]
		out = append(out, b.input())
		// 8b. surfaced in different rounds of the history, in both orders, with an empty round between
		for _, order := range [][]c11Ident{{A, B, D}, {D, B, A}, {B, A}} {
			b := newC11B(r)
			b.add(D.at(r, 100), C.at(r, 100))
			b.adv(int64(time.Hour))
			b.add(B.at(r, 100), A.at(r, 100))
			var sf [][]JProp
			for _, id := range order {
				sf = append(sf, []JProp{id.at(r, 100)}, []JProp{})
			}
			b.outcome(sf)
			b.view(1) // only what was not surfaced
			b.view(0)
			b.outcome(sf) // the same history again next round
			b.view(1)
			out = append(out, b.input())
		}
		// 8c. RemoveProposals / AddProposals with several work ids of one upkeep in one call
		{
			b := newC11B(r)
			b.add(A.at(r, 100), B.at(r, 100), C.at(r, 100))
			b.remove(B.at(r, 100), A.at(r, 100))
			b.view(1) // [log-C]
			b.add(A.at(r, 101))
			b.remove(C.at(r, 100), C.at(r, 100))
			b.view(1) // [log-A]
			b.adv(24*H + 1)
			b.add(B.at(r, 100))
			b.view(1) // [log-B]
			out = append(out, b.input())
		}
		// 8d. queue: two work ids of one upkeep; A re-coordinated on a higher block, B not
		{
			b := newC11B(r)
			b.enq(A.at(r, 100), B.at(r, 100))
			b.deq(1, 50) // both
			b.enq(A.at(r, 101), B.at(r, 100))
			b.deq(1, 50) // A@101 only
			b.outcome([][]JProp{{B.at(r, 100), A.at(r, 101)}, {A.at(r, 100)}, {C.at(r, 100)}})
			b.deq(1, 1) // C
			b.deq(1, 50)
			b.adv(20*S + 1)
			b.deq(0, 50) // purges all
			b.outcome([][]JProp{{A.at(r, 100), B.at(r, 100), C.at(r, 100)}})
			b.deq(1, 2) // any two of the three
			b.deq(1, 2) // the third
			out = append(out, b.input())
		}
	}
	// 7. an outcome whose 20-round history repeats one proposal in every round
	{
		p := ids(1, "rep")[0]
		b := newC11B(r)
		b.add(p.at(r, 100))
		var hist [][]JProp
		for i := 0; i < 20; i++ {
			hist = append(hist, []JProp{p.at(r, 100)})
		}
		for round := 0; round < 25; round++ {
			b.adv(S + 137)
			b.outcome(hist)
			b.deq(1, 50)
			b.deq(0, 50)
			b.view(1)
		}
		out = append(out, b.input())
	}
	return out
}

// ---------------------------------------------------------------- entry point

func TestC11(t *testing.T) {
	em := NewEmitter(t, "C11")
	defer em.Close()
	runOne := func(src string, in c11Input) {
		for _, op := range in.Ops {
			em.Hit("op:" + op.Op)
		}
		switch in.Mode {
		case "stress":
			impl := c11RunStress(t, &in)
			em.Emit(src, in, impl)
		case "plugin":
			synctest.Test(t, func(t *testing.T) {
				impl := c11RunPlugin(t, &in)
				em.Emit(src, in, impl)
			})
		default:
			synctest.Test(t, func(t *testing.T) {
				impl := c11Run(t, &in)
				em.Emit(src, in, impl)
			})
		}
	}
	names, raws, replayOnly := corpusInputs(t, "C11")
	for i, raw := range raws {
		var in c11Input
		if err := json.Unmarshal(raw, &in); err != nil {
			t.Fatalf("%s: %v", names[i], err)
		}
		runOne(names[i], in)
	}
	if replayOnly {
		return
	}
	for _, in := range c11Edge() {
		runOne("edge", in)
	}
	for _, in := range c11FlowEdge() {
		runOne("edge", in)
	}
	for _, in := range c11PluginEdge() {
		runOne("edge", in)
	}
	for _, in := range c11DynEdge() {
		runOne("edge", in)
	}
	r := NewRng(seed())
	n := tierN(3000, 30000)
	for i := 0; i < n; i++ {
		runOne("gen", c11Gen(r, em))
	}
	// volume: more than a thousand work ids inside one window (own stream; few cases, each large)
	rv := NewRng(seed() ^ 0x70155)
	for i, nv := 0, tierN(2, 12); i < nv; i++ {
		runOne("gen", c11GenVolume(rv, em))
	}
	// plugin level: one instance, Observation after Observation (own stream, so the case mix above is unchanged)
	rp := NewRng(seed() ^ 0x11c11)
	for i, np := 0, tierN(150, 1500); i < np; i++ {
		runOne("gen", c11GenPlugin(rp, em))
	}
	// dynamics (c11_dyn_test.go; own streams): the store's life cycle, the build hooks over more pending proposals
	// than an observation carries, bursts of hundreds of pending proposals draining while absent work ids are removed
	rl := NewRng(seed() ^ 0x11fe)
	for i, nl := 0, tierN(250, 2500); i < nl; i++ {
		runOne("gen", c11GenLife(rl, em))
	}
	ro := NewRng(seed() ^ 0x0b5e)
	for i, no := 0, tierN(250, 2500); i < no; i++ {
		runOne("gen", c11GenObserve(ro, em))
	}
	rb := NewRng(seed() ^ 0xb0457)
	for i, nb := 0, tierN(30, 300); i < nb; i++ {
		runOne("gen", c11GenBurst(rb, em))
	}
	// the same at plugin level: Observation after Observation on one instance
	rw := NewRng(seed() ^ 0x31de)
	for i, nw := 0, tierN(60, 600); i < nw; i++ {
		runOne("gen", c11GenPluginWide(rw, em))
	}
	rpb := NewRng(seed() ^ 0xb0458)
	for i, nb := 0, tierN(6, 60); i < nb; i++ {
		runOne("gen", c11GenPluginBurst(rpb, em))
	}
	// concurrent remove / add / view in a child process (a runtime abort cannot be recovered in-process)
	for _, in := range c11StressInputs(seed(), tierN(24, 120)) {
		runOne("gen", in)
	}
}
