package harness

import (
	"bytes"
	"context"
	"encoding/binary"
	"fmt"
	"hash/fnv"
	"math/big"
	"sort"
	"testing"
	"time"

	gojson "encoding/json"
	"github.com/smartcontractkit/libocr/commontypes"
	"github.com/smartcontractkit/libocr/offchainreporting2plus/ocr3types"
	ocr2plustypes "github.com/smartcontractkit/libocr/offchainreporting2plus/types"

	ocr2keepersv3 "github.com/smartcontractkit/chainlink-automation/pkg/v3"
	"github.com/smartcontractkit/chainlink-automation/pkg/v3/random"
	"github.com/smartcontractkit/chainlink-automation/pkg/v3/types"
	ocr2keepers "github.com/smartcontractkit/chainlink-common/pkg/types/automation"
)

// ---------------------------------------------------------------- one OCR3 round as a case (C01, C02, C05, C03)

type JAttrObs struct {
	Oracle int    `json:"oracle"`
	OK     bool   `json:"ok"`            // bytes decode as JSON into the observation structure
	O      *JObs  `json:"o,omitempty"`   // structurally decoded observation (NOT validated)
	UIDs   []string `json:"uids,omitempty"` // CheckResult.UniqueID() of each performable, computed by the real code
	Raw    string `json:"raw"`           // hex of the bytes handed to the plugin
	// length of the message in bytes. libocr refuses a message longer than the MaxObservationLength the plugin
	// advertises; such an observation is part of the case but is never handed to the plugin (runOutcome plays libocr)
	Len    int    `json:"len,omitempty"`
}

type JWg struct {
	UID  string `json:"uid"`
	Trig JTrig  `json:"trig"`
	WID  string `json:"wid"`
}

type JRoundAux struct {
	Key map[string]string `json:"key"` // work id -> random.ShuffleString(work id, keySource(digest, seq))
	Utg map[string]int    `json:"utg"` // upkeep id -> upkeep type number
	Wg  []JWg             `json:"wg"`  // work-id generator on every (upkeep id, trigger) of the case
}

type JRound struct {
	N      int        `json:"n"`
	F      int        `json:"f"`
	Seq    uint64     `json:"seq"`
	Digest string     `json:"digest"`
	Prev   *JOutcome  `json:"prev"`
	// how the previous outcome reaches Outcome: "" = the encoding of Prev (nil slice when Prev is nil); "empty" = a
	// non-nil slice of length 0; "garbage" = PrevRaw, bytes that do not decode; "invalid" = the encoding of Prev, which
	// breaks a validation rule
	PrevMode string   `json:"prevMode,omitempty"`
	PrevRaw  string   `json:"prevRaw,omitempty"`
	Obs    []JAttrObs `json:"obs"`
	Aux    JRoundAux  `json:"aux"`
}

type JRoundImpl struct {
	Reports    [][]JCR `json:"reports,omitempty"` // what Reports handed to the encoder for this outcome (network runs)
	HasReports bool    `json:"hasReports,omitempty"`
	Err     string    `json:"err,omitempty"`
	Outcome *JOutcome `json:"outcome"`
	Bytes   string    `json:"bytes"`
}

func toJObs(o ocr2keepersv3.AutomationObservation) JObs {
	return JObs{Perf: toJCRs(o.Performable), Props: toJProps(o.UpkeepProposals), Hist: toJBKs(o.BlockHistory)}
}
func fromJObs(j JObs) ocr2keepersv3.AutomationObservation {
	return ocr2keepersv3.AutomationObservation{Performable: fromJCRs(j.Perf), UpkeepProposals: fromJProps(j.Props), BlockHistory: fromJBKs(j.Hist)}
}
func toJOutcome(o ocr2keepersv3.AutomationOutcome) JOutcome {
	j := JOutcome{Agreed: toJCRs(o.AgreedPerformables), Surfaced: [][]JProp{}}
	for _, r := range o.SurfacedProposals {
		j.Surfaced = append(j.Surfaced, toJProps(r))
	}
	return j
}
func fromJOutcome(j JOutcome) ocr2keepersv3.AutomationOutcome {
	o := ocr2keepersv3.AutomationOutcome{AgreedPerformables: fromJCRs(j.Agreed)}
	for _, r := range j.Surfaced {
		o.SurfacedProposals = append(o.SurfacedProposals, fromJProps(r))
	}
	return o
}

// auxBuilder collects the values of the external functions on everything that occurs in a case.
type auxBuilder struct {
	aux    JRoundAux
	ks     [16]byte
	seenWg map[string]bool
}

func newAux(digest [32]byte, seq uint64) *auxBuilder {
	return &auxBuilder{aux: JRoundAux{Key: map[string]string{}, Utg: map[string]int{}}, ks: random.GetRandomKeySource(digest[:], seq), seenWg: map[string]bool{}}
}
func (a *auxBuilder) wid(w string) {
	if _, ok := a.aux.Key[w]; !ok {
		a.aux.Key[w] = random.ShuffleString(w, a.ks)
	}
}
func (a *auxBuilder) upkeep(uid ocr2keepers.UpkeepIdentifier, trig ocr2keepers.Trigger) {
	a.aux.Utg[hx(uid[:])] = int(utg(uid))
	jt := toJTrig(trig)
	k := hx(uid[:]) + fmt.Sprintf("%+v/%+v", jt, jt.Ext)
	if !a.seenWg[k] {
		a.seenWg[k] = true
		a.aux.Wg = append(a.aux.Wg, JWg{UID: hx(uid[:]), Trig: jt, WID: wg(uid, trig)})
	}
}
func (a *auxBuilder) result(r ocr2keepers.CheckResult) { a.wid(r.WorkID); a.upkeep(r.UpkeepID, r.Trigger) }
func (a *auxBuilder) proposal(p ocr2keepers.CoordinatedBlockProposal) {
	a.wid(p.WorkID)
	a.upkeep(p.UpkeepID, p.Trigger)
}
func (a *auxBuilder) outcome(o ocr2keepersv3.AutomationOutcome) {
	for _, r := range o.AgreedPerformables {
		a.result(r)
	}
	for _, round := range o.SurfacedProposals {
		for _, p := range round {
			a.proposal(p)
		}
	}
}

// attrObs turns raw observation bytes into the case form, decoding with the same JSON library the plugin uses.
func attrObs(a *auxBuilder, oracle int, raw []byte) JAttrObs {
	out := JAttrObs{Oracle: oracle, Raw: hx(raw), Len: len(raw)}
	var o ocr2keepersv3.AutomationObservation
	if err := gojson.Unmarshal(raw, &o); err != nil {
		return out
	}
	out.OK = true
	jo := toJObs(o)
	out.O = &jo
	for _, r := range o.Performable {
		out.UIDs = append(out.UIDs, r.UniqueID())
		a.result(r)
	}
	for _, p := range o.UpkeepProposals {
		a.proposal(p)
	}
	return out
}

// ---------------------------------------------------------------- world generator

type roundWorld struct {
	r       *Rng
	n, f    int
	digest  [32]byte
	height  uint64
	chain   map[uint64][32]byte // canonical hash per height
	fork    map[uint64][32]byte // alternative hash per height (some heights)
	results []ocr2keepers.CheckResult
	props   []ocr2keepers.CoordinatedBlockProposal
	prev    *ocr2keepersv3.AutomationOutcome
	opts    roundOpts
}

type roundOpts struct {
	maxPool      int  // size of the honest result pool
	byzantine    bool // include adversarial observations
	bigHistory   bool
	proposalsMax int
	bigHeights   bool // block numbers around 2^63 or just below 2^64
	jumps        bool // the chain sometimes advances by hundreds or thousands of blocks between rounds
	longTails    bool // Byzantine kind 13: long performable lists whose only invalid entry sits at the end
	atLimit      int  // per mille of the rounds in which one honest observation is exactly at / one below / one above the size limit
}

func newRoundWorld(r *Rng, opts roundOpts) *roundWorld {
	ns := []int{4, 4, 7, 10, 13}
	n := ns[r.Intn(len(ns))]
	f := (n - 1) / 3
	if r.Chance(15) && f > 1 {
		f = r.Range(1, f)
	}
	w := &roundWorld{r: r, n: n, f: f, digest: genHash(r), height: uint64(r.Range(50, 5000)), chain: map[uint64][32]byte{}, fork: map[uint64][32]byte{}, opts: opts}
	if r.Chance(10) {
		w.height = uint64(r.Range(1, 6)) // tiny chains
	}
	if opts.bigHeights {
		switch r.Intn(3) {
		case 0:
			w.height = 1<<63 - uint64(r.Range(1, 40)) // crosses 2^63 during the chain
		case 1:
			w.height = 1<<63 + uint64(r.Range(0, 1000))
		default:
			w.height = ^uint64(0) - uint64(r.Range(200_000, 400_000)) // far above 2^63, room to grow
		}
	}
	return w
}

func (w *roundWorld) hashAt(h uint64, forked bool) [32]byte {
	if forked {
		if v, ok := w.fork[h]; ok {
			return v
		}
		v := genHash(w.r)
		if w.r.Chance(3) {
			v = [32]byte{} // zero hash on a fork
		}
		w.fork[h] = v
		return v
	}
	if v, ok := w.chain[h]; ok {
		return v
	}
	v := genHash(w.r)
	if w.r.Chance(2) {
		v = [32]byte{}
	}
	w.chain[h] = v
	return v
}

func (w *roundWorld) refillPools() {
	r := w.r
	// results: keep some, add new ones
	target := r.Range(0, w.opts.maxPool)
	if len(w.results) > target {
		w.results = w.results[:target]
	}
	for len(w.results) < target {
		uid := genUpkeepID(r, r.Chance(50))
		if r.Chance(6) {
			uid = genUpkeepIDOther(r)
		}
		if len(w.results) > 0 && r.Chance(30) {
			// another log of an upkeep that already has results: same upkeep id, different unit of work
			prev := w.results[r.Intn(len(w.results))]
			if utg(prev.UpkeepID) == types.LogTrigger {
				uid = prev.UpkeepID
			}
		}
		blk := w.height - uint64(r.Intn(int(min64(w.height, 5))))
		res := genResult(r, uid, blk)
		res.Trigger.BlockHash = w.hashAt(blk, false)
		if r.Chance(10) {
			res.PerformData = r.Bytes(r.Range(100, 2000))
		}
		w.results = append(w.results, res)
		// variants for the same unit of work (different data or check block)
		if r.Chance(20) {
			v := res
			switch r.Intn(3) {
			case 0:
				v.PerformData = append([]byte{0x42}, res.PerformData...)
			case 1:
				v.GasAllocated = res.GasAllocated + 1
			case 2:
				if blk > 1 {
					v.Trigger.BlockNumber = ocr2keepers.BlockNumber(blk - 1)
					v.Trigger.BlockHash = w.hashAt(blk-1, false)
				}
			}
			w.results = append(w.results, v)
		}
	}
	ptarget := r.Range(0, w.opts.proposalsMax)
	if len(w.props) > ptarget*2 {
		w.props = w.props[len(w.props)-ptarget:]
	}
	for len(w.props) < ptarget {
		uid := genUpkeepID(r, r.Chance(50))
		res := genResult(r, uid, w.height)
		w.props = append(w.props, ocr2keepers.CoordinatedBlockProposal{UpkeepID: uid, Trigger: res.Trigger, WorkID: res.WorkID})
	}
}

func min64(a, b uint64) uint64 {
	if a < b {
		return a
	}
	return b
}

// mutateOneField returns a copy of res differing in exactly one wire field (index 0..10).
func mutateOneField(r *Rng, res ocr2keepers.CheckResult, field int) ocr2keepers.CheckResult {
	v := res
	switch field {
	case 0:
		v.PipelineExecutionState = 1
	case 1:
		v.Retryable = true
	case 2:
		v.Eligible = false
	case 3:
		v.IneligibilityReason = 1
	case 4: // upkeep id (work id no longer matches => invalid; but also try keeping type)
		v.UpkeepID[31] ^= 1
	case 5: // trigger block number / hash
		if r.Bool() {
			v.Trigger.BlockNumber++
		} else {
			v.Trigger.BlockHash[0] ^= 1
		}
	case 6: // log extension block number (not part of the work id)
		if v.Trigger.LogTriggerExtension != nil {
			e := *v.Trigger.LogTriggerExtension
			e.BlockNumber++
			v.Trigger.LogTriggerExtension = &e
		} else {
			v.Trigger.BlockHash[1] ^= 1
		}
	case 7:
		v.WorkID = v.WorkID + "0"
	case 8:
		v.GasAllocated++
	case 9:
		v.PerformData = append(append([]byte{}, v.PerformData...), 0x01)
	case 10:
		if r.Bool() {
			v.FastGasWei = new(big.Int).Add(v.FastGasWei, big.NewInt(1))
		} else {
			v.LinkNative = new(big.Int).Add(v.LinkNative, big.NewInt(1))
		}
	}
	return v
}

// collisionPair returns two different valid results with the same UniqueID (delimiter shift or int64 wrap).
func collisionPair(r *Rng, base ocr2keepers.CheckResult) (ocr2keepers.CheckResult, ocr2keepers.CheckResult) {
	a, b := base, base
	switch r.Intn(3) {
	case 0: // PerformData | FastGasWei | LinkNative boundary shifting
		a.PerformData = []byte{0xaa, 0x09, 0xbb}
		a.FastGasWei = big.NewInt(0xcc)
		a.LinkNative = big.NewInt(0xdd)
		b.PerformData = []byte{0xaa}
		b.FastGasWei = big.NewInt(0xbb)
		b.LinkNative = new(big.Int).SetBytes([]byte{0xcc, 0x09, 0xdd})
	case 1: // gas through int64: 2^63+5 and 2^63-5 have the same magnitude bytes
		a.GasAllocated = 1<<63 + 5
		b.GasAllocated = 1<<63 - 5
	case 2: // FastGasWei / LinkNative shift
		a.FastGasWei = new(big.Int).SetBytes([]byte{0x01, 0x09, 0x02})
		a.LinkNative = big.NewInt(0x03)
		b.FastGasWei = big.NewInt(0x01)
		b.LinkNative = new(big.Int).SetBytes([]byte{0x02, 0x09, 0x03})
	}
	return a, b
}

// collisionTriple returns three pairwise different valid results with one UniqueID (the same byte string split three ways
// over PerformData | FastGasWei | LinkNative).
func collisionTriple(base ocr2keepers.CheckResult) [3]ocr2keepers.CheckResult {
	a, b, c := base, base, base
	a.PerformData, a.FastGasWei, a.LinkNative = []byte{0xaa}, big.NewInt(0xbb), new(big.Int).SetBytes([]byte{0xcc, 0x09, 0xdd})
	b.PerformData, b.FastGasWei, b.LinkNative = []byte{0xaa, 0x09, 0xbb}, big.NewInt(0xcc), big.NewInt(0xdd)
	c.PerformData, c.FastGasWei, c.LinkNative = []byte{0xaa}, new(big.Int).SetBytes([]byte{0xbb, 0x09, 0xcc}), big.NewInt(0xdd)
	return [3]ocr2keepers.CheckResult{a, b, c}
}

// invalidVariant returns a copy of a valid result that breaks exactly one rule of validateCheckResult, and the rule's name.
func invalidVariant(r *Rng, res ocr2keepers.CheckResult) (ocr2keepers.CheckResult, string) {
	v := res
	over := new(big.Int).Lsh(big.NewInt(1), 256) // 2^256: one above the uint256 range
	switch r.Intn(14) {
	case 0:
		v.PipelineExecutionState = 1
		return v, "execution-state"
	case 1:
		v.Retryable = true
		return v, "retryable"
	case 2:
		v.Eligible = false
		return v, "ineligible"
	case 3:
		v.IneligibilityReason = 1
		return v, "ineligibility-reason"
	case 4: // the trigger's extension does not fit the upkeep's type (work id recomputed: only the type rule is broken)
		if v.Trigger.LogTriggerExtension != nil {
			v.Trigger.LogTriggerExtension = nil
		} else {
			v.Trigger.LogTriggerExtension = &ocr2keepers.LogTriggerExtension{TxHash: genHash(r), Index: 1, BlockHash: genHash(r), BlockNumber: v.Trigger.BlockNumber}
		}
		v.WorkID = wg(v.UpkeepID, v.Trigger)
		if utg(v.UpkeepID) != types.LogTrigger && utg(v.UpkeepID) != types.ConditionTrigger {
			v.WorkID = "00" // no type rule for other upkeep types: break the work id instead
			return v, "work-id"
		}
		return v, "trigger-extension"
	case 5:
		v.WorkID = v.WorkID + "0"
		return v, "work-id"
	case 6: // another upkeep's result under this work id
		v.UpkeepID[31] ^= 1
		return v, "work-id"
	case 7:
		v.GasAllocated = 0
		return v, "gas-zero"
	case 8:
		v.FastGasWei = nil
		return v, "fast-gas-absent"
	case 9:
		v.FastGasWei = big.NewInt(-1)
		return v, "fast-gas-range"
	case 10:
		v.FastGasWei = over
		return v, "fast-gas-range"
	case 11:
		v.LinkNative = nil
		return v, "link-absent"
	case 12:
		v.LinkNative = big.NewInt(-1)
		return v, "link-range"
	default:
		v.LinkNative = over
		return v, "link-range"
	}
}

type genObs struct {
	oracle int
	obs    ocr2keepersv3.AutomationObservation
	raw    []byte // if non-nil, send these bytes instead of obs.Encode()
	// padTo > 0: the message is brought to exactly padTo bytes — padStyle 0: insignificant white space, 1: filler
	// results carrying perform data (the way a busy node fills its observation)
	padTo    int
	padStyle int
}

// genRoundObservations builds the attributed observations of one round.
func (w *roundWorld) genRoundObservations(em *Emitter) []genObs {
	r := w.r
	m := r.Range(2*w.f+1, w.n)
	oracles := r.Perm(w.n)[:m]
	nByz := 0
	if w.opts.byzantine {
		nByz = r.Range(0, w.f)
	}
	obs := make([]genObs, m)
	for i := range obs {
		obs[i].oracle = oracles[i]
	}
	honest := obs[nByz:]
	// --- performables: choose the vote count of each pool result around the threshold
	for _, res := range w.results {
		var votes int
		switch r.Intn(7) {
		case 0:
			votes = w.f
		case 1, 2:
			votes = w.f + 1
		case 3:
			votes = w.f + 2
		case 4:
			votes = len(honest)
		case 5:
			votes = 1
		default:
			votes = r.Range(0, len(honest))
		}
		if votes > len(honest) {
			votes = len(honest)
		}
		for _, k := range r.Perm(len(honest))[:votes] {
			o := &honest[k].obs
			dup := false
			for _, e := range o.Performable {
				if e.WorkID == res.WorkID {
					dup = true
				}
			}
			if !dup && len(o.Performable) < ocr2keepersv3.ObservationPerformablesLimit {
				o.Performable = append(o.Performable, res)
			}
		}
	}
	// --- split votes: two or three different results for ONE unit of work, each with exactly f+1 voters
	if len(honest) >= 2*(w.f+1) && len(w.results) > 0 && r.Chance(35) {
		base := w.results[r.Intn(len(w.results))]
		var variants []ocr2keepers.CheckResult
		switch r.Intn(3) {
		case 0: // UniqueID collision partners
			a, b := collisionPair(r, base)
			variants = []ocr2keepers.CheckResult{a, b}
		case 1:
			t := collisionTriple(base)
			variants = t[:]
		default: // plain near-duplicates (different digests)
			v := base
			v.PerformData = append([]byte{0x17}, base.PerformData...)
			v2 := base
			v2.GasAllocated = base.GasAllocated + 7
			variants = []ocr2keepers.CheckResult{base, v, v2}
		}
		em.Hit("split-vote")
		order := r.Perm(len(honest))
		k := 0
		for vi, v := range variants {
			if k+w.f+1 > len(order) {
				// remaining variants get a single vote
				if k < len(order) {
					setResult(&honest[order[k]].obs, v)
					k++
				}
				continue
			}
			votes := w.f + 1
			if vi > 0 && r.Chance(30) {
				votes = w.f // just below quorum
			}
			for j := 0; j < votes && k < len(order); j++ {
				setResult(&honest[order[k]].obs, v)
				k++
			}
		}
	}
	// --- block histories
	depth := r.Range(1, 12)
	if w.opts.bigHistory && r.Chance(10) {
		depth = 256
	}
	for i := range obs {
		o := &obs[i].obs
		lag := uint64(r.Intn(4))
		forked := r.Chance(25)
		top := w.height
		if top > lag {
			top -= lag
		}
		for d := 0; d < depth && uint64(d) < top; d++ {
			h := top - uint64(d)
			o.BlockHistory = append(o.BlockHistory, ocr2keepers.BlockKey{Number: ocr2keepers.BlockNumber(h), Hash: w.hashAt(h, forked && d < 3)})
		}
		if r.Chance(5) {
			o.BlockHistory = nil
		}
	}
	// --- proposals: at most 5 per type per oracle, duplicates across oracles
	for i := range obs {
		o := &obs[i].obs
		nc, nl := 0, 0
		seen := map[string]bool{}
		cand := append([]ocr2keepers.CoordinatedBlockProposal{}, w.props...)
		// propose work that is being agreed / is already in history, too
		if len(w.results) > 0 && r.Chance(30) {
			res := w.results[r.Intn(len(w.results))]
			cand = append(cand, ocr2keepers.CoordinatedBlockProposal{UpkeepID: res.UpkeepID, Trigger: res.Trigger, WorkID: res.WorkID})
		}
		if w.prev != nil && r.Chance(40) {
			for _, round := range w.prev.SurfacedProposals {
				if len(round) > 0 {
					cand = append(cand, round[r.Intn(len(round))])
				}
			}
		}
		for _, k := range r.Perm(len(cand)) {
			p := cand[k]
			if seen[p.WorkID] || !r.Chance(60) {
				continue
			}
			if utg(p.UpkeepID) == types.LogTrigger {
				if nl >= ocr2keepersv3.ObservationLogRecoveryProposalsLimit {
					continue
				}
				nl++
			} else {
				if nc >= ocr2keepersv3.ObservationConditionalsProposalsLimit {
					continue
				}
				nc++
			}
			seen[p.WorkID] = true
			// the proposing node's own view of the block (gets overwritten by coordination)
			if r.Chance(50) {
				p.Trigger.BlockNumber = ocr2keepers.BlockNumber(w.height - uint64(r.Intn(3)))
			}
			o.UpkeepProposals = append(o.UpkeepProposals, p)
		}
	}
	// --- Byzantine observations
	for i := 0; i < nByz; i++ {
		o := &obs[i].obs
		kind := r.Intn(13)
		if w.opts.longTails && r.Chance(13) {
			kind = 13
		}
		em.Hit(fmt.Sprintf("byz-kind-%d", kind))
		switch kind {
		case 0: // near-duplicates of honest results differing in exactly one field
			for _, res := range w.results {
				if len(o.Performable) >= 100 {
					break
				}
				if r.Chance(60) {
					v := mutateOneField(r, res, r.Intn(11))
					if r.Chance(50) {
						v.WorkID = wg(v.UpkeepID, v.Trigger) // keep it valid where possible
					}
					o.Performable = append(o.Performable, v)
				}
			}
		case 1: // same work id twice in one observation (whole observation invalid)
			if len(w.results) > 0 {
				res := w.results[r.Intn(len(w.results))]
				v := res
				v.GasAllocated++
				o.Performable = append(o.Performable, res, v)
			}
		case 2: // UniqueID collision partner of what another (possibly honest) oracle sends
			if len(w.results) > 0 && len(honest) > 0 {
				base := w.results[r.Intn(len(w.results))]
				a, b := collisionPair(r, base)
				o.Performable = append(o.Performable, a)
				h := &honest[r.Intn(len(honest))].obs
				// replace the honest oracle's result for that work id by the partner
				repl := false
				for k := range h.Performable {
					if h.Performable[k].WorkID == b.WorkID {
						h.Performable[k] = b
						repl = true
					}
				}
				if !repl && len(h.Performable) < 100 {
					h.Performable = append(h.Performable, b)
				}
			}
		case 3: // invalid single result
			if len(w.results) > 0 {
				v := w.results[r.Intn(len(w.results))]
				switch r.Intn(4) {
				case 0:
					v.GasAllocated = 0
				case 1:
					v.FastGasWei = nil
				case 2:
					v.LinkNative = big.NewInt(-1)
				case 3:
					v.WorkID = "deadbeef"
				}
				o.Performable = append(o.Performable, v)
			}
		case 4: // over-limit list
			for k := 0; k < 101; k++ {
				o.Performable = append(o.Performable, genResult(r, genUpkeepID(r, false), w.height))
			}
		case 5: // undecodable bytes
			obs[i].raw = []byte(`{"Performable": [{"WorkID": 5}], `)
			if r.Bool() {
				obs[i].raw = r.Bytes(r.Range(0, 40))
			}
		case 6: // votes for everything (valid): pushes results over the threshold together with f honest ones
			for _, res := range w.results {
				dup := false
				for _, e := range o.Performable {
					dup = dup || e.WorkID == res.WorkID
				}
				if !dup && len(o.Performable) < 100 {
					o.Performable = append(o.Performable, res)
				}
			}
		case 7: // conflicting / bogus block history: high numbers, forks, zero hashes, duplicate numbers
			o.BlockHistory = nil
			top := w.height + uint64(r.Range(0, 50))
			for d := 0; d < r.Range(1, 10); d++ {
				h := genHash(r)
				if r.Chance(30) {
					h = [32]byte{}
				}
				o.BlockHistory = append(o.BlockHistory, ocr2keepers.BlockKey{Number: ocr2keepers.BlockNumber(top - uint64(d)), Hash: h})
			}
			if r.Chance(30) && len(o.BlockHistory) > 1 {
				o.BlockHistory[1].Number = o.BlockHistory[0].Number // duplicate number: invalid
			}
		case 9: // the same result (or the same work id) twice, NOT adjacent: [A, B, A]
			if len(w.results) >= 2 {
				a := w.results[r.Intn(len(w.results))]
				var mid []ocr2keepers.CheckResult
				for _, x := range w.results {
					if x.WorkID != a.WorkID && len(mid) < r.Range(1, 3) {
						mid = append(mid, x)
					}
				}
				a2 := a
				if r.Chance(40) {
					a2.GasAllocated++
				}
				o.Performable = append(append([]ocr2keepers.CheckResult{a}, mid...), a2)
				if r.Chance(50) { // and a proposal / block-number duplicate of the same shape
					if len(o.BlockHistory) >= 3 {
						o.BlockHistory[2].Number = o.BlockHistory[0].Number
					}
				}
			}
		case 10: // third (and first) member of a UniqueID collision triple, the honest ones hold the second
			if len(w.results) > 0 && len(honest) > 0 {
				t := collisionTriple(w.results[r.Intn(len(w.results))])
				setResult(o, t[r.Intn(3)])
				for hk, hv := range r.Perm(len(honest)) {
					if hk >= 2 {
						break
					}
					setResult(&honest[hv].obs, t[(hk+1)%3])
				}
			}
		case 11: // an upkeep whose type is neither condition nor log, the same result listed twice (adjacent and not)
			{
				uid := genUpkeepIDOther(r)
				x := genResult(r, uid, w.height)
				var mid []ocr2keepers.CheckResult
				if len(w.results) > 0 && r.Bool() {
					mid = append(mid, w.results[r.Intn(len(w.results))])
				}
				o.Performable = append(append([]ocr2keepers.CheckResult{x}, mid...), x)
				if r.Chance(40) {
					px := ocr2keepers.CoordinatedBlockProposal{UpkeepID: uid, Trigger: x.Trigger, WorkID: x.WorkID}
					o.UpkeepProposals = append(o.UpkeepProposals, px, px)
				}
			}
		case 12: // block history with a NON-adjacent repeated block number: [X, Y, X]
			{
				top := w.height + uint64(r.Range(1, 40))
				hx, hy := genHash(r), genHash(r)
				o.BlockHistory = ocr2keepers.BlockHistory{{Number: ocr2keepers.BlockNumber(top), Hash: hx}, {Number: ocr2keepers.BlockNumber(top - 1), Hash: hy}, {Number: ocr2keepers.BlockNumber(top), Hash: hx}}
				if r.Bool() {
					o.BlockHistory = append(o.BlockHistory, ocr2keepers.BlockKey{Number: ocr2keepers.BlockNumber(top - 2), Hash: genHash(r)}, ocr2keepers.BlockKey{Number: ocr2keepers.BlockNumber(top), Hash: hx})
				}
				for k := 0; k < r.Range(1, 3); k++ {
					uid := genUpkeepID(r, r.Bool())
					res := genResult(r, uid, top)
					o.UpkeepProposals = append(o.UpkeepProposals, ocr2keepers.CoordinatedBlockProposal{UpkeepID: uid, Trigger: res.Trigger, WorkID: res.WorkID})
				}
			}
		case 13: // a LONG list (64–100 results) whose ONLY invalid entry sits at the very end or among the last few
			// positions; everything before it is valid and votes for the whole pool, so the observation's vote would
			// lift results with f honest votes over the threshold — if it were counted
			{
				for _, res := range w.results {
					dup := false
					for _, e := range o.Performable {
						dup = dup || e.WorkID == res.WorkID
					}
					if !dup && len(o.Performable) < 90 {
						o.Performable = append(o.Performable, res)
					}
				}
				total := r.Range(64, 100)
				if r.Chance(30) {
					total = []int{100, 99, 97, 95, 71, 65}[r.Intn(6)]
				}
				if total <= len(o.Performable) {
					total = len(o.Performable) + 1
				}
				for len(o.Performable) < total {
					o.Performable = append(o.Performable, genResult(r, genUpkeepID(r, r.Bool()), w.height))
				}
				pos := total - 1
				if r.Chance(50) {
					pos = total - 1 - r.Intn(7) // one of the last seven
				}
				if pos < 0 {
					pos = 0
				}
				bad, vk := invalidVariant(r, o.Performable[pos])
				o.Performable[pos] = bad
				em.Hit("byz-tail-invalid:" + vk)
				em.Hit(fmt.Sprintf("byz-tail-len%%8=%d", total%8))
			}
		case 8: // proposal flood: too many, duplicates, wrong work id
			for k := 0; k < r.Range(1, 14); k++ {
				uid := genUpkeepID(r, r.Bool())
				res := genResult(r, uid, w.height)
				p := ocr2keepers.CoordinatedBlockProposal{UpkeepID: uid, Trigger: res.Trigger, WorkID: res.WorkID}
				if r.Chance(10) {
					p.WorkID = "00"
				}
				o.UpkeepProposals = append(o.UpkeepProposals, p)
			}
		}
	}
	// --- message size: one honest observation that carries votes is exactly at, one below or one above the maximum
	// length the plugin advertises to libocr (a busy node fills its observation up to and including the limit; one
	// byte more and libocr never hands the message over)
	if w.opts.atLimit > 0 && r.Intn(1000) < w.opts.atLimit {
		var cand []int
		for k := range honest {
			if len(honest[k].obs.Performable) > 0 {
				cand = append(cand, k)
			}
		}
		if len(cand) > 0 {
			g := &honest[cand[r.Intn(len(cand))]]
			g.padTo = ocr2keepersv3.MaxObservationLength + []int{0, 0, -1, 1}[r.Intn(4)]
			if r.Chance(30) {
				g.padStyle = 1
			}
			em.Hit(fmt.Sprintf("obs-size=max%+d,style=%d", g.padTo-ocr2keepersv3.MaxObservationLength, g.padStyle))
		}
	}
	// shuffle the delivery order of the attributed observations
	perm := r.Perm(len(obs))
	out := make([]genObs, len(obs))
	for i, k := range perm {
		out[i] = obs[k]
	}
	return out
}

// setResult puts v into the observation, replacing any result for the same unit of work.
func setResult(o *ocr2keepersv3.AutomationObservation, v ocr2keepers.CheckResult) {
	for i := range o.Performable {
		if o.Performable[i].WorkID == v.WorkID {
			o.Performable[i] = v
			return
		}
	}
	if len(o.Performable) < ocr2keepersv3.ObservationPerformablesLimit {
		o.Performable = append(o.Performable, v)
	}
}

func encodeObs(g genObs) []byte {
	if g.raw != nil {
		return g.raw
	}
	b, err := g.obs.Encode()
	if err != nil {
		panic(err)
	}
	if g.padTo > 0 {
		if p := padObservation(g.obs, g.padTo, g.padStyle); p != nil {
			return p
		}
	}
	return spaced(b)
}

// padObservation returns an encoding of exactly `target` bytes of an observation that lists everything o lists (nil
// when o's own encoding is already longer). Style 0 adds insignificant white space — the same JSON value, so the same
// observation; style 1 appends valid filler results of other upkeeps whose perform data (and, for the last few bytes,
// the digits of a link price) take up the room, the way a node under load fills its observation.
func padObservation(o ocr2keepersv3.AutomationObservation, target, style int) []byte {
	b := must(o.Encode())
	if len(b) > target {
		return nil
	}
	h := fnv.New64a()
	h.Write(b)
	r := NewRng(h.Sum64())
	if style == 1 && len(o.Performable) < ocr2keepersv3.ObservationPerformablesLimit {
		nf := ocr2keepersv3.ObservationPerformablesLimit - len(o.Performable)
		if nf > 80 {
			nf = 80
		}
		o2 := o
		o2.Performable = append([]ocr2keepers.CheckResult{}, o.Performable...)
		first := len(o2.Performable)
		for k := 0; k < nf; k++ {
			f := genResult(r, genUpkeepID(r, k%2 == 0), 1+uint64(r.Intn(1000)))
			f.PerformData = []byte{1, 2, 3} // 3 bytes = 4 base64 characters, no padding characters
			f.LinkNative = big.NewInt(7)    // one digit
			o2.Performable = append(o2.Performable, f)
		}
		need := target - len(must(o2.Encode()))
		if need >= 0 {
			groups, rest := need/4, need%4 // 3 more bytes of perform data = 4 more characters; the rest: digits
			for k := 0; k < nf; k++ {
				g := groups / nf
				if k < groups%nf {
					g++
				}
				o2.Performable[first+k].PerformData = r.Bytes(3 + 3*g)
			}
			o2.Performable[first].LinkNative = new(big.Int).Exp(big.NewInt(10), big.NewInt(int64(rest)), nil) // 1+rest digits
			p := must(o2.Encode())
			if len(p) != target {
				panic(fmt.Sprintf("padObservation: got %d bytes, wanted %d", len(p), target))
			}
			return p
		}
	}
	// white space: before the value, after the opening brace, before the closing brace and after the value
	ws := make([]byte, target-len(b))
	for i := range ws {
		ws[i] = " \t\n\r"[r.Intn(4)]
	}
	c1, c2, c3 := 0, 0, 0
	if len(ws) > 0 {
		c1 = r.Intn(len(ws) + 1)
		c2 = c1 + r.Intn(len(ws)-c1+1)
		c3 = c2 + r.Intn(len(ws)-c2+1)
	}
	var out []byte
	out = append(out, ws[:c1]...)
	out = append(out, b[0])
	out = append(out, ws[c1:c2]...)
	out = append(out, b[1:len(b)-1]...)
	out = append(out, ws[c2:c3]...)
	out = append(out, b[len(b)-1])
	out = append(out, ws[c3:]...)
	return out
}

// spaced re-renders about one message in eight with insignificant white space (another encoder, or a peer that wants
// to be awkward): the same JSON value, so the same observation
func spaced(b []byte) []byte {
	h := fnv.New32a()
	h.Write(b)
	if h.Sum32()%8 != 0 {
		return b
	}
	var buf bytes.Buffer
	if err := gojson.Indent(&buf, b, "", " \t"); err != nil || buf.Len() > ocr2keepersv3.MaxObservationLength {
		return b
	}
	return buf.Bytes()
}

// buildRound converts generated observations into a case input.
func buildRound(n, f int, digest [32]byte, seq uint64, prev *ocr2keepersv3.AutomationOutcome, raws [][]byte, oracles []int) JRound {
	a := newAux(digest, seq)
	jr := JRound{N: n, F: f, Seq: seq, Digest: hx(digest[:])}
	if prev != nil {
		jp := toJOutcome(*prev)
		jr.Prev = &jp
		a.outcome(*prev)
	}
	for i, raw := range raws {
		jr.Obs = append(jr.Obs, attrObs(a, oracles[i], raw))
	}
	sort.Slice(a.aux.Wg, func(i, j int) bool { return a.aux.Wg[i].WID+a.aux.Wg[i].UID < a.aux.Wg[j].WID+a.aux.Wg[j].UID })
	jr.Aux = a.aux
	return jr
}

// prevBytesOf is the previous-outcome byte slice a case hands to Outcome.
func prevBytesOf(in JRound) []byte {
	switch in.PrevMode {
	case "empty":
		return []byte{}
	case "garbage":
		return unhx(in.PrevRaw)
	}
	if in.Prev != nil {
		return must(fromJOutcome(*in.Prev).Encode())
	}
	return nil
}

// badPrevVariant turns a round into one whose previous outcome must make Outcome fail: the same observations, a previous
// outcome that is empty-but-not-nil, cut short, or in breach of one validation rule.
func badPrevVariant(r *Rng, in JRound, prev *ocr2keepersv3.AutomationOutcome) (JRound, bool) {
	out := in
	switch r.Intn(4) {
	case 0:
		out.PrevMode = "empty"
		out.Prev = nil
	case 1:
		if prev == nil {
			return in, false
		}
		b := must(prev.Encode())
		out.PrevMode = "garbage"
		out.PrevRaw = hx(b[:len(b)-1-r.Intn(len(b)/2+1)])
		out.Prev = nil
	case 2:
		// more rounds of history than the limit
		p := ocr2keepersv3.AutomationOutcome{}
		if prev != nil {
			p.AgreedPerformables = prev.AgreedPerformables
			p.SurfacedProposals = append(p.SurfacedProposals, prev.SurfacedProposals...)
		}
		for len(p.SurfacedProposals) <= ocr2keepersv3.OutcomeSurfacedProposalsRoundHistoryLimit {
			p.SurfacedProposals = append(p.SurfacedProposals, []ocr2keepers.CoordinatedBlockProposal{})
		}
		jp := toJOutcome(p)
		out.Prev = &jp
		out.PrevMode = "invalid"
	default:
		// one agreed performable listed twice
		if prev == nil || len(prev.AgreedPerformables) == 0 || len(prev.AgreedPerformables) >= ocr2keepersv3.OutcomeAgreedPerformablesLimit {
			return in, false
		}
		p := ocr2keepersv3.AutomationOutcome{SurfacedProposals: prev.SurfacedProposals}
		p.AgreedPerformables = append(append([]ocr2keepers.CheckResult{}, prev.AgreedPerformables...), prev.AgreedPerformables[r.Intn(len(prev.AgreedPerformables))])
		jp := toJOutcome(p)
		out.Prev = &jp
		out.PrevMode = "invalid"
	}
	return out, true
}

// delivered plays libocr's part for the observations of a round: a message longer than the MaxObservationLength the
// plugin advertised when it was created never reaches the plugin; everything else is handed over as it is.
func delivered(node *Node, in JRound) []ocr2plustypes.AttributedObservation {
	var aos []ocr2plustypes.AttributedObservation
	for _, o := range in.Obs {
		raw := unhx(o.Raw)
		if len(raw) > node.Info.Limits.MaxObservationLength {
			continue
		}
		aos = append(aos, ocr2plustypes.AttributedObservation{Observation: raw, Observer: commontypes.OracleID(o.Oracle)})
	}
	return aos
}

// inFlightShare selects the units of work a node is made to have in flight before a round is evaluated: about a third
// of what the round's observations list, by a hash of the work id (so every instance and every evaluation agree).
func inFlightShare(workID string, salt uint32) bool {
	h := fnv.New32a()
	h.Write([]byte(workID))
	return (h.Sum32()+salt)%3 == 0
}

// inFlightSalt: instances that are to hold DIFFERENT in-flight work get different salts (C02); default 0
var inFlightSalt = map[*Node]uint32{}

// inFlightDone: the sequence numbers for which makeInFlight has already run on a node (accepting twice changes nothing)
var inFlightDone = map[*Node]map[uint64]bool{}

// makeInFlight gives the node's coordinator in-flight state for work that the round's observations still report: the
// node accepted an attested report carrying it in an earlier round (nodes are never in step — the others have not seen
// that report yet, or a conditional upkeep was checked again at a newer block). What the NETWORK agrees on in this
// round is no business of that state.
func makeInFlight(node *Node, in JRound) int {
	if inFlightDone[node][in.Seq] {
		return 0
	}
	if inFlightDone[node] == nil {
		inFlightDone[node] = map[uint64]bool{}
	}
	inFlightDone[node][in.Seq] = true
	seen := map[string]bool{}
	k := 0
	for _, o := range in.Obs {
		if o.O == nil {
			continue
		}
		for _, res := range fromJCRs(o.O.Perf) {
			if seen[res.WorkID] || !inFlightShare(res.WorkID, inFlightSalt[node]) {
				continue
			}
			seen[res.WorkID] = true
			rep, err := node.Enc.Encode(res)
			if err != nil {
				continue
			}
			node.Plugin.ShouldAcceptAttestedReport(context.Background(), in.Seq, ocr3types.ReportWithInfo[pluginInfo]{Report: rep})
			k++
		}
	}
	node.Enc.Take()
	return k
}

// runOutcome calls the real Outcome on a node.
func runOutcome(node *Node, in JRound) (JRoundImpl, []byte) {
	aos := delivered(node, in)
	prevBytes := prevBytesOf(in)
	makeInFlight(node, in)
	snap := make([][]byte, len(aos))
	for k := range aos {
		snap[k] = append([]byte(nil), aos[k].Observation...)
	}
	prevSnap := append([]byte(nil), prevBytes...)
	// an earlier evaluation on this process FAILED on its previous outcome after seeing these very observations
	// (an abandoned round): no vote of it may leak into the evaluation below
	node.Plugin.Outcome(context.Background(), ocr3types.OutcomeContext{SeqNr: in.Seq, PreviousOutcome: []byte(`{"AgreedPerformables":17`)}, nil, aos)
	// libocr's own order: every observation is validated, then Outcome is called with the very same byte slices
	for _, ao := range aos {
		node.Plugin.ValidateObservation(context.Background(), ocr3types.OutcomeContext{SeqNr: in.Seq, PreviousOutcome: prevBytes}, nil, ao)
	}
	// the node has already validated OTHER observations attributed to the same observers in this very sequence number
	// (an abandoned epoch, an equivocating peer): that must leave no trace in the outcome
	for k, ao := range aos {
		alt := must(ocr2keepersv3.AutomationObservation{BlockHistory: ocr2keepers.BlockHistory{{Number: ocr2keepers.BlockNumber(900000 + k), Hash: [32]byte{byte(k + 1)}}}}.Encode())
		if k > 0 && k%2 == 1 {
			alt = aos[k-1].Observation
		}
		node.Plugin.ValidateObservation(context.Background(), ocr3types.OutcomeContext{SeqNr: in.Seq, PreviousOutcome: prevBytes}, nil,
			ocr2plustypes.AttributedObservation{Observation: alt, Observer: ao.Observer})
	}
	raw, err := node.Plugin.Outcome(context.Background(), ocr3types.OutcomeContext{SeqNr: in.Seq, PreviousOutcome: prevBytes}, nil, aos)
	impl := JRoundImpl{Bytes: hx(raw)}
	if err != nil {
		impl.Err = err.Error()
		return impl, nil
	}
	// the plugin must not write into the byte slices it is handed (libocr passes the same slices to several calls)
	for k := range aos {
		if !bytes.Equal(aos[k].Observation, snap[k]) {
			impl.Err = fmt.Sprintf("input modified: the bytes of observation %d were changed by ValidateObservation/Outcome", k)
			return impl, nil
		}
	}
	if !bytes.Equal(prevBytes, prevSnap) {
		impl.Err = "input modified: the previous outcome's bytes were changed by ValidateObservation/Outcome"
		return impl, nil
	}
	var o ocr2keepersv3.AutomationOutcome
	if err := gojson.Unmarshal(raw, &o); err != nil {
		impl.Err = "outcome bytes do not decode: " + err.Error()
		return impl, raw
	}
	jo := toJOutcome(o)
	impl.Outcome = &jo
	return impl, raw
}

// withFreshNode is withNode on a factory that has built nothing before (a restarted process, a late joiner).
func withFreshNode(t *testing.T, o NodeOpts, fn func(n *Node)) {
	o.Decoy = nil
	node := NewNode(t, o)
	time.Sleep(1500 * time.Millisecond)
	fn(node)
	node.Close()
	delete(inFlightSalt, node)
	delete(inFlightDone, node)
	time.Sleep(11 * time.Second)
}

// withNode runs fn with a started node inside the current bubble and closes it afterwards.
func withNode(t *testing.T, o NodeOpts, fn func(n *Node)) {
	if o.Decoy == nil {
		// the factory has built an instance for another configuration (other n, f, digest, limits) before this one
		d := NodeOpts{N: o.N + 3, F: o.F + 1, OracleID: o.OracleID, OffchainConfig: []byte(`{"maxUpkeepBatchSize":7,"gasLimitPerReport":1000000,"gasOverheadPerUpkeep":11}`)}
		for i := range d.Digest {
			d.Digest[i] = ^o.Digest[len(o.Digest)-1-i]
		}
		o.Decoy = &d
	}
	node := NewNode(t, o)
	time.Sleep(1500 * time.Millisecond)
	fn(node)
	node.Close()
	delete(inFlightSalt, node)
	delete(inFlightDone, node)
	time.Sleep(11 * time.Second)
}

// genOffchainDoc builds a PARTIAL off-chain configuration document: every field is, independently, absent, null, zero,
// negative (signed fields) or set; absent / null / non-positive values get the documented defaults. The order of the
// members is shuffled.
func genOffchainDoc(r *Rng) []byte {
	var parts []string
	member := func(key string, signed bool, val func() string) {
		switch r.Intn(7) {
		case 0, 1: // absent
		case 2:
			parts = append(parts, fmt.Sprintf("%q:null", key))
		case 3:
			parts = append(parts, fmt.Sprintf("%q:0", key))
		case 4:
			if signed {
				parts = append(parts, fmt.Sprintf("%q:-%d", key, r.Range(1, 9)))
			}
		default:
			parts = append(parts, fmt.Sprintf("%q:%s", key, val()))
		}
	}
	member("maxUpkeepBatchSize", true, func() string { return fmt.Sprint(r.Range(1, 12)) })
	member("gasLimitPerReport", false, func() string { return fmt.Sprint(r.Range(100_000, 20_000_000)) })
	member("gasOverheadPerUpkeep", false, func() string { return fmt.Sprint(r.Range(1, 400_000)) })
	member("performLockoutWindow", true, func() string { return fmt.Sprint(r.Range(600_000, 3_600_000)) })
	member("minConfirmations", true, func() string { return fmt.Sprint(r.Range(1, 3)) })
	member("targetInRounds", true, func() string { return fmt.Sprint(r.Range(1, 4)) })
	switch r.Intn(4) {
	case 0:
		parts = append(parts, `"targetProbability":"0.5"`)
	case 1:
		parts = append(parts, `"targetProbability":""`)
	case 2:
		parts = append(parts, `"targetProbability":"0.99999"`)
	}
	switch r.Intn(4) {
	case 0:
		parts = append(parts, fmt.Sprintf(`"logProviderConfig":{"blockRate":%d,"logLimit":%d}`, r.Range(1, 4), r.Range(1, 20)))
	case 1:
		parts = append(parts, fmt.Sprintf(`"logProviderConfig":{"logLimit":%d}`, r.Range(1, 20)))
	case 2:
		parts = append(parts, `"logProviderConfig":{}`)
	}
	doc := "{"
	for i, k := range r.Perm(len(parts)) {
		if i > 0 {
			doc += ","
		}
		doc += parts[k]
	}
	return []byte(doc + "}")
}

func seqBytes(seq uint64) []byte {
	b := make([]byte, 8)
	binary.LittleEndian.PutUint64(b, seq)
	return b
}
