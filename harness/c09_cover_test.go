package harness

import (
	"context"
	"fmt"
	"math"
	"math/big"
	"sort"
	"strconv"
	"testing"
	"testing/synctest"
	"time"

	gojson "encoding/json"
	"github.com/smartcontractkit/libocr/commontypes"
	"github.com/smartcontractkit/libocr/offchainreporting2plus/ocr3types"
	ocr2plustypes "github.com/smartcontractkit/libocr/offchainreporting2plus/types"

	ocr2keepers "github.com/smartcontractkit/chainlink-common/pkg/types/automation"
)

// C09, liveness side — sampling coverage runs (case kind "cover").
//
// A conditional upkeep reaches a report only through sample -> proposal -> observation -> coordinated proposal -> final
// check -> staging -> agreed performable. The sampling flow is the only way in, and whether it is FAIR (every upkeep of
// the registry has its chance on every tick) shows only when the sampling ratio actually CUTS the registry:
// ratio.OfInt(K) < K, i.e. the default settings with more than ~25 conditional upkeeps, or non-default
// targetProbability / targetInRounds with a handful. The adversarial network runs (runNetwork) keep the registry tiny and
// judge safety; these runs are the complement: all live members are honest, the registry is large enough to be cut,
// and ONLY facts that do not depend on the luck of the crypto/rand shuffle are compared:
//
//   F1  per live member: after T sampling ticks the sampling flow has handed EVERY upkeep of the registry (that never
//       became eligible) to the member's check pipeline at least once;
//   F2  per live member: no tick handed fewer upkeeps to the pipeline than ratio.OfInt(K) (minus the eligible ones,
//       which may be filtered while in flight or answered from the runner's cache), none more;
//   F3  network: an upkeep that is eligible on every live member at every block (among them the LAST one of the
//       registry) is reported before the rounds phase ends.
//
// False alarms. With an honest uniform shuffle one member misses one given upkeep on one tick with probability
// q = (K-size)/K, independently per tick and member. T is the smallest number of ticks with q^T * K * members < 1e-12
// (union bound over upkeeps and members: probability of ANY false F1 alarm in a run is below 1e-12); the rounds phase
// lasts until every live member has seen T' + slack ticks, T' the smallest number with q^(members*T') * |eligible| < 1e-12
// (some member samples each eligible upkeep within T' ticks), slack = 30 ticks for proposal -> report (measured: 2-5
// rounds; 30 also covers the case of a proposal that has to wait out the 20-round surfaced history). Both inequalities
// are re-checked by the Lean driver in exact integer arithmetic (Sample.coverageDue, C09.reportDue); a run that is too
// short for them is not judged. Over the 120 runs of the thorough tier the chance of one false alarm is below 1e-9.

type coverParams struct {
	Kind     string `json:"kind"` // "cover"
	Seed     uint64 `json:"seed"`
	N        int    `json:"n"`
	F        int    `json:"f"`
	Down     []int  `json:"down"`     // members that are down for the whole run (at most f)
	K        int    `json:"k"`        // conditional upkeeps in the registry, same order on every member
	Sampling string `json:"sampling"` // sampling part of the off-chain config ("" = defaults)
	Eligible []int  `json:"eligible"` // registry positions that are eligible on every member at every block until performed
	// derived from the above (recomputed on replay)
	RatioNum    uint64 `json:"ratioNum"` // the sampling ratio the factory computes, exactly (float32 as a fraction)
	RatioDen    uint64 `json:"ratioDen"`
	Size        int    `json:"size"`        // ratio.OfInt(K)
	NeedTicks   int    `json:"needTicks"`   // T
	ReportTicks int    `json:"reportTicks"` // T'
	Slack       int    `json:"slack"`
}

type coverMemberImpl struct {
	ID      int   `json:"id"`
	Ticks   int   `json:"ticks"`
	Covered []int `json:"covered"`
	MinTick int   `json:"minTick"`
	MaxTick int   `json:"maxTick"`
	UpMs    int64 `json:"upMs"`
}

type coverImpl struct {
	Members    []coverMemberImpl `json:"members"`
	Reported   []int             `json:"reported"`
	RoundTicks int               `json:"roundTicks"`
}

var coverSamplings = []string{
	``, // defaults: 0.99999 in 1 round
	`,"targetProbability":"0.999","targetInRounds":4`, // the simulator's plans
	`,"targetProbability":"0.9","targetInRounds":2`,
	`,"targetProbability":"0.99","targetInRounds":10`,
	`,"targetProbability":"0.5","targetInRounds":20`,
}

// coverRatio is the specification of the factory's sampling ratio (pkg/v3/plugin/factory.go): the share x of the
// registry each of n-f members has to sample per round so that after `rounds` rounds everything was sampled by somebody
// with probability p:  x = 1 - ((1-p)^(1/rounds))^(1/(n-f)), rounded to hundredths, as a float32. Returned exactly, as
// a fraction (a float32 is m / 2^k).
func coverRatio(sampling string, n, f int) (num, den uint64, ratio float32) {
	var c struct {
		P string `json:"targetProbability"`
		R int    `json:"targetInRounds"`
	}
	_ = gojson.Unmarshal([]byte(`{"x":0`+sampling+`}`), &c)
	if c.P == "" {
		c.P = "0.99999"
	}
	if c.R <= 0 {
		c.R = 1
	}
	p64, _ := strconv.ParseFloat(c.P, 32)
	p := float64(float32(p64))
	x := 1 - math.Pow(math.Pow(1-p, 1/float64(c.R)), 1/float64(n-f))
	x = math.Round(x/0.01) * 0.01
	ratio = float32(x)
	rat := new(big.Rat).SetFloat64(float64(ratio))
	return rat.Num().Uint64(), rat.Denom().Uint64(), ratio
}

// coverOfInt: sampleRatio.OfInt
func coverOfInt(ratio float32, count int) int {
	if count == 0 {
		return 0
	}
	v := math.Round(float64(ratio) * float64(count))
	if v < 1 {
		return 1
	}
	return int(v)
}

// coverTicks: the smallest t with ((k-size)/k)^(t*mult) * weight * 1e12 < 1, in exact arithmetic
func coverTicks(k, size, mult, weight int) int {
	if weight == 0 {
		return 0
	}
	miss, all := big.NewInt(int64(k-size)), big.NewInt(int64(k))
	w := new(big.Int).Mul(big.NewInt(int64(weight)), new(big.Int).Exp(big.NewInt(10), big.NewInt(12), nil))
	for t := 1; ; t++ {
		e := big.NewInt(int64(t * mult))
		l := new(big.Int).Mul(new(big.Int).Exp(miss, e, nil), w)
		if l.Cmp(new(big.Int).Exp(all, e, nil)) < 0 {
			return t
		}
	}
}

func (p *coverParams) derive() {
	var ratio float32
	p.RatioNum, p.RatioDen, ratio = coverRatio(p.Sampling, p.N, p.F)
	p.Size = coverOfInt(ratio, p.K)
	if p.Size > p.K {
		p.Size = p.K
	}
	up := p.N - len(p.Down)
	p.Slack = 30
	if p.Size < p.K {
		p.NeedTicks = coverTicks(p.K, p.Size, 1, p.K*up)
		p.ReportTicks = coverTicks(p.K, p.Size, up, len(p.Eligible))
	} else {
		// the ratio does not cut: every tick hands on the whole registry
		p.NeedTicks, p.ReportTicks = 1, 1
	}
}

// genCoverParams draws a run whose ratio cuts and whose length stays within the tier's budget of sampling ticks.
func genCoverParams(r *Rng, seed uint64) coverParams {
	ns := []int{4, 4, 5, 7}
	budget := 75
	if thorough() {
		ns = []int{4, 4, 5, 6, 7, 10, 13}
		budget = 400
	}
	for {
		p := coverParams{Kind: "cover", Seed: seed, N: ns[r.Intn(len(ns))], Down: []int{}, Eligible: []int{}}
		p.F = (p.N - 1) / 3
		if r.Chance(50) {
			for _, id := range r.Perm(p.N)[:r.Range(0, p.F)] {
				p.Down = append(p.Down, id)
			}
			sort.Ints(p.Down)
		}
		p.Sampling = coverSamplings[r.Intn(len(coverSamplings))]
		_, _, ratio := coverRatio(p.Sampling, p.N, p.F)
		// the smallest registry the ratio cuts, then some more
		kmin := 3
		for coverOfInt(ratio, kmin) >= kmin {
			kmin++
		}
		p.K = kmin + r.Range(0, 3)
		if r.Chance(60) {
			p.K = kmin + r.Range(3, 30)
		}
		for coverOfInt(ratio, p.K) >= p.K {
			p.K++
		}
		// eligible upkeeps: the LAST of the registry in most runs, up to two others anywhere
		if r.Chance(75) {
			p.Eligible = append(p.Eligible, p.K-1)
		}
		for i := r.Range(0, 2); i > 0; i-- {
			if e := r.Intn(p.K); !containsInt(p.Eligible, e) {
				p.Eligible = append(p.Eligible, e)
			}
		}
		sort.Ints(p.Eligible)
		p.derive()
		if p.NeedTicks <= budget && p.ReportTicks+p.Slack <= budget {
			return p
		}
	}
}

func containsInt(l []int, x int) bool {
	for _, y := range l {
		if y == x {
			return true
		}
	}
	return false
}

const coverMarker = "sampled" // CheckData of the payloads the upkeep provider returns: tells the sampling flow's pipeline calls from the final flow's

type coverMember struct {
	net     *netMember
	started time.Duration
	covered map[int]bool
	perTick map[time.Duration]int // virtual instant of a pipeline call -> sampled payloads handed over at that instant
}

func runCoverage(t *testing.T, p coverParams, em *Emitter) coverImpl {
	r := NewRng(p.Seed)
	n, f := p.N, p.F
	em.Hit(fmt.Sprintf("cover:n=%d,f=%d,down=%d", n, f, len(p.Down)))
	w := &netWorld{start: time.Now(), seenEv: map[string]bool{}, r: r.Fork(), height: uint64(r.Range(100, 100000)), hashes: map[uint64][32]byte{}, performed: map[string]uint64{}}
	pos := map[ocr2keepers.UpkeepIdentifier]int{}
	for i := 0; i < p.K; i++ {
		u := &netUpkeep{id: genUpkeepID(r, false), eligibleAt: math.MaxUint64}
		if containsInt(p.Eligible, i) {
			u.eligibleAt = 0
		}
		pos[u.id] = i
		w.upkeeps = append(w.upkeeps, u)
	}
	digest := genHash(r)
	var up []*coverMember
	for i := 0; i < n; i++ {
		if containsInt(p.Down, i) {
			continue
		}
		cm := &coverMember{net: &netMember{id: i, accepted: map[int]bool{}, everAcc: map[int]bool{}, evDelay: r.Range(0, 3), lag: uint64(r.Intn(2))},
			covered: map[int]bool{}, perTick: map[time.Duration]int{}}
		node := NewNodeWith(t, NodeOpts{N: n, F: f, Digest: digest, OracleID: i,
			OffchainConfig: []byte(`{"performLockoutWindow":100000,"minConfirmations":1,"maxUpkeepBatchSize":3` + p.Sampling + `}`)}, &netEvents{w: w, m: cm.net})
		node.Run.mu.Lock()
		node.Run.fn = func(_ context.Context, ps []ocr2keepers.UpkeepPayload) ([]ocr2keepers.CheckResult, error) {
			w.mu.Lock()
			defer w.mu.Unlock()
			now := time.Since(w.start)
			out := make([]ocr2keepers.CheckResult, 0, len(ps))
			for _, pl := range ps {
				if string(pl.CheckData) == coverMarker {
					if i, ok := pos[pl.UpkeepID]; ok {
						cm.covered[i] = true
					}
					cm.perTick[now]++
				}
				res, _ := w.checkResult(pl)
				out = append(out, res)
			}
			return out, nil
		}
		node.Run.mu.Unlock()
		cm.net.node = node
		cm.started = time.Since(w.start)
		up = append(up, cm)
	}

	feed := func() {
		w.mu.Lock()
		w.height += uint64(r.Range(1, 3))
		top := w.height
		w.mu.Unlock()
		for _, cm := range up {
			mtop := top - cm.net.lag
			cm.net.node.Blocks.Publish(w.history(mtop, 20))
			trig := ocr2keepers.NewTrigger(ocr2keepers.BlockNumber(mtop), w.hash(mtop))
			active := make([]ocr2keepers.UpkeepPayload, 0, p.K)
			for _, u := range w.upkeeps { // registry order, the same on every member
				active = append(active, ocr2keepers.UpkeepPayload{UpkeepID: u.id, Trigger: trig, WorkID: wg(u.id, trig), CheckData: []byte(coverMarker)})
			}
			cm.net.node.Getter.mu.Lock()
			cm.net.node.Getter.upkeeps = active
			cm.net.node.Getter.mu.Unlock()
		}
	}
	minTicks := func() int {
		m := -1
		for _, cm := range up {
			cm.net.node.Getter.mu.Lock()
			c := cm.net.node.Getter.calls
			cm.net.node.Getter.mu.Unlock()
			if m < 0 || c < m {
				m = c
			}
		}
		return m
	}

	reported := map[int]bool{}
	allReported := func() bool {
		for _, e := range p.Eligible {
			if !reported[e] {
				return false
			}
		}
		return true
	}
	var prevBytes []byte
	seq := uint64(r.Range(1, 50))
	transmitted := map[string]bool{}
	round := func() {
		seq++
		octx := ocr3types.OutcomeContext{SeqNr: seq, PreviousOutcome: prevBytes}
		var aos []ocr2plustypes.AttributedObservation
		for _, k := range r.Perm(len(up)) {
			cm := up[k]
			b, err := cm.net.node.Plugin.Observation(context.Background(), octx, nil)
			if err != nil {
				continue
			}
			aos = append(aos, ocr2plustypes.AttributedObservation{Observation: b, Observer: commontypes.OracleID(cm.net.id)})
		}
		if len(aos) < 2*f+1 {
			return
		}
		lead := up[0].net.node
		outBytes, err := lead.Plugin.Outcome(context.Background(), octx, nil, aos)
		if err != nil {
			return
		}
		reps, err := lead.Plugin.Reports(context.Background(), seq, outBytes)
		calls := lead.Enc.Take()
		prevBytes = outBytes
		if err != nil {
			return
		}
		for i, rp := range reps {
			if i >= len(calls) {
				break
			}
			for _, u := range calls[i] {
				if j, ok := pos[u.UpkeepID]; ok {
					reported[j] = true
				}
			}
			willing := false
			for _, cm := range up {
				_, _ = cm.net.node.Plugin.ShouldAcceptAttestedReport(context.Background(), seq, rp.ReportWithInfo)
				ok, _ := cm.net.node.Plugin.ShouldTransmitAcceptedReport(context.Background(), seq, rp.ReportWithInfo)
				willing = willing || ok
			}
			key := string(rp.ReportWithInfo.Report)
			if willing && !transmitted[key] {
				// performed on chain: the upkeeps are not eligible any more, every member's event provider shows the transmit
				transmitted[key] = true
				w.mu.Lock()
				w.height++
				tr := netTransmit{block: w.height, tx: genHash(r), upkeeps: calls[i]}
				w.transmits = append(w.transmits, tr)
				for _, u := range tr.upkeeps {
					w.performed[u.WorkID] = tr.block
					for _, uu := range w.upkeeps {
						if uu.id == u.UpkeepID {
							uu.eligibleAt = math.MaxUint64
						}
					}
				}
				w.mu.Unlock()
			}
		}
	}

	feed() // the registry is there before the first sampling tick
	time.Sleep(1537 * time.Millisecond)
	synctest.Wait()
	rounds := len(p.Eligible) > 0
	after := 3 // rounds after the last eligible upkeep was reported (its transmit event reaches every member)
	roundTicks := 0
	for {
		feed()
		// shorter than the sampling interval: no two ticks of a member see the same block (the runner's cache answers a
		// payload it has already checked on the same block)
		// (and never on the members' one-second grids: the run started at 1537 ms, every step is a multiple of 10 ms)
		time.Sleep(time.Duration(2500+10*r.Intn(40)) * time.Millisecond)
		synctest.Wait()
		if rounds {
			round()
			roundTicks = minTicks()
			if allReported() {
				if after--; after <= 0 {
					rounds = false
				}
			} else if roundTicks >= p.ReportTicks+p.Slack {
				rounds = false
			}
		}
		if !rounds && minTicks() >= p.NeedTicks {
			break
		}
	}
	synctest.Wait()

	var impl coverImpl
	impl.RoundTicks = roundTicks
	for e := range reported {
		impl.Reported = append(impl.Reported, e)
	}
	sort.Ints(impl.Reported)
	if impl.Reported == nil {
		impl.Reported = []int{}
	}
	w.mu.Lock()
	now := time.Since(w.start)
	for _, cm := range up {
		cm.net.node.Getter.mu.Lock()
		ticks := cm.net.node.Getter.calls
		cm.net.node.Getter.mu.Unlock()
		mi := coverMemberImpl{ID: cm.net.id, Ticks: ticks, Covered: []int{}, UpMs: int64((now - cm.started) / time.Millisecond), MinTick: -1}
		for i := range cm.covered {
			mi.Covered = append(mi.Covered, i)
		}
		sort.Ints(mi.Covered)
		for _, c := range cm.perTick {
			if mi.MinTick < 0 || c < mi.MinTick {
				mi.MinTick = c
			}
			if c > mi.MaxTick {
				mi.MaxTick = c
			}
		}
		if mi.MinTick < 0 || len(cm.perTick) < ticks {
			mi.MinTick = 0 // a tick that handed nothing to the pipeline
		}
		impl.Members = append(impl.Members, mi)
	}
	w.mu.Unlock()
	for _, cm := range up {
		cm.net.node.Close()
	}
	time.Sleep(12 * time.Second)
	synctest.Wait()
	return impl
}

// coverCases runs the tier's sampling coverage runs (or the one of a replay file).
func coverCases(t *testing.T, em *Emitter, replay gojson.RawMessage) {
	if replay != nil {
		var p coverParams
		if err := gojson.Unmarshal(replay, &p); err != nil || p.Kind != "cover" || p.N < 1 || p.K < 1 {
			t.Fatalf("C09 cover replay: bad input: %v", err)
		}
		if p.Down == nil {
			p.Down = []int{}
		}
		if p.Eligible == nil {
			p.Eligible = []int{}
		}
		p.derive()
		synctest.Test(t, func(t *testing.T) {
			em.Emit("replay", p, runCoverage(t, p, em))
		})
		return
	}
	r := NewRng(seed() + 9900)
	for i, runs := 0, tierN(10, 120); i < runs; i++ {
		p := genCoverParams(r.Fork(), r.U64()%1_000_000)
		synctest.Test(t, func(t *testing.T) {
			em.Emit("gen-cover", p, runCoverage(t, p, em))
		})
	}
}
