package harness

import (
	"context"
	"errors"
	"sort"
	"sync"
	"testing"
	"testing/synctest"
	"time"

	"github.com/smartcontractkit/chainlink-automation/pkg/v3/flows"
	"github.com/smartcontractkit/chainlink-automation/pkg/v3/service"
	"github.com/smartcontractkit/chainlink-automation/pkg/v3/stores"
	"github.com/smartcontractkit/chainlink-automation/pkg/v3/types"
	ocr2keepers "github.com/smartcontractkit/chainlink-common/pkg/types/automation"
)

// C11, flow level: the two real final flows (flows.LogTriggerFlows -> recovery final flow,
// flows.ConditionalTriggerFlows -> conditional final flow) tick on their real 1 s time tickers over the
// SAME real proposal queue inside the bubble.  What is observed is what reaches the finalisation
// pipeline: the payloads each flow's runner receives (CheckUpkeeps), plus the proposals its payload
// builder was called with.  The payload builder is a scripted dependency: per tick it may take time
// (it reads its arguments when it is done, as an RPC-backed builder does) and it may fail, with or
// without a partial result.

type c11BuildRec struct {
	flow  uint8
	at    int64
	entry []ocr2keepers.CoordinatedBlockProposal // arguments as seen on entry
}
type c11CheckRec struct {
	flow     uint8
	at       int64
	payloads []ocr2keepers.UpkeepPayload
	used     bool
}
type c11TickKey struct {
	flow uint8
	at   int64
}

type c11FlowRig struct {
	t0     time.Time
	mu     sync.Mutex
	script map[c11TickKey]c11Op
	calls  map[c11TickKey]int
	builds []c11BuildRec
	checks []c11CheckRec
	svc    map[uint8]service.Recoverable
	cancel context.CancelFunc
	ctx    context.Context
	up     map[uint8]bool
}

type c11FlowBuilder struct {
	rig  *c11FlowRig
	flow uint8
}

var errC11Build = errors.New("c11: scripted payload builder failure")

func (b c11FlowBuilder) BuildPayloads(_ context.Context, ps ...ocr2keepers.CoordinatedBlockProposal) ([]ocr2keepers.UpkeepPayload, error) {
	rig := b.rig
	key := c11TickKey{b.flow, int64(time.Since(rig.t0))}
	rig.mu.Lock()
	nth := rig.calls[key]
	rig.calls[key]++
	op, declared := rig.script[key]
	rig.builds = append(rig.builds, c11BuildRec{flow: b.flow, at: key.at, entry: append([]ocr2keepers.CoordinatedBlockProposal(nil), ps...)})
	rig.mu.Unlock()
	fail := -1
	partial := false
	if declared && nth == 0 { // the script applies to the batch call of the tick; the fault is transient
		if op.Sleep > 0 {
			time.Sleep(time.Duration(op.Sleep))
		}
		fail, partial = op.Fail, op.Partial
	}
	// the arguments are read now, when the (possibly slow) call completes
	out := make([]ocr2keepers.UpkeepPayload, 0, len(ps))
	for i, p := range ps {
		if fail >= 0 && i == fail%len(ps) {
			if partial {
				return out, errC11Build
			}
			return nil, errC11Build
		}
		out = append(out, ocr2keepers.UpkeepPayload{UpkeepID: p.UpkeepID, Trigger: p.Trigger, WorkID: p.WorkID})
	}
	if fail >= 0 && len(ps) == 0 {
		return nil, errC11Build
	}
	return out, nil
}

type c11FlowRunner struct {
	rig  *c11FlowRig
	flow uint8
}

func (r c11FlowRunner) CheckUpkeeps(_ context.Context, ps ...ocr2keepers.UpkeepPayload) ([]ocr2keepers.CheckResult, error) {
	rig := r.rig
	rig.mu.Lock()
	rig.checks = append(rig.checks, c11CheckRec{flow: r.flow, at: int64(time.Since(rig.t0)), payloads: append([]ocr2keepers.UpkeepPayload(nil), ps...)})
	rig.mu.Unlock()
	return nil, nil
}

type c11PassPre struct{}

func (c11PassPre) PreProcess(_ context.Context, ps []ocr2keepers.UpkeepPayload) ([]ocr2keepers.UpkeepPayload, error) {
	return ps, nil
}

type c11NoResultStore struct{}

func (c11NoResultStore) Add(...ocr2keepers.CheckResult)           {}
func (c11NoResultStore) Remove(...string)                         {}
func (c11NoResultStore) View() ([]ocr2keepers.CheckResult, error) { return nil, nil }

type c11NoRetryQ struct{}

func (c11NoRetryQ) Enqueue(...types.RetryRecord) error               { return nil }
func (c11NoRetryQ) Dequeue(int) ([]ocr2keepers.UpkeepPayload, error) { return nil, nil }

type c11Ratio struct{}

func (c11Ratio) OfInt(int) int { return 0 }

// newC11FlowRig builds both final flows through the exported factories; nothing is started yet.
func newC11FlowRig(in *c11Input, ms types.MetadataStore, pq types.ProposalQueue) *c11FlowRig {
	rig := &c11FlowRig{t0: time.Now(), script: map[c11TickKey]c11Op{}, calls: map[c11TickKey]int{},
		svc: map[uint8]service.Recoverable{}, up: map[uint8]bool{}}
	rig.ctx, rig.cancel = context.WithCancel(context.Background())
	now := int64(0)
	for _, op := range in.Ops {
		switch op.Op {
		case "adv":
			now += op.D
		case "tick":
			rig.script[c11TickKey{op.T, now}] = op
		}
	}
	lt, ct := uint8(types.LogTrigger), uint8(types.ConditionTrigger)
	// LogTriggerFlows returns {recovery proposal, recovery FINAL, log trigger}
	logSvcs := flows.LogTriggerFlows(c11PassPre{}, c11NoResultStore{}, ms, c11FlowRunner{rig, lt}, &fakeLogProvider{}, &fakeRecoverable{},
		c11FlowBuilder{rig, lt}, time.Second, time.Second, flows.RecoveryFinalInterval, c11NoRetryQ{}, pq, &fakeStateUpdater{}, quietLogger)
	// ConditionalTriggerFlows returns {conditional FINAL, sampling proposal}
	condSvcs := flows.ConditionalTriggerFlows(c11PassPre{}, c11Ratio{}, &fakeGetter{}, &fakeBlocks{}, c11FlowBuilder{rig, ct},
		c11NoResultStore{}, ms, c11FlowRunner{rig, ct}, pq, c11NoRetryQ{}, &fakeStateUpdater{}, quietLogger)
	rig.svc[lt], rig.svc[ct] = logSvcs[1], condSvcs[0]
	return rig
}

func (rig *c11FlowRig) start(t *testing.T, flow uint8) {
	svc, ok := rig.svc[flow]
	if !ok || rig.up[flow] {
		t.Fatalf("start: no final flow for upkeep type %d (or started twice)", flow)
	}
	rig.up[flow] = true
	go func() { _ = svc.Start(rig.ctx) }()
	synctest.Wait() // the ticker now exists; its first tick is one interval from this instant
}

// finish stops the flows, lets builds in flight complete, and fills the per-op observations.
func (rig *c11FlowRig) finish(in *c11Input, impl *c11Impl) {
	for flow, up := range rig.up {
		if up {
			_ = rig.svc[flow].Close()
		}
	}
	rig.cancel()
	time.Sleep(2 * time.Second)
	synctest.Wait()
	rig.mu.Lock()
	defer rig.mu.Unlock()
	now := int64(0)
	declared := map[c11TickKey]bool{}
	for i, op := range in.Ops {
		switch op.Op {
		case "adv":
			now += op.D
		case "tick":
			key := c11TickKey{op.T, now}
			declared[key] = true
			impl.Outs[i] = []JProp{}
			// the batch call of this tick: first builder call of that flow at that instant
			for _, b := range rig.builds {
				if b.flow == key.flow && b.at == key.at {
					impl.Aux[i] = toJProps(b.entry)
					break
				}
			}
			if impl.Aux[i] == nil {
				impl.Extra++ // the declared tick did not happen
				impl.Aux[i] = []JProp{}
			}
			for j := range rig.checks {
				c := &rig.checks[j]
				if !c.used && c.flow == key.flow && c.at == key.at+op.Sleep {
					c.used = true
					for _, p := range c.payloads {
						impl.Outs[i] = append(impl.Outs[i], toJProp(ocr2keepers.CoordinatedBlockProposal{UpkeepID: p.UpkeepID, Trigger: p.Trigger, WorkID: p.WorkID}))
					}
					break
				}
			}
		}
	}
	seen := map[c11TickKey]bool{}
	for _, b := range rig.builds {
		k := c11TickKey{b.flow, b.at}
		if !declared[k] && !seen[k] {
			seen[k] = true
			impl.Extra++ // a tick the history does not declare
		}
	}
	for _, c := range rig.checks {
		if !c.used {
			impl.Extra++ // a runner call that belongs to no declared tick
		}
	}
}

// ---------------------------------------------------------------- generator

const (
	c11PhaseA = int64(0)                      // start instant of the first final flow
	c11PhaseB = int64(300 * time.Millisecond) // start instant of the second one
)

var (
	c11MainPhases = []int64{int64(137 * time.Millisecond), int64(211 * time.Millisecond), int64(537 * time.Millisecond), int64(911 * time.Millisecond)}
	c11Sleeps     = []int64{0, 0, int64(400 * time.Millisecond), int64(800 * time.Millisecond)}
)

type c11Timed struct {
	at int64
	op c11Op
}

// c11Timeline turns timed operations into a history (adv deltas between them).
func c11Timeline(evs []c11Timed) c11Input {
	sort.SliceStable(evs, func(a, b int) bool { return evs[a].at < evs[b].at })
	var ops []c11Op
	now := int64(0)
	for _, e := range evs {
		if e.at > now {
			ops = append(ops, c11Op{Op: "adv", D: e.at - now})
			now = e.at
		}
		ops = append(ops, e.op)
		if e.op.Op == "outcome" { // as in c11B.outcome: observe both pending sets right after the hooks
			ops = append(ops, c11Op{Op: "view", T: uint8(types.LogTrigger)}, c11Op{Op: "view", T: uint8(types.ConditionTrigger)})
		}
	}
	return c11Input{Types: []c11Type{}, Ops: ops}
}

func c11TickOp(flow uint8, sleep int64, fail int, partial bool) c11Op {
	n := flows.FinalRecoveryBatchSize
	if flow == uint8(types.ConditionTrigger) {
		n = flows.FinalConditionalBatchSize
	}
	return c11Op{Op: "tick", T: flow, N: n, Sleep: sleep, Fail: fail, Partial: partial}
}

// c11FlowTicks declares every tick of both flows up to `end` (flows started at phase[flow]).
func c11FlowTicks(evs []c11Timed, phase map[uint8]int64, end int64, behave func(flow uint8, k int) c11Op) []c11Timed {
	for _, flow := range []uint8{uint8(types.LogTrigger), uint8(types.ConditionTrigger)} {
		evs = append(evs, c11Timed{phase[flow], c11Op{Op: "start", T: flow}})
		for k := 1; phase[flow]+int64(k)*int64(time.Second) < end; k++ {
			evs = append(evs, c11Timed{phase[flow] + int64(k)*int64(time.Second), behave(flow, k)})
		}
	}
	return evs
}

// c11GenFlows: both final flows ticking over one queue while outcomes are enqueued; builder slow
// (the other flow ticks while a batch is held) and/or failing on some ticks.
func c11GenFlows(r *Rng, em *Emitter) c11Input {
	k := r.Range(2, 6)
	pool := c11Pool(r, k, func(i int) uint8 { return uint8(r.Intn(2)) })
	for i := range pool {
		if pool[i].wid == "" { // an empty work id means "empty payload" to the tick (UpkeepPayload.IsEmpty)
			pool[i].wid = "e"
		}
	}
	block := make([]uint64, k)
	for i := range block {
		block[i] = 100
	}
	phase := map[uint8]int64{uint8(types.LogTrigger): c11PhaseA, uint8(types.ConditionTrigger): c11PhaseB}
	if r.Bool() {
		phase[uint8(types.LogTrigger)], phase[uint8(types.ConditionTrigger)] = c11PhaseB, c11PhaseA
	}
	secs := r.Range(3, 9)
	if r.Chance(15) {
		secs = r.Range(21, 25) // past the 20 s window
	}
	end := int64(secs)*int64(time.Second) + c11MainPhases[r.Intn(len(c11MainPhases))]
	faulty, slow := r.Chance(60), r.Chance(75)
	var evs []c11Timed
	evs = c11FlowTicks(evs, phase, end, func(flow uint8, _ int) c11Op {
		sleep, fail, partial := int64(0), -1, false
		if slow {
			sleep = c11Sleeps[r.Intn(len(c11Sleeps))]
		}
		if faulty && r.Chance(30) {
			fail, partial = r.Intn(4), r.Chance(70)
		}
		return c11TickOp(flow, sleep, fail, partial)
	})
	pick := func(j int) JProp { return pool[j].at(r, block[j]) }
	for s := 0; s < secs; s++ {
		for _, ph := range c11MainPhases {
			at := int64(s)*int64(time.Second) + ph
			if at >= end || !r.Chance(45) {
				continue
			}
			switch x := r.Intn(100); {
			case x < 45:
				var ps []JProp
				for j := 0; j < k; j++ {
					if r.Chance(50) {
						if r.Chance(20) {
							block[j]++
						}
						ps = append(ps, pick(j))
					}
				}
				if len(ps) == 0 {
					ps = append(ps, pick(r.Intn(k)))
				}
				evs = append(evs, c11Timed{at, c11Op{Op: "enq", Ps: ps}})
			case x < 85:
				var sf [][]JProp
				for n := r.Range(1, 3); n > 0; n-- {
					var round []JProp
					for j := 0; j < k; j++ {
						if r.Chance(45) {
							round = append(round, pick(j))
						}
					}
					sf = append(sf, round)
				}
				evs = append(evs, c11Timed{at, c11Op{Op: "outcome", Surfaced: sf}})
			case x < 93:
				evs = append(evs, c11Timed{at, c11Op{Op: "deq", T: uint8(r.Intn(2)), N: r.Range(1, 2)}})
			default:
				evs = append(evs, c11Timed{at, c11Op{Op: "add", Ps: []JProp{pick(r.Intn(k))}}})
			}
		}
	}
	evs = append(evs, c11Timed{end, c11Op{Op: "view", T: uint8(types.LogTrigger)}})
	em.Hit("flows")
	if slow {
		em.Hit("flows:slow-builder")
	}
	if faulty {
		em.Hit("flows:failing-builder")
	}
	return c11Timeline(evs)
}

// c11FlowEdge: hand-written flow-level histories.
func c11FlowEdge() []c11Input {
	r := NewRng(330033)
	S, ms := int64(time.Second), int64(time.Millisecond)
	lt, ct := uint8(types.LogTrigger), uint8(types.ConditionTrigger)
	mk := func(ty uint8, w string) c11Ident {
		id := c11Ident{uid: genUpkeepID(r, ty == lt), wid: w}
		if ty == lt {
			id.ext = &ocr2keepers.LogTriggerExtension{TxHash: genHash(r), Index: 1, BlockHash: genHash(r), BlockNumber: 90}
		}
		return id
	}
	l := []c11Ident{mk(lt, "log-0"), mk(lt, "log-1"), mk(lt, "log-2")}
	c := []c11Ident{mk(ct, "cond-0"), mk(ct, "cond-1"), mk(ct, "cond-2")}
	all := func(b uint64) []JProp {
		var ps []JProp
		for i := range l {
			ps = append(ps, l[i].at(r, b), c[i].at(r, b))
		}
		return ps
	}
	var out []c11Input
	// F1. the log flow's builder takes 400 ms; the conditional flow ticks 300 ms into that call and dequeues
	//     its own batch: each flow must still hand on exactly what IT dequeued
	for _, swap := range []bool{false, true} {
		phase := map[uint8]int64{lt: c11PhaseA, ct: c11PhaseB}
		sl := map[uint8]int64{lt: 400 * ms, ct: 0}
		if swap {
			phase = map[uint8]int64{lt: c11PhaseB, ct: c11PhaseA}
			sl = map[uint8]int64{lt: 0, ct: 800 * ms}
		}
		evs := []c11Timed{{137 * ms, c11Op{Op: "enq", Ps: all(100)}}, {1537 * ms, c11Op{Op: "outcome", Surfaced: [][]JProp{all(100), all(101)}}}}
		evs = c11FlowTicks(evs, phase, 4*S+137*ms, func(flow uint8, _ int) c11Op { return c11TickOp(flow, sl[flow], -1, false) })
		out = append(out, c11Timeline(evs))
	}
	// F2. the builder fails on one proposal of the batch (each position in turn; with and without a partial
	//     result): the tick returns the error, nothing of that batch is handed on, nothing twice; the same
	//     proposals come again with the next outcome (ignored: same block) and on a higher block (handed)
	for fail := 0; fail < 3; fail++ {
		for _, partial := range []bool{true, false} {
			phase := map[uint8]int64{lt: c11PhaseA, ct: c11PhaseB}
			evs := []c11Timed{{137 * ms, c11Op{Op: "enq", Ps: all(100)}},
				{1137 * ms, c11Op{Op: "outcome", Surfaced: [][]JProp{all(100)}}},
				{2137 * ms, c11Op{Op: "outcome", Surfaced: [][]JProp{all(101), all(100)}}}}
			evs = c11FlowTicks(evs, phase, 4*S+211*ms, func(flow uint8, k int) c11Op {
				if k == 1 {
					return c11TickOp(flow, 0, fail, partial)
				}
				return c11TickOp(flow, 0, -1, false)
			})
			out = append(out, c11Timeline(evs))
		}
	}
	// F3. slow AND failing, the other flow ticking inside the call
	{
		phase := map[uint8]int64{lt: c11PhaseA, ct: c11PhaseB}
		evs := []c11Timed{{137 * ms, c11Op{Op: "enq", Ps: all(100)}}, {1911 * ms, c11Op{Op: "enq", Ps: all(101)}}}
		evs = c11FlowTicks(evs, phase, 3*S+537*ms, func(flow uint8, k int) c11Op {
			if flow == lt {
				return c11TickOp(flow, 400*ms, 1, true)
			}
			return c11TickOp(flow, 800*ms, -1, false)
		})
		out = append(out, c11Timeline(evs))
	}
	return out
}

var _ = stores.NewProposalQueue // the queue under the flows is the one c11Run creates
