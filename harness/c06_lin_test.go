package harness

import (
	"context"
	"encoding/binary"
	"encoding/json"
	"fmt"
	"log"
	"runtime"
	"sort"
	"sync"
	"sync/atomic"
	"testing"
	"testing/synctest"
	"time"

	"github.com/smartcontractkit/chainlink-automation/pkg/v3/config"
	"github.com/smartcontractkit/chainlink-automation/pkg/v3/coordinator"
	ocr2keepers "github.com/smartcontractkit/chainlink-common/pkg/types/automation"
)

// C06 / C07 — "event polling racing with acceptance", checked as LINEARISABILITY.
//
// The older poll-race stress fixes one scenario whose two sequential orders end in the same
// state (the accepted block is above the event's), and counts trials that end elsewhere.  The
// class it never produced: the racing operations do NOT commute — the event moves the awaited
// check block past the block that is being accepted, two reports for one unit of work are
// accepted at once, the event finds no record unless the acceptance came first, ... — so that
// several outcomes are legitimate and a fixed expectation is impossible.
//
// A batch-race case therefore carries the whole episode explicitly: records accepted before,
// the transmit events of ONE long provider answer (hundreds of events of other upkeeps around
// them, so that the event loop is busy for a while), and accept threads that call Accept
// while that answer is being processed.  Afterwards the harness asks ShouldTransmit /
// ShouldProcess for a range of check blocks and re-accepts them in ascending order (which
// reveals the awaited check block).  Everything observed for one unit of work is one OUTCOME;
// the harness reports the distinct outcomes with their counts and the Lean driver decides
// whether each of them is produced by SOME sequential order of the episode's operations
// (`Spec.linOk`; Props/C06 `finished_is_linearization`: with both bodies atomic every finished
// schedule is such an order).  Nothing here knows which outcome is the "good" one.
//
// Real concurrency, no pinning: the coordinator is the real, started one (public constructor),
// its own poller fetches and processes the answer at its 1 s tick.  An accept thread is
// released in one of three ways, all through public seams:
//
//	tick   it sleeps until the poll instant (same virtual instant = really concurrent);
//	fetch  it spins until the provider has been asked for the events of that poll;
//	batch  it spins until the coordinator's logger has printed its first line for that poll
//	       (the event loop logs every event of an unknown upkeep), i.e. the call is issued
//	       while the loop is at work.
//
// On a coordinator whose Accept and event body are atomic w.r.t. each other every outcome is
// a sequential one whatever the scheduler does, so the case cannot fail spuriously.

type c06LinEv struct {
	Ty   int    `json:"ty"`
	TB   uint64 `json:"tb"`
	CB   uint64 `json:"cb"`
	Conf int64  `json:"conf"`
	At   int    `json:"at"` // position in the provider's answer, per mille of its length
}

type c06LinInput struct {
	Kind    string     `json:"kind"` // "batch-race"
	Cfg     c06Cfg     `json:"cfg"`
	Trials  int        `json:"trials"`
	Works   int        `json:"works"`   // units of work per trial, all with the same episode (independent of each other)
	UTy     int        `json:"uty"`     // upkeep type of the units of work: 0 conditional, 1 log trigger
	Setup   []uint64   `json:"setup"`   // check blocks accepted (in this order) at 137 ms
	Batch   int        `json:"batch"`   // events of other, unknown upkeeps in the answer of the poll at 1 s
	Events  []c06LinEv `json:"events"`  // the events for each unit of work, in answer order
	Threads [][]uint64 `json:"threads"` // accept threads per unit of work: the check blocks each accepts, in order
	Release []string   `json:"release"` // per thread: tick | fetch | batch
	ProbeT  []uint64   `json:"probeT"`  // afterwards: ShouldTransmit(w, b) for these
	ProbeP  []uint64   `json:"probeP"`  // ShouldProcess(w, uid, b) for these
	ProbeA  []uint64   `json:"probeA"`  // then Accept(w, b) for these, in order
}

type c06LinObs struct {
	Ans [][]bool `json:"ans"` // per accept thread: its answers in program order
	T   []bool   `json:"t"`
	P   []bool   `json:"p"`
	A   []bool   `json:"a"`
}

type c06LinOutcome struct {
	O     c06LinObs `json:"o"`
	N     int       `json:"n"`     // units of work (over all trials) that ended with this outcome
	First int       `json:"first"` // first trial that showed it
}

type c06LinImpl struct {
	Outcomes []c06LinOutcome `json:"outcomes"`
}

type c06LinProv struct {
	mu      sync.Mutex
	events  []ocr2keepers.TransmitEvent
	fetched atomic.Bool
}

func (p *c06LinProv) GetLatestEvents(context.Context) ([]ocr2keepers.TransmitEvent, error) {
	p.mu.Lock()
	out := append([]ocr2keepers.TransmitEvent(nil), p.events...)
	p.mu.Unlock()
	p.fetched.Store(true)
	return out, nil
}

type c06LinLog struct{ seen *atomic.Bool }

func (l c06LinLog) Write(b []byte) (int, error) { l.seen.Store(true); return len(b), nil }

// c06LinSpin waits (un-timed: virtual time stands still meanwhile) until the flag is set.  It yields
// now and then, so that the poller gets a processor even when there are more spinners than
// processors, and gives up after a long while — the call is then simply issued later.
func c06LinSpin(f *atomic.Bool) {
	for n := 1; !f.Load() && n < 1<<27; n++ {
		if n&(1<<14-1) == 0 {
			runtime.Gosched()
		}
	}
}

// c06LinAnswer lays out the provider's answer: `Batch` events of unknown upkeeps (every fifth one
// below the confirmation minimum when there is one) and, at their per-mille positions, the
// episode's events for every unit of work.
func c06LinAnswer(in c06LinInput, wks []*c06Work) []ocr2keepers.TransmitEvent {
	n := max(in.Batch, 0)
	out := make([]ocr2keepers.TransmitEvent, 0, n+len(in.Events)*len(wks))
	targets := func(lo, hi int) {
		for ei, e := range in.Events {
			if p := max(e.At, 0) * n / 1000; p < lo || p >= hi {
				continue
			}
			for j, wk := range wks {
				ev := ocr2keepers.TransmitEvent{Type: ocr2keepers.TransmitEventType(e.Ty), TransmitBlock: ocr2keepers.BlockNumber(e.TB),
					Confirmations: e.Conf, UpkeepID: c06UID(wk.UID), WorkID: wk.W, CheckBlock: ocr2keepers.BlockNumber(e.CB)}
				ev.TransactionHash[0] = 0xee
				binary.BigEndian.PutUint32(ev.TransactionHash[4:8], uint32(ei))
				binary.BigEndian.PutUint32(ev.TransactionHash[8:12], uint32(j))
				out = append(out, ev)
			}
		}
	}
	for i := 0; i < n; i++ {
		targets(i, i+1)
		ev := ocr2keepers.TransmitEvent{Type: ocr2keepers.PerformEvent, TransmitBlock: 20, Confirmations: int64(in.Cfg.MinConf) + 2,
			WorkID: fmt.Sprintf("other-%d", i), CheckBlock: 15}
		ev.UpkeepID[0] = 9
		if in.Cfg.MinConf > 0 && i%5 == 4 {
			ev.Confirmations = int64(in.Cfg.MinConf) - 1
		}
		binary.BigEndian.PutUint32(ev.TransactionHash[4:8], uint32(i))
		out = append(out, ev)
	}
	targets(n, 1<<30)
	return out
}

func c06LinKey(o c06LinObs) string { return string(must(json.Marshal(o))) }

// c06LinRace runs the episode `Trials` times, each on a fresh started coordinator in its own bubble.
func c06LinRace(t *testing.T, in c06LinInput) c06LinImpl {
	r := NewRng(4242)
	nw := min(max(in.Works, 1), 8)
	wks := make([]*c06Work, nw)
	for i := range wks {
		wks[i] = c06NewWork(r, in.UTy&1)
	}
	answer := c06LinAnswer(in, wks)
	up := func(wk *c06Work, b uint64) ocr2keepers.ReportedUpkeep {
		return c06Reported(c06Up{W: wk.W, UID: wk.UID, B: b})
	}
	seen := map[string]*c06LinOutcome{}
	for trial := 0; trial < in.Trials; trial++ {
		obs := make([]c06LinObs, nw)
		synctest.Test(t, func(t *testing.T) {
			ctx := context.Background()
			var inBatch atomic.Bool
			prov := &c06LinProv{}
			c := coordinator.NewCoordinator(prov, utg, config.OffchainConfig{PerformLockoutWindow: in.Cfg.WindowMs, MinConfirmations: in.Cfg.MinConf},
				log.New(c06LinLog{seen: &inBatch}, "", 0))
			go c.Start(ctx)
			synctest.Wait()
			time.Sleep(137 * time.Millisecond)
			for _, wk := range wks {
				for _, b := range in.Setup {
					c.Accept(up(wk, b))
				}
			}
			prov.mu.Lock()
			prov.events = answer
			prov.mu.Unlock()
			prov.fetched.Store(false)
			inBatch.Store(false)
			var wg sync.WaitGroup
			for j, wk := range wks {
				obs[j].Ans = make([][]bool, len(in.Threads))
				for k, blocks := range in.Threads {
					rel := "tick"
					if k < len(in.Release) {
						rel = in.Release[k]
					}
					obs[j].Ans[k] = make([]bool, len(blocks))
					wg.Add(1)
					go func() {
						defer wg.Done()
						time.Sleep(time.Second - 137*time.Millisecond) // wake up together with the poller
						switch rel {
						case "fetch":
							c06LinSpin(&prov.fetched)
						case "batch":
							c06LinSpin(&inBatch)
						}
						for i, b := range blocks {
							obs[j].Ans[k][i] = c.Accept(up(wk, b))
						}
					}()
				}
			}
			if len(in.Threads) == 0 {
				time.Sleep(time.Second - 137*time.Millisecond)
			}
			wg.Wait()
			synctest.Wait() // the poller has finished its tick and waits for the next one
			for j, wk := range wks {
				o := &obs[j]
				o.T, o.P, o.A = make([]bool, 0, len(in.ProbeT)), make([]bool, 0, len(in.ProbeP)), make([]bool, 0, len(in.ProbeA))
				for _, b := range in.ProbeT {
					o.T = append(o.T, c.ShouldTransmit(up(wk, b)))
				}
				for _, b := range in.ProbeP {
					o.P = append(o.P, c.ShouldProcess(wk.W, c06UID(wk.UID), c06Trigger(b, 0)))
				}
				for _, b := range in.ProbeA {
					o.A = append(o.A, c.Accept(up(wk, b)))
				}
			}
			c.Close()
			synctest.Wait()
		})
		for _, o := range obs {
			k := c06LinKey(o)
			if s := seen[k]; s != nil {
				s.N++
			} else {
				seen[k] = &c06LinOutcome{O: o, N: 1, First: trial}
			}
		}
	}
	impl := c06LinImpl{Outcomes: []c06LinOutcome{}}
	keys := make([]string, 0, len(seen))
	for k := range seen {
		keys = append(keys, k)
	}
	sort.Strings(keys)
	for _, k := range keys {
		impl.Outcomes = append(impl.Outcomes, *seen[k])
	}
	return impl
}

// ---------------------------------------------------------------- episodes

func c06LinProbes(in *c06LinInput, base uint64) {
	for b := base - 1; b <= base+4; b++ {
		in.ProbeT = append(in.ProbeT, b)
	}
	tbs := map[uint64]bool{}
	for _, e := range in.Events {
		if !tbs[e.TB] {
			tbs[e.TB] = true
			in.ProbeP = append(in.ProbeP, e.TB-1, e.TB, e.TB+1)
		}
	}
	if len(in.ProbeP) == 0 {
		in.ProbeP = []uint64{base}
	}
	for b := base; b <= base+4; b++ {
		in.ProbeA = append(in.ProbeA, b)
	}
}

// c06LinEdge: the hand-written episodes (always run).  Base record: check block 10.
func c06LinEdge(trials int) []c06LinInput {
	mk := func(minConf int, windowMs int64, uty int, setup []uint64, evs []c06LinEv, threads [][]uint64, release ...string) c06LinInput {
		in := c06LinInput{Kind: "batch-race", Cfg: c06Cfg{MinConf: minConf, WindowMs: windowMs}, Trials: trials, Works: 4, UTy: uty,
			Setup: setup, Batch: 200, Events: evs, Threads: threads, Release: release}
		if in.Setup == nil {
			in.Setup = []uint64{}
		}
		c06LinProbes(&in, 10)
		return in
	}
	perf := func(cb uint64, at int) c06LinEv { return c06LinEv{Ty: 1, TB: 21, CB: cb, Conf: 5, At: at} }
	return []c06LinInput{
		// the event belongs to a NEWER report (12) than the one being accepted (11): both orders end in {12, performed}
		mk(1, 100_000, 0, []uint64{10}, []c06LinEv{perf(12, 1000)}, [][]uint64{{11}}, "batch"),
		mk(1, 100_000, 1, []uint64{10}, []c06LinEv{perf(12, 500)}, [][]uint64{{11}}, "fetch"),
		mk(0, 5000, 0, []uint64{10}, []c06LinEv{perf(12, 1000)}, [][]uint64{{11}}, "tick"),
		// the same with a failed transmit of the newer report
		mk(1, 100_000, 1, []uint64{10}, []c06LinEv{{Ty: 2, TB: 21, CB: 12, Conf: 1, At: 1000}}, [][]uint64{{11}}, "batch"),
		// two reports for one unit of work accepted at once while the event (for the lower / the higher / an even higher one) is processed
		mk(1, 100_000, 0, []uint64{10}, []c06LinEv{perf(11, 1000)}, [][]uint64{{11}, {12}}, "batch", "batch"),
		mk(1, 100_000, 0, []uint64{10}, []c06LinEv{perf(12, 1000)}, [][]uint64{{11}, {12}}, "batch", "fetch"),
		mk(1, 100_000, 0, []uint64{10}, []c06LinEv{perf(13, 900)}, [][]uint64{{11, 12}, {12, 11}}, "batch", "batch"),
		// the same report delivered twice at once: accepted exactly once
		mk(1, 100_000, 0, []uint64{10}, []c06LinEv{perf(10, 1000)}, [][]uint64{{11}, {11}}, "batch", "batch"),
		mk(1, 100_000, 0, []uint64{}, []c06LinEv{}, [][]uint64{{11}, {11}, {11}}, "tick", "tick", "tick"),
		// the event is for the awaited block, the acceptance for a higher one: both orders end in {11, pending}
		mk(1, 100_000, 0, []uint64{10}, []c06LinEv{perf(10, 1000)}, [][]uint64{{11}}, "batch"),
		// no record yet: the event counts only if the acceptance came first
		mk(1, 100_000, 0, []uint64{}, []c06LinEv{perf(11, 1000)}, [][]uint64{{11}}, "batch"),
		mk(1, 100_000, 1, []uint64{}, []c06LinEv{perf(12, 1000)}, [][]uint64{{11}}, "fetch"),
		// two events for the unit of work in one answer, acceptances in between
		mk(1, 100_000, 0, []uint64{10}, []c06LinEv{perf(11, 300), {Ty: 3, TB: 22, CB: 13, Conf: 2, At: 1000}}, [][]uint64{{12}, {14}}, "batch", "tick"),
		// never-expiring records
		mk(3, 0, 0, []uint64{10}, []c06LinEv{perf(12, 1000)}, [][]uint64{{11}}, "batch"),
	}
}

// c06LinGen: a random episode around base block 10
func c06LinGen(r *Rng, em *Emitter, trials int) c06LinInput {
	in := c06LinInput{Kind: "batch-race", Trials: trials, Works: r.Range(2, 4), UTy: r.Intn(2), Setup: []uint64{}, Events: []c06LinEv{}}
	in.Cfg.MinConf = []int{0, 1, 3}[r.Intn(3)]
	in.Cfg.WindowMs = []int64{5000, 100_000, 0, 1500}[r.Intn(4)]
	in.Batch = []int{64, 200, 201, 400}[r.Intn(4)]
	if r.Chance(75) {
		in.Setup = append(in.Setup, 10)
		if r.Chance(20) {
			in.Setup = append(in.Setup, uint64(r.Range(9, 11)))
		}
	}
	for n := []int{0, 1, 1, 1, 2, 2}[r.Intn(6)]; n > 0; n-- {
		e := c06LinEv{Ty: 1, CB: uint64(r.Range(9, 14)), At: []int{0, 30, 500, 900, 1000, 1000}[r.Intn(6)]}
		if r.Chance(35) {
			e.Ty = r.Range(2, 4)
		}
		e.TB = e.CB + uint64(r.Range(1, 9))
		e.Conf = int64(in.Cfg.MinConf) + int64(r.Range(0, 2))
		if r.Chance(12) {
			e.Conf = int64(in.Cfg.MinConf) - 1
		}
		in.Events = append(in.Events, e)
		em.Hit(fmt.Sprintf("lin:event-type=%d", e.Ty))
	}
	// events are laid out by position; keep the list in answer order
	sort.SliceStable(in.Events, func(i, j int) bool { return in.Events[i].At*in.Batch/1000 < in.Events[j].At*in.Batch/1000 })
	nt := r.Range(1, 3)
	if nt == 3 && in.Works > 3 {
		in.Works = 3
	}
	for k := 0; k < nt; k++ {
		th := []uint64{uint64(r.Range(10, 13))}
		if r.Chance(30) {
			th = append(th, uint64(r.Range(10, 14)))
		}
		in.Threads = append(in.Threads, th)
		in.Release = append(in.Release, []string{"batch", "batch", "fetch", "tick"}[r.Intn(4)])
	}
	c06LinProbes(&in, 10)
	em.Hit(fmt.Sprintf("lin:threads=%d", nt))
	em.Hit(fmt.Sprintf("lin:events=%d", len(in.Events)))
	em.Hit(fmt.Sprintf("lin:setup=%d", len(in.Setup)))
	return in
}

func c06LinCases(t *testing.T, em *Emitter) {
	for _, in := range c06LinEdge(tierN(100, 800)) {
		em.Emit("stress", in, c06LinRace(t, in))
	}
	n := tierN(40, 400)
	if em.prop != "C06" {
		n /= 4
	}
	r := NewRng(seed() ^ 0x6c696e)
	for i := 0; i < n; i++ {
		in := c06LinGen(r, em, tierN(25, 60))
		em.Emit("stress", in, c06LinRace(t, in))
	}
}
