package harness

import (
	"errors"
	"fmt"
	"strings"
	"sync/atomic"

	ocr2types "github.com/smartcontractkit/libocr/offchainreporting2plus/types"

	v2 "github.com/smartcontractkit/chainlink-automation/pkg/v2"
	"github.com/smartcontractkit/chainlink-automation/pkg/v2/config"
	v2enc "github.com/smartcontractkit/chainlink-automation/pkg/v2/encoding"
	"github.com/smartcontractkit/chainlink-automation/pkg/v2/observer/polling"
)

// C16: refused reports, a failing observer, direct calls of the BasicEncoder.

// c16Accept: one ShouldAcceptFinalizedReport + ShouldTransmitAcceptedReport pair on the same report bytes.
type c16Accept struct {
	N     int    `json:"n"` // after head N-1
	Kind  string `json:"kind"`
	Ok    bool   `json:"ok"`
	Err   bool   `json:"err"`
	TxOk  bool   `json:"txOk"`
	TxErr bool   `json:"txErr"`
}

// c16ObsFactory hands out the repository's polling observer behind a switch that makes Observe fail.
type c16ObsFactory struct {
	inner *polling.PollingObserverFactory
	fail  *atomic.Bool
}

type c16Obs struct {
	inner v2.ConditionalObserver
	fail  *atomic.Bool
}

func (f *c16ObsFactory) NewConditionalObserver(oc config.OffchainConfig, c ocr2types.ReportingPluginConfig, coord v2.Coordinator) (v2.ConditionalObserver, error) {
	ob, err := f.inner.NewConditionalObserver(oc, c, coord)
	if err != nil {
		return nil, err
	}
	return &c16Obs{inner: ob, fail: f.fail}, nil
}

func (o *c16Obs) Observe() (v2.BlockKey, []v2.UpkeepIdentifier, error) {
	if o.fail.Load() {
		return "", nil, errors.New("c16: observer failure")
	}
	return o.inner.Observe()
}
func (o *c16Obs) Start() { o.inner.(v2.PluginStarterCloser).Start() }
func (o *c16Obs) Close() error {
	return o.inner.(v2.PluginStarterCloser).Close()
}

// c16EncOut: what the BasicEncoder answered.
type c16EncOut struct {
	Median      string      `json:"median"`
	MedianPanic bool        `json:"medianPanic"`
	Keys        []c16KeyOut `json:"keys"`
}

type c16KeyOut struct {
	SplitOk  bool   `json:"splitOk"`
	Block    string `json:"block"` // hex
	ID       string `json:"id"`    // hex
	ValidOk  bool   `json:"validOk"`
	ValidErr bool   `json:"validErr"`
}

func c16RunEnc(in c16Input) c16Impl {
	impl := c16Impl{Decoded: []c16Dec{}, Checked: []string{}, Answered: []c16Res{}, Performed: []c16Res{}, Seen: []c16Seen{}, Points: []c16Point{}}
	out := &c16EncOut{Keys: []c16KeyOut{}}
	enc := v2enc.BasicEncoder{}
	func() {
		defer func() {
			if r := recover(); r != nil {
				out.MedianPanic = true
			}
		}()
		bs := make([]v2.BlockKey, len(in.Blocks))
		for i, b := range in.Blocks {
			bs[i] = v2.BlockKey(b)
		}
		out.Median = string(enc.GetMedian(bs))
	}()
	for _, k := range in.Keys {
		var key v2.UpkeepKey
		if k != nil {
			key = v2.UpkeepKey(*k)
		}
		var ko c16KeyOut
		b, id, err := enc.SplitUpkeepKey(key)
		ko.SplitOk, ko.Block, ko.ID = err == nil, hx([]byte(b)), hx(id)
		ok, err := enc.ValidateUpkeepKey(key)
		ko.ValidOk, ko.ValidErr = ok, err != nil
		out.Keys = append(out.Keys, ko)
	}
	impl.Enc = out
	return impl
}

func c16GenEnc(r *Rng, em *Emitter) c16Input {
	in := c16Input{Mode: "enc"}
	switch r.Intn(5) {
	case 0:
		em.Hit("enc:median-of-none")
	case 1:
		em.Hit("enc:median-not-a-number")
		for n := r.Range(1, 5); n > 0; n-- {
			in.Blocks = append(in.Blocks, fmt.Sprintf("%d", r.U64()%(1<<40)))
		}
		in.Blocks[r.Intn(len(in.Blocks))] = []string{"latest", "", "0x10", "1e3", " 12", "12 ", "1|2"}[r.Intn(7)]
	default:
		for n := r.Range(1, 9); n > 0; n-- {
			switch r.Intn(4) {
			case 0:
				in.Blocks = append(in.Blocks, c16Max64)
			case 1:
				in.Blocks = append(in.Blocks, c16Digits(r, r.Range(1, 30)))
			default:
				in.Blocks = append(in.Blocks, fmt.Sprintf("%d", r.U64()%(1<<20)))
			}
		}
	}
	for n := r.Range(0, 5); n > 0; n-- {
		var k *string
		s := ""
		switch r.Intn(10) {
		case 0:
			em.Hit("enc:nil-key")
		case 1:
			s = []string{"", "nokey", "1|2|3", "|", "7|", "|7"}[r.Intn(6)]
			k = &s
		case 2:
			s = c16BadBlocks[r.Intn(len(c16BadBlocks))] + "|" + c16Id(r)
			k = &s
		case 3:
			bad := c16BadIds[r.Intn(len(c16BadIds)-2)]
			s = fmt.Sprintf("%d", r.U64()%(1<<40)) + "|" + bad
			k = &s
		default:
			s = []string{c16Max64, "0", fmt.Sprintf("%d", r.U64()%(1<<40))}[r.Intn(3)] + "|" + c16Id(r)
			k = &s
		}
		if k != nil && !isValidUTF8(*k) {
			s = strings.ToValidUTF8(*k, "?")
			k = &s
		}
		in.Keys = append(in.Keys, k)
	}
	return in
}

func isValidUTF8(s string) bool { return strings.ToValidUTF8(s, "") == s }

func c16EdgeMore() []c16Input {
	def := c16Cfg{Batch: 1, GasLimit: 5_300_000, Overhead: 300_000}
	fake := c16Coord{Kind: "fake"}
	str := func(s string) *string { return &s }
	el := func(key string) c16HeadRes { return c16HeadRes{Key: key, Eligible: true} }
	var out []c16Input
	out = append(out, c16Input{Mode: "enc"})
	out = append(out, c16Input{Mode: "enc", Blocks: []string{"12", "latest"}, Keys: []*string{nil, str("12|7"), str("12"), str("-1|7"), str("12|007"), str(c16Over64 + "|7"), str("12|" + c16Ovr256)}})
	out = append(out, c16Input{Mode: "enc", Blocks: []string{"101", c16Max64, "100", "102"}})
	// refused reports put nothing in flight; the observer failing once
	for _, kind := range []string{"empty", "garbage", "nokeys", ""} {
		for _, ck := range []string{"fake", "real"} {
			h1 := c16Head{Block: "100", Active: 3, Results: []c16HeadRes{el("100|5")}, After: true, AcceptAfter: true, AcceptKind: kind}
			h2 := c16Head{Block: "101", Active: 3, Results: []c16HeadRes{el("101|5")}, After: true}
			out = append(out, c16Input{Mode: "obs", Cfg: def, Coord: c16Coord{Kind: ck}, Heads: []c16Head{h1, h2}, ObsFail: true})
		}
	}
	// a result without a key (nil key): a nil identifier is staged
	out = append(out, c16Input{Mode: "obs", Cfg: def, Coord: fake, Heads: []c16Head{{Block: "14", Active: 3, Results: []c16HeadRes{el("")}, After: true}}})
	// the validator refuses a block key / an identifier without an error: the observation is invalid
	obs := func(block string, ids ...string) string { return hx(c16RawObs(block, ids)) }
	one := c16Script{Items: []c16Item{{Pos: 0, Eligible: true, Gas: 1}}}
	out = append(out, c16Input{Mode: "report", Cfg: def, Coord: fake, Script: one, Deny: []string{"102"}, Obs: []string{obs("100", "7"), obs("101", "7"), obs("102", "7"), obs("102", "8")}})
	out = append(out, c16Input{Mode: "report", Cfg: def, Coord: fake, Script: one, Deny: []string{"8"}, Obs: []string{obs("100", "7"), obs("101", "8"), obs("102", "7", "8"), obs("103", "9")}})
	out = append(out, c16Input{Mode: "report", Cfg: def, Coord: fake, Script: one, Deny: []string{"7"}, Obs: []string{obs("100", "7"), obs("101", "7")}})
	return out
}
