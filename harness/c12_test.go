package harness

import (
	"context"
	"encoding/json"
	"errors"
	"fmt"
	"reflect"
	"sort"
	"sync"
	"testing"
	"testing/synctest"
	"time"

	ocr2keepersv3 "github.com/smartcontractkit/chainlink-automation/pkg/v3"
	"github.com/smartcontractkit/chainlink-automation/pkg/v3/flows"
	"github.com/smartcontractkit/chainlink-automation/pkg/v3/runner"
	"github.com/smartcontractkit/chainlink-automation/pkg/v3/service"
	"github.com/smartcontractkit/chainlink-automation/pkg/v3/stores"
	"github.com/smartcontractkit/chainlink-automation/pkg/v3/types"
	ocr2keepers "github.com/smartcontractkit/chainlink-common/pkg/types/automation"
)

// C12 — each check result is routed to the right sink with its own payload.
//
// "pipe" cases: the repository's own flow constructors (flows.LogTriggerFlows,
// flows.ConditionalTriggerFlows, flows.NewRetryFlow) are given the real result
// store, metadata store, proposal queue, retry queue and the REAL runner
// (runner.NewRunner → real worker group and cache) over a fake check pipeline
// with per-call virtual latencies and failures; the flows' own tickers fire in
// virtual time.  Thin recording decorators around runner / stores / queue log
// what went through them; the real stores are read back afterwards.
//
// "queue" cases: histories of Enqueue / Dequeue on the real retry queue with
// default and custom intervals at the interval and expiry boundaries ±1 ns.
//
// Check blocks: ordinary heights, and — in every kind of case (pipe, queue, plugin,
// fair, stress) — the ends of the uint64 domain: 0 (the block of a trigger nobody
// stamped), 1, 2, 2^63-1, 2^63, 2^63+1, 2^64-2, 2^64-1, with equal blocks, and with
// older / newer blocks of one unit of work far apart (c12BlockGen, c12EdgeBlocks).
//
// Pipe cases also leave the well-behaved environment: calls of the pipeline that
// answer with MORE results than payloads (Extra), neighbour flows built with nil
// providers / queues and a retry flow without a queue (NilIdle), a source queue
// whose Dequeue fails on chosen ticks (DeqErr), and a payload builder that answers
// chosen proposals with an empty payload (Blank; the builder's answers are logged).

// ---------------------------------------------------------------- JSON forms

type c12Payload struct {
	UID  string `json:"uid"`
	Trig JTrig  `json:"trig"`
	WID  string `json:"wid"`
}

func toC12Payload(p ocr2keepers.UpkeepPayload) c12Payload {
	return c12Payload{UID: hx(p.UpkeepID[:]), Trig: toJTrig(p.Trigger), WID: p.WorkID}
}
func fromC12Payload(j c12Payload) ocr2keepers.UpkeepPayload {
	return ocr2keepers.UpkeepPayload{UpkeepID: b32(j.UID), Trigger: fromJTrig(j.Trig), WorkID: j.WID}
}
func toC12Payloads(ps []ocr2keepers.UpkeepPayload) []c12Payload {
	out := make([]c12Payload, 0, len(ps))
	for _, p := range ps {
		out = append(out, toC12Payload(p))
	}
	return out
}

// c12Res is a check result incl. the non-wire RetryInterval (ns).
type c12Res struct {
	JCR
	RI int64 `json:"ri"`
}

func toC12Res(r ocr2keepers.CheckResult) c12Res {
	return c12Res{JCR: toJCR(r), RI: int64(r.RetryInterval)}
}
func fromC12Res(j c12Res) ocr2keepers.CheckResult {
	r := fromJCR(j.JCR)
	r.RetryInterval = time.Duration(j.RI)
	return r
}
func toC12Ress(rs []ocr2keepers.CheckResult) []c12Res {
	out := make([]c12Res, 0, len(rs))
	for _, r := range rs {
		out = append(out, toC12Res(r))
	}
	return out
}

type c12Item struct {
	P      c12Payload `json:"p"`
	Res    c12Res     `json:"res"`    // what the check pipeline answers for this payload
	Pre    *c12Res    `json:"pre"`    // if set: answered in an earlier call, so that the runner may have it cached
	Drop   bool       `json:"drop"`   // filtered out by the flow's (coordinator) pre-processor
	LatMs  int        `json:"lat"`    // virtual latency contributed to the pipeline call containing it
	BErr   bool       `json:"berr"`   // a pipeline call containing it fails as a whole
	UErr   bool       `json:"uerr"`   // the upkeep state updater returns an error for it
	FeedIv int64      `json:"feedIv"` // retry flow: interval of the feeding Enqueue
	TRes   *c12Res    `json:"tres"`   // deadline mode: the answer when the pipeline runs out of time on this payload
	// Extra: results the pipeline returns IN ADDITION in the call that contains this payload (appended after the call's
	// regular answers): more results than payloads, for work ids no payload has — outside the pipeline's contract
	Extra []c12Res `json:"extra,omitempty"`
	// Blank: the payload builder answers this unit of work's proposal with an EMPTY payload (final flows)
	Blank bool `json:"blank,omitempty"`
}
type c12Probe struct {
	Kind  string `json:"kind"` // "abs": D ns after the previous step; "bound": at enqueue J's interval boundary + Delta
	D     int64  `json:"d"`
	J     int    `json:"j"`
	Delta int64  `json:"delta"`
	N     int    `json:"n"`
}
type c12Rec struct {
	P  c12Payload `json:"p"`
	Iv int64      `json:"iv"`
}
type c12Op struct {
	Op  string  `json:"op"` // "enq" | "deq"
	D   int64   `json:"d"`  // virtual ns to wait before the call
	Rec *c12Rec `json:"rec,omitempty"`
	N   int     `json:"n"`
}
type c12Input struct {
	Kind     string    `json:"kind"` // "pipe" | "queue" | "plugin" | "stress" (the last two: c12_plugin_test.go)
	Flow     string    `json:"flow,omitempty"`
	Items    []c12Item `json:"items,omitempty"`
	Workers  int       `json:"workers,omitempty"`
	RevBatch bool      `json:"revBatch,omitempty"` // the pipeline answers each call in reverse payload order
	// Deadline: the pipeline honours the caller's DEADLINE: when it expires, the call returns (without error) what it
	// finished and reports every payload it could not finish as that payload's `tres` (a retryable failure)
	Deadline bool  `json:"deadline,omitempty"`
	RunFor   int64 `json:"runFor,omitempty"` // virtual ns the flows run
	// NilIdle: the flows that are not the case's subject are built with NIL providers / queues (instead of empty ones),
	// and a retry flow over a nil retry queue runs alongside
	NilIdle bool `json:"nilIdle,omitempty"`
	// DeqErr: which tick Dequeue calls (0-based) on the case's source queue — the retry queue of the retry flow, the
	// proposal queue of the final flows — fail
	DeqErr []int `json:"deqErr,omitempty"`
	// BldErr: which calls (0-based, counting calls with proposals) of the final flows' payload builder fail
	BldErr []int      `json:"bldErr,omitempty"`
	Probes []c12Probe `json:"probes,omitempty"`
	Ops    []c12Op    `json:"ops,omitempty"`
	// plugin cases
	PItems    []c12PItem `json:"pitems,omitempty"`
	Decoy     bool       `json:"decoy,omitempty"`     // build and close another instance on the same factory first
	RetryTick int64      `json:"retryTick,omitempty"` // flows.RetryCheckInterval (ns), from the repository's constant
	// stress cases
	Stress *c12StressIn `json:"stress,omitempty"`
	Fair   *c12FairIn   `json:"fair,omitempty"`
}

type c12QEv struct {
	T   int64        `json:"t"` // virtual ns since the start of the case
	K   string       `json:"k"` // "enq" | "deq"
	Src string       `json:"src"`
	P   *c12Payload  `json:"p,omitempty"`
	Iv  int64        `json:"iv"`
	N   int          `json:"n"`
	Out []c12Payload `json:"out"`
}
type c12RunRec struct {
	At   int64 `json:"at"`
	Done int64 `json:"done"`
	// the payloads handed to the runner: index of the input item whose payload is exactly equal,
	// or -1 and the payload itself in VExtra (in order)
	VIx     []int        `json:"vix"`
	VExtra  []c12Payload `json:"vextra"`
	Results []c12Res     `json:"results"`
	Err     bool         `json:"err"`
}

// c12Asked: one call on the fake pipeline (by input item index; it answered items[i].res for each)
type c12Asked struct {
	Ix  []int `json:"ix"`
	Rev bool  `json:"rev"`
	Err bool  `json:"err"`
	TO  []int `json:"to"` // input items of this call that were answered with their `tres` (deadline expired)
}
type c12Impl struct {
	Runs    []c12RunRec    `json:"runs"`
	Adds    []JCR          `json:"adds"`
	View    []JCR          `json:"view"`
	Props   []JProp        `json:"props"`
	PView   []JProp        `json:"pview"`
	Inelig  []JCR          `json:"inelig"`
	QLog    []c12QEv       `json:"qlog"`
	Asked   []c12Asked     `json:"asked"`
	Built   [][]c12Payload `json:"built,omitempty"`   // what the payload builder returned, per call with proposals
	DeqErrs int            `json:"deqErrs,omitempty"` // tick Dequeue calls that were made to fail
	BldErrs int            `json:"bldErrs,omitempty"` // payload builder calls that were made to fail
	Note    string         `json:"note,omitempty"`
	Plugin  *c12PluginOut  `json:"plugin,omitempty"`
	Stress  *c12StressOut  `json:"stress,omitempty"`
	Fair    *c12FairOut    `json:"fair,omitempty"`
}

// ---------------------------------------------------------------- recording decorators and fakes

type c12Clock struct{ start time.Time }

func (c c12Clock) ns() int64 { return int64(time.Since(c.start)) }

// c12RecRunner wraps the real runner (ocr2keepersv3.Runner) and logs each call.
type c12RecRunner struct {
	inner *runner.Runner
	clk   c12Clock
	index func(ocr2keepers.UpkeepPayload) int
	mu    sync.Mutex
	runs  []c12RunRec
}

func (r *c12RecRunner) CheckUpkeeps(ctx context.Context, ps ...ocr2keepers.UpkeepPayload) ([]ocr2keepers.CheckResult, error) {
	at := r.clk.ns()
	res, err := r.inner.CheckUpkeeps(ctx, ps...)
	if len(ps) > 0 {
		r.mu.Lock()
		rec := c12RunRec{At: at, Done: r.clk.ns(), VIx: make([]int, 0, len(ps)), VExtra: []c12Payload{}, Results: toC12Ress(res), Err: err != nil}
		for _, p := range ps {
			i := r.index(p)
			rec.VIx = append(rec.VIx, i)
			if i < 0 {
				rec.VExtra = append(rec.VExtra, toC12Payload(p))
			}
		}
		r.runs = append(r.runs, rec)
		r.mu.Unlock()
	}
	return res, err
}

var (
	_ ocr2keepersv3.Runner                                  = (*c12RecRunner)(nil)
	_ ocr2keepersv3.PreProcessor[ocr2keepers.UpkeepPayload] = c12Coord{}
)

// c12RecQueue wraps the real retry queue.
type c12RecQueue struct {
	inner  types.RetryQueue
	clk    c12Clock
	mu     sync.Mutex
	log    []c12QEv
	failAt map[int]bool // tick Dequeue calls (by number) that fail
	ticks  int
	errs   int
}

func (q *c12RecQueue) enqueue(src string, items ...types.RetryRecord) error {
	q.mu.Lock()
	defer q.mu.Unlock()
	t := q.clk.ns()
	err := q.inner.Enqueue(items...)
	for _, it := range items {
		p := toC12Payload(it.Payload)
		q.log = append(q.log, c12QEv{T: t, K: "enq", Src: src, P: &p, Iv: int64(it.Interval), Out: []c12Payload{}})
	}
	return err
}
func (q *c12RecQueue) dequeue(src string, n int) ([]ocr2keepers.UpkeepPayload, error) {
	q.mu.Lock()
	defer q.mu.Unlock()
	t := q.clk.ns()
	out, err := q.inner.Dequeue(n)
	q.log = append(q.log, c12QEv{T: t, K: "deq", Src: src, N: n, Out: toC12Payloads(out)})
	return out, err
}
func (q *c12RecQueue) Enqueue(items ...types.RetryRecord) error { return q.enqueue("pp", items...) }
func (q *c12RecQueue) Dequeue(n int) ([]ocr2keepers.UpkeepPayload, error) {
	q.mu.Lock()
	k := q.ticks
	q.ticks++
	fail := q.failAt[k]
	if fail {
		q.errs++
	}
	q.mu.Unlock()
	if fail {
		return nil, errors.New("retry queue: injected Dequeue failure")
	}
	return q.dequeue("tick", n)
}

// c12RecPQ wraps the real proposal queue; chosen Dequeue calls of the case's own upkeep type fail.
type c12RecPQ struct {
	types.ProposalQueue
	utype  types.UpkeepType
	mu     sync.Mutex
	failAt map[int]bool
	ticks  int
	errs   int
}

func (q *c12RecPQ) Dequeue(t types.UpkeepType, n int) ([]ocr2keepers.CoordinatedBlockProposal, error) {
	if t == q.utype {
		q.mu.Lock()
		k := q.ticks
		q.ticks++
		fail := q.failAt[k]
		if fail {
			q.errs++
		}
		q.mu.Unlock()
		if fail {
			return nil, errors.New("proposal queue: injected Dequeue failure")
		}
	}
	return q.ProposalQueue.Dequeue(t, n)
}

// c12Builder is the payload builder of the final flows: as fakeBuilder, but flagged proposals come back as EMPTY
// payloads; every non-trivial answer is logged.
type c12Builder struct {
	blank  map[string]bool
	failAt map[int]bool // calls with proposals (by number) that fail
	mu     sync.Mutex
	calls  int
	errs   int
	built  [][]c12Payload
}

func (b *c12Builder) BuildPayloads(_ context.Context, ps ...ocr2keepers.CoordinatedBlockProposal) ([]ocr2keepers.UpkeepPayload, error) {
	if len(ps) > 0 {
		b.mu.Lock()
		k := b.calls
		b.calls++
		fail := b.failAt[k]
		if fail {
			b.errs++
		}
		b.mu.Unlock()
		if fail {
			return nil, errors.New("payload builder: injected failure")
		}
	}
	out := make([]ocr2keepers.UpkeepPayload, len(ps))
	for i, p := range ps {
		if b.blank[c12Key(p.WorkID, p.Trigger)] {
			continue
		}
		out[i] = ocr2keepers.UpkeepPayload{UpkeepID: p.UpkeepID, Trigger: p.Trigger, WorkID: p.WorkID}
	}
	if len(ps) > 0 {
		b.mu.Lock()
		b.built = append(b.built, toC12Payloads(out))
		b.mu.Unlock()
	}
	return out, nil
}

type c12RecStore struct {
	types.ResultStore
	mu   sync.Mutex
	adds []ocr2keepers.CheckResult
}

func (s *c12RecStore) Add(rs ...ocr2keepers.CheckResult) {
	s.mu.Lock()
	s.adds = append(s.adds, rs...)
	s.mu.Unlock()
	s.ResultStore.Add(rs...)
}

type c12RecMeta struct {
	types.MetadataStore
	mu    sync.Mutex
	props []ocr2keepers.CoordinatedBlockProposal
}

func (m *c12RecMeta) AddProposals(ps ...ocr2keepers.CoordinatedBlockProposal) {
	m.mu.Lock()
	m.props = append(m.props, ps...)
	m.mu.Unlock()
	m.MetadataStore.AddProposals(ps...)
}

type c12Updater struct {
	mu    sync.Mutex
	fail  map[string]bool
	calls []ocr2keepers.CheckResult
	other int
}

func (u *c12Updater) SetUpkeepState(_ context.Context, r ocr2keepers.CheckResult, s ocr2keepers.UpkeepState) error {
	u.mu.Lock()
	defer u.mu.Unlock()
	if s != ocr2keepers.Ineligible {
		u.other++
		return nil
	}
	u.calls = append(u.calls, r)
	if u.fail[r.WorkID] {
		return errors.New("state updater: injected failure")
	}
	return nil
}

// c12Coord is the flows' first pre-processor (the coordinator's place): it drops flagged work.
type c12Coord struct{ drop map[string]bool }

func (c c12Coord) PreProcess(_ context.Context, ps []ocr2keepers.UpkeepPayload) ([]ocr2keepers.UpkeepPayload, error) {
	out := make([]ocr2keepers.UpkeepPayload, 0, len(ps))
	for _, p := range ps {
		if !c.drop[c12Key(p.WorkID, p.Trigger)] {
			out = append(out, p)
		}
	}
	return out, nil
}

func c12Key(wid string, t ocr2keepers.Trigger) string {
	return fmt.Sprintf("%s|%d|%x", wid, t.BlockNumber, t.BlockHash)
}

// c12Pipeline is the fake check pipeline (types.Runnable) under the real runner.
type c12Pipeline struct {
	mu    sync.Mutex
	pre   bool
	items map[string]*c12Item
	idx   map[string]int
	rev   bool
	dl    bool
	asked []c12Asked
}

func (p *c12Pipeline) CheckUpkeeps(ctx context.Context, ps ...ocr2keepers.UpkeepPayload) ([]ocr2keepers.CheckResult, error) {
	p.mu.Lock()
	pre := p.pre
	p.mu.Unlock()
	out := make([]ocr2keepers.CheckResult, 0, len(ps))
	var lat time.Duration
	fail := false
	for _, pl := range ps {
		it := p.items[c12Key(pl.WorkID, pl.Trigger)]
		if it == nil {
			return nil, fmt.Errorf("c12 pipeline: unknown payload %s", pl.WorkID)
		}
		if pre {
			out = append(out, fromC12Res(*it.Pre))
			continue
		}
		if d := time.Duration(it.LatMs) * time.Millisecond; d > lat {
			lat = d
		}
		if it.BErr {
			fail = true
		}
		out = append(out, fromC12Res(it.Res))
	}
	if pre {
		return out, nil
	}
	i := p.idx[c12Key(ps[0].WorkID, ps[0].Trigger)]
	lat += time.Duration(i*i*7+i*13+1) * time.Nanosecond // distinct completion instants
	began := time.Now()
	timedOut := []int{}
	select {
	case <-time.After(lat):
	case <-ctx.Done():
		if !p.dl || !errors.Is(ctx.Err(), context.DeadlineExceeded) {
			return nil, ctx.Err()
		}
		spent := time.Since(began)
		for k, pl := range ps {
			it := p.items[c12Key(pl.WorkID, pl.Trigger)]
			if time.Duration(it.LatMs)*time.Millisecond > spent && it.TRes != nil {
				out[k] = fromC12Res(*it.TRes)
				timedOut = append(timedOut, p.idx[c12Key(pl.WorkID, pl.Trigger)])
			}
		}
	}
	for _, pl := range ps {
		for _, x := range p.items[c12Key(pl.WorkID, pl.Trigger)].Extra {
			out = append(out, fromC12Res(x))
		}
	}
	if p.rev {
		for a, b := 0, len(out)-1; a < b; a, b = a+1, b-1 {
			out[a], out[b] = out[b], out[a]
		}
	}
	rec := c12Asked{Ix: make([]int, 0, len(ps)), Rev: p.rev, Err: fail, TO: timedOut}
	for _, pl := range ps {
		rec.Ix = append(rec.Ix, p.idx[c12Key(pl.WorkID, pl.Trigger)])
	}
	p.mu.Lock()
	p.asked = append(p.asked, rec)
	p.mu.Unlock()
	if fail {
		return nil, errors.New("c12 pipeline: injected call failure")
	}
	return out, nil
}

type c12OneShot struct {
	mu sync.Mutex
	ps []ocr2keepers.UpkeepPayload
}

func (g *c12OneShot) take() []ocr2keepers.UpkeepPayload {
	g.mu.Lock()
	defer g.mu.Unlock()
	p := g.ps
	g.ps = nil
	return p
}
func (g *c12OneShot) GetActiveUpkeeps(context.Context) ([]ocr2keepers.UpkeepPayload, error) {
	return g.take(), nil
}
func (g *c12OneShot) GetRecoveryProposals(context.Context) ([]ocr2keepers.UpkeepPayload, error) {
	return g.take(), nil
}
func (g *c12OneShot) GetLatestPayloads(context.Context) ([]ocr2keepers.UpkeepPayload, error) {
	return g.take(), nil
}
func (g *c12OneShot) SetConfig(ocr2keepers.LogEventProviderConfig) {}
func (g *c12OneShot) Start(context.Context) error                  { return nil }
func (g *c12OneShot) Close() error                                 { return nil }

type c12All struct{}

func (c12All) OfInt(n int) int { return n }

// ---------------------------------------------------------------- running a case

func c12Run(t *testing.T, in c12Input) c12Impl {
	switch in.Kind {
	case "plugin":
		return c12RunPlugin(t, in)
	case "stress":
		return c12RunStress(t, in)
	case "fair":
		return c12RunFair(t, in)
	case "queue":
		return c12RunQueue(t, in)
	default:
		return c12RunPipe(t, in)
	}
}

func c12RunQueue(t *testing.T, in c12Input) c12Impl {
	clk := c12Clock{start: time.Now()}
	q := &c12RecQueue{inner: stores.NewRetryQueue(quietLogger), clk: clk}
	for _, op := range in.Ops {
		time.Sleep(time.Duration(op.D))
		switch op.Op {
		case "enq":
			_ = q.enqueue("op", types.RetryRecord{Payload: fromC12Payload(op.Rec.P), Interval: time.Duration(op.Rec.Iv)})
		case "deq":
			_, _ = q.dequeue("op", op.N)
		}
	}
	return c12Impl{QLog: q.log}
}

func c12RunPipe(t *testing.T, in c12Input) c12Impl {
	clk := c12Clock{start: time.Now()}
	ctx, cancel := context.WithCancel(context.Background())
	defer cancel()

	pipe := &c12Pipeline{items: map[string]*c12Item{}, idx: map[string]int{}, rev: in.RevBatch, dl: in.Deadline}
	coord := c12Coord{drop: map[string]bool{}}
	upd := &c12Updater{fail: map[string]bool{}}
	bld := &c12Builder{blank: map[string]bool{}, failAt: map[int]bool{}}
	for _, k := range in.BldErr {
		bld.failAt[k] = true
	}
	var payloads []ocr2keepers.UpkeepPayload
	for i := range in.Items {
		it := &in.Items[i]
		p := fromC12Payload(it.P)
		k := c12Key(p.WorkID, p.Trigger)
		if _, dup := pipe.items[k]; !dup {
			pipe.items[k] = it
			pipe.idx[k] = i
		}
		if it.Drop {
			coord.drop[k] = true
		}
		if it.UErr {
			upd.fail[p.WorkID] = true
		}
		if it.Blank {
			bld.blank[k] = true
		}
		payloads = append(payloads, p)
	}
	failAt := map[int]bool{}
	for _, k := range in.DeqErr {
		failAt[k] = true
	}

	workers := in.Workers
	if workers < 1 {
		workers = 1
	}
	rn, err := runner.NewRunner(quietLogger, pipe, runner.RunnerConfig{Workers: workers, WorkerQueueLength: 1000, CacheExpire: 20 * time.Minute, CacheClean: 30 * time.Second})
	if err != nil {
		t.Fatalf("NewRunner: %v", err)
	}
	go func() { _ = rn.Start(ctx) }()
	synctest.Wait()
	rrn := &c12RecRunner{inner: rn, clk: clk, index: func(p ocr2keepers.UpkeepPayload) int {
		if i, ok := pipe.idx[c12Key(p.WorkID, p.Trigger)]; ok && reflect.DeepEqual(toC12Payload(p), in.Items[i].P) {
			return i
		}
		return -1
	}}

	rs := &c12RecStore{ResultStore: stores.New(quietLogger)}
	blocks := &fakeBlocks{}
	ms0, err := stores.NewMetadataStore(blocks, utg)
	if err != nil {
		t.Fatalf("NewMetadataStore: %v", err)
	}
	ms := &c12RecMeta{MetadataStore: ms0}
	pq := &c12RecPQ{ProposalQueue: stores.NewProposalQueue(utg), utype: types.LogTrigger}
	if in.Flow == "condFinal" {
		pq.utype = types.ConditionTrigger
	}
	rq := &c12RecQueue{inner: stores.NewRetryQueue(quietLogger), clk: clk}
	if in.Flow == "retry" {
		rq.failAt = failAt
	} else {
		pq.failAt = failAt
	}

	// cache pre-population: one earlier call per flagged payload, straight on the real runner
	pipe.pre = true
	for i := range in.Items {
		if in.Items[i].Pre != nil {
			_, _ = rn.CheckUpkeeps(ctx, payloads[i])
		}
	}
	pipe.mu.Lock()
	pipe.pre = false
	pipe.mu.Unlock()

	time.Sleep(137 * time.Millisecond)

	src := &c12OneShot{}
	// the sources of the flows that are not the case's subject: empty ones, or (NilIdle) none at all
	var (
		idleLogs  ocr2keepers.LogEventProvider          = &c12OneShot{}
		idleRecov ocr2keepers.RecoverableProvider       = &c12OneShot{}
		idleCond  ocr2keepers.ConditionalUpkeepProvider = &c12OneShot{} // the sampler has no nil test: always present
		idlePQ    types.ProposalQueue                   = pq
		idleRQ    types.RetryQueue                      = rq
	)
	if in.NilIdle {
		idleLogs, idleRecov, idlePQ, idleRQ = nil, nil, nil, nil
	}
	var svcs []service.Recoverable
	proposalsOf := func() []ocr2keepers.CoordinatedBlockProposal {
		out := make([]ocr2keepers.CoordinatedBlockProposal, 0, len(payloads))
		for _, p := range payloads {
			out = append(out, ocr2keepers.CoordinatedBlockProposal{UpkeepID: p.UpkeepID, Trigger: p.Trigger, WorkID: p.WorkID})
		}
		return out
	}
	switch in.Flow {
	case "log":
		src.ps = payloads
		svcs = flows.LogTriggerFlows(coord, rs, ms, rrn, src, idleRecov, bld, time.Second, time.Second, time.Second, rq, idlePQ, upd, quietLogger)
	case "recProp":
		// no flow built here with a source ever enqueues a retry: the retry queue may be missing as well
		src.ps = payloads
		svcs = flows.LogTriggerFlows(coord, rs, ms, rrn, idleLogs, src, bld, time.Second, time.Second, time.Second, idleRQ, idlePQ, upd, quietLogger)
	case "recFinal":
		_ = pq.Enqueue(proposalsOf()...)
		svcs = flows.LogTriggerFlows(coord, rs, ms, rrn, idleLogs, idleRecov, bld, time.Second, time.Second, time.Second, rq, pq, upd, quietLogger)
	case "sample":
		src.ps = payloads
		svcs = flows.ConditionalTriggerFlows(coord, c12All{}, src, blocks, bld, rs, ms, rrn, idlePQ, idleRQ, upd, quietLogger)
	case "condFinal":
		_ = pq.Enqueue(proposalsOf()...)
		svcs = flows.ConditionalTriggerFlows(coord, c12All{}, idleCond, blocks, bld, rs, ms, rrn, pq, rq, upd, quietLogger)
	case "retry":
		for i, p := range payloads {
			_ = rq.enqueue("feed", types.RetryRecord{Payload: p, Interval: time.Duration(in.Items[i].FeedIv)})
		}
		svcs = []service.Recoverable{flows.NewRetryFlow(coord, rs, rrn, rq, 5*time.Second, upd, quietLogger)}
	default:
		t.Fatalf("unknown flow %q", in.Flow)
	}
	if in.NilIdle && in.Flow != "retry" {
		// a retry flow that was given no queue: its ticks carry nothing
		svcs = append(svcs, flows.NewRetryFlow(coord, rs, rrn, nil, time.Second, upd, quietLogger))
	}
	for _, s := range svcs {
		go func(s service.Recoverable) { _ = s.Start(ctx) }(s)
	}
	time.Sleep(time.Duration(in.RunFor))
	synctest.Wait()
	for _, s := range svcs {
		_ = s.Close()
	}
	synctest.Wait()

	impl := c12Impl{}
	view, _ := rs.View()
	impl.View = toJCRs(view)
	impl.PView = append(toJProps(ms.ViewProposals(types.LogTrigger)), toJProps(ms.ViewProposals(types.ConditionTrigger))...)

	// probes of the real retry queue
	rq.mu.Lock()
	var pp []c12QEv
	for _, e := range rq.log {
		if e.K == "enq" && e.Src == "pp" {
			pp = append(pp, e)
		}
	}
	rq.mu.Unlock()
	for _, pr := range in.Probes {
		switch pr.Kind {
		case "bound":
			if len(pp) == 0 {
				continue
			}
			e := pp[pr.J%len(pp)]
			iv := e.Iv
			if iv <= 0 {
				iv = int64(stores.RetryInterval)
			}
			if d := e.T + iv + pr.Delta - clk.ns(); d > 0 {
				time.Sleep(time.Duration(d))
			}
		default:
			time.Sleep(time.Duration(pr.D))
		}
		_, _ = rq.dequeue("probe", pr.N)
	}

	_ = rn.Close()
	cancel()
	synctest.Wait()

	impl.Runs = rrn.runs
	impl.Adds = toJCRs(rs.adds)
	impl.Props = toJProps(ms.props)
	impl.Inelig = toJCRs(upd.calls)
	impl.QLog = rq.log
	impl.Asked = pipe.asked
	impl.Built = bld.built
	impl.DeqErrs = rq.errs + pq.errs
	impl.BldErrs = bld.errs
	if upd.other > 0 {
		impl.Note = fmt.Sprintf("%d SetUpkeepState calls with a state other than Ineligible", upd.other)
	}
	sort.Slice(impl.View, func(i, j int) bool { return impl.View[i].WID < impl.View[j].WID })
	sort.Slice(impl.PView, func(i, j int) bool { return impl.PView[i].WID < impl.PView[j].WID })
	for _, l := range [][]c12QEv{impl.QLog} {
		for i := range l {
			if l[i].Out == nil {
				l[i].Out = []c12Payload{}
			}
		}
	}
	return impl
}

// ---------------------------------------------------------------- generators

// c12QueueIvs: as c12CustomIvs plus an hour and a century (queue histories only: probes never wait for these)
var c12QueueIvs = []int64{1, int64(time.Second), int64(7 * time.Second), int64(30*time.Second) - 1, int64(30 * time.Second), int64(45 * time.Second), -5,
	0, int64(time.Hour), int64(100 * 365 * 24 * time.Hour), -1 << 63}

var c12CustomIvs = []int64{1, int64(time.Second), int64(7 * time.Second), int64(30*time.Second) - 1, int64(30 * time.Second), int64(45 * time.Second), -5}

// c12EdgeBlocks: the ends of the check block's value domain (a uint64) and the values around its sign bit; 0 — the
// zero value of a trigger nobody stamped — is the lower end and gets the most weight
var c12EdgeBlocks = []uint64{0, 0, 0, 1, 1, 2, 1<<63 - 1, 1 << 63, 1<<63 + 1, ^uint64(0) - 1, ^uint64(0)}

// c12BlockGen: how the check blocks of one case are chosen.  "plain": ordinary heights; "low": 0, 1, 2 (so that units
// of work meet at equal blocks and at 0 vs 1); "edge": any end of the domain.
func c12BlockGen(r *Rng, plain func() uint64) func() uint64 {
	switch x := r.Intn(100); {
	case x < 64:
		return plain
	case x < 82:
		return func() uint64 { return uint64(r.Intn(3)) }
	default:
		return func() uint64 { return c12EdgeBlocks[r.Intn(len(c12EdgeBlocks))] }
	}
}

func c12GenPayload(r *Rng, logType bool, block uint64) ocr2keepers.UpkeepPayload {
	uid := genUpkeepID(r, logType)
	res := genResult(r, uid, block)
	return ocr2keepers.UpkeepPayload{UpkeepID: uid, Trigger: res.Trigger, WorkID: res.WorkID}
}

// c12GenRes: the pipeline's answer for payload p, of the requested class.
func c12GenRes(r *Rng, p ocr2keepers.UpkeepPayload, class int) ocr2keepers.CheckResult {
	res := genResult(r, p.UpkeepID, uint64(p.Trigger.BlockNumber))
	res.Trigger = p.Trigger
	res.WorkID = p.WorkID
	if r.Chance(12) {
		// the interval is meaningful for retryable failures only; any result may carry one
		res.RetryInterval = time.Duration(c12CustomIvs[r.Intn(len(c12CustomIvs))])
	}
	switch class {
	case 0: // eligible success; the ineligibility reason is informational and may be a stale non-zero value
		if r.Chance(25) {
			res.IneligibilityReason = uint8(r.Range(1, 255))
		}
	case 1: // ineligible success (with or without a reason)
		res.Eligible = false
		res.IneligibilityReason = uint8(r.Range(0, 9))
		res.PerformData = nil
	case 2: // retryable failure
		res.PipelineExecutionState = uint8(r.Range(1, 9))
		res.Retryable = true
		res.Eligible = false
		if r.Chance(50) {
			res.RetryInterval = time.Duration(c12CustomIvs[r.Intn(len(c12CustomIvs))])
		}
	case 3: // non-retryable failure
		res.PipelineExecutionState = uint8(r.Range(1, 9))
		res.Eligible = false
	case 4: // failure that claims eligibility: must reach no store; retried iff retryable
		res.PipelineExecutionState = uint8(r.Range(1, 9))
		res.Retryable = r.Bool()
	case 5: // success that claims to be retryable: must not be retried
		res.Retryable = true
		res.Eligible = r.Bool()
	}
	return res
}

func c12Class(r *Rng, mix int) int {
	switch mix {
	case 0: // balanced
		return []int{0, 0, 1, 1, 2, 2, 3, 4, 5}[r.Intn(9)]
	case 1: // mostly retryable
		return []int{2, 2, 2, 2, 0, 1, 3}[r.Intn(7)]
	case 2: // mostly eligible
		return []int{0, 0, 0, 0, 1, 2, 3}[r.Intn(7)]
	default: // mostly ineligible
		return []int{1, 1, 1, 0, 2, 3}[r.Intn(6)]
	}
}

var c12Flows = []string{"log", "log", "log", "retry", "retry", "recFinal", "recProp", "sample", "condFinal"}

func c12GenPipe(r *Rng) c12Input {
	in := c12Input{Kind: "pipe", Flow: c12Flows[r.Intn(len(c12Flows))], Workers: []int{1, 2, 4, 8}[r.Intn(4)], RevBatch: r.Chance(20)}
	n := 0
	switch x := r.Intn(100); {
	case x < 45:
		n = r.Range(1, 12)
	case x < 87:
		n = r.Range(9, 45) // around the runner's batch size and a few batches
	case x < 97:
		n = r.Range(46, 150)
	default:
		n = r.Range(151, 300)
	}
	if in.Flow == "retry" && n > 40 {
		n = r.Range(1, 40)
	}
	logType := in.Flow != "sample" && in.Flow != "condFinal"
	mix := r.Intn(4)
	cachePct := []int{0, 20, 50, 90}[r.Intn(4)]
	berrPct := []int{0, 0, 0, 5, 5, 30, 30, 100}[r.Intn(8)]
	dupPct := []int{0, 0, 10, 30}[r.Intn(4)]
	foreign := r.Chance(4)
	// outside the pipeline's contract: calls that answer with MORE results than payloads (for work ids no payload has)
	extra := r.Chance(6)
	final := in.Flow == "recFinal" || in.Flow == "condFinal"
	// final flows: proposals the payload builder answers with an empty payload
	blank := final && r.Chance(12)
	in.NilIdle = r.Chance(15)
	if (final || in.Flow == "retry") && r.Chance(15) {
		for k, m := 0, r.Range(1, 3); k < m; k++ {
			in.DeqErr = append(in.DeqErr, r.Intn(5))
		}
	}
	if final && r.Chance(8) {
		in.BldErr = []int{r.Intn(3)} // the proposals of that tick are gone: dequeued, never built
	}
	block := c12BlockGen(r, func() uint64 { return uint64(r.Range(100, 120)) })
	var ps []ocr2keepers.UpkeepPayload
	for i := 0; i < n; i++ {
		var p ocr2keepers.UpkeepPayload
		if i > 0 && r.Chance(dupPct) {
			// same unit of work on another check block (or the same block with another hash)
			p = ps[r.Intn(len(ps))]
			switch r.Intn(4) {
			case 0:
				if d := ocr2keepers.BlockNumber(r.Range(1, 3)); p.Trigger.BlockNumber+d > p.Trigger.BlockNumber {
					p.Trigger.BlockNumber += d
				}
			case 1:
				if d := ocr2keepers.BlockNumber(r.Range(1, 3)); p.Trigger.BlockNumber >= d {
					p.Trigger.BlockNumber -= d // down to block 0
				}
			case 2:
				p.Trigger.BlockNumber = ocr2keepers.BlockNumber(block())
			default:
			}
			p.Trigger.BlockHash = genHash(r)
		} else {
			lt := logType
			if in.Flow == "retry" {
				lt = r.Bool()
			}
			p = c12GenPayload(r, lt, block())
		}
		ps = append(ps, p)
		it := c12Item{P: toC12Payload(p), Res: toC12Res(c12GenRes(r, p, c12Class(r, mix))), LatMs: []int{0, 0, 1, 20, 150, 400}[r.Intn(6)],
			Drop: r.Chance(5), BErr: r.Chance(berrPct) && (berrPct == 100 || r.Chance(35)), UErr: r.Chance(6)}
		if r.Chance(cachePct) {
			// answered before: usually a success (only those are cached), sometimes with different content
			cl := []int{0, 0, 1, 1, 2}[r.Intn(5)]
			pre := toC12Res(c12GenRes(r, p, cl))
			if r.Chance(60) && it.Res.PES == 0 {
				pre = it.Res
			}
			it.Pre = &pre
		}
		if foreign && r.Chance(30) {
			// pipeline contract violated: the result carries a work id no payload has
			it.Res.WID = hx(r.Bytes(32))
			if r.Chance(30) {
				it.Res.WID = ""
			}
		}
		if in.Flow == "retry" {
			it.FeedIv = []int64{1, 1, int64(time.Second), int64(4 * time.Second), int64(5 * time.Second), 0, int64(8 * time.Second)}[r.Intn(7)]
		}
		if extra && r.Chance(35) {
			for k, m := 0, r.Range(1, 3); k < m; k++ {
				x := toC12Res(c12GenRes(r, p, []int{2, 2, 2, 0, 1, 3}[r.Intn(6)]))
				x.WID = hx(r.Bytes(32))
				if r.Chance(15) {
					x.WID = ""
				}
				it.Extra = append(it.Extra, x)
			}
		}
		it.Blank = blank && r.Chance(25)
		in.Items = append(in.Items, it)
	}
	// some runs reach the observer's own time limit: checks that take about / exactly / longer than it, under a
	// pipeline that turns the expired deadline into per-payload retryable failures
	slow := in.Flow != "retry" && r.Chance(9)
	if slow {
		in.Deadline = true
		lim := int(flows.ObservationProcessLimit / time.Millisecond)
		for i := range in.Items {
			it := &in.Items[i]
			p := fromC12Payload(it.P)
			tr := c12GenRes(r, p, 2)
			tr.PipelineExecutionState = 10
			tres := toC12Res(tr)
			it.TRes = &tres
			if r.Chance(40) {
				it.LatMs = []int{lim - 1, lim, lim, lim + 1, lim + 5000, 3 * lim}[r.Intn(6)]
			}
		}
	}
	// how long the flows run: first tick + processing (≤ 300/10 calls × 0.4 s on one worker) + later ticks
	in.RunFor = int64(17 * time.Second)
	switch in.Flow {
	case "sample":
		in.RunFor = int64(19 * time.Second)
	case "retry":
		in.RunFor = int64([]time.Duration{9 * time.Second, 14 * time.Second, 22 * time.Second, 41 * time.Second}[r.Intn(4)])
	case "recFinal", "condFinal":
		in.RunFor = int64(time.Duration(17+n/50) * time.Second)
	}
	if slow {
		in.RunFor += int64(flows.ObservationProcessLimit) + int64(time.Second)
	}
	if final && len(in.DeqErr) > 0 {
		in.RunFor += int64(len(in.DeqErr)) * int64(time.Second) // a failed tick's proposals wait for the next one
	}
	// probes of the retry queue afterwards
	np := r.Range(0, 4)
	for i := 0; i < np; i++ {
		switch r.Intn(3) {
		case 0:
			in.Probes = append(in.Probes, c12Probe{Kind: "bound", J: r.Intn(1000), Delta: 0, N: []int{1, 1000}[r.Intn(2)]})
			in.Probes = append(in.Probes, c12Probe{Kind: "bound", J: in.Probes[len(in.Probes)-1].J, Delta: 1, N: 1000})
		case 1:
			in.Probes = append(in.Probes, c12Probe{Kind: "abs", D: int64(r.Range(0, 20)) * int64(time.Second), N: []int{0, 1, 3, 1000}[r.Intn(4)]})
		default:
			in.Probes = append(in.Probes, c12Probe{Kind: "bound", J: r.Intn(1000), Delta: int64(r.Range(-2, 2)), N: 1000})
		}
	}
	in.Probes = append(in.Probes, c12Probe{Kind: "abs", D: int64(61 * time.Second), N: 1000})
	return in
}

func c12GenQueue(r *Rng) c12Input {
	in := c12Input{Kind: "queue"}
	nw := r.Range(1, 6)
	base := make([]ocr2keepers.UpkeepPayload, nw)
	// check blocks also at and across 2^31, 2^32, 2^53, 2^63 and at the top of uint64
	lo := []uint64{100, 100, 100, 1<<31 - 3, 1<<32 - 3, 1<<53 - 3, 1<<63 - 3, ^uint64(0) - 15}[r.Intn(8)]
	// … and at the ends of the domain themselves: 0 (the block of a trigger nobody stamped), 1, 2^63, 2^64-1
	block := c12BlockGen(r, func() uint64 { return lo + uint64(r.Range(0, 10)) })
	for i := range base {
		base[i] = c12GenPayload(r, r.Bool(), block())
	}
	type enq struct {
		t, iv int64
		first int64
	}
	var now int64
	var enqs []enq
	first := map[string]int64{}
	defIv, exp := int64(stores.RetryInterval), int64(stores.DefaultExpiration)
	nops := r.Range(4, 40)
	long := r.Chance(35) // histories that reach the expiry
	for i := 0; i < nops; i++ {
		// choose the instant of the next call: near a boundary of an earlier enqueue, or a plain step
		var target int64 = -1
		if len(enqs) > 0 && r.Chance(60) {
			e := enqs[r.Intn(len(enqs))]
			if long && r.Chance(40) {
				target = e.first + exp + int64(r.Range(-1, 2))
			} else if e.iv <= 2*exp {
				target = e.t + e.iv + int64(r.Range(-1, 2))
			}
		}
		var d int64
		if target >= now {
			d = target - now
		} else {
			switch r.Intn(5) {
			case 0:
				d = 0
			case 1:
				d = int64(r.Range(1, 1000))
			case 2:
				d = int64(r.Range(1, 40)) * int64(time.Second)
			case 3:
				d = defIv + int64(r.Range(-1, 1))
			default:
				d = int64(r.Range(1, 3000)) * int64(time.Millisecond)
			}
			if long && r.Chance(15) {
				d = exp/2 + int64(r.Range(-1, 1))
			}
		}
		now += d
		if i == 0 || r.Chance(50) {
			p := base[r.Intn(nw)]
			switch r.Intn(6) {
			case 0:
				// a newer check block; not past the top of the domain
				if d := ocr2keepers.BlockNumber(r.Range(1, 5)); p.Trigger.BlockNumber+d > p.Trigger.BlockNumber {
					p.Trigger.BlockNumber += d
				}
				p.Trigger.BlockHash = genHash(r)
			case 1:
				// an older check block, down to 0
				if d := ocr2keepers.BlockNumber(r.Range(1, 5)); p.Trigger.BlockNumber >= d {
					p.Trigger.BlockNumber -= d
				} else {
					p.Trigger.BlockNumber = 0
				}
				p.Trigger.BlockHash = genHash(r)
			case 2:
				// any block of the case's range: far apart, or equal to what is queued
				p.Trigger.BlockNumber = ocr2keepers.BlockNumber(block())
				p.Trigger.BlockHash = genHash(r)
			case 3:
				// the same check block on another fork
				p.Trigger.BlockHash = genHash(r)
			}
			iv := int64(0)
			if r.Chance(50) {
				iv = c12QueueIvs[r.Intn(len(c12QueueIvs))]
			}
			eff := iv
			if eff <= 0 {
				eff = defIv
			}
			if _, ok := first[p.WorkID]; !ok {
				first[p.WorkID] = now
			}
			enqs = append(enqs, enq{t: now, iv: eff, first: first[p.WorkID]})
			in.Ops = append(in.Ops, c12Op{Op: "enq", D: d, Rec: &c12Rec{P: toC12Payload(p), Iv: iv}})
		} else {
			in.Ops = append(in.Ops, c12Op{Op: "deq", D: d, N: []int{0, 1, 1, 2, 1000, 1000, 1000}[r.Intn(7)]})
		}
	}
	in.Ops = append(in.Ops, c12Op{Op: "deq", D: int64(r.Range(0, 61)) * int64(time.Second), N: 1000})
	return in
}

// c12Edge: hand-written cases, run before the generated ones.
func c12Edge() []c12Input {
	r := NewRng(121212)
	blk := uint64(100)
	mk := func(flow string, classes []int, cached []bool) c12Input {
		in := c12Input{Kind: "pipe", Flow: flow, Workers: 2, RunFor: int64(17 * time.Second),
			Probes: []c12Probe{{Kind: "bound", J: 0, Delta: 0, N: 1000}, {Kind: "bound", J: 0, Delta: 1, N: 1000}, {Kind: "abs", D: int64(61 * time.Second), N: 1000}}}
		for i, c := range classes {
			p := c12GenPayload(r, flow != "sample" && flow != "condFinal", blk)
			it := c12Item{P: toC12Payload(p), Res: toC12Res(c12GenRes(r, p, c)), LatMs: 10 * (len(classes) - i)}
			if cached[i] {
				pre := toC12Res(c12GenRes(r, p, 0))
				it.Pre = &pre
			}
			in.Items = append(in.Items, it)
		}
		return in
	}
	var out []c12Input
	// the witness of the repaired defect: payloads [A, B], B cached, A failing retryably
	out = append(out, mk("log", []int{2, 0}, []bool{false, true}))
	// 25 payloads, every second one cached, failures at both ends: three batches, permuted results
	{
		cl := make([]int, 25)
		ca := make([]bool, 25)
		for i := range cl {
			cl[i] = []int{2, 0, 1, 3, 2}[i%5]
			ca[i] = i%2 == 1 && cl[i] != 2
		}
		for _, f := range []string{"log", "recFinal", "recProp", "sample", "condFinal"} {
			out = append(out, mk(f, cl, ca))
		}
	}
	// every pipeline call fails: the runner reports an error and nothing may be routed
	{
		in := mk("log", []int{0, 1, 2, 2}, []bool{false, false, false, false})
		for i := range in.Items {
			in.Items[i].BErr = true
		}
		out = append(out, in)
	}
	// one unit of work on two check blocks, both failing retryably with different intervals
	{
		in := mk("log", []int{2, 0, 2}, []bool{false, false, false})
		p := fromC12Payload(in.Items[0].P)
		p.Trigger.BlockNumber += 2
		p.Trigger.BlockHash = genHash(r)
		res := c12GenRes(r, p, 2)
		res.RetryInterval = 7 * time.Second
		in.Items[2] = c12Item{P: toC12Payload(p), Res: toC12Res(res)}
		out = append(out, in)
	}
	// retry flow: more due records than one tick takes, default and custom feed intervals
	{
		cl := make([]int, 14)
		ca := make([]bool, 14)
		for i := range cl {
			cl[i] = []int{2, 0, 2, 1}[i%4]
		}
		in := mk("retry", cl, ca)
		for i := range in.Items {
			in.Items[i].FeedIv = []int64{1, int64(time.Second), 0}[i%3]
		}
		in.RunFor = int64(41 * time.Second)
		out = append(out, in)
	}
	// the ends of the check block's domain, through every flow: block 0 (a trigger nobody stamped) and 2^64-1
	for _, b := range []uint64{0, ^uint64(0)} {
		blk = b
		for _, f := range []string{"log", "recFinal", "recProp", "sample", "condFinal"} {
			out = append(out, mk(f, []int{2, 0, 1, 2, 3}, []bool{false, false, true, false, false}))
		}
		in := mk("retry", []int{2, 0, 2, 1, 2}, make([]bool, 5))
		for i := range in.Items {
			in.Items[i].FeedIv = []int64{1, int64(time.Second), 0}[i%3]
		}
		in.RunFor = int64(41 * time.Second)
		out = append(out, in)
	}
	// one unit of work checked on block 0 and on block 1 in one batch, both failing retryably
	{
		blk = 0
		in := mk("log", []int{2, 0, 2}, []bool{false, false, false})
		p := fromC12Payload(in.Items[0].P)
		p.Trigger.BlockNumber = 1
		p.Trigger.BlockHash = genHash(r)
		in.Items[2] = c12Item{P: toC12Payload(p), Res: toC12Res(c12GenRes(r, p, 2))}
		out = append(out, in)
	}
	blk = 100
	// more results than payloads: two retryable failures for work ids no payload has, at positions past the payload
	// list — nothing may be retried for them; and the same ahead of the regular answers (reverse order)
	for _, rev := range []bool{false, true} {
		in := mk("log", []int{2, 0}, []bool{false, false})
		for k := 0; k < 2; k++ {
			x := toC12Res(c12GenRes(r, fromC12Payload(in.Items[1].P), 2))
			x.WID = hx(r.Bytes(32))
			in.Items[1].Extra = append(in.Items[1].Extra, x)
		}
		in.RevBatch = rev
		out = append(out, in)
	}
	// flows whose idle neighbours have no provider / queue at all; a retry flow without a queue alongside
	for _, f := range []string{"log", "recProp", "recFinal", "sample", "condFinal"} {
		in := mk(f, []int{2, 0, 1, 2}, make([]bool, 4))
		in.NilIdle = true
		out = append(out, in)
	}
	// the source queue's Dequeue fails on the first two ticks: nothing is processed then, everything afterwards
	for _, f := range []string{"retry", "recFinal", "condFinal"} {
		in := mk(f, []int{2, 0, 1, 2, 0}, make([]bool, 5))
		in.DeqErr = []int{0, 1}
		for i := range in.Items {
			in.Items[i].FeedIv = 1
		}
		in.RunFor = int64(22 * time.Second)
		out = append(out, in)
	}
	// the payload builder fails on the first tick that has proposals: that tick routes nothing
	for _, f := range []string{"recFinal", "condFinal"} {
		in := mk(f, []int{0, 2, 1}, make([]bool, 3))
		in.BldErr = []int{0}
		out = append(out, in)
	}
	// the payload builder answers two of five proposals with an empty payload: those are skipped, not checked
	for _, f := range []string{"recFinal", "condFinal"} {
		in := mk(f, []int{0, 2, 0, 1, 2}, make([]bool, 5))
		in.Items[0].Blank, in.Items[3].Blank = true, true
		out = append(out, in)
	}
	// queue histories
	pA := c12GenPayload(r, true, 100)
	pC := c12GenPayload(r, false, 100)
	pA2 := pA
	pA2.Trigger.BlockNumber = 105
	pA0 := pA
	pA0.Trigger.BlockNumber = 95
	enq := func(d int64, p ocr2keepers.UpkeepPayload, iv int64) c12Op {
		return c12Op{Op: "enq", D: d, Rec: &c12Rec{P: toC12Payload(p), Iv: iv}}
	}
	deq := func(d int64, n int) c12Op { return c12Op{Op: "deq", D: d, N: n} }
	s, h24 := int64(time.Second), int64(24*time.Hour)
	out = append(out,
		// default interval: exactly 30 s nothing, +1 ns handed out, then pending
		c12Input{Kind: "queue", Ops: []c12Op{enq(0, pA, 0), deq(30*s, 10), deq(1, 10), deq(1, 10), deq(60*s, 10)}},
		// custom interval, n = 0, newer block replaces, older does not
		c12Input{Kind: "queue", Ops: []c12Op{enq(5, pA, 7*s), enq(0, pC, -5), deq(7*s-1, 0), deq(1, 0), deq(1, 0), enq(3, pA2, 1), enq(0, pA0, 1), deq(1, 5), deq(1, 5), deq(40*s, 5)}},
		// expiry: 24 h after the FIRST enqueue, re-enqueueing does not extend it
		c12Input{Kind: "queue", Ops: []c12Op{enq(0, pA, 0), enq(h24-30*s-1, pA2, 0), deq(30*s+1, 5), enq(0, pA, 1), deq(2, 5), enq(h24, pA, 1), deq(2, 5)}},
		// purge order: A expired and C due when Dequeue(1) runs; A is re-enqueued afterwards
		c12Input{Kind: "queue", Ops: []c12Op{enq(0, pA, 0), enq(h24-60*s, pC, 0), deq(61*s, 1), enq(s, pA, 0), deq(40*s, 10), deq(40*s, 10)}},
	)
	// check blocks at the ends of their domain
	at := func(p ocr2keepers.UpkeepPayload, b uint64) ocr2keepers.UpkeepPayload {
		p.Trigger.BlockNumber = ocr2keepers.BlockNumber(b)
		p.Trigger.BlockHash = genHash(r)
		return p
	}
	top, half := ^uint64(0), uint64(1)<<63
	out = append(out,
		// block 0 alone: retried after its interval, re-enqueued on block 0 when it fails again, retried again
		c12Input{Kind: "queue", Ops: []c12Op{enq(0, at(pA, 0), 0), deq(30*s+1, 10), enq(1, at(pA, 0), s), deq(s+1, 10), deq(40*s, 10)}},
		// block 0, then block 1 replaces it; block 0 does not replace block 1; a second unit of work stays on block 0
		c12Input{Kind: "queue", Ops: []c12Op{enq(0, at(pA, 0), 1), enq(0, at(pC, 0), 1), enq(0, at(pA, 1), 1), enq(0, at(pA, 0), 1), deq(2, 10), deq(40*s, 10)}},
		// equal blocks: the payload queued first stays
		c12Input{Kind: "queue", Ops: []c12Op{enq(0, at(pA, 0), 1), enq(0, at(pA, 0), 1), deq(2, 10), enq(0, at(pC, top), 1), enq(0, at(pC, top), 1), deq(2, 10)}},
		// across the sign bit and at the top: 2^63-1 < 2^63 < 2^64-1, nothing is newer than 2^64-1, 0 is older than all
		c12Input{Kind: "queue", Ops: []c12Op{enq(0, at(pA, half-1), 1), enq(0, at(pA, half), 1), deq(2, 10), enq(0, at(pA, top), 1), enq(0, at(pA, 0), 1), enq(0, at(pA, half), 1), deq(2, 10),
			enq(0, at(pC, top), 1), enq(0, at(pC, 0), 1), deq(2, 10)}},
	)
	return out
}

func TestC12(t *testing.T) {
	em := NewEmitter(t, "C12")
	defer em.Close()
	run := func(src string, in c12Input) {
		synctest.Test(t, func(t *testing.T) { em.Emit(src, in, c12Run(t, in)) })
	}
	names, raws, replayOnly := corpusInputs(t, "C12")
	for i, raw := range raws {
		var in c12Input
		if err := json.Unmarshal(raw, &in); err != nil {
			t.Fatalf("%s: %v", names[i], err)
		}
		run(names[i], in)
	}
	if replayOnly {
		return
	}
	for _, in := range c12Edge() {
		run("edge", in)
	}
	r := NewRng(seed())
	np := tierN(1500, 8000)
	for i := 0; i < np; i++ {
		in := c12GenPipe(r)
		em.Hit("pipe:flow=" + in.Flow)
		em.Hit(fmt.Sprintf("pipe:n=%d", c12Bucket(len(in.Items))))
		em.Hit(fmt.Sprintf("pipe:workers=%d", in.Workers))
		run("gen", in)
	}
	nq := tierN(4000, 60000)
	for i := 0; i < nq; i++ {
		in := c12GenQueue(r)
		em.Hit(fmt.Sprintf("queue:ops=%d", c12Bucket(len(in.Ops))))
		run("gen", in)
	}
	c12PluginAndStress(t, em, r, run)
}

func c12Bucket(n int) int {
	switch {
	case n <= 3:
		return n
	case n <= 10:
		return 10
	case n <= 45:
		return 45
	case n <= 150:
		return 150
	}
	return 300
}
