package harness

import (
	"context"
	"encoding/json"
	"errors"
	"fmt"
	"hash/fnv"
	"os"
	"sync"
	"testing"
	"testing/synctest"
	"time"

	gojson "github.com/goccy/go-json"
	"github.com/smartcontractkit/libocr/commontypes"
	"github.com/smartcontractkit/libocr/offchainreporting2plus/ocr3types"
	ocr2plustypes "github.com/smartcontractkit/libocr/offchainreporting2plus/types"

	ocr2keepersv3 "github.com/smartcontractkit/chainlink-automation/pkg/v3"
	ocr2keepers "github.com/smartcontractkit/chainlink-common/pkg/types/automation"
)

// C03 — Whatever a node emits passes the network's own validation and size limits.
//
// (a) "obs" cases: every observation produced in the C08 worlds (0…3000 staged results, heavy layouts that make the
//     byte limit cut, in-flight sets, aged results and proposals, previous outcomes) is handed to ANOTHER instance's
//     ValidateObservation and measured against the limits the factory advertises.
// (b) "round" cases: chains of rounds on n real instances in one bubble:
//     Observation on every node -> ValidateObservation on a peer -> Outcome on node 0 (the others must produce identical
//     bytes) -> Reports -> ShouldAcceptAttestedReport on every node -> next round (Observation and Outcome decode the
//     outcome as PreviousOutcome).  The flows run for real in between (staging through the log-trigger flow, proposals
//     through the recovery and sampling flows, surfaced proposals through the proposal queue and the final flows).

type c03Limits struct {
	MaxObs     int `json:"maxObs"`
	MaxOutcome int `json:"maxOutcome"`
	MaxReports int `json:"maxReports"`
}

func toC03Limits(l ocr3types.ReportingPluginLimits) c03Limits {
	return c03Limits{MaxObs: l.MaxObservationLength, MaxOutcome: l.MaxOutcomeLength, MaxReports: l.MaxReportCount}
}

// ---------------------------------------------------------------- (a) observations

type c03ObsX struct {
	F       int       `json:"f"`
	Aux     JRoundAux `json:"aux"`
	MaxItem int       `json:"maxItem"` // longest JSON encoding of a performable in the observation
}
type c03ObsInput struct {
	Kind string `json:"kind"` // "obs"
	Node int    `json:"node"` // which of the two instances of the world produced it
	c08Recipe
	X *c03ObsX `json:"x,omitempty"`
}
type c03ObsImpl struct {
	Err     string    `json:"err,omitempty"`
	Obs     *JObs     `json:"obs"`
	Len     int       `json:"len"`
	PeerErr string    `json:"peerErr"`
	Limits  c03Limits `json:"limits"`
}

// c03ObsScriptInput: an observation of a C08 script (the same two instances observed over several rounds while what they
// hold changes in between; a replay re-runs the script and keeps the round `shot`)
type c03ObsScriptInput struct {
	Kind string `json:"kind"` // "obs-script"
	Node int    `json:"node"`
	c08ScriptRecipe
	X *c03ObsX `json:"x,omitempty"`
}

func c03EmitWorld(t *testing.T, em *Emitter, src string, rc c08Recipe, only int) {
	var shots []c08Shot
	synctest.Test(t, func(t *testing.T) { shots = c08RunWorld(t, rc, em) })
	c03EmitShots(em, src, shots, only, -1, func(sh c08Shot, k, i int, x *c03ObsX) any {
		one := rc
		one.Seqs = []uint64{sh.Seq}
		return c03ObsInput{Kind: "obs", Node: i, c08Recipe: one, X: x}
	})
}

func c03EmitScript(t *testing.T, em *Emitter, src string, rc c08ScriptRecipe, only int) {
	var shots []c08Shot
	synctest.Test(t, func(t *testing.T) { shots = c08RunScript(t, rc, em) })
	c03EmitShots(em, src, shots, only, rc.Shot, func(sh c08Shot, k, i int, x *c03ObsX) any {
		one := rc
		one.Shot = k
		return c03ObsScriptInput{Kind: "obs-script", Node: i, c08ScriptRecipe: one, X: x}
	})
	em.Hit("kind=obs-script")
}

func c03EmitShots(em *Emitter, src string, shots []c08Shot, only, onlyShot int, mk func(sh c08Shot, k, i int, x *c03ObsX) any) {
	for k, sh := range shots {
		if onlyShot >= 0 && k != onlyShot {
			continue
		}
		for i := 0; i < 2; i++ {
			if only >= 0 && i != only {
				continue
			}
			var in struct{ X *c03ObsX }
			impl := c03ObsImpl{Len: len(sh.Raw[i]), PeerErr: sh.PeerErr[i], Limits: toC03Limits(sh.Limits)}
			if sh.Err[i] != nil {
				impl.Err = sh.Err[i].Error()
			} else if sh.Obs[i] == nil {
				impl.Err = "observation bytes do not decode"
			} else {
				a := newAux(b32(sh.X.Digest), sh.Seq)
				for _, r := range sh.Obs[i].Performable {
					a.upkeep(r.UpkeepID, r.Trigger)
				}
				for _, p := range sh.Obs[i].UpkeepProposals {
					a.upkeep(p.UpkeepID, p.Trigger)
				}
				in.X = &c03ObsX{F: sh.X.F, Aux: a.aux}
				for _, r := range sh.Obs[i].Performable {
					if l := len(must(gojson.Marshal(r))); l > in.X.MaxItem {
						in.X.MaxItem = l
					}
				}
				jo := toJObsC(*sh.Obs[i])
				impl.Obs = &jo
			}
			if in.X == nil {
				in.X = &c03ObsX{F: sh.X.F, Aux: JRoundAux{}}
			}
			if e := sh.Impl.Nodes[i].EvalErr; e != "" && impl.Err == "" { // (scripts) the instance went on to evaluate Outcome / Reports
				impl.Err, impl.Obs = "after the observation: "+e, nil
			}
			em.Emit(src, mk(sh, k, i, in.X), impl)
			em.Hit("kind=obs")
		}
	}
}

// ---------------------------------------------------------------- (c) observation quorum for every (n, f)

type c03QuorumInput struct {
	Kind string `json:"kind"` // "quorum"
	N    int    `json:"n"`
	F    int    `json:"f"`
	X    *struct {
		N int `json:"n"`
		F int `json:"f"`
	} `json:"x,omitempty"`
}
type c03QuorumImpl struct {
	Quorum []bool `json:"quorum"` // ObservationQuorum for 0, 1, …, n observations
	Err    string `json:"err,omitempty"`
}

func c03RunQuorum(t *testing.T, em *Emitter, src string, n, f int) {
	var impl c03QuorumImpl
	synctest.Test(t, func(t *testing.T) {
		withNode(t, NodeOpts{N: n, F: f}, func(node *Node) {
			for k := 0; k <= n; k++ {
				aos := make([]ocr2plustypes.AttributedObservation, k)
				for j := range aos {
					aos[j].Observer = commontypes.OracleID(j)
				}
				q, err := node.Plugin.ObservationQuorum(context.Background(), ocr3types.OutcomeContext{SeqNr: 1}, nil, aos)
				if err != nil {
					impl.Err = err.Error()
				}
				impl.Quorum = append(impl.Quorum, q)
			}
		})
	})
	in := c03QuorumInput{Kind: "quorum", N: n, F: f}
	in.X = &struct {
		N int `json:"n"`
		F int `json:"f"`
	}{n, f}
	em.Emit(src, in, impl)
	em.Hit("kind=quorum")
}

// c03QuorumSweep: every configuration with 3f+1 <= n <= 13 (f = 0 included), every number of observations 0…n.
func c03QuorumSweep(t *testing.T, em *Emitter) {
	for f := 0; 3*f+1 <= 13; f++ {
		for n := 3*f + 1; n <= 13; n++ {
			c03RunQuorum(t, em, "edge", n, f)
		}
	}
}

// ---------------------------------------------------------------- (b) chains

type c03ChainRecipe struct {
	Seed    uint64 `json:"seed"`
	N       int    `json:"n"`
	Rounds  int    `json:"rounds"`
	Burst   int    `json:"burst"`   // results arriving before the first round (exceeds the 100 caps when > 100)
	Heavy   bool   `json:"heavy"`   // most perform data 8–10 KB
	PerRound int   `json:"perRound"` // up to this many new results per round
	Props   int    `json:"props"`   // up to this many new proposals per round and node
	PauseAt int    `json:"pauseAt"` // before this round the network stalls for 6 minutes (staged results expire); -1: never
	Round   int    `json:"round"`   // the round this line is about (a replay re-runs the chain up to it)
	// off-chain config of every instance (0: the default); reports are split by batch size, report gas limit and upkeep id
	Batch    int    `json:"batch"`
	GasLimit uint32 `json:"gasLimit"`
	// Split: log upkeeps with several logs whose payloads reach two groups of >= f+1 nodes on DIFFERENT check blocks
	// (split vote: both variants of every log reach the quorum)
	Split bool `json:"split"`
	// SameUpkeep: that many logs of ONE upkeep arrive before the first round (one report each, whatever the batch size)
	SameUpkeep int `json:"sameUpkeep"`
	// Reorgs: the block sources report windows of 3…300 blocks and the newest blocks are reorganised now and then
	// (same numbers, new hashes) between two updates
	Reorgs bool `json:"reorgs"`
	// Byz: one of the counted observations (<= f) is altered: it also proposes conditional work again that the network
	// surfaced in an earlier round and that is still in the 20-round history, now on the current block; and fresh
	// conditional work nobody can check (it stays in the history)
	Byz bool `json:"byz"`
	// OtherTypes: some results belong to upkeeps of a third trigger type
	OtherTypes bool `json:"otherTypes"`
	// Rerun: percentage of rounds that do NOT commit (leader change, timeout, lost messages).  libocr then runs the next round
	// on the SAME previous outcome: every instance goes through Observation / Outcome with bytes it has already decoded and
	// worked on; no report of the lost round is accepted, the staged work stays, the sequence number moves on
	Rerun int `json:"rerun,omitempty"`
	// Recheck: between two rounds staged work that is not agreed yet is checked again on a higher block: the result store
	// replaces the result (same work id, same perform data length; other check block, gas, prices — mostly with longer
	// encodings than the first check, which answers with the shortest ones)
	Recheck bool `json:"recheck,omitempty"`
}

// c03Again: one more evaluation of a plugin function on an instance that has evaluated it before on the same inputs
type c03Again struct {
	Node int    `json:"node"`
	Call string `json:"call"`
	Same bool   `json:"same"` // same bytes (and the same error status) as the first evaluation
	Err  string `json:"err,omitempty"`
}

// c03Cfg is the effective report configuration (after ensureMinimumDefaults), for the model of Reports.
type c03Cfg struct {
	Batch    int    `json:"batch"`
	GasLimit uint32 `json:"gasLimit"`
	Overhead uint32 `json:"overhead"`
}

type c03RoundInput struct {
	Kind string `json:"kind"` // "round"
	Cfg  c03Cfg `json:"cfg"`
	c03ChainRecipe
	X *JRound `json:"x,omitempty"`
}

type c03RoundImpl struct {
	Err         string    `json:"err,omitempty"`
	Outcome     *JOutcome `json:"outcome"`
	Len         int       `json:"len"`
	Identical   bool      `json:"identical"`
	Validate    []string  `json:"validate"` // per attributed observation: the peer's ValidateObservation error ("" = accepted)
	ObsLens     []int     `json:"obsLens"`
	Reports     int       `json:"reports"`
	ReportsErr  string    `json:"reportsErr,omitempty"`
	Quorum      []bool    `json:"quorum"`
	NextDecodes bool      `json:"nextDecodes"`
	NextErr     string    `json:"nextErr,omitempty"`
	RL          []int     `json:"rl"`
	PL          [][]int   `json:"pl"`
	Limits      c03Limits `json:"limits"`
	// Again: Outcome / Reports evaluated again on instances that had evaluated them on the same inputs
	Again []c03Again `json:"again"`
	// Committed: false for a round that was lost (Rerun); `nextDecodes` is then the verdict of the public decoder and of
	// another instance's Reports on the bytes
	Committed bool `json:"committed"`
}

type c03Pipeline struct {
	mu    sync.Mutex
	byWid map[string]ocr2keepers.CheckResult
}

func (p *c03Pipeline) add(rs ...ocr2keepers.CheckResult) {
	p.mu.Lock()
	for _, r := range rs {
		p.byWid[r.WorkID] = r
	}
	p.mu.Unlock()
}

// check answers a payload with the upkeep's result on the payload's own trigger (a coordinated proposal is checked on
// the coordinated block).
func (p *c03Pipeline) check(_ context.Context, ps []ocr2keepers.UpkeepPayload) ([]ocr2keepers.CheckResult, error) {
	p.mu.Lock()
	defer p.mu.Unlock()
	out := make([]ocr2keepers.CheckResult, 0, len(ps))
	for _, pl := range ps {
		if res, ok := p.byWid[pl.WorkID]; ok {
			res.Trigger = pl.Trigger
			out = append(out, res)
		}
	}
	return out, nil
}

// c03RunChain runs the chain of a recipe inside the current bubble and calls emit for every round up to `upto` (-1: all).
func c03RunChain(t *testing.T, rc c03ChainRecipe, em *Emitter, emit func(round int, x JRound, impl c03RoundImpl)) {
	r := NewRng(rc.Seed)
	n := rc.N
	f := (n - 1) / 3
	digest := genHash(r)
	pipe := &c03Pipeline{byWid: map[string]ocr2keepers.CheckResult{}}
	r2 := NewRng(rc.Seed ^ 0x5eed0c03) // decisions of Rerun / Recheck: the main stream is the same with and without them
	var fed []string                   // work ids fed through the log flow (Recheck)
	agreedW := map[string]bool{}
	nodes := make([]*Node, n)
	for i := range nodes {
		nodes[i] = NewNode(t, NodeOpts{N: n, F: f, Digest: digest, OracleID: i,
			OffchainConfig: []byte(fmt.Sprintf(`{"maxUpkeepBatchSize":%d,"gasLimitPerReport":%d}`, rc.Batch, rc.GasLimit))})
		nodes[i].Run.mu.Lock()
		nodes[i].Run.fn = pipe.check
		nodes[i].Run.mu.Unlock()
	}
	defer func() {
		for _, nd := range nodes {
			nd.Close()
		}
		time.Sleep(11 * time.Second)
		synctest.Wait()
	}()
	time.Sleep(1637 * time.Millisecond)
	ctx := context.Background()
	height := uint64(r.Range(1000, 50000))
	height0 := height
	chainHashes := map[uint64][32]byte{}
	hashAt := func(h uint64) [32]byte {
		if v, ok := chainHashes[h]; ok {
			return v
		}
		v := genHash(r)
		if rc.Recheck { // the blocks the first checks ran on have hashes with short encodings, later blocks long ones
			for i := range v {
				if h <= height0 {
					v[i] = v[i] % 10
				} else {
					v[i] = 100 + v[i]%156
				}
			}
		}
		chainHashes[h] = v
		return v
	}
	newResult := func(logType bool) ocr2keepers.CheckResult {
		res := genResult(r, genUpkeepID(r, logType), height-uint64(r.Intn(3)))
		if rc.OtherTypes && r.Chance(8) { // an upkeep that is neither conditional nor log, plain trigger or with extension
			res = genResultOtherType(r, height-uint64(r.Intn(3)))
		}
		res.Trigger.BlockHash = hashAt(uint64(res.Trigger.BlockNumber))
		switch {
		case rc.Heavy && r.Chance(85):
			res.PerformData = r.Bytes(r.Range(8000, 10000))
		case r.Chance(10):
			res.PerformData = r.Bytes(r.Range(100, 3000))
		}
		if rc.Recheck {
			c08CheckValues(r2, &res, 0)
			res.Trigger.BlockHash = hashAt(uint64(res.Trigger.BlockNumber))
			res.GasAllocated = uint64(r2.Range(100_000, 999_999))
			if rc.Heavy {
				res.PerformData = r2.Bytes(r2.Range(5000, 10000)) // uneven sizes
			}
		}
		return res
	}
	feed := func(k int) {
		for j := 0; j < k; j++ {
			res := newResult(r.Chance(60))
			pipe.add(res)
			fed = append(fed, res.WorkID)
			for _, nd := range nodes {
				if r.Chance(85) {
					nd.Logs.mu.Lock()
					nd.Logs.payloads = append(nd.Logs.payloads, payloadOf(res))
					nd.Logs.mu.Unlock()
				}
			}
		}
	}
	// several logs of one upkeep, checked on block X by one half of the nodes and on block Y by the other half
	feedSplit := func() {
		uid := genUpkeepID(r, true)
		bx, by := height-1, height
		groups := r.Perm(n)
		for l := r.Range(2, 3); l > 0; l-- {
			res := genResult(r, uid, bx)
			res.Trigger.BlockHash = hashAt(bx)
			pipe.add(res)
			for gi, o := range groups {
				p := payloadOf(res)
				if gi >= (n+1)/2 {
					p.Trigger.BlockNumber, p.Trigger.BlockHash = ocr2keepers.BlockNumber(by), hashAt(by)
				}
				nodes[o].Logs.mu.Lock()
				nodes[o].Logs.payloads = append(nodes[o].Logs.payloads, p)
				nodes[o].Logs.mu.Unlock()
			}
		}
		em.Hit("split-vote-upkeeps")
	}
	feedSame := func(k int) {
		uid := genUpkeepID(r, true)
		for ; k > 0; k-- {
			res := genResult(r, uid, height)
			res.Trigger.BlockHash = hashAt(height)
			pipe.add(res)
			for _, nd := range nodes {
				nd.Logs.mu.Lock()
				nd.Logs.payloads = append(nd.Logs.payloads, payloadOf(res))
				nd.Logs.mu.Unlock()
			}
		}
	}
	var byzCond []ocr2keepers.CoordinatedBlockProposal // conditional work the altered observations proposed so far
	condCap := map[int]int{4: 20, 5: 8, 7: 4, 10: 2}[n] // OfInt: round(0.98*20)=20, round(float32(0.9)*4)=4 (but *5 gives 4), round(0.81*2)=2
	seq := uint64(r.Range(1, 500))
	var prev *ocr2keepersv3.AutomationOutcome
	var prevBytes []byte
	type pending struct {
		round int
		x     JRound
		impl  c03RoundImpl
	}
	var pend *pending
	feed(rc.Burst)
	feedSame(rc.SameUpkeep)
	rounds := rc.Rounds
	for k := 0; k <= rounds; k++ { // one extra pass: only to see whether the last outcome is decodable
		last := k == rounds
		if k == rc.PauseAt {
			time.Sleep(6*time.Minute + 130*time.Millisecond)
		}
		if !last {
			feed(r.Range(0, rc.PerRound))
			if rc.Split && r.Chance(45) {
				feedSplit()
			}
			// proposals: recovery payloads and sampled conditional upkeeps; the same work is seen by several nodes
			for _, nd := range nodes {
				nd.Getter.mu.Lock()
				nd.Getter.upkeeps = nil
				nd.Getter.mu.Unlock()
			}
			mult := 2
			if rc.Props >= 10 {
				mult = 6 // proposal pressure: more new work per round than the 50 the network surfaces
			}
			for j := r.Range(0, rc.Props*mult); j > 0; j-- {
				logType := r.Bool()
				if mult > 2 {
					logType = r.Chance(85) // the sampled (conditional) side is capped for reproducibility, see condCap
				}
				res := newResult(logType)
				pipe.add(res)
				for _, nd := range nodes {
					if !r.Chance(55) {
						continue
					}
					if logType {
						nd.Recov.mu.Lock()
						nd.Recov.payloads = append(nd.Recov.payloads, payloadOf(res))
						nd.Recov.mu.Unlock()
					} else {
						// the sampling flow draws `ratio.OfInt(len)` upkeeps with a crypto-random shuffle; keep len small enough
						// that all of them are drawn (ratio 0.98 / 0.90 / 0.81 for n = 4 / 7 / 10), so that a run is reproducible
						nd.Getter.mu.Lock()
						if len(nd.Getter.upkeeps) < condCap {
							nd.Getter.upkeeps = append(nd.Getter.upkeeps, payloadOf(res))
						}
						nd.Getter.mu.Unlock()
					}
				}
			}
			// blocks
			height += uint64(r.Range(0, 3))
			depth := []int{3, 10, 40, 256, 300}[r.Intn(5)]
			if rc.Reorgs {
				depth = []int{3, 8, 16, 40, 100, 255, 256, 300}[r.Intn(8)]
				if r.Chance(35) { // the newest 1…3 blocks are replaced by siblings
					for d := r.Range(1, 3); d > 0; d-- {
						chainHashes[height-uint64(d-1)] = genHash(r)
					}
					em.Hit("chain-reorgs")
				}
			}
			if rc.Recheck && k > 0 {
				nre := 0
				for _, w := range fed {
					pipe.mu.Lock()
					res, ok := pipe.byWid[w]
					pipe.mu.Unlock()
					if !ok || agreedW[w] || uint64(res.Trigger.BlockNumber) >= height || !r2.Chance(70) {
						continue
					}
					res.Trigger.BlockNumber = ocr2keepers.BlockNumber(height)
					c08CheckValues(r2, &res, []int{2, 2, 2, 1, 0}[r2.Intn(5)])
					res.Trigger.BlockHash = hashAt(height)
					res.GasAllocated = uint64(r2.Range(1_000_000, 5_000_000)) // (the gas sums of Reports are uint64: no allowances near 2^64 here)
					res.PerformData = r2.Bytes(len(res.PerformData))
					pipe.add(res)
					for _, nd := range nodes {
						if r2.Chance(85) {
							nd.Logs.mu.Lock()
							nd.Logs.payloads = append(nd.Logs.payloads, payloadOf(res))
							nd.Logs.mu.Unlock()
						}
					}
					nre++
				}
				if nre > 0 {
					em.Hit("chain-rechecks")
				}
			}
			for _, nd := range nodes {
				top := height - uint64(r.Intn(2)) // some nodes lag by a block
				h := make(ocr2keepers.BlockHistory, 0, depth)
				for d := 0; d < depth && uint64(d) < top; d++ {
					h = append(h, ocr2keepers.BlockKey{Number: ocr2keepers.BlockNumber(top - uint64(d)), Hash: hashAt(top - uint64(d))})
				}
				nd.Blocks.Publish(h)
			}
			time.Sleep(time.Duration(r.Range(114, 334)) * 10 * time.Millisecond) // multiples of 10 ms: the chain stays 7 ms off the 1 s grids
			synctest.Wait()
		}
		// ---- Observation on every node
		outctx := ocr3types.OutcomeContext{SeqNr: seq, PreviousOutcome: prevBytes}
		raws := make([][]byte, n)
		nextErr := ""
		for i, nd := range nodes {
			raw, err := nd.Plugin.Observation(ctx, outctx, nil)
			if err != nil {
				nextErr = fmt.Sprintf("Observation on node %d: %v", i, err)
			}
			raws[i] = raw
		}
		// attributed subset: all, or exactly 2f+1, or in between; delivery order shuffled
		m := n
		switch r.Intn(3) {
		case 0:
			m = 2*f + 1
		case 1:
			m = r.Range(2*f+1, n)
		}
		oracles := r.Perm(n)[:m]
		if rc.Byz && f >= 1 && !last && r.Chance(60) {
			c03Byzantine(r, em, raws, oracles[0], prev, &byzCond, height, hashAt(height))
		}
		var aos []ocr2plustypes.AttributedObservation
		var selRaws [][]byte
		var validate []string
		var obsLens []int
		for _, o := range oracles {
			aos = append(aos, ocr2plustypes.AttributedObservation{Observation: raws[o], Observer: commontypes.OracleID(o)})
			selRaws = append(selRaws, raws[o])
			obsLens = append(obsLens, len(raws[o]))
			peer := nodes[(o+1)%n]
			verr := ""
			if err := peer.Plugin.ValidateObservation(ctx, outctx, nil, aos[len(aos)-1]); err != nil {
				verr = err.Error()
			}
			validate = append(validate, verr)
		}
		// ---- Outcome on node 0, the others must agree byte for byte
		out0, err0 := nodes[0].Plugin.Outcome(ctx, outctx, nil, aos)
		if err0 != nil && nextErr == "" {
			nextErr = "Outcome: " + err0.Error()
		}
		hadPend := pend != nil
		if pend != nil {
			pend.impl.NextDecodes = nextErr == ""
			pend.impl.NextErr = nextErr
			emit(pend.round, pend.x, pend.impl)
			pend = nil
		}
		if last {
			break
		}
		impl := c03RoundImpl{Len: len(out0), Identical: true, Validate: validate, ObsLens: obsLens, Limits: toC03Limits(nodes[0].Info.Limits), RL: []int{}, PL: [][]int{},
			Again: []c03Again{}, Committed: true}
		evaluated := []int{0}
		for _, i := range r.Perm(n - 1)[:2] { // two other nodes, chosen at random (decoding a full outcome 10 times per round is what costs)
			i++
			oi, erri := nodes[i].Plugin.Outcome(ctx, outctx, nil, aos)
			if string(oi) != string(out0) || (erri == nil) != (err0 == nil) {
				impl.Identical = false
			}
			evaluated = append(evaluated, i)
		}
		// libocr may evaluate Outcome on a node any number of times (the function is specified as pure): node 0 (and every
		// third round the last of the others) once more, after everything above
		againOn := []int{0}
		if k%3 == 0 {
			againOn = append(againOn, evaluated[len(evaluated)-1])
		}
		for _, i := range againOn {
			oi, erri := nodes[i].Plugin.Outcome(ctx, outctx, nil, aos)
			ag := c03Again{Node: i, Call: "Outcome", Same: string(oi) == string(out0) && (erri == nil) == (err0 == nil)}
			if erri != nil {
				ag.Err = erri.Error()
			} else if !ag.Same {
				if _, derr := ocr2keepersv3.DecodeAutomationOutcome(oi, utg, wg); derr != nil {
					ag.Err = "the bytes of this evaluation do not decode: " + derr.Error()
				}
			}
			impl.Again = append(impl.Again, ag)
		}
		if nextErr != "" && !hadPend && err0 == nil && k > 0 {
			// Observation failed on a previous outcome that earlier rounds had accepted (a round run again)
			err0 = errors.New(nextErr)
		}
		for kq := 0; kq <= n; kq++ {
			var sub []ocr2plustypes.AttributedObservation
			for j := 0; j < kq; j++ {
				sub = append(sub, ocr2plustypes.AttributedObservation{Observer: commontypes.OracleID(j)})
			}
			q, _ := nodes[r.Intn(n)].Plugin.ObservationQuorum(ctx, outctx, nil, sub)
			impl.Quorum = append(impl.Quorum, q)
		}
		x := buildRound(n, f, digest, seq, prev, selRaws, oracles)
		for i := range x.Obs {
			x.Obs[i].Raw = "" // keep the lines small; the decoded form is what the model reads
		}
		if err0 != nil {
			impl.Err = err0.Error()
			emit(k, x, impl) // a chain that cannot continue: reported, then stop
			return
		}
		var o ocr2keepersv3.AutomationOutcome
		if err := gojson.Unmarshal(out0, &o); err != nil {
			impl.Err = "outcome bytes do not decode: " + err.Error()
			emit(k, x, impl)
			return
		}
		jo := toJOutcome(o)
		impl.Outcome = &jo
		// the external functions on what the new outcome contains (stamped triggers of the surfaced proposals)
		a2 := newAux(digest, seq)
		a2.outcome(o)
		for k2, v := range a2.aux.Key {
			x.Aux.Key[k2] = v
		}
		for k2, v := range a2.aux.Utg {
			x.Aux.Utg[k2] = v
		}
		x.Aux.Wg = append(x.Aux.Wg, a2.aux.Wg...)
		for _, res := range o.AgreedPerformables {
			impl.RL = append(impl.RL, len(must(gojson.Marshal(res))))
		}
		for _, round := range o.SurfacedProposals {
			ls := []int{}
			for _, p := range round {
				ls = append(ls, len(must(gojson.Marshal(p))))
			}
			impl.PL = append(impl.PL, ls)
		}
		// ---- a lost round: nothing is reported or accepted, the next round runs on the same previous outcome
		if rc.Rerun > 0 && r2.Chance(rc.Rerun) {
			impl.Committed = false
			last := nodes[n-1] // did not necessarily evaluate this round's Outcome
			reps, rerr := last.Plugin.Reports(ctx, seq, out0)
			last.Enc.Take()
			impl.Reports = len(reps)
			if rerr != nil {
				impl.ReportsErr = rerr.Error()
			}
			_, derr := ocr2keepersv3.DecodeAutomationOutcome(out0, utg, wg)
			switch {
			case derr != nil:
				impl.NextErr = "DecodeAutomationOutcome: " + derr.Error()
			case rerr != nil:
				impl.NextErr = "Reports on another node: " + rerr.Error()
			}
			impl.NextDecodes = impl.NextErr == ""
			em.Hit("round-not-committed")
			emit(k, x, impl)
			seq += uint64(r2.Range(1, 3))
			continue
		}
		// ---- Reports, and every node accepts them (the work is in flight from now on)
		reps, rerr := nodes[0].Plugin.Reports(ctx, seq, out0)
		nodes[0].Enc.Take()
		impl.Reports = len(reps)
		if rerr != nil {
			impl.ReportsErr = rerr.Error()
		}
		if k%2 == 0 { // Reports once more on the same instance
			reps2, rerr2 := nodes[0].Plugin.Reports(ctx, seq, out0)
			nodes[0].Enc.Take()
			ag := c03Again{Node: 0, Call: "Reports", Same: len(reps2) == len(reps) && (rerr2 == nil) == (rerr == nil)}
			for j := 0; ag.Same && j < len(reps); j++ {
				ag.Same = string(reps2[j].ReportWithInfo.Report) == string(reps[j].ReportWithInfo.Report)
			}
			if rerr2 != nil {
				ag.Err = rerr2.Error()
			}
			impl.Again = append(impl.Again, ag)
		}
		for _, res := range o.AgreedPerformables {
			agreedW[res.WorkID] = true
		}
		for _, rp := range reps {
			for _, nd := range nodes {
				if r.Chance(90) {
					nd.Plugin.ShouldAcceptAttestedReport(ctx, seq, rp.ReportWithInfo)
				}
			}
		}
		em.Hit(fmt.Sprintf("agreed=%d", bucket(len(o.AgreedPerformables))))
		pend = &pending{round: k, x: x, impl: impl}
		prev, prevBytes = &o, out0
		seq += uint64(r.Range(1, 4))
	}
}

// compactPDs rewrites long hex perform data into the compact form of compactPD (length + FNV-1a), consistently in
// everything a round line contains.
func compactPDhex(h string) string {
	if len(h) <= 96 {
		return h
	}
	return compactPD(unhx(h))
}
func compactJCRs(rs []JCR) {
	for i := range rs {
		rs[i].PD = compactPDhex(rs[i].PD)
	}
}
func compactRound(x *JRound, impl *c03RoundImpl) {
	for i := range x.Obs {
		if x.Obs[i].O != nil {
			compactJCRs(x.Obs[i].O.Perf)
		}
		// UniqueID() is the hex of all fields, perform data included.  Keep the first 512 bytes (every field before the
		// perform data and its beginning) and a hash of the whole: equality is preserved, and so is the lexicographic order
		// the tally is traversed in unless two different results agree on those 512 bytes (the honest pipeline of this
		// harness answers a unit of work with one perform data, so they never do).
		for k, u := range x.Obs[i].UIDs {
			if len(u) > 1100 {
				h := fnv.New64a()
				h.Write([]byte(u))
				x.Obs[i].UIDs[k] = fmt.Sprintf("%s~%016x", u[:1024], h.Sum64())
			}
		}
	}
	if x.Prev != nil {
		cp := *x.Prev
		cp.Agreed = append([]JCR(nil), cp.Agreed...)
		compactJCRs(cp.Agreed)
		x.Prev = &cp
	}
	if impl.Outcome != nil {
		compactJCRs(impl.Outcome.Agreed)
	}
}

// c03Byzantine alters the observation of one oracle (it stays valid): conditional proposals for work that is still in the
// history of surfaced proposals, made again on the current block, and now and then fresh conditional work.
func c03Byzantine(r *Rng, em *Emitter, raws [][]byte, o int, prev *ocr2keepersv3.AutomationOutcome,
	byzCond *[]ocr2keepers.CoordinatedBlockProposal, height uint64, hash [32]byte) {
	var obs ocr2keepersv3.AutomationObservation
	if raws[o] == nil || gojson.Unmarshal(raws[o], &obs) != nil {
		return
	}
	have := map[string]bool{}
	nCond := 0
	for _, p := range obs.UpkeepProposals {
		have[p.WorkID] = true
		if utg(p.UpkeepID) != 1 {
			nCond++
		}
	}
	var cand []ocr2keepers.CoordinatedBlockProposal
	if prev != nil { // conditional work in the history of the previous outcome
		for _, round := range prev.SurfacedProposals {
			for _, p := range round {
				if p.Trigger.LogTriggerExtension == nil && utg(p.UpkeepID) != 1 {
					cand = append(cand, p)
				}
			}
		}
	}
	if len(cand) == 0 || r.Chance(30) {
		uid := genUpkeepID(r, false)
		p := ocr2keepers.CoordinatedBlockProposal{UpkeepID: uid}
		p.WorkID = wg(uid, p.Trigger)
		*byzCond = append(*byzCond, p)
		cand = append(cand, p)
		em.Hit("byz-fresh-conditional")
	}
	added := 0
	for _, k := range r.Perm(len(cand)) {
		p := cand[k]
		if have[p.WorkID] || nCond >= ocr2keepersv3.ObservationConditionalsProposalsLimit || added >= 2 {
			continue
		}
		p.Trigger = ocr2keepers.Trigger{BlockNumber: ocr2keepers.BlockNumber(height), BlockHash: hash}
		obs.UpkeepProposals = append(obs.UpkeepProposals, p)
		have[p.WorkID] = true
		nCond++
		added++
	}
	if added > 0 {
		raws[o] = must(obs.Encode())
		em.Hit("byz-altered-observations")
	}
}

func c03ChainGen(r *Rng, i int) c03ChainRecipe {
	rc := c03ChainRecipe{Seed: r.U64(), N: []int{4, 4, 5, 7, 10}[r.Intn(5)], Rounds: 30, PerRound: r.Range(1, 12), Props: r.Range(0, 4), PauseAt: -1, Round: -1}
	switch i % 5 {
	case 0:
		rc.Burst = r.Range(101, 180) // beyond both 100 caps
	case 1:
		rc.Burst = r.Range(90, 130)
		rc.Heavy = true // the byte limit cuts observations; the outcome grows towards its limit
		rc.N = 4
	case 2:
		rc.Props = r.Range(10, 14) // proposal pressure: 10 nodes x 10 proposals against 50 per round, 20 rounds of history
		rc.N = 10
	}
	if rc.N == 4 && r.Chance(20) { // 6 minutes of virtual time cost ~0.5 s of real time per node
		rc.PauseAt = r.Range(3, 20)
	}
	// report configuration: batch sizes 1…20 (0 = default 1), gas limits that split reports of cheap and of expensive upkeeps
	rc.Batch = []int{0, 1, 2, 3, 5, 10, 20}[r.Intn(7)]
	if i%2 == 1 {
		rc.Batch = r.Range(2, 20)
	}
	rc.GasLimit = []uint32{0, 0, 3_000_000, 8_000_000, 20_000_000}[r.Intn(5)]
	rc.Split = i%5 != 2 && r.Chance(70)
	if i%5 == 3 {
		rc.SameUpkeep = r.Range(20, 110)
	}
	rc.Reorgs = i%2 == 0
	rc.Byz = i%5 != 1
	rc.OtherTypes = i%3 != 0
	rc.Rerun = []int{0, 0, 35}[i%3] // lost rounds: the next one runs on the same previous outcome
	if i%5 == 1 {                     // the byte limit cuts, rounds are lost, staged work is checked again in between
		rc.Recheck, rc.Rerun = true, 45
	} else if i%5 == 4 {
		rc.Recheck = true
	}
	return rc
}

func c03RunAndEmitChain(t *testing.T, em *Emitter, src string, rc c03ChainRecipe) {
	upto := rc.Round
	if upto >= 0 && upto+1 < rc.Rounds {
		rc.Rounds = upto + 1
	}
	type line struct {
		round int
		x     JRound
		impl  c03RoundImpl
	}
	var lines []line
	synctest.Test(t, func(t *testing.T) {
		c03RunChain(t, rc, em, func(round int, x JRound, impl c03RoundImpl) { lines = append(lines, line{round, x, impl}) })
	})
	for _, l := range lines {
		if upto >= 0 && l.round != upto {
			continue
		}
		one := rc
		one.Round = l.round
		x := l.x
		compactRound(&x, &l.impl)
		cfg := c03Cfg{Batch: rc.Batch, GasLimit: rc.GasLimit, Overhead: 300_000} // config.ensureMinimumDefaults
		if cfg.Batch <= 0 {
			cfg.Batch = 1
		}
		if cfg.GasLimit == 0 {
			cfg.GasLimit = 5_300_000
		}
		em.Emit(src, c03RoundInput{Kind: "round", Cfg: cfg, c03ChainRecipe: one, X: &x}, l.impl)
		em.Hit("kind=round")
	}
}

func TestC03(t *testing.T) {
	em := NewEmitter(t, "C03")
	defer em.Close()
	names, raws, replayOnly := corpusInputs(t, "C03")
	for i, raw := range raws {
		var kind struct {
			Kind string `json:"kind"`
		}
		if err := json.Unmarshal(raw, &kind); err != nil {
			t.Fatalf("%s: %v", names[i], err)
		}
		switch kind.Kind {
		case "obs":
			var in c03ObsInput
			if err := json.Unmarshal(raw, &in); err != nil {
				t.Fatalf("%s: %v", names[i], err)
			}
			c03EmitWorld(t, em, names[i], in.c08Recipe, in.Node)
		case "quorum":
			var in c03QuorumInput
			if err := json.Unmarshal(raw, &in); err != nil {
				t.Fatalf("%s: %v", names[i], err)
			}
			c03RunQuorum(t, em, names[i], in.N, in.F)
		case "obs-script":
			var in c03ObsScriptInput
			if err := json.Unmarshal(raw, &in); err != nil {
				t.Fatalf("%s: %v", names[i], err)
			}
			c03EmitScript(t, em, names[i], in.c08ScriptRecipe, in.Node)
		case "round":
			var in c03RoundInput
			if err := json.Unmarshal(raw, &in); err != nil {
				t.Fatalf("%s: %v", names[i], err)
			}
			c03RunAndEmitChain(t, em, names[i], in.c03ChainRecipe)
		default:
			t.Fatalf("%s: unknown kind %q", names[i], kind.Kind)
		}
	}
	if replayOnly {
		return
	}
	t0 := time.Now()
	lap := func(what string) {
		if os.Getenv("VERIF_TIMING") != "" {
			fmt.Fprintf(os.Stderr, "C03 %-28s %6.1fs\n", what, time.Since(t0).Seconds())
		}
		t0 = time.Now()
	}
	// (a) observations of the C08 worlds
	for _, rc := range c08Edge() {
		if rc.NAgedProps > 0 && !thorough() && rc.AgedDeltaMs < 0 {
			continue // 24 h of virtual time cost ~6 s each; the quick tier keeps the expired-proposals world only
		}
		c03EmitWorld(t, em, "edge", rc, -1)
	}
	for _, rc := range c08SweepEdge() { // maximal-size results, every count from 60 to 80: around the byte-limit threshold
		c03EmitWorld(t, em, "edge", rc, -1)
	}
	c03QuorumSweep(t, em)
	lap("edge worlds")
	r := NewRng(seed() + 3000)
	nw := tierN(34, 600)
	for i := 0; i < nw; i++ {
		c03EmitWorld(t, em, "gen", c08Gen(r, i), -1)
	}
	lap("generated worlds")
	// (a') observations of the same two instances over several rounds (C08 scripts): staged results replaced by re-checks
	// between the observations of one window with the byte limit active; instances that also evaluate Outcome / Reports
	for _, rc := range c08ScriptEdge() {
		if rc.Variant == "recheck" || (rc.Evals && !rc.LongIDs) {
			c03EmitScript(t, em, "edge", rc, -1)
		}
	}
	rr := NewRng(seed() + 3500)
	for i, nr := 0, tierN(5, 100); i < nr; i++ {
		c03EmitScript(t, em, "gen", c08RecheckScript(rr, rr.U64(), i), -1)
	}
	lap("scripts")
	// (b) chains
	for _, rc := range c03ChainEdge() {
		c03RunAndEmitChain(t, em, "edge", rc)
	}
	lap("edge chains")
	nc := tierN(15, 300)
	for i := 0; i < nc; i++ {
		c03RunAndEmitChain(t, em, "gen", c03ChainGen(r, i))
		lap(fmt.Sprintf("gen chain %d", i))
	}
}

func c03ChainEdge() []c03ChainRecipe {
	return []c03ChainRecipe{
		{Seed: 1, N: 4, Rounds: 6, Burst: 0, PerRound: 0, Props: 0, PauseAt: -1, Round: -1},    // empty network
		{Seed: 2, N: 4, Rounds: 8, Burst: 100, PerRound: 2, Props: 1, PauseAt: -1, Round: -1},  // exactly the caps
		{Seed: 3, N: 4, Rounds: 8, Burst: 140, Heavy: true, PerRound: 3, Props: 2, PauseAt: 4, Round: -1},
		{Seed: 4, N: 7, Rounds: 25, Burst: 10, PerRound: 4, Props: 14, PauseAt: -1, Round: -1}, // history fills: 20 rounds
		// split votes on several logs of one upkeep, batches of 10
		{Seed: 5, N: 4, Rounds: 8, Burst: 5, PerRound: 3, Props: 1, PauseAt: -1, Round: -1, Batch: 10, Split: true},
		{Seed: 6, N: 7, Rounds: 8, Burst: 5, PerRound: 3, Props: 1, PauseAt: -1, Round: -1, Batch: 4, GasLimit: 3_000_000, Split: true},
		// 100 logs of ONE upkeep with batch size 20: one report each
		{Seed: 7, N: 4, Rounds: 5, SameUpkeep: 100, PerRound: 1, PauseAt: -1, Round: -1, Batch: 20},
		{Seed: 8, N: 4, Rounds: 5, Burst: 120, PerRound: 1, PauseAt: -1, Round: -1, Batch: 10, GasLimit: 6_000_000},
		// short block windows with reorgs; an altered observation proposes surfaced conditional work again; n = 5, f = 1
		{Seed: 9, N: 5, Rounds: 12, Burst: 3, PerRound: 2, Props: 3, PauseAt: -1, Round: -1, Reorgs: true, Byz: true},
		{Seed: 10, N: 4, Rounds: 12, Burst: 3, PerRound: 2, Props: 2, PauseAt: -1, Round: -1, Batch: 3, Reorgs: true, Byz: true},
		{Seed: 11, N: 4, Rounds: 8, Burst: 40, PerRound: 5, Props: 1, PauseAt: -1, Round: -1, Batch: 5, OtherTypes: true},
		// lost rounds: the next round runs on the same previous outcome (all instances have decoded and worked on it before);
		// surfaced proposals leave the history as their results get agreed
		{Seed: 12, N: 4, Rounds: 14, Burst: 6, PerRound: 3, Props: 4, PauseAt: -1, Round: -1, Rerun: 40},
		{Seed: 13, N: 7, Rounds: 12, Burst: 10, PerRound: 4, Props: 8, PauseAt: -1, Round: -1, Batch: 4, Rerun: 35, Byz: true},
		// … with observations at the byte limit and staged work checked again between the rounds of one window
		{Seed: 14, N: 4, Rounds: 8, Burst: 112, Heavy: true, PerRound: 2, Props: 1, PauseAt: -1, Round: -1, Rerun: 55, Recheck: true},
	}
}
