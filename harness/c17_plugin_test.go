package harness

import (
	"bytes"
	"context"
	"encoding/json"
	"errors"
	"fmt"
	"io"
	"log"
	"sync"
	"testing/synctest"
	"time"

	ocr2types "github.com/smartcontractkit/libocr/offchainreporting2plus/types"

	ocr2keepersv2 "github.com/smartcontractkit/chainlink-automation/pkg/v2"
	"github.com/smartcontractkit/chainlink-automation/pkg/v2/config"
	"github.com/smartcontractkit/chainlink-automation/pkg/v2/coordinator"
	"github.com/smartcontractkit/chainlink-automation/pkg/v2/encoding"
	"github.com/smartcontractkit/chainlink-automation/pkg/v2/observer/polling"
)

// C17, plugin mode: the v2 plugin from its public factory, wired to the repository's CoordinatorFactory (real
// reportCoordinator, BasicEncoder) and PollingObserverFactory (real PollingObserver).  Registry, head ticker, runner,
// log provider and the report encoding are fakes.  Accepts go through ShouldAcceptFinalizedReport; Observe() /
// Observation() / Report() / ShouldTransmitAcceptedReport are called between the other operations of a history.

// c17Coord is what the harness probes: the coordinator the plugin uses.
type c17Coord interface {
	IsPending(ocr2keepersv2.UpkeepKey) (bool, error)
	Accept(ocr2keepersv2.UpkeepKey) error
	IsTransmissionConfirmed(ocr2keepersv2.UpkeepKey) bool
}

type c17Result struct {
	Key      string
	Eligible bool
}

// c17Enc: BasicEncoder plus a trivial result / report encoding (a report is the JSON list of its keys).
type c17Enc struct{ encoding.BasicEncoder }

func (c17Enc) EncodeReport(rs []ocr2keepersv2.UpkeepResult) ([]byte, error) {
	keys := make([]string, 0, len(rs))
	for _, r := range rs {
		keys = append(keys, r.(c17Result).Key)
	}
	return json.Marshal(keys)
}
func (c17Enc) KeysFromReport(b []byte) ([]ocr2keepersv2.UpkeepKey, error) {
	var keys []string
	if err := json.Unmarshal(b, &keys); err != nil {
		return nil, err
	}
	out := make([]ocr2keepersv2.UpkeepKey, len(keys))
	for i, k := range keys {
		out[i] = ocr2keepersv2.UpkeepKey(k)
	}
	return out, nil
}
func (c17Enc) Eligible(r ocr2keepersv2.UpkeepResult) (bool, error) {
	return r.(c17Result).Eligible, nil
}
func (c17Enc) Detail(r ocr2keepersv2.UpkeepResult) (ocr2keepersv2.UpkeepKey, uint32, error) {
	return ocr2keepersv2.UpkeepKey(r.(c17Result).Key), 1, nil
}

func c17Report(keys []string) []byte {
	if keys == nil {
		keys = []string{}
	}
	b, _ := json.Marshal(keys)
	return b
}

// c17Runner answers every key it is asked; a key is eligible iff its id is in elig (all = every key).
type c17Runner struct {
	mu    sync.Mutex
	elig  map[string]bool
	all   bool
	calls [][]string
}

func (r *c17Runner) CheckUpkeep(_ context.Context, _ bool, keys ...ocr2keepersv2.UpkeepKey) ([]ocr2keepersv2.UpkeepResult, error) {
	r.mu.Lock()
	defer r.mu.Unlock()
	ks := make([]string, len(keys))
	out := make([]ocr2keepersv2.UpkeepResult, len(keys))
	for i, k := range keys {
		ks[i] = string(k)
		_, id, ok := c17SplitKey(string(k))
		out[i] = c17Result{Key: string(k), Eligible: r.all || (ok && r.elig[id])}
	}
	r.calls = append(r.calls, ks)
	return out, nil
}
func (r *c17Runner) set(all bool, elig []string) {
	r.mu.Lock()
	r.all, r.elig, r.calls = all, map[string]bool{}, nil
	for _, id := range elig {
		r.elig[id] = true
	}
	r.mu.Unlock()
}
func (r *c17Runner) take() [][]string {
	r.mu.Lock()
	defer r.mu.Unlock()
	c := r.calls
	r.calls = nil
	return c
}

type c17Source struct {
	mu  sync.Mutex
	ids []string
}

func (s *c17Source) GetActiveUpkeepIDs(context.Context) ([]ocr2keepersv2.UpkeepIdentifier, error) {
	s.mu.Lock()
	defer s.mu.Unlock()
	out := make([]ocr2keepersv2.UpkeepIdentifier, len(s.ids))
	for i, id := range s.ids {
		out[i] = ocr2keepersv2.UpkeepIdentifier(id)
	}
	return out, nil
}

// c17Heads hands every head loop that asks its own channel (in the order they ask): two observers on one factory must
// not steal each other's heads, and the harness feeds a head to every loop that is listening.
type c17Heads struct {
	mu    sync.Mutex
	chans []chan ocr2keepersv2.BlockKey
}

func (h *c17Heads) HeadTicker() chan ocr2keepersv2.BlockKey {
	h.mu.Lock()
	defer h.mu.Unlock()
	ch := make(chan ocr2keepersv2.BlockKey)
	h.chans = append(h.chans, ch)
	return ch
}
func (h *c17Heads) all() []chan ocr2keepersv2.BlockKey {
	h.mu.Lock()
	defer h.mu.Unlock()
	return append([]chan ocr2keepersv2.BlockKey(nil), h.chans...)
}

// the two factories hand the plugin the repository's own objects and keep a reference for the harness
type c17CoordFactory struct {
	inner *coordinator.CoordinatorFactory
	got   ocr2keepersv2.Coordinator
	// logs for the next coordinator (each instance polls a provider of its own: two pollers on one provider would
	// take each other's logs)
	next coordinator.LogProvider
}

func (f *c17CoordFactory) NewCoordinator(c config.OffchainConfig) (ocr2keepersv2.Coordinator, error) {
	inner := *f.inner
	if f.next != nil {
		inner.Logs = f.next
	}
	co, err := inner.NewCoordinator(c)
	f.got = co
	return co, err
}

type c17ObsFactory struct {
	inner *polling.PollingObserverFactory
	got   ocr2keepersv2.ConditionalObserver
}

func (f *c17ObsFactory) NewConditionalObserver(oc config.OffchainConfig, c ocr2types.ReportingPluginConfig, co ocr2keepersv2.Coordinator) (ocr2keepersv2.ConditionalObserver, error) {
	ob, err := f.inner.NewConditionalObserver(oc, c, co)
	f.got = ob
	return ob, err
}

type c17Node struct {
	coord  c17Coord
	plugin ocr2types.ReportingPlugin // nil in coordinator mode
	obs    ocr2keepersv2.ConditionalObserver
	run    *c17Runner
	src    *c17Source
	heads  *c17Heads
	staged []string // ids of the last head that was staged, in the order of the operation
	close  func()
}

var c17Quiet = log.New(io.Discard, "", 0)

// c17NewNode builds the system under test for one execution (inside the caller's bubble).
func c17NewNode(in c17Input, logs *c17Logs) (*c17Node, error) {
	if in.Via != "plugin" {
		rc := coordinator.NewReportCoordinator(time.Duration(in.Cfg.Lockout), time.Duration(in.Cfg.Clean), logs,
			in.Cfg.MinConfs, c17Quiet, encoding.BasicEncoder{})
		rc.Start()
		return &c17Node{coord: rc, close: func() { rc.Close() }}, nil
	}
	n := &c17Node{run: &c17Runner{elig: map[string]bool{}}, src: &c17Source{}, heads: &c17Heads{}}
	enc := c17Enc{}
	cf := &c17CoordFactory{inner: &coordinator.CoordinatorFactory{Logger: c17Quiet, Encoder: encoding.BasicEncoder{}, Logs: logs, CacheClean: time.Duration(in.Cfg.Clean)}}
	of := &c17ObsFactory{inner: &polling.PollingObserverFactory{Logger: c17Quiet, Source: n.src, Heads: n.heads, Runner: n.run, Encoder: enc}}
	fac := ocr2keepersv2.NewReportingPluginFactory(enc, n.run, cf, of, c17Quiet)
	if in.Cfg.Lockout%int64(time.Millisecond) != 0 {
		return nil, fmt.Errorf("plugin mode needs a lockout in whole milliseconds")
	}
	conf := fmt.Sprintf(`{"performLockoutWindow":%d,"minConfirmations":%d,"maxUpkeepBatchSize":10,"gasLimitPerReport":5000000,"gasOverheadPerUpkeep":1}`,
		in.Cfg.Lockout/int64(time.Millisecond), in.Cfg.MinConfs)
	// the context of NewReportingPlugin is libocr's INITIALISATION context: it ends as soon as the instance exists
	create := func(lp coordinator.LogProvider) (ocr2types.ReportingPlugin, error) {
		cf.next = lp
		ctx, cancel := context.WithCancel(context.Background())
		p, _, err := fac.NewReportingPlugin(ctx, ocr2types.ReportingPluginConfig{OracleID: 0, N: 4, F: 1, OffchainConfig: []byte(conf)})
		cancel()
		synctest.Wait()
		return p, err
	}
	// libocr uses ONE factory for every instance: another instance of the same factory is created first and is still
	// open when (Decoy "open": and while) the instance under test works, or is closed right after it exists ("closeEarly")
	var decoy ocr2types.ReportingPlugin
	if in.Decoy != "" {
		d, err := create(&c17Logs{start: logs.start})
		if err != nil {
			return nil, err
		}
		decoy = d
	}
	p, err := create(logs)
	if err != nil {
		return nil, err
	}
	co, ok := cf.got.(c17Coord)
	if !ok || of.got == nil {
		return nil, errors.New("factories did not produce a coordinator / observer")
	}
	n.plugin, n.coord, n.obs = p, co, of.got
	if decoy != nil && in.Decoy == "closeEarly" {
		decoy.Close()
		synctest.Wait()
		decoy = nil
	}
	n.close = func() {
		p.Close()
		if decoy != nil {
			decoy.Close()
		}
	}
	return n, nil
}

func c17TS(i int) ocr2types.ReportTimestamp {
	return ocr2types.ReportTimestamp{Epoch: 1 + uint32(i/200), Round: uint8(i % 200)}
}

// c17Order returns the distinct elements of got ordered by first position in ref (unknown ones last, as they came).
func c17Order(ref, got []string) []string {
	out := []string{}
	seen := map[string]bool{}
	for _, x := range ref {
		if seen[x] {
			continue
		}
		for _, y := range got {
			if y == x {
				out = append(out, x)
				seen[x] = true
				break
			}
		}
	}
	for _, y := range got {
		if !seen[y] {
			out = append(out, y)
			seen[y] = true
		}
	}
	return out
}

// c17DoPlugin executes one plugin-level operation (index i) and returns its answer.
func (n *c17Node) do(i int, op c17Op, wait func()) (out c17Out, note string) {
	ctx := context.Background()
	out = c17Out{Ids: []string{}, Pick: []string{}}
	switch op.T {
	case "a", "A":
		keys := op.Keys
		if op.T == "a" {
			keys = []string{op.Key}
		}
		if n.plugin == nil {
			// coordinator mode: the accept loop by hand, no answer recorded
			for _, k := range keys {
				if err := n.coord.Accept(ocr2keepersv2.UpkeepKey(k)); err != nil {
					break
				}
			}
			return out, ""
		}
		ok, err := n.plugin.ShouldAcceptFinalizedReport(ctx, c17TS(i), c17Report(keys))
		out.Flag, out.Err = ok, err != nil
	case "h":
		if n.plugin == nil {
			return out, "head operation in coordinator mode"
		}
		n.src.mu.Lock()
		n.src.ids = op.Active
		n.src.mu.Unlock()
		// every head loop that is listening gets the head (the instance under test last); a loop that does not take it
		// within a nanosecond of virtual time is not listening any more
		var calls [][]string
		for _, ch := range n.heads.all() {
			n.run.set(false, op.Ids)
			select {
			case ch <- ocr2keepersv2.BlockKey(op.Block):
			case <-time.After(time.Nanosecond):
			}
			wait()
			calls = n.run.take()
		}
		if len(op.Active) > 0 {
			if len(calls) != 1 || len(calls[0]) != len(op.Active) {
				note = fmt.Sprintf("head %s: runner calls %v for %d active ids", op.Block, calls, len(op.Active))
			}
			n.staged = op.Ids
		} else if len(calls) != 0 {
			note = fmt.Sprintf("head %s without active ids: runner called", op.Block)
		}
	case "o":
		if n.plugin == nil {
			return out, "observe operation in coordinator mode"
		}
		bl, ids, err := n.obs.Observe()
		got := make([]string, len(ids))
		for k, id := range ids {
			got[k] = string(id)
		}
		out.Block, out.Ids, out.Err = string(bl), c17Order(n.staged, got), err != nil
		if len(out.Ids) != len(got) {
			note = fmt.Sprintf("Observe returned duplicate ids %v", got)
		}
		raw, err := n.plugin.Observation(ctx, c17TS(i), nil)
		if err != nil {
			out.Err = true
		}
		var o ocr2keepersv2.Observation
		if derr := json.NewDecoder(bytes.NewReader(raw)).Decode(&o); derr != nil {
			note = "Observation does not decode: " + derr.Error()
		}
		out.PBlock = string(o.BlockKey)
		for _, id := range o.UpkeepIdentifiers {
			out.Pick = append(out.Pick, string(id))
		}
		// which of the observer's ids the keyed shuffle picks depends on the stager's (crypto-random) order:
		// a pick that is one of the ids Observe() just returned is recorded as the first of them
		if len(out.Pick) == 1 && len(out.Ids) > 0 {
			for _, id := range out.Ids {
				if id == out.Pick[0] {
					out.Pick[0] = out.Ids[0]
					break
				}
			}
		}
	case "x":
		if n.plugin == nil {
			return out, "transmit operation in coordinator mode"
		}
		ok, err := n.plugin.ShouldTransmitAcceptedReport(ctx, c17TS(i), c17Report(op.Keys))
		out.Flag, out.Err = ok, err != nil
	case "r":
		if n.plugin == nil {
			return out, "report operation in coordinator mode"
		}
		enc := c17Enc{}
		mk := func(ids []string) ocr2types.AttributedObservation {
			o := ocr2keepersv2.Observation{BlockKey: ocr2keepersv2.BlockKey(op.Block), UpkeepIdentifiers: []ocr2keepersv2.UpkeepIdentifier{}}
			for _, id := range ids {
				o.UpkeepIdentifiers = append(o.UpkeepIdentifiers, ocr2keepersv2.UpkeepIdentifier(id))
			}
			if err := o.Validate(enc); err != nil {
				note = "report operation with an invalid observation: " + err.Error()
			}
			var b bytes.Buffer
			json.NewEncoder(&b).Encode(o)
			return ocr2types.AttributedObservation{Observation: b.Bytes()}
		}
		attr := []ocr2types.AttributedObservation{}
		for _, id := range op.Ids {
			attr = append(attr, mk([]string{id}))
		}
		if len(attr) == 0 {
			attr = append(attr, mk(nil))
		}
		n.run.set(true, nil)
		ok, rep, err := n.plugin.Report(ctx, c17TS(i), nil, attr)
		calls := n.run.take()
		out.Block, out.Err = op.Block, err != nil
		var asked []string
		if len(calls) > 1 {
			note = fmt.Sprintf("Report called the runner %d times", len(calls))
		}
		if len(calls) > 0 {
			asked = calls[0]
		}
		ref := make([]string, len(op.Ids))
		for k, id := range op.Ids {
			ref[k] = c17Key(op.Block, id)
		}
		out.Ids = c17Order(ref, asked)
		// every key asked is eligible and fits: the report carries exactly the keys asked
		if ok != (len(asked) > 0) {
			note = fmt.Sprintf("Report produced=%v for %d checked keys", ok, len(asked))
		}
		if ok {
			rk, _ := enc.KeysFromReport(rep)
			if len(rk) != len(asked) {
				note = fmt.Sprintf("Report carries %d keys for %d checked", len(rk), len(asked))
			}
		}
	}
	return out, note
}
