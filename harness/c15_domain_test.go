package harness

import (
	"bytes"
	"encoding/binary"
	"encoding/json"
	"fmt"
	"hash/crc32"
	"hash/fnv"
	"sync"

	ocr2keepersv3 "github.com/smartcontractkit/chainlink-automation/pkg/v3"
	ocr2keepers "github.com/smartcontractkit/chainlink-common/pkg/types/automation"
)

// C15, value domains: the size of a message (chosen by its sender through JSON
// white space) and work ids that coincide under a weaker notion of equality.

// ---------------------------------------------------------------- white space

// c15PadTargets: sizes around the powers of two a size-dependent code path
// would plausibly use, and the advertised limits.
var c15PadTargets = []int{4095, 4096, 65535, 65536, 65537, 131071, 131072, 131073, 262144, 1_000_000, 1 << 20}

// c15MaybePad marks pct percent of the cases for the white-space check.
func c15MaybePad(r *Rng, in *c15Input, pct int) {
	if !r.Chance(pct) {
		return
	}
	k := r.Intn(len(c15PadTargets))
	if k >= 9 && !r.Chance(30) { // the megabyte sizes are the slow ones
		k = 5 + r.Intn(3)
	}
	in.Pad, in.PadAt = c15PadTargets[k], r.Intn(4)
}

// c15Padded adds insignificant white space to data until it is n bytes long.
func c15Padded(data []byte, n, at int) []byte {
	if n <= len(data) {
		return data
	}
	pad := bytes.Repeat([]byte{' '}, n-len(data))
	if at == 3 {
		for i := range pad {
			pad[i] = "\n\t\r "[i%4]
		}
	}
	switch {
	case at == 1:
		return append(pad, data...)
	case at == 2 && len(data) > 1 && (data[0] == '{' || data[0] == '['):
		out := append([]byte{data[0]}, pad...)
		return append(out, data[1:]...)
	}
	return append(append([]byte(nil), data...), pad...)
}

// c15PadCheck: JSON white space around (or just inside) the document is
// insignificant, so the padded bytes must get the answer the bytes got (same
// error class, same value).  impl holds the answer for the bytes themselves.
func c15PadCheck(in c15Input, data []byte, impl *c15Impl) {
	if in.Pad <= len(data) || impl.Panic != "" {
		return
	}
	padded := c15Padded(data, in.Pad, in.PadAt)
	var a c15Answer
	var got, want string
	if in.Kind == "obs" {
		a, _ = c15DecodeObsWith(padded, utg, wg)
		got, want = string(must(json.Marshal(a.Obs))), string(must(json.Marshal(impl.Obs)))
	} else {
		a, _ = c15DecodeOutcomeWith(padded, utg, wg)
		got, want = string(must(json.Marshal(a.Outcome))), string(must(json.Marshal(impl.Outcome)))
	}
	switch {
	case a.Panic != "":
		impl.Ws = fmt.Sprintf("padded to %d bytes (mode %d) the decoder panicked: %s", in.Pad, in.PadAt, a.Panic)
	case a.Err != impl.Err:
		impl.Ws = fmt.Sprintf("padded to %d bytes (mode %d) the answer is %q, for the %d bytes themselves %q", in.Pad, in.PadAt, a.Err, len(data), impl.Err)
	case got != want:
		i := 0
		for i < len(got) && i < len(want) && got[i] == want[i] {
			i++
		}
		lo := max(0, i-50)
		impl.Ws = fmt.Sprintf("padded to %d bytes (mode %d) another value is decoded: …%s  instead of  …%s", in.Pad, in.PadAt,
			c15Short(got[lo:min(len(got), i+40)]), c15Short(want[lo:min(len(want), i+40)]))
	}
}

// ---------------------------------------------------------------- coinciding work ids

// c15Colliding: pairs of DISTINCT, correctly generated work ids of one log
// upkeep (logs that differ in their index only) that coincide under a weaker
// equality: equal CRC-32 (IEEE, Castagnoli), equal FNV-1a 32, equal first eight
// characters.  Found by a deterministic search (birthday bound: some 10^5
// candidates, well under a second), once per process.
type c15Pair struct {
	kind string
	a, b ocr2keepers.CoordinatedBlockProposal
}

var c15CollOnce struct {
	sync.Once
	pairs []c15Pair
}

func c15Colliding() []c15Pair {
	c15CollOnce.Do(func() {
		r := NewRng(515151)
		uid := c15UID(r, 1)
		tx, bh := genHash(r), genHash(r)
		mk := func(i uint64) ocr2keepers.CoordinatedBlockProposal {
			var t [32]byte
			copy(t[:], tx[:])
			binary.BigEndian.PutUint64(t[24:], i) // the counter sits in the transaction hash, the index stays a small number
			trig := ocr2keepers.Trigger{BlockNumber: 1000 + ocr2keepers.BlockNumber(i%7), BlockHash: bh,
				LogTriggerExtension: &ocr2keepers.LogTriggerExtension{TxHash: t, Index: uint32(i % 5), BlockHash: bh, BlockNumber: 990}}
			return ocr2keepers.CoordinatedBlockProposal{UpkeepID: uid, Trigger: trig, WorkID: wg(uid, trig)}
		}
		castagnoli := crc32.MakeTable(crc32.Castagnoli)
		keys := []struct {
			name string
			f    func(string) uint64
		}{
			{"crc32-ieee", func(s string) uint64 { return uint64(crc32.ChecksumIEEE([]byte(s))) }},
			{"crc32-castagnoli", func(s string) uint64 { return uint64(crc32.Checksum([]byte(s), castagnoli)) }},
			{"fnv32a", func(s string) uint64 { h := fnv.New32a(); h.Write([]byte(s)); return uint64(h.Sum32()) }},
			{"prefix8", func(s string) uint64 {
				var v uint64
				for i := 0; i < 8 && i < len(s); i++ {
					v = v<<8 | uint64(s[i])
				}
				return v
			}},
		}
		seen := make([]map[uint64]uint64, len(keys))
		found := make([]bool, len(keys))
		for i := range seen {
			seen[i] = map[uint64]uint64{}
		}
		left := len(keys)
		for i := uint64(0); i < 1_500_000 && left > 0; i++ {
			p := mk(i)
			for k, key := range keys {
				if found[k] {
					continue
				}
				h := key.f(p.WorkID)
				if j, ok := seen[k][h]; ok {
					if q := mk(j); q.WorkID != p.WorkID {
						c15CollOnce.pairs = append(c15CollOnce.pairs, c15Pair{kind: key.name, a: q, b: p})
						found[k] = true
						left--
					}
					continue
				}
				seen[k][h] = i
			}
		}
	})
	return c15CollOnce.pairs
}

// c15DomainEdge: hand-written cases for the two domains above and for value
// coincidences inside one check result.
func c15DomainEdge() []c15Input {
	r := NewRng(252525)
	var out []c15Input
	// valid messages whose work ids coincide under a weaker equality: same round, different rounds, observation
	for _, pr := range c15Colliding() {
		note := "edge:colliding-work-ids:" + pr.kind
		res := func(p ocr2keepers.CoordinatedBlockProposal) ocr2keepers.CheckResult {
			x := c15Result(r, 1)
			x.UpkeepID, x.Trigger, x.WorkID = p.UpkeepID, p.Trigger, p.WorkID
			return x
		}
		out = append(out,
			c15Input{Kind: "outcome", Mode: "valid", Note: note, Outcome: c15OutcomeToJ(ocr2keepersv3.AutomationOutcome{
				SurfacedProposals: [][]ocr2keepers.CoordinatedBlockProposal{{pr.a}, {}, {c15Proposal(r, 0), pr.b}}})},
			c15Input{Kind: "outcome", Mode: "valid", Note: note, Outcome: c15OutcomeToJ(ocr2keepersv3.AutomationOutcome{
				AgreedPerformables: []ocr2keepers.CheckResult{res(pr.a), res(pr.b)}, SurfacedProposals: [][]ocr2keepers.CoordinatedBlockProposal{{pr.b, pr.a}}})},
			c15Input{Kind: "obs", Mode: "valid", Note: note, Obs: c15ObsToJ(ocr2keepersv3.AutomationObservation{
				Performable: []ocr2keepers.CheckResult{res(pr.a), res(pr.b)}, UpkeepProposals: []ocr2keepers.CoordinatedBlockProposal{pr.a, pr.b}})})
	}
	// two broken checks in one result whose codes are complementary / at the type's limits
	for _, sr := range [][2]uint8{{1, 255}, {255, 1}, {128, 128}, {2, 254}, {255, 255}, {1, 1}} {
		x := c15Result(r, c15Class(r))
		x.PipelineExecutionState, x.IneligibilityReason = sr[0], sr[1]
		out = append(out,
			c15Input{Kind: "obs", Mode: "violate", Rule: "failedState", Note: "edge:state+reason", Obs: c15ObsToJ(ocr2keepersv3.AutomationObservation{Performable: []ocr2keepers.CheckResult{x}})},
			c15Input{Kind: "outcome", Mode: "violate", Rule: "failedState", Note: "edge:state+reason", Outcome: c15OutcomeToJ(ocr2keepersv3.AutomationOutcome{AgreedPerformables: []ocr2keepers.CheckResult{x}})})
	}
	// Byzantine constructs in messages of every size class: the same document, padded
	uid0 := hx(make([]byte, 32))
	_ = uid0
	byz := []struct{ kind, text string }{
		// a condition upkeep (all-zero id) that carries log data, the short hash written after the extension
		{"obs", `{"UpkeepProposals":[{"UpkeepID":[],"Trigger":{"LogTriggerExtension":{"Index":7,"BlockNumber":3},"BlockHash":[1]},"WorkID":"` + wg(ocr2keepers.UpkeepIdentifier{}, ocr2keepers.Trigger{BlockHash: [32]byte{1}}) + `"}]}`},
		{"outcome", `{"SurfacedProposals":[[{"Trigger":{"LogTriggerExtension":{"Index":7},"BlockHash":[1]},"WorkID":"` + wg(ocr2keepers.UpkeepIdentifier{}, ocr2keepers.Trigger{BlockHash: [32]byte{1}}) + `"}]]}`},
		// numbers of 2^64 and more
		{"obs", `{"BlockHistory":[{"Number":18446744073709551621},{"Number":18446744073709551616}]}`},
		{"obs", `{"UpkeepProposals":[{"Trigger":{"BlockNumber":18446744073709551621},"WorkID":"` + wg(ocr2keepers.UpkeepIdentifier{}, ocr2keepers.Trigger{BlockNumber: 5}) + `"}]}`},
		{"outcome", `{"SurfacedProposals":[[{"Trigger":{"BlockNumber":99999999999999999999},"WorkID":"` + wg(ocr2keepers.UpkeepIdentifier{}, ocr2keepers.Trigger{}) + `"}]]}`},
		{"obs", `{"BlockHistory":[{"Number":1,"Hash":[]},{"Number":2,"Hash":[1,2,3]}]}`},
	}
	for _, b := range byz {
		for _, n := range []int{0, 4096, 65536, 131071, 131072, 262144, 1 << 20} {
			for _, at := range []int{0, 2} {
				if n == 0 && at != 0 {
					continue
				}
				out = append(out, c15Input{Kind: b.kind, Mode: "lenient", Raw: []byte(b.text), Note: "edge:size-class", Pad: n, PadAt: at})
			}
		}
	}
	return out
}
