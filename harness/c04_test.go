package harness

import (
	"context"
	"encoding/json"
	"fmt"
	"strings"
	"testing"
	"testing/synctest"
	"time"

	ocr2keepersv3 "github.com/smartcontractkit/chainlink-automation/pkg/v3"
	ocr2keepers "github.com/smartcontractkit/chainlink-common/pkg/types/automation"
	"github.com/smartcontractkit/libocr/offchainreporting2plus/ocr3types"
)

// C04 — Reports partition agreed performables within batch, gas and upkeep limits.

type c04Cfg struct {
	Batch    int    `json:"batch"`
	GasLimit uint32 `json:"gasLimit"`
	Overhead uint32 `json:"overhead"`
	// members of the off-chain configuration document that are ABSENT ("batch", "gasLimit", "overhead") or written as
	// null: the document is partial and the documented defaults apply (the values above are then not on the wire)
	Absent []string `json:"absent,omitempty"`
	Null   []string `json:"null,omitempty"`
	// other members of the document (lockout window, confirmations, sampling, log provider), verbatim
	Extra string `json:"extra,omitempty"`
}

// doc renders the off-chain configuration document of a case.
func (c c04Cfg) doc() []byte {
	has := func(l []string, k string) bool {
		for _, x := range l {
			if x == k {
				return true
			}
		}
		return false
	}
	var parts []string
	for _, m := range []struct{ key, name, val string }{
		{"batch", "maxUpkeepBatchSize", fmt.Sprint(c.Batch)},
		{"gasLimit", "gasLimitPerReport", fmt.Sprint(c.GasLimit)},
		{"overhead", "gasOverheadPerUpkeep", fmt.Sprint(c.Overhead)},
	} {
		switch {
		case has(c.Absent, m.key):
		case has(c.Null, m.key):
			parts = append(parts, fmt.Sprintf("%q:null", m.name))
		default:
			parts = append(parts, fmt.Sprintf("%q:%s", m.name, m.val))
		}
	}
	if c.Extra != "" {
		// the other members come first in every second document (member order must not matter)
		if len(c.Extra)%2 == 0 {
			parts = append([]string{c.Extra}, parts...)
		} else {
			parts = append(parts, c.Extra)
		}
	}
	return []byte("{" + strings.Join(parts, ",") + "}")
}
type c04Input struct {
	Cfg    c04Cfg `json:"cfg"`
	Agreed []JCR  `json:"agreed"`
	// the report encoder fails on its EncFailAt-th call inside Reports (0 = never)
	EncFailAt int `json:"encFailAt,omitempty"`
	// the outcome bytes handed to Reports: "" = the encoding of Agreed; "garbage" = that encoding cut short; "invalid" =
	// the encoding of an outcome that breaks a validation rule (its first performable listed twice)
	BadOutcome string `json:"badOutcome,omitempty"`
}
type c04Impl struct {
	Reports [][]JCR `json:"reports"`           // the returned reports, decoded from their bytes
	Encoded [][]JCR `json:"encoded,omitempty"` // what the encoder was handed, call by call
	Err     string  `json:"err,omitempty"`
	NReports int    `json:"nreports"`
}

func c04Gen(r *Rng) c04Input {
	var in c04Input
	// configuration: around the boundaries
	switch r.Intn(4) {
	case 0:
		in.Cfg = c04Cfg{Batch: r.Range(1, 4), GasLimit: uint32(r.Range(1000, 5000)), Overhead: uint32(r.Range(0, 300))}
	case 1:
		in.Cfg = c04Cfg{Batch: r.Range(1, 100), GasLimit: 5_300_000, Overhead: 300_000}
	case 2:
		in.Cfg = c04Cfg{Batch: r.Range(1, 10), GasLimit: uint32(r.Range(1, 1<<31)), Overhead: uint32(r.Range(1, 1<<20))}
	default:
		in.Cfg = c04Cfg{Batch: r.Range(1, 20), GasLimit: uint32(r.Range(100, 100000)), Overhead: uint32(r.Range(1, 50))}
	}
	if r.Chance(12) { // wire values the config decoder replaces by defaults
		switch r.Intn(3) {
		case 0:
			in.Cfg.Overhead = 0
		case 1:
			in.Cfg.GasLimit = 0
		default:
			in.Cfg.Batch = -r.Intn(3)
		}
	}
	if r.Chance(35) {
		// a partial document: each of the three members is, independently, absent or null in about a third of these
		for _, k := range []string{"batch", "gasLimit", "overhead"} {
			switch r.Intn(6) {
			case 0, 1:
				in.Cfg.Absent = append(in.Cfg.Absent, k)
			case 2:
				in.Cfg.Null = append(in.Cfg.Null, k)
			}
		}
		switch r.Intn(4) {
		case 0:
			in.Cfg.Extra = fmt.Sprintf(`"performLockoutWindow":%d,"minConfirmations":%d`, r.Range(-5, 3_600_000), r.Range(-1, 3))
		case 1:
			in.Cfg.Extra = fmt.Sprintf(`"targetProbability":"0.5","targetInRounds":%d,"logProviderConfig":{"blockRate":%d}`, r.Range(-1, 4), r.Range(0, 4))
		case 2:
			in.Cfg.Extra = `"logProviderConfig":{},"targetProbability":""`
		}
	}
	n := 0
	switch r.Intn(5) {
	case 0:
		n = r.Range(0, 3)
	case 1:
		n = 100
	default:
		n = r.Range(2, 100)
	}
	// pool of upkeeps; small pool => repeated upkeep ids with distinct work ids (log triggers)
	pool := r.Range(1, 12)
	if r.Chance(40) {
		pool = n + 1
	}
	uids := make([]ocr2keepers.UpkeepIdentifier, pool)
	for i := range uids {
		uids[i] = genUpkeepID(r, r.Chance(60))
	}
	seen := map[string]bool{}
	lim, ov := uint64(in.Cfg.GasLimit), uint64(in.Cfg.Overhead)
	for _, k := range append(append([]string{}, in.Cfg.Absent...), in.Cfg.Null...) {
		// the boundaries below are those of the EFFECTIVE limits
		if k == "gasLimit" {
			lim = 5_300_000
		}
		if k == "overhead" {
			ov = 300_000
		}
	}
	for len(in.Agreed) < n {
		uid := uids[r.Intn(pool)]
		res := genResult(r, uid, uint64(r.Range(10, 1000)))
		if seen[res.WorkID] {
			if pool <= 12 && len(seen) >= pool && utg(uid) != 1 {
				// conditional upkeeps have one work id each; grow the pool
				uids = append(uids, genUpkeepID(r, true))
				pool++
			}
			continue
		}
		seen[res.WorkID] = true
		// gas around the decision boundaries
		switch r.Intn(8) {
		case 0: // alone exceeds the limit
			res.GasAllocated = lim + uint64(r.Range(1, 1000))
		case 1: // far above, below 2^62
			res.GasAllocated = uint64(1)<<61 + r.U64()%(1<<60)
		case 2: // exactly fills the report alone
			if lim > ov {
				res.GasAllocated = lim - ov
			}
		case 3: // one over
			if lim > ov {
				res.GasAllocated = lim - ov + 1
			}
		case 4:
			res.GasAllocated = 1
		default:
			d := lim / uint64(r.Range(1, 8))
			if d == 0 {
				d = 1
			}
			res.GasAllocated = 1 + r.U64()%d
		}
		if res.GasAllocated == 0 {
			res.GasAllocated = 1
		}
		in.Agreed = append(in.Agreed, toJCR(res))
	}
	if r.Chance(6) && len(in.Agreed) > 0 && len(in.Agreed) < 100 {
		// outcome bytes that do not decode or do not validate: Reports must refuse them, build nothing, encode nothing
		in.BadOutcome = []string{"garbage", "invalid"}[r.Intn(2)]
	}
	if r.Chance(10) {
		// the report encoder fails on one of its calls: Reports must stop there and say so (first, a middle, the last
		// call, or a call that never happens)
		in.EncFailAt = r.Range(1, 5)
		if r.Bool() {
			in.EncFailAt = r.Range(1, len(in.Agreed)/2+2)
		}
	}
	return in
}

// c04Run executes Reports on a factory-built plugin configured with in.Cfg.
func c04Run(t *testing.T, in c04Input) c04Impl {
	conf := in.Cfg.doc()
	// the factory has built an instance for ANOTHER config before, with every member set and none at its default
	// (limits must be this instance's, not the first's — also those this instance's document leaves out)
	decoy := &NodeOpts{N: 7, F: 2, OffchainConfig: []byte(fmt.Sprintf(`{"maxUpkeepBatchSize":%d,"gasLimitPerReport":%d,"gasOverheadPerUpkeep":%d}`,
		(in.Cfg.Batch%7+7)%7+2, in.Cfg.GasLimit/2+1000, in.Cfg.Overhead+17))}
	node := NewNode(t, NodeOpts{N: 4, F: 1, OffchainConfig: conf, Decoy: decoy})
	time.Sleep(1500 * time.Millisecond) // let every service reach its running state (virtual time)
	defer func() {
		node.Close()
		time.Sleep(11 * time.Second)
		synctest.Wait()
	}()
	outcome := ocr2keepersv3.AutomationOutcome{AgreedPerformables: fromJCRs(in.Agreed)}
	if in.BadOutcome == "invalid" && len(outcome.AgreedPerformables) > 0 {
		outcome.AgreedPerformables = append(outcome.AgreedPerformables, outcome.AgreedPerformables[0])
	}
	raw, err := outcome.Encode()
	if err != nil {
		return c04Impl{Err: "encode: " + err.Error()}
	}
	if in.BadOutcome == "garbage" {
		raw = raw[:len(raw)-1-len(raw)/3]
	}
	// the same instance has already built reports for ANOTHER outcome under the same sequence number (no state may carry over)
	if len(in.Agreed) > 1 {
		decoy := ocr2keepersv3.AutomationOutcome{AgreedPerformables: fromJCRs(in.Agreed[1:])}
		if dr, err := decoy.Encode(); err == nil {
			node.Plugin.Reports(context.Background(), 7, dr)
			node.Enc.Take()
		}
	}
	// part of the agreed work is already in flight on this node (it accepted a report carrying it earlier): Reports
	// must not care — what is reported is a function of the outcome alone
	if k := len(in.Agreed) / 3; k > 0 {
		if ab, err := node.Enc.Encode(fromJCRs(in.Agreed[:k])...); err == nil {
			node.Plugin.ShouldAcceptAttestedReport(context.Background(), 6, ocr3types.ReportWithInfo[pluginInfo]{Report: ab})
			node.Enc.Take()
		}
	}
	// … nor about the deadline of the context it is called with (in every third case it has already passed)
	rctx := context.Background()
	if len(raw)%3 == 0 {
		var cancel context.CancelFunc
		rctx, cancel = context.WithDeadline(context.Background(), time.Now().Add(-time.Second))
		defer cancel()
	}
	if in.EncFailAt > 0 {
		node.Enc.FailAt(in.EncFailAt)
	}
	reports, err := node.Plugin.Reports(rctx, 7, raw)
	calls := node.Enc.Take()
	// … and builds reports for yet another outcome afterwards: what was returned above must stay what it was
	if len(in.Agreed) > 0 {
		later := ocr2keepersv3.AutomationOutcome{AgreedPerformables: fromJCRs(in.Agreed[len(in.Agreed)/2:])}
		for i := range later.AgreedPerformables {
			later.AgreedPerformables[i].GasAllocated++
		}
		if lr, err := later.Encode(); err == nil {
			node.Plugin.Reports(context.Background(), 8, lr)
			node.Enc.Take()
		}
	}
	impl := c04Impl{NReports: len(reports), Reports: [][]JCR{}, Encoded: [][]JCR{}}
	if err != nil {
		impl.Err = err.Error()
	}
	// what the encoder was handed, in call order …
	for _, c := range calls {
		impl.Encoded = append(impl.Encoded, toJCRs(c))
	}
	// … and what libocr gets back: the returned report bytes, decoded (the fake encoder's bytes are JSON)
	for _, rep := range reports {
		var rs []ocr2keepers.CheckResult
		if err := json.Unmarshal(rep.ReportWithInfo.Report, &rs); err != nil {
			impl.Err = "returned report bytes are not what the encoder produced: " + err.Error()
			continue
		}
		impl.Reports = append(impl.Reports, toJCRs(rs))
	}
	return impl
}

func TestC04(t *testing.T) {
	em := NewEmitter(t, "C04")
	defer em.Close()
	names, raws, replayOnly := corpusInputs(t, "C04")
	for i, raw := range raws {
		var in c04Input
		if err := json.Unmarshal(raw, &in); err != nil {
			t.Fatalf("%s: %v", names[i], err)
		}
		synctest.Test(t, func(t *testing.T) { em.Emit(names[i], in, c04Run(t, in)) })
	}
	if replayOnly {
		return
	}
	for _, in := range c04Edge() {
		synctest.Test(t, func(t *testing.T) { em.Emit("edge", in, c04Run(t, in)) })
	}
	r := NewRng(seed())
	n := tierN(600, 12000)
	for i := 0; i < n; i++ {
		in := c04Gen(r)
		em.Hit(fmt.Sprintf("n=%d", bucket(len(in.Agreed))))
		synctest.Test(t, func(t *testing.T) { em.Emit("gen", in, c04Run(t, in)) })
	}
}

// c04Edge: hand-written witnesses (the defect repaired by the "fix: reports" commit among them).
func c04Edge() []c04Input {
	r := NewRng(424242)
	mk := func(cfg c04Cfg, gas ...uint64) c04Input {
		in := c04Input{Cfg: cfg}
		for _, g := range gas {
			res := genResult(r, genUpkeepID(r, false), 100)
			res.GasAllocated = g
			in.Agreed = append(in.Agreed, toJCR(res))
		}
		return in
	}
	out := []c04Input{
		mk(c04Cfg{Batch: 10, GasLimit: 1000, Overhead: 0}, 5000, 10, 5000), // over-limit first: empty report before the fix
		mk(c04Cfg{Batch: 10, GasLimit: 1000, Overhead: 0}, 5000),
		mk(c04Cfg{Batch: 1, GasLimit: 1000, Overhead: 10}, 1, 1, 1),
		mk(c04Cfg{Batch: 3, GasLimit: 1000, Overhead: 100}, 900, 900, 900, 100, 100, 100, 100),
		mk(c04Cfg{Batch: 5, GasLimit: 1000, Overhead: 0}),
	}
	// partial documents: a member that is absent or null takes its documented default — whatever an earlier instance of
	// the same factory was configured with
	for _, ab := range [][]string{{"batch"}, {"gasLimit"}, {"overhead"}, {"batch", "gasLimit", "overhead"}} {
		out = append(out, mk(c04Cfg{Batch: 4, GasLimit: 2_000_000, Overhead: 50_000, Absent: ab}, 900_000, 900_000, 900_000, 100_000, 100_000))
		out = append(out, mk(c04Cfg{Batch: 4, GasLimit: 2_000_000, Overhead: 50_000, Null: ab, Extra: `"minConfirmations":1`}, 2_400_000, 2_400_000, 900_000, 100_000, 100_000))
	}
	// volume: one report whose encoding is well over 1 MB (batch 100, ~10 kB of perform data per upkeep)
	for _, batch := range []int{100, 80} {
		in := c04Input{Cfg: c04Cfg{Batch: batch, GasLimit: 5_300_000, Overhead: 10}}
		for i := 0; i < 100; i++ {
			res := genResult(r, genUpkeepID(r, i%3 == 0), 100)
			res.GasAllocated = uint64(1000 + i)
			res.PerformData = r.Bytes(9000 + 10*i)
			in.Agreed = append(in.Agreed, toJCR(res))
		}
		out = append(out, in)
	}
	// huge allocations (the property's domain ends below 2^62) whose uint64 TOTAL over the outcome wraps although every
	// single one is over the limit: each must travel alone
	for _, spec := range []struct {
		k   int
		gas uint64
	}{{4, 1<<62 - 1}, {4, 1<<62 - 300_000}, {8, 1<<61 - 300_000}, {3, 1<<62 - 1}, {5, 1<<62 - 1}, {16, 1<<60 - 300_000}} {
		gs := make([]uint64, spec.k)
		for i := range gs {
			gs[i] = spec.gas
		}
		out = append(out, mk(c04Cfg{Batch: 10, GasLimit: 5_300_000, Overhead: 300_000}, gs...))
		out = append(out, mk(c04Cfg{}, gs...))
	}
	// 100 performables that each exceed the limit: exactly 100 reports allowed
	big := make([]uint64, 100)
	for i := range big {
		big[i] = 6_000_000
	}
	out = append(out, mk(c04Cfg{Batch: 10, GasLimit: 5_300_000, Overhead: 300_000}, big...))
	return out
}

func bucket(n int) int {
	switch {
	case n <= 3:
		return n
	case n < 10:
		return 5
	case n < 50:
		return 10
	case n < 100:
		return 50
	}
	return 100
}
