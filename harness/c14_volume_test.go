package harness

import (
	"github.com/smartcontractkit/chainlink-automation/pkg/v3/config"
)

// C14 — VOLUME.  The statement holds "for every worker count, job count, several concurrent callers";
// the generators of c14_test.go stay at 1..4 callers, mostly < 100 jobs, result functions that return
// at once.  What only shows with NUMBERS is produced here, on the same real worker group / RunJobs
// in the same bubble with the same exact verdicts:
//
//   crowd     65 … several hundred concurrent RunJobs callers on ONE group (a tick-driven flow piling up
//             calls behind a slow pipeline): few jobs each, workers mostly held, so that at any moment most
//             callers are merely WAITING while others finish and remove their groups;
//   long-list one … three callers with 300 … several thousand jobs and a SLOW READER: the result function
//             parks (ResHoldEvery) while the workers finish everything they can, so hundreds or thousands of
//             results of one caller are stored between two wake-ups of its reader;
//   overload  several callers x hundreds of jobs on 1 … 4 slow workers: a standing backlog of thousands of
//             queued items (well over a thousand pops in one busy period of the queue);
//   burst     a backlog of hundreds of held / queued items turned into results at once by Stop or a
//             cancellation, the reader parked meanwhile;
//   rates     virtual time: workers finishing jobs of 1 … 1500 ms on many workers against a result function
//             that takes ResMs per result (batches grow geometrically);
//   runner    the crowd through the runners' constructors (CheckUpkeeps callers, one job = one batch);
//   delegate  the crowd as the plugin produces it: the log trigger flow and the recovery proposal flow tick once
//             per second, every tick's CheckUpkeeps call runs on a goroutine of its own under a 20 s limit
//             (ObservationProcessLimit), a pipeline call takes longer than that: after 20 s there are ~20
//             calls per flow in flight on the shared group, one of them ending every second while the others
//             wait (observed from here: worker bound, nothing left after Close, no crash; more than ~40
//             concurrent callers cannot be produced through the two providers the harness feeds).
//
// Judged by the black-box clauses of Spec/C14.lean (every accepted job's result delivered exactly once,
// RunJobs returns — exact deadlock verdict —, nothing after return, no goroutine left, running job
// functions <= workers); the model is run next to it where that is affordable (total <= 400 jobs and
// <= 16 callers, Drv/C14.lean), and a part of the cases is TRACED (hook events, exact refinement check)
// within the validator's search budget — a budget-exhausted search stays inconclusive.

const c14VolShapes = 7

func c14VolModes(r *Rng, in *c14Input, kmax int) {
	switch m := r.Intn(100); {
	case m < 45:
		in.Mode = "none"
	case m < 60:
		in.Mode = "stop"
	case m < 75:
		in.Mode = "cancel"
	case m < 80:
		in.Mode = "both"
	case m < 86:
		in.Mode = "stop-after"
	case m < 92:
		in.Mode = "cancel-after"
	case m < 96:
		in.Mode = "stop-before"
	default:
		in.Mode = "cancel-before"
	}
	if in.Mode == "stop" || in.Mode == "cancel" || in.Mode == "both" {
		switch r.Intn(3) {
		case 0:
			in.K = r.Range(0, 300)
		case 1:
			in.K = r.Range(0, kmax/10+1)
		default:
			in.K = r.Range(0, kmax)
		}
	}
}

func c14VolKind(r *Rng, in *c14Input, kinds ...string) {
	in.JobKind = kinds[r.Intn(len(kinds))]
	if !c14WillRelease(in.Mode) && (in.JobKind == "block" || in.JobKind == "mixed") {
		in.JobKind = "hold"
	}
}

func c14VolPanics(r *Rng, in *c14Input, pct int) {
	any := false
	for c := range in.Jobs {
		var at []int
		for j := 0; j < in.Jobs[c]; j++ {
			if r.Chance(pct) {
				at = append(at, j)
				any = true
			}
		}
		in.PanicAt = append(in.PanicAt, at)
	}
	if !any {
		in.PanicAt = nil
	}
}

// c14GenVolume: one case of the given shape (0..c14VolShapes-1); `scale` 1 = quick sizes, 3 = thorough
func c14GenVolume(r *Rng, shape, scale int) c14Input {
	var in c14Input
	in.Salt = r.U64() % 1_000_000
	switch shape % c14VolShapes {
	case 0: // crowd
		in.Workers = []int{1, 2, 3, 4, 8, 16, 64}[r.Intn(7)]
		callers := r.Range(65, 90)
		switch r.Intn(4) {
		case 1:
			callers = r.Range(66, 70) // just over a power of two
		case 2:
			callers = r.Range(90, 100+80*scale)
		case 3:
			callers = r.Range(120, 120+130*scale)
		}
		for c := 0; c < callers; c++ {
			j := r.Range(1, 3)
			switch r.Intn(12) {
			case 0:
				j = 0
			case 1:
				j = r.Range(4, 12)
			}
			in.Jobs = append(in.Jobs, j)
			in.Stagger = append(in.Stagger, r.Intn(4)*r.Intn(10))
		}
		if r.Chance(15) {
			in.Jobs[r.Intn(callers)] = r.Range(50, 300) // one heavy client among the crowd
		}
		c14VolModes(r, &in, 20000)
		c14VolKind(r, &in, "hold", "hold", "hold", "yield", "plain", "mixed")
		if r.Chance(15) {
			c14VolPanics(r, &in, 10)
		}
		if r.Chance(20) {
			for range in.Jobs {
				in.ResHoldEvery = append(in.ResHoldEvery, []int{0, 0, 1, 2}[r.Intn(4)])
			}
			in.ResLag = []int{0, 1, 3}[r.Intn(3)]
		}
	case 1: // long-list with a slow reader
		in.Workers = []int{1, 2, 4, 8, 16, 32, 64}[r.Intn(7)]
		if r.Chance(15) {
			in.Workers = r.Range(1, 64)
		}
		callers := []int{1, 1, 1, 2, 3}[r.Intn(5)]
		for c := 0; c < callers; c++ {
			j := r.Range(257, 700)
			switch r.Intn(4) {
			case 1:
				j = r.Range(700, 1000)
			case 2:
				j = r.Range(1000, 1000+700*scale)
			case 3:
				j = []int{257, 300, 511, 512, 513, 600, 1000, 1024, 1025}[r.Intn(9)] + r.Intn(2)
			}
			in.Jobs = append(in.Jobs, j)
			in.Stagger = append(in.Stagger, r.Intn(3)*r.Intn(10))
			// parks at the first call only / at every n-th call
			every := []int{1 << 30, 1 << 30, 1000, 300, 257, 100, 50, 7}[r.Intn(8)]
			if c > 0 && r.Chance(30) {
				every = 0 // next to a reader that keeps up
			}
			in.ResHoldEvery = append(in.ResHoldEvery, every)
		}
		c14VolModes(r, &in, 60000)
		c14VolKind(r, &in, "plain", "plain", "yield", "hold", "hold", "mixed")
		in.ResLag = []int{0, 0, 0, 5, 40}[r.Intn(5)]
		if r.Chance(15) {
			c14VolPanics(r, &in, 5)
		}
	case 2: // overload: a standing backlog of thousands on slow workers
		in.Workers = []int{1, 1, 2, 3, 4}[r.Intn(5)]
		callers := r.Range(3, 12)
		if r.Chance(30) {
			callers = r.Range(12, 40)
		}
		total := r.Range(1100, 1500+900*scale)
		for c := 0; c < callers; c++ {
			j := total/callers + r.Range(-20, 20)
			if j < 1 {
				j = 1
			}
			if j > 1000 && r.Chance(70) {
				j = 1000
			}
			in.Jobs = append(in.Jobs, j)
			in.Stagger = append(in.Stagger, r.Intn(3)*r.Intn(6))
		}
		c14VolModes(r, &in, 60000)
		if in.Mode == "stop-before" || in.Mode == "cancel-before" {
			in.Mode = "none"
		}
		c14VolKind(r, &in, "hold", "hold", "hold", "yield", "mixed")
		if r.Chance(30) {
			for range in.Jobs {
				in.ResHoldEvery = append(in.ResHoldEvery, []int{0, 1 << 30, 300, 40}[r.Intn(4)])
			}
			in.ResLag = []int{0, 10, 100}[r.Intn(3)]
		}
	case 3: // burst: Stop / cancellation turns a backlog into results at once, the reader away meanwhile
		in.Workers = []int{1, 2, 4, 8}[r.Intn(4)]
		callers := []int{1, 1, 2, 3}[r.Intn(4)]
		for c := 0; c < callers; c++ {
			in.Jobs = append(in.Jobs, r.Range(260, 600+300*scale))
			in.Stagger = append(in.Stagger, r.Intn(3))
			in.ResHoldEvery = append(in.ResHoldEvery, []int{1 << 30, 1 << 30, 500, 0}[r.Intn(4)])
		}
		in.Mode = []string{"stop", "cancel", "cancel", "both"}[r.Intn(4)]
		in.K = []int{r.Range(0, 500), r.Range(500, 5000), r.Range(5000, 80000)}[r.Intn(3)]
		in.JobKind = []string{"hold", "hold", "block", "mixed"}[r.Intn(4)]
	case 4: // rates (virtual time)
		in.Workers = []int{8, 16, 32, 64, 64}[r.Intn(5)]
		callers := []int{1, 1, 2, 4}[r.Intn(4)]
		for c := 0; c < callers; c++ {
			in.Jobs = append(in.Jobs, r.Range(300, 700+300*scale))
			in.Stagger = append(in.Stagger, 0)
			in.StartAtMs = append(in.StartAtMs, c*r.Range(0, 700))
		}
		in.LongMs = r.Range(1, 40)
		in.ResMs = r.Range(3, 40)
		in.JobKind = "long"
		if r.Chance(25) {
			in.JobKind = "long-mixed"
		}
		switch m := r.Intn(10); {
		case m < 6:
			in.Mode = "none"
		case m < 8:
			in.Mode, in.StopAtMs = "cancel", r.Range(200, 12000)
		case m < 9:
			in.Mode, in.StopAtMs = "stop", r.Range(200, 12000)
		default:
			in.Mode = "cancel-after"
		}
	case 5: // the crowd through the runners' constructors
		in.Via = "runner-v3"
		if r.Chance(30) {
			in.Via = "runner-v2"
		}
		in.Workers = []int{1, 2, 3, 4, 8, 16}[r.Intn(6)]
		in.Queue = []int{1000, 100, in.Workers + 1, 0}[r.Intn(4)]
		callers := r.Range(65, 100+50*scale)
		for c := 0; c < callers; c++ {
			b := r.Range(1, 2)
			if r.Chance(8) {
				b = r.Range(3, 8)
			}
			in.Jobs = append(in.Jobs, b)
			in.Stagger = append(in.Stagger, r.Intn(3)*r.Intn(8))
			if in.Via == "runner-v2" {
				in.Mercury = append(in.Mercury, r.Chance(50))
			}
		}
		in.Mode = []string{"none", "none", "none", "stop-after", "cancel-after", "cancel"}[r.Intn(6)]
		if in.Mode == "cancel" {
			in.K = r.Range(0, 5000)
		}
		in.JobKind = []string{"hold", "hold", "hold", "yield"}[r.Intn(4)]
	default: // the crowd as the plugin's log trigger flow produces it
		in.Via, in.Mode, in.JobKind = "delegate-v3", "none", "long"
		in.Workers = r.Range(2, 9)
		if r.Chance(20) {
			in.Workers, in.Unset = config.DefaultMaxServiceWorkers, true
		}
		in.Queue = []int{0, 100, 1000}[r.Intn(3)]
		in.PerTick = r.Range(1, 25)
		in.RecPerTick = []int{0, 1, 5, 12, 25}[r.Intn(5)]
		in.Ticks = r.Range(25, 40+10*scale)
		in.LongMs = r.Range(25, 400) * 1000 // an RPC endpoint that has stopped answering: every call runs into the flow's limit
		if r.Chance(35) {
			// … or answers slowly: calls end by themselves while later ones are in flight
			in.LongMs = r.Range(5, 19) * 1000
		}
	}
	return in
}

// c14VolumeEdge: the fixed large cases of the quick tier
func c14VolumeEdge() []c14Input {
	rep := func(n, j int) []int {
		l := make([]int, n)
		for i := range l {
			l[i] = j
		}
		return l
	}
	first := 1 << 30
	return []c14Input{
		// 70 / 130 / 300 callers with one held job each: one caller after the other finishes while the rest waits
		{Workers: 64, Jobs: rep(70, 1), Mode: "none", JobKind: "hold"},
		{Workers: 1, Jobs: rep(130, 1), Mode: "none", JobKind: "hold"},
		{Workers: 8, Jobs: rep(300, 2), Mode: "none", JobKind: "hold", Salt: 5},
		{Workers: 4, Jobs: rep(100, 3), K: 4000, Mode: "stop", JobKind: "hold", Salt: 2},
		{Workers: 2, Jobs: rep(66, 1), Mode: "cancel-after", JobKind: "plain"},
		// one caller, 600 / 1000 / 3000 instant jobs, the result function held up at its first call
		{Workers: 8, Jobs: []int{600}, Mode: "none", JobKind: "plain", ResHoldEvery: []int{first}},
		{Workers: 64, Jobs: []int{1000}, Mode: "none", JobKind: "plain", ResHoldEvery: []int{first}},
		{Workers: 1, Jobs: []int{257}, Mode: "none", JobKind: "plain", ResHoldEvery: []int{first}},
		{Workers: 16, Jobs: []int{3000}, Mode: "none", JobKind: "yield", ResHoldEvery: []int{300}, Salt: 3},
		{Workers: 3, Jobs: []int{700, 700}, Mode: "none", JobKind: "hold", ResHoldEvery: []int{first, 0}, Salt: 1},
		// a backlog of 800 held items flushed by a cancellation / Stop while the reader is away
		{Workers: 2, Jobs: []int{800}, K: 2000, Mode: "cancel", JobKind: "hold", ResHoldEvery: []int{first}},
		{Workers: 2, Jobs: []int{800}, K: 2000, Mode: "stop", JobKind: "hold", ResHoldEvery: []int{first}},
		// a standing backlog: 3 x 700 and 12 x 250 jobs on one / two workers
		{Workers: 1, Jobs: []int{700, 700, 700}, Mode: "none", JobKind: "hold"},
		{Workers: 2, Jobs: rep(12, 250), Mode: "none", JobKind: "yield", Salt: 9},
		// rates: 64 workers against a result function of 20 ms per result
		{Workers: 64, Jobs: []int{1000}, LongMs: 5, ResMs: 20, Mode: "none", JobKind: "long"},
		// the crowd through the v3 runner and through the plugin's flows (40 ticks of two flows behind calls that take 5 min)
		{Via: "runner-v3", Workers: 4, Queue: 1000, Jobs: rep(90, 1), Mode: "none", JobKind: "hold"},
		{Via: "delegate-v3", Workers: 4, Queue: 1000, PerTick: 5, RecPerTick: 5, Ticks: 40, LongMs: 300000, Mode: "none", JobKind: "long"},
	}
}

// c14GenVolumeTrace: a volume case small enough for the trace validator (a trace has ~30 events per job,
// one search thread per caller, reader and worker execution): a crowd of callers with a job or two,
// or one caller with a few hundred jobs and a reader that is away
func c14GenVolumeTrace(r *Rng, i, scale int) c14Input {
	var in c14Input
	in.Salt = r.U64() % 1_000_000
	in.Trace = true
	if i%2 == 0 {
		in.Workers = []int{1, 2, 4, 8, 16}[r.Intn(5)]
		callers := r.Range(65, 80+20*scale)
		for c := 0; c < callers; c++ {
			in.Jobs = append(in.Jobs, []int{1, 1, 1, 2, 0, 3}[r.Intn(6)])
			in.Stagger = append(in.Stagger, r.Intn(3)*r.Intn(6))
		}
		in.Mode = []string{"none", "none", "none", "stop", "cancel", "stop-after"}[r.Intn(6)]
		in.JobKind = []string{"hold", "hold", "plain", "yield"}[r.Intn(4)]
	} else {
		in.Workers = []int{1, 2, 4, 8, 16}[r.Intn(5)]
		in.Jobs = []int{r.Range(257, 300+60*scale)}
		in.Stagger = []int{0}
		in.ResHoldEvery = []int{[]int{1 << 30, 1 << 30, 280, 100}[r.Intn(4)]}
		in.Mode = []string{"none", "none", "none", "stop", "cancel", "cancel-after"}[r.Intn(6)]
		in.JobKind = []string{"plain", "plain", "yield", "hold"}[r.Intn(4)]
		in.ResLag = []int{0, 0, 20}[r.Intn(3)]
	}
	if in.Mode == "stop" || in.Mode == "cancel" {
		in.K = r.Range(0, 3000)
	}
	return in
}
