package harness

import (
	"bytes"
	"context"
	"encoding/json"
	"errors"
	"fmt"
	"math/big"
	"strings"
	"sync"
	"sync/atomic"
	"testing"
	"testing/synctest"
	"time"
	"unicode/utf8"

	"github.com/smartcontractkit/libocr/commontypes"
	ocr2types "github.com/smartcontractkit/libocr/offchainreporting2plus/types"

	v2 "github.com/smartcontractkit/chainlink-automation/pkg/v2"
	"github.com/smartcontractkit/chainlink-automation/pkg/v2/config"
	v2coord "github.com/smartcontractkit/chainlink-automation/pkg/v2/coordinator"
	v2enc "github.com/smartcontractkit/chainlink-automation/pkg/v2/encoding"
	"github.com/smartcontractkit/chainlink-automation/pkg/v2/observer/polling"
	v2runner "github.com/smartcontractkit/chainlink-automation/pkg/v2/runner"
)

// C16 — OCR2 (v2) reports: robust median block, eligible upkeeps once, limits kept.
//
// The plugin is built by v2.NewReportingPluginFactory with
//   - encoder   : the repository's BasicEncoder (validation, median, key building, split/after/increment)
//                 wrapped with Eligible/Detail/EncodeReport/KeysFromReport over a harness result type;
//                 EncodeReport records what it is handed;
//   - runner    : programmable, records the keys it is asked to check; or (c16Input.Reg, c16_reg_test.go) the
//                 repository's v2 runner (runner.NewRunner) in front of a scripted registry;
//   - coordinator: the repository's reportCoordinator (real mode) or a programmable one, both behind a
//                 wrapper recording every IsPending answer;
//   - observer  : the repository's PollingObserver (head ticker, registry and runner are fakes).

// ---------------------------------------------------------------- input / impl types

// c16Cfg: every field of the off-chain config (zero values: the field is written as 0 / omitted and the
// decoder's default applies).  Only the first three influence Report at HEAD.
type c16Cfg struct {
	Batch    int    `json:"batch"`
	GasLimit uint32 `json:"gasLimit"`
	Overhead uint32 `json:"overhead"`
	Lag      int    `json:"lag"`      // reportBlockLag
	Lockout  int64  `json:"lockout"`  // performLockoutWindow (ms)
	Prob     string `json:"prob"`     // targetProbability ("" = omitted)
	Rounds   int    `json:"rounds"`   // targetInRounds
	Sampling int64  `json:"sampling"` // samplingJobDuration (ms): the per-head sampling window
	MinConfs int    `json:"minConfs"` // minConfirmations
	Mercury  bool   `json:"mercury"`  // mercuryLookup
}

// c16Window: the effective per-head sampling window in ms
func c16Window(c c16Cfg) int64 {
	if c.Sampling <= 0 {
		return 3000
	}
	return c.Sampling
}

type c16Perform struct {
	Key    string `json:"key"`
	TBlock string `json:"tblock"`
	Conf   int64  `json:"conf"`
}

type c16Coord struct {
	Kind     string       `json:"kind"`     // "fake" | "real"
	PendIds  []string     `json:"pendIds"`  // fake: IsPending(block|id) = (true, nil)
	ErrIds   []string     `json:"errIds"`   // fake: IsPending(block|id) = (false, error)
	Accepted []string     `json:"accepted"` // real: keys accepted (ShouldAcceptFinalizedReport) before the call
	Performs []c16Perform `json:"performs"` // real: perform logs the log provider returns
}

type c16Item struct {
	Pos       int    `json:"pos"`     // index into the keys asked; >= len(asked): item dropped; -1: foreign key
	Foreign   string `json:"foreign"` // key used when pos == -1
	Eligible  bool   `json:"eligible"`
	EligErr   bool   `json:"eligErr"`
	Gas       uint32 `json:"gas"`
	DetailErr bool   `json:"detailErr"`
}

type c16Script struct {
	RunErr bool      `json:"runErr"`
	EncErr bool      `json:"encErr"`
	Items  []c16Item `json:"items"`
	// an answer without results is the nil slice (and no error) instead of an empty one
	NilRes bool `json:"nilRes,omitempty"`
}

type c16HeadRes struct {
	Key       string `json:"key"`
	Eligible  bool   `json:"eligible"`
	EligErr   bool   `json:"eligErr"`
	DetailErr bool   `json:"detailErr"`
}

type c16Head struct {
	Block   string       `json:"block"`
	Active  int          `json:"active"`
	SrcErr  bool         `json:"srcErr"`
	RunErr  bool         `json:"runErr"`
	Results []c16HeadRes `json:"results"`
	// observation points around this head (besides the final one after all heads):
	MidAt int  `json:"midAt"` // k >= 1: Observation() is called while this head is being sampled, when the observer
	//                           is inside its k-th Eligible call (k-1 results already staged, advance not yet run); 0: none
	After bool `json:"after"` // Observation() is called at the quiescent point after this head
	// with After: the key (block|id) that observation listed is then accepted as a finalized report would be
	// (ShouldAcceptFinalizedReport -> Coordinator.Accept) and Observation() is called once more, same head
	AcceptAfter bool `json:"acceptAfter"`
	// what is handed to ShouldAcceptFinalizedReport / ShouldTransmitAcceptedReport then: "" the report of that key |
	// "empty" no bytes | "garbage" bytes the encoder cannot decode | "nokeys" a report without a key
	AcceptKind string `json:"acceptKind,omitempty"`
	// with MidAt reached: the observer stays parked inside that Eligible call for StallMs of virtual time (a slow
	// encoder / result decoding), e.g. longer than the per-head sampling window, before it goes on
	StallMs int64 `json:"stallMs"`
	// the CheckUpkeep call of this head stays pending (slow RPC) while Observation() is called and, if there is a next
	// head, while that head is handed to the head channel (and Observation() is called again); then it returns.
	// MidAt / After of such a head are not used when a next head is queued behind it; a head queued that way does not
	// use its own MidAt / SlowRun.
	SlowRun bool `json:"slowRun"`
	// with c16Input.Reg (the repository's v2 runner between the observer and a scripted registry): RunErr / Results
	// are not used; the registry answers the check calls (RPC batches of <= 10 keys) of this head from
	//   Status  : per active upkeep id 1..Active  e eligible | i ineligible | p paused / cancelled (NO result) |
	//             x eligibility error | d detail error            (ids beyond the list: p)
	//   Batches : how the k-th call is answered (calls beyond the list: kind "key")
	Status  string     `json:"status,omitempty"`
	Batches []c16Batch `json:"batches,omitempty"`
}

// c16Prior: an earlier plugin instance created by the SAME factory (libocr keeps one factory per job and
// asks it for a new instance whenever the configuration changes); it is closed before the next one is made.
type c16Prior struct {
	Cfg c16Cfg `json:"cfg"`
	Bad bool   `json:"bad"` // the off-chain config of that instance does not decode (NewReportingPlugin fails)
}

type c16Input struct {
	Mode   string     `json:"mode"` // "report" | "obs"
	Prior  []c16Prior `json:"prior"` // instances the factory produced before the one under test
	Cfg    c16Cfg     `json:"cfg"`   // configuration of the instance under test
	Epoch  uint32    `json:"epoch"`
	Round  uint8     `json:"round"`
	Digest uint64    `json:"digest"`
	Coord  c16Coord  `json:"coord"`
	Obs    []string  `json:"obs"`    // report: attributed observations, raw bytes as hex
	Script c16Script `json:"script"` // report: how the report-time check answers
	Heads  []c16Head `json:"heads"`  // obs: heads processed before Observation is called
	// non-nil: plugin and observer get the repository's v2 runner (runner.NewRunner: worker group, batches of 10,
	// result cache) and the harness scripts the REGISTRY behind it; nil: the runner itself is the harness fake
	Reg *c16Reg `json:"reg,omitempty"`
	// block keys / identifiers the plugin's validator refuses without an error, (false, nil)
	Deny []string `json:"deny,omitempty"`
	// obs: after the last head the conditional observer's Observe fails once (Observation must return the error)
	ObsFail bool `json:"obsFail,omitempty"`
	// enc: direct calls of the repository's BasicEncoder
	Blocks []string  `json:"blocks,omitempty"` // GetMedian(blocks)
	Keys   []*string `json:"keys,omitempty"`   // SplitUpkeepKey / ValidateUpkeepKey on each (null = the nil key)
}

type c16Dec struct {
	OK    bool      `json:"ok"`
	Block string    `json:"block"`
	Ids   []*string `json:"ids"` // hex; null element = nil identifier
}

type c16Res struct {
	Seq       int    `json:"seq"`
	Key       string `json:"key"`
	Eligible  bool   `json:"eligible"`
	EligErr   bool   `json:"eligErr"`
	Gas       uint32 `json:"gas"`
	DetailErr bool   `json:"detailErr"`
}

type c16Seen struct {
	Key     string `json:"key"`
	Pending bool   `json:"pending"`
	Err     bool   `json:"err"`
}

type c16Impl struct {
	// report
	Decoded   []c16Dec `json:"decoded"`   // encoding/json on each attributed observation (harness, not plugin)
	Status    string   `json:"status"`    // report | noReport | errNotEnoughInputs | errTooManyErrors | errRunner | errTooManyResults | errEncode | errOther
	Called    bool     `json:"called"`    // CheckUpkeep was called
	Checked   []string `json:"checked"`   // keys handed to CheckUpkeep
	Answered  []c16Res `json:"answered"`  // what it returned
	Performed []c16Res `json:"performed"` // results handed to EncodeReport
	EncCalled bool     `json:"encCalled"`
	Seen      []c16Seen `json:"seen"` // IsPending answers in call order
	// obs: one entry per Observation() call, in call order; the last one is the final call after all heads
	Points []c16Point `json:"points"`
	// with Reg: every registry call in the order the calls returned
	Calls []c16Call `json:"calls,omitempty"`
	// obs: every ShouldAcceptFinalizedReport / ShouldTransmitAcceptedReport pair the harness made
	Accepts []c16Accept `json:"accepts,omitempty"`
	// enc
	Enc *c16EncOut `json:"enc,omitempty"`
	Setup string    `json:"setup,omitempty"` // harness-level problem (should stay empty)
}

// c16Point is one Observation() call: N = number of heads completely processed before it
// (phase "mid": head N is being sampled; "after"/"final": quiescent).
type c16Point struct {
	N      int       `json:"n"`
	Phase  string    `json:"phase"`
	Out    string    `json:"out"` // observation bytes, hex
	OutErr string    `json:"outErr"`
	OutDec c16Dec    `json:"outDec"`
	Seen   []c16Seen `json:"seen"`
	// the very slice Observation() returned, read again at the end of the case (after all later calls of this and
	// of another instance of the process), hex
	OutEnd string `json:"outEnd"`
	// keys the harness had accepted (AcceptAfter) before this call, in order
	Accepted []string `json:"accepted"`
}

// ---------------------------------------------------------------- fakes

type c16Result struct {
	Seq       int
	Key       string
	Eligible  bool
	EligErr   bool
	Gas       uint32
	DetailErr bool
}

type c16Enc struct {
	v2enc.BasicEncoder
	deny    map[string]bool
	mu      sync.Mutex
	encErr  bool
	encoded [][]c16Result
	// gate: the gateAt-th Eligible call (1-based, counted from arm) blocks until release is closed
	gateAt  int
	calls   int
	reached bool
	release chan struct{}
}

func (e *c16Enc) arm(at int) {
	e.mu.Lock()
	e.gateAt, e.calls, e.reached, e.release = at, 0, false, make(chan struct{})
	e.mu.Unlock()
}

func (e *c16Enc) EncodeReport(rs []v2.UpkeepResult) ([]byte, error) {
	out := make([]c16Result, 0, len(rs))
	keys := make([]string, 0, len(rs))
	for _, r := range rs {
		x := r.(c16Result)
		out = append(out, x)
		keys = append(keys, x.Key)
	}
	e.mu.Lock()
	e.encoded = append(e.encoded, out)
	e.mu.Unlock()
	if e.encErr {
		return nil, errors.New("c16: encode failure")
	}
	return json.Marshal(keys)
}

func (e *c16Enc) KeysFromReport(b []byte) ([]v2.UpkeepKey, error) {
	var keys []string
	if err := json.Unmarshal(b, &keys); err != nil {
		return nil, err
	}
	out := make([]v2.UpkeepKey, len(keys))
	for i, k := range keys {
		out[i] = v2.UpkeepKey(k)
	}
	return out, nil
}

func (e *c16Enc) Eligible(r v2.UpkeepResult) (bool, error) {
	e.mu.Lock()
	e.calls++
	hit := e.gateAt > 0 && e.calls == e.gateAt
	rel := e.release
	if hit {
		e.reached = true
	}
	e.mu.Unlock()
	if hit {
		<-rel // the observer is now between prepareIdentifier calls and advance
	}
	x := r.(c16Result)
	if x.EligErr {
		return x.Eligible, errors.New("c16: eligibility failure")
	}
	return x.Eligible, nil
}

func (e *c16Enc) Detail(r v2.UpkeepResult) (v2.UpkeepKey, uint32, error) {
	x := r.(c16Result)
	if x.DetailErr {
		return nil, 0, errors.New("c16: detail failure")
	}
	if x.Key == "" {
		return nil, x.Gas, nil // a result without a key: the nil key
	}
	return v2.UpkeepKey(x.Key), x.Gas, nil
}

// chain-specific validation on top of the BasicEncoder's: values on the deny list are refused WITHOUT an error,
// (false, nil), which Observation.Validate turns into ErrInvalidBlockKey / ErrInvalidUpkeepIdentifier
func (e *c16Enc) ValidateBlockKey(b v2.BlockKey) (bool, error) {
	if e.deny[string(b)] {
		return false, nil
	}
	return e.BasicEncoder.ValidateBlockKey(b)
}

func (e *c16Enc) ValidateUpkeepIdentifier(id v2.UpkeepIdentifier) (bool, error) {
	if e.deny[string(id)] {
		return false, nil
	}
	return e.BasicEncoder.ValidateUpkeepIdentifier(id)
}

type c16Runner struct {
	mu    sync.Mutex
	calls [][]string
	fn    func(keys []string) ([]v2.UpkeepResult, error)
}

func (r *c16Runner) CheckUpkeep(_ context.Context, _ bool, keys ...v2.UpkeepKey) ([]v2.UpkeepResult, error) {
	ks := make([]string, len(keys))
	for i, k := range keys {
		ks[i] = string(k)
	}
	r.mu.Lock()
	r.calls = append(r.calls, ks)
	fn := r.fn
	r.mu.Unlock()
	if fn == nil {
		return nil, nil
	}
	return fn(ks)
}

func (r *c16Runner) set(fn func(keys []string) ([]v2.UpkeepResult, error)) {
	r.mu.Lock()
	r.fn = fn
	r.calls = nil
	r.mu.Unlock()
}

type c16Logs struct {
	mu       sync.Mutex
	performs []v2.PerformLog
}

func (l *c16Logs) PerformLogs(context.Context) ([]v2.PerformLog, error) {
	l.mu.Lock()
	defer l.mu.Unlock()
	return append([]v2.PerformLog(nil), l.performs...), nil
}
func (l *c16Logs) StaleReportLogs(context.Context) ([]v2.StaleReportLog, error) { return nil, nil }

// c16FakeCoord answers IsPending from two id sets; a key that does not split is not pending.
type c16FakeCoord struct {
	pend map[string]bool
	errs map[string]bool
}

func (c *c16FakeCoord) IsPending(key v2.UpkeepKey) (bool, error) {
	_, id, err := v2enc.BasicEncoder{}.SplitUpkeepKey(key)
	if err != nil {
		return false, nil
	}
	if c.errs[string(id)] {
		return false, errors.New("c16: pending lookup failure")
	}
	return c.pend[string(id)], nil
}
func (c *c16FakeCoord) Accept(key v2.UpkeepKey) error {
	_, id, err := v2enc.BasicEncoder{}.SplitUpkeepKey(key)
	if err != nil {
		return err
	}
	c.pend[string(id)] = true
	return nil
}
func (c *c16FakeCoord) IsTransmissionConfirmed(v2.UpkeepKey) bool { return false }

// c16RecCoord records every IsPending answer of the coordinator behind it.
type c16RecCoord struct {
	inner v2.Coordinator
	mu    sync.Mutex
	seen  []c16Seen
}

func (c *c16RecCoord) IsPending(key v2.UpkeepKey) (bool, error) {
	ok, err := c.inner.IsPending(key)
	c.mu.Lock()
	c.seen = append(c.seen, c16Seen{Key: string(key), Pending: ok, Err: err != nil})
	c.mu.Unlock()
	return ok, err
}
func (c *c16RecCoord) Accept(key v2.UpkeepKey) error { return c.inner.Accept(key) }
func (c *c16RecCoord) IsTransmissionConfirmed(key v2.UpkeepKey) bool {
	return c.inner.IsTransmissionConfirmed(key)
}
func (c *c16RecCoord) Start() {
	if s, ok := c.inner.(v2.PluginStarterCloser); ok {
		s.Start()
	}
}
func (c *c16RecCoord) Close() error {
	if s, ok := c.inner.(v2.PluginStarterCloser); ok {
		return s.Close()
	}
	return nil
}
func (c *c16RecCoord) take() []c16Seen {
	c.mu.Lock()
	defer c.mu.Unlock()
	s := c.seen
	c.seen = nil
	return s
}

type c16CoordFactory struct {
	in   c16Coord
	logs *c16Logs
	rec  *c16RecCoord
}

func (f *c16CoordFactory) NewCoordinator(conf config.OffchainConfig) (v2.Coordinator, error) {
	var inner v2.Coordinator
	if f.in.Kind == "real" {
		cf := &v2coord.CoordinatorFactory{Logger: quietLogger, Encoder: v2enc.BasicEncoder{}, Logs: f.logs}
		c, err := cf.NewCoordinator(conf)
		if err != nil {
			return nil, err
		}
		inner = c
	} else {
		fc := &c16FakeCoord{pend: map[string]bool{}, errs: map[string]bool{}}
		for _, id := range f.in.PendIds {
			fc.pend[id] = true
		}
		for _, id := range f.in.ErrIds {
			fc.errs[id] = true
		}
		inner = fc
	}
	f.rec = &c16RecCoord{inner: inner}
	return f.rec, nil
}

type c16Heads struct{ ch chan v2.BlockKey }

func (h *c16Heads) HeadTicker() chan v2.BlockKey { return h.ch }

type c16Source struct {
	mu  sync.Mutex
	n   int
	err bool
}

func (s *c16Source) GetActiveUpkeepIDs(context.Context) ([]v2.UpkeepIdentifier, error) {
	s.mu.Lock()
	defer s.mu.Unlock()
	if s.err {
		return nil, errors.New("c16: registry failure")
	}
	out := make([]v2.UpkeepIdentifier, s.n)
	for i := range out {
		out[i] = v2.UpkeepIdentifier(fmt.Sprintf("%d", i+1))
	}
	return out, nil
}

type c16Node struct {
	fac    ocr2types.ReportingPluginFactory
	pc     ocr2types.ReportingPluginConfig
	plugin ocr2types.ReportingPlugin
	enc    *c16Enc
	run    *c16Runner
	cf     *c16CoordFactory
	heads  *c16Heads
	src    *c16Source
	ts     ocr2types.ReportTimestamp
	obsFail *atomic.Bool   // the conditional observer's Observe fails while set
	reg    *c16Registry    // with c16Input.Reg
	rn     *v2runner.Runner // with c16Input.Reg
}

func c16NewNode(in c16Input) (*c16Node, error) {
	n := &c16Node{enc: &c16Enc{encErr: in.Script.EncErr, deny: map[string]bool{}}, run: &c16Runner{}, heads: &c16Heads{ch: make(chan v2.BlockKey)}, src: &c16Source{}, obsFail: new(atomic.Bool)}
	for _, d := range in.Deny {
		n.enc.deny[d] = true
	}
	logs := &c16Logs{}
	for _, p := range in.Coord.Performs {
		logs.performs = append(logs.performs, v2.PerformLog{Key: v2.UpkeepKey(p.Key), TransmitBlock: v2.BlockKey(p.TBlock), Confirmations: p.Conf, TransactionHash: "0xc16"})
	}
	n.cf = &c16CoordFactory{in: in.Coord, logs: logs}
	var rnr v2.Runner = n.run
	if in.Reg != nil {
		// one runner per job, shared by Report and the observer of every instance (as the node wires it); it has an
		// encoder of its own (no gate, no call counting)
		n.reg = &c16Registry{}
		rn, err := v2runner.NewRunner(quietLogger, n.reg, &c16PlainEnc{}, in.Reg.Workers, in.Reg.Queue, 20*time.Minute, 30*time.Second)
		if err != nil {
			return nil, err
		}
		_ = rn.Start()
		n.rn, rnr = rn, rn
	}
	of := &c16ObsFactory{inner: &polling.PollingObserverFactory{Logger: quietLogger, Source: n.src, Heads: n.heads, Runner: rnr, Encoder: n.enc}, fail: n.obsFail}
	fac := v2.NewReportingPluginFactory(n.enc, rnr, n.cf, of, quietLogger)
	var digest ocr2types.ConfigDigest
	for i := 0; i < 8; i++ {
		digest[i] = byte(in.Digest >> (8 * i))
	}
	confOf := func(c c16Cfg) []byte {
		prob := ""
		if c.Prob != "" {
			prob = fmt.Sprintf(`,"targetProbability":%q`, c.Prob)
		}
		return []byte(fmt.Sprintf(`{"maxUpkeepBatchSize":%d,"gasLimitPerReport":%d,"gasOverheadPerUpkeep":%d,"reportBlockLag":%d,"performLockoutWindow":%d,"targetInRounds":%d,"samplingJobDuration":%d,"minConfirmations":%d,"mercuryLookup":%v%s}`,
			c.Batch, c.GasLimit, c.Overhead, c.Lag, c.Lockout, c.Rounds, c.Sampling, c.MinConfs, c.Mercury, prob))
	}
	pc := ocr2types.ReportingPluginConfig{ConfigDigest: digest, OracleID: 0, N: 4, F: 1}
	// the same factory serves every configuration of the job, one instance after the other
	for i, pr := range in.Prior {
		pc.OffchainConfig = confOf(pr.Cfg)
		if pr.Bad {
			pc.OffchainConfig = []byte(`{"maxUpkeepBatchSize":"many"}`)
		}
		old, _, err := fac.NewReportingPlugin(context.Background(), pc)
		if err == nil {
			synctest.Wait()
			if cerr := old.Close(); cerr != nil {
				n.closeRunner()
				return nil, fmt.Errorf("prior instance %d: close: %v", i, cerr)
			}
			synctest.Wait()
		}
		if (err != nil) != pr.Bad {
			n.closeRunner()
			return nil, fmt.Errorf("prior instance %d: undecodable config=%v but NewReportingPlugin err=%v", i, pr.Bad, err)
		}
	}
	pc.OffchainConfig = confOf(in.Cfg)
	p, info, err := fac.NewReportingPlugin(context.Background(), pc)
	if err != nil {
		n.closeRunner()
		return nil, err
	}
	if info.Limits.MaxObservationLength != v2.MaxObservationLength {
		_ = p.Close()
		n.closeRunner()
		return nil, fmt.Errorf("advertised MaxObservationLength %d", info.Limits.MaxObservationLength)
	}
	n.plugin, n.fac, n.pc = p, fac, pc
	n.ts = ocr2types.ReportTimestamp{ConfigDigest: digest, Epoch: in.Epoch, Round: in.Round}
	return n, nil
}

// c16Decode is the plugin's `decode` (json.NewDecoder(...).Decode into v2.Observation), run by the harness.
func c16Decode(raw []byte) c16Dec {
	var o v2.Observation
	if err := json.NewDecoder(bytes.NewReader(raw)).Decode(&o); err != nil {
		return c16Dec{}
	}
	d := c16Dec{OK: true, Block: string(o.BlockKey), Ids: []*string{}}
	for _, id := range o.UpkeepIdentifiers {
		if id == nil {
			d.Ids = append(d.Ids, nil)
		} else {
			s := hx(id)
			d.Ids = append(d.Ids, &s)
		}
	}
	return d
}

func c16ToRes(rs []c16Result) []c16Res {
	out := make([]c16Res, 0, len(rs))
	for _, r := range rs {
		out = append(out, c16Res{Seq: r.Seq, Key: r.Key, Eligible: r.Eligible, EligErr: r.EligErr, Gas: r.Gas, DetailErr: r.DetailErr})
	}
	return out
}

// c16Run executes one case on a factory-built plugin inside the caller's synctest bubble.
func c16Run(t *testing.T, in c16Input) (impl c16Impl) {
	impl = c16Impl{Decoded: []c16Dec{}, Checked: []string{}, Answered: []c16Res{}, Performed: []c16Res{}, Seen: []c16Seen{}, Points: []c16Point{}}
	node, err := c16NewNode(in)
	if err != nil {
		impl.Setup = "factory: " + err.Error()
		return impl
	}
	synctest.Wait()
	defer func() {
		if err := node.plugin.Close(); err != nil {
			impl.Setup += " close: " + err.Error()
		}
		synctest.Wait()
		node.closeRunner()
	}()
	ctx := context.Background()
	// coordinator state (real mode): accept keys as a finalized report would, let the log poller run
	if in.Coord.Kind == "real" && len(in.Coord.Accepted) > 0 {
		rep, _ := json.Marshal(in.Coord.Accepted)
		if _, err := node.plugin.ShouldAcceptFinalizedReport(ctx, node.ts, rep); err != nil {
			impl.Setup += " accept: " + err.Error()
		}
	}
	if in.Coord.Kind == "real" && len(in.Coord.Performs) > 0 {
		time.Sleep(1137 * time.Millisecond) // one poll of the coordinator's 1 s cadence, off the grid
		synctest.Wait()
	}
	node.cf.rec.take()

	if in.Mode == "obs" {
		accepted := []string{}
		var held [][]byte // what Observation() returned, kept as libocr keeps it until the round is over
		var lastKey string // block|id of the single id the latest observation listed ("" if none)
		observe := func(n int, phase string) {
			node.cf.rec.take()
			p := c16Point{N: n, Phase: phase, Accepted: append([]string{}, accepted...)}
			lastKey = ""
			held = append(held, nil)
			func() {
				defer func() {
					if r := recover(); r != nil {
						p.OutErr = "panic"
					}
				}()
				b, err := node.plugin.Observation(ctx, node.ts, nil)
				if err != nil {
					p.OutErr = "error"
				}
				p.Out = hx(b)
				p.OutDec = c16Decode(b)
				held[len(held)-1] = b
				if p.OutDec.OK && len(p.OutDec.Ids) == 1 && p.OutDec.Ids[0] != nil {
					k := p.OutDec.Block + "|" + string(unhx(*p.OutDec.Ids[0]))
					if _, _, err := (v2enc.BasicEncoder{}).SplitUpkeepKey(v2.UpkeepKey(k)); err == nil && utf8.ValidString(k) {
						lastKey = k
					}
				}
			}()
			p.Seen = append([]c16Seen{}, node.cf.rec.take()...)
			impl.Points = append(impl.Points, p)
		}
		setHead := func(hi int, hh c16Head, park chan struct{}, parked *atomic.Bool) {
			node.src.mu.Lock()
			node.src.n, node.src.err = hh.Active, hh.SrcErr
			node.src.mu.Unlock()
			if node.reg != nil {
				node.reg.setHead(hi, hh, park, parked)
				return
			}
			node.run.set(func([]string) ([]v2.UpkeepResult, error) {
				if park != nil {
					parked.Store(true)
					<-park // the RPC of this head is still pending
				}
				if hh.RunErr {
					return nil, errors.New("c16: check failure")
				}
				out := make([]v2.UpkeepResult, 0, len(hh.Results))
				for i, r := range hh.Results {
					out = append(out, c16Result{Seq: i, Key: r.Key, Eligible: r.Eligible, EligErr: r.EligErr, DetailErr: r.DetailErr})
				}
				return out, nil
			})
		}
		queued := false // head i was handed to the head channel while the RPC of head i-1 was pending
		for i, h := range in.Heads {
			wasQueued := queued
			queued = false
			var park chan struct{}
			parked := new(atomic.Bool)
			slow := h.SlowRun && !wasQueued
			if !wasQueued {
				if slow {
					park = make(chan struct{})
				}
				setHead(i, h, park, parked)
				if slow {
					node.enc.arm(0)
				} else {
					node.enc.arm(h.MidAt)
				}
				node.heads.ch <- v2.BlockKey(h.Block)
				synctest.Wait() // head processed completely, or the observer is parked (runner / gated Eligible call)
			}
			if slow && parked.Load() {
				observe(i, "parked")
				if i+1 < len(in.Heads) {
					next := in.Heads[i+1]
					setHead(i+1, next, nil, nil)
					go func() { node.heads.ch <- v2.BlockKey(next.Block) }() // the head ticker delivers the next head
					synctest.Wait()
					observe(i, "queued")
					queued = true
				}
				close(park)
				synctest.Wait() // the pending head finishes, then the queued one is sampled
				if queued {
					continue
				}
			} else if slow {
				close(park) // never reached: the head was abandoned before CheckUpkeep
			}
			node.enc.mu.Lock()
			reached, rel := node.enc.reached, node.enc.release
			node.enc.mu.Unlock()
			if reached {
				observe(i, "mid")
				if h.StallMs > 0 {
					time.Sleep(time.Duration(h.StallMs) * time.Millisecond) // the sampling window may run out meanwhile
				}
				close(rel)
				synctest.Wait()
			}
			node.enc.arm(0)
			time.Sleep(37 * time.Millisecond)
			if h.After {
				observe(i+1, "after")
				if h.AcceptAfter {
					var rep []byte
					switch h.AcceptKind {
					case "":
						if lastKey != "" {
							rep, _ = json.Marshal([]string{lastKey})
						}
					case "empty":
						rep = []byte{}
					case "garbage":
						rep = []byte("{not a report")
					case "nokeys":
						rep = []byte("[]")
					}
					if rep != nil {
						a := c16Accept{N: i + 1, Kind: h.AcceptKind}
						ok, err := node.plugin.ShouldAcceptFinalizedReport(ctx, node.ts, rep)
						a.Ok, a.Err = ok, err != nil
						ok, err = node.plugin.ShouldTransmitAcceptedReport(ctx, node.ts, rep)
						a.TxOk, a.TxErr = ok, err != nil
						impl.Accepts = append(impl.Accepts, a)
						if h.AcceptKind == "" {
							if !a.Ok || a.Err {
								impl.Setup += fmt.Sprintf(" accept %q: %v %v", lastKey, a.Ok, a.Err)
							}
							accepted = append(accepted, lastKey)
						}
					}
					observe(i+1, "after2")
				}
			}
		}
		observe(len(in.Heads), "final")
		if in.ObsFail {
			node.obsFail.Store(true)
			observe(len(in.Heads), "failing")
			node.obsFail.Store(false)
		}
		// another instance of the same factory in the same process (config change: libocr starts the successor)
		// encodes an observation of its own
		if succ, _, err := node.fac.NewReportingPlugin(ctx, node.pc); err != nil {
			impl.Setup += " successor: " + err.Error()
		} else {
			synctest.Wait()
			old := node.plugin
			node.plugin = succ
			observe(0, "successor")
			node.plugin = old
			if err := succ.Close(); err != nil {
				impl.Setup += " successor close: " + err.Error()
			}
			synctest.Wait()
		}
		for i := range impl.Points {
			impl.Points[i].OutEnd = hx(held[i])
		}
		if node.reg != nil {
			impl.Calls = node.reg.taken()
		}
		return impl
	}

	// report mode
	attributed := make([]ocr2types.AttributedObservation, 0, len(in.Obs))
	for i, o := range in.Obs {
		raw := unhx(o)
		impl.Decoded = append(impl.Decoded, c16Decode(raw))
		attributed = append(attributed, ocr2types.AttributedObservation{Observation: raw, Observer: commontypes.OracleID(i)})
	}
	var answered []c16Result
	answer := func(asked []string) ([]v2.UpkeepResult, error) {
		if in.Script.RunErr {
			return nil, errors.New("c16: check failure")
		}
		out := []v2.UpkeepResult{}
		for _, it := range in.Script.Items {
			var key string
			switch {
			case it.Pos == -1:
				key = it.Foreign
			case it.Pos >= 0 && it.Pos < len(asked):
				key = asked[it.Pos]
			default:
				continue
			}
			r := c16Result{Seq: len(out), Key: key, Eligible: it.Eligible, EligErr: it.EligErr, Gas: it.Gas, DetailErr: it.DetailErr}
			answered = append(answered, r)
			out = append(out, r)
		}
		if in.Script.NilRes && len(out) == 0 {
			return nil, nil
		}
		return out, nil
	}
	if node.reg != nil {
		node.reg.setReport(answer)
	} else {
		node.run.set(answer)
	}
	var (
		ok       bool
		rep      ocr2types.Report
		panicked bool
	)
	func() {
		defer func() {
			if r := recover(); r != nil {
				panicked = true // e.g. GetMedian: "unexpected not integer block value"
			}
		}()
		ok, rep, err = node.plugin.Report(ctx, node.ts, nil, attributed)
	}()
	impl.Seen = append(impl.Seen, node.cf.rec.take()...)
	node.run.mu.Lock()
	calls := node.run.calls
	node.run.mu.Unlock()
	if node.reg != nil {
		// at most ReportKeysLimit = 10 keys: one batch, i.e. one registry call with the keys CheckUpkeep was handed
		impl.Calls = node.reg.taken()
		calls = nil
		for _, c := range impl.Calls {
			calls = append(calls, c.Keys)
		}
	}
	if len(calls) > 1 {
		impl.Setup += " CheckUpkeep called more than once"
	}
	if len(calls) >= 1 {
		impl.Called = true
		impl.Checked = append(impl.Checked, calls[0]...)
	}
	impl.Answered = c16ToRes(answered)
	node.enc.mu.Lock()
	enc := node.enc.encoded
	node.enc.mu.Unlock()
	if len(enc) > 1 {
		impl.Setup += " EncodeReport called more than once"
	}
	if len(enc) >= 1 {
		impl.EncCalled = true
		impl.Performed = c16ToRes(enc[0])
	}
	switch {
	case panicked:
		impl.Status = "panic"
	case err == nil && ok:
		impl.Status = "report"
		// the report bytes are the encoder's: exactly the performed keys
		var keys []string
		if json.Unmarshal(rep, &keys) != nil || len(keys) != len(impl.Performed) {
			impl.Setup += " report bytes are not the encoder's output"
		}
	case err == nil:
		impl.Status = "noReport"
		if rep != nil {
			impl.Setup += " bytes without report"
		}
	case errors.Is(err, v2.ErrNotEnoughInputs):
		impl.Status = "errNotEnoughInputs"
	case errors.Is(err, v2.ErrTooManyErrors):
		impl.Status = "errTooManyErrors"
	case strings.Contains(err.Error(), "c16: check failure"), errors.Is(err, v2runner.ErrTooManyErrors):
		impl.Status = "errRunner"
	case strings.Contains(err.Error(), "unexpected number of upkeeps returned"):
		impl.Status = "errTooManyResults"
	case strings.Contains(err.Error(), "c16: encode failure"):
		impl.Status = "errEncode"
	default:
		impl.Status = "errOther"
	}
	if err != nil && ok {
		impl.Setup += " error with ok=true"
	}
	return impl
}

// ---------------------------------------------------------------- generators

var (
	c16Max64  = "18446744073709551615"
	c16Over64 = "18446744073709551616"
	c16Max256 = "115792089237316195423570985008687907853269984665640564039457584007913129639935"
	c16Ovr256 = "115792089237316195423570985008687907853269984665640564039457584007913129639936"
)

func c16Digits(r *Rng, n int) string {
	b := make([]byte, n)
	for i := range b {
		b[i] = byte('0' + r.Intn(10))
	}
	if b[0] == '0' && n > 1 {
		b[0] = byte('1' + r.Intn(9))
	}
	return string(b)
}

// c16Id: a valid upkeep identifier, lengths concentrated at 1, ~20, 77, 78 digits.
func c16Id(r *Rng) string {
	switch r.Intn(8) {
	case 0:
		return fmt.Sprintf("%d", r.Intn(10))
	case 1:
		return c16Max256
	case 2:
		return c16Digits(r, 77)
	case 3:
		return "1" + c16Digits(r, 77) // 78 digits, below 2^256
	case 4:
		return c16Digits(r, r.Range(18, 22))
	default:
		return c16Digits(r, r.Range(1, 40))
	}
}

var c16BadIds = []string{"", "007", "-7", "+7", "-0", " 7", "7 ", "1_0", "0x1f", "1e3", "７", "abc", "7|8", c16Ovr256, "\x00", "\xff\xfe"}
var c16BadBlocks = []string{"", "007", "-1", "+1", "-0", " 12", "12\n", "1_000", "0x10", "1e3", "１２", "twelve", "1|2", c16Over64,
	"99999999999999999999999999999999999999999999999999999999999999999999999999999999999999999999999999999", "<12>", "\"", " "}

func c16RawObs(block string, ids []string) []byte {
	o := v2.Observation{BlockKey: v2.BlockKey(block), UpkeepIdentifiers: []v2.UpkeepIdentifier{}}
	for _, id := range ids {
		o.UpkeepIdentifiers = append(o.UpkeepIdentifiers, v2.UpkeepIdentifier(id))
	}
	// the plugin's own `encode`: json.Encoder, i.e. with the trailing newline
	var buf bytes.Buffer
	_ = json.NewEncoder(&buf).Encode(o)
	return buf.Bytes()
}

// c16GenCfg: every off-chain config field takes default (zero / omitted) and non-default values.
func c16GenCfg(r *Rng) c16Cfg {
	c := c16GenLimits(r)
	if r.Chance(45) {
		c.Lag = []int{-3, 1, 2, 5, 100, 1000, 1 << 40}[r.Intn(7)]
	}
	if r.Chance(40) {
		c.Lockout = []int64{-5, 60_000, 1_200_000, 86_400_000}[r.Intn(4)]
	}
	if r.Chance(40) {
		// pairs whose sample ratio (n-f = 3) is at least 0.5: a non-empty registry gives a non-empty sample
		pr := []struct {
			p string
			r int
		}{{"0.99999", 1}, {"0.9", 1}, {"0.999", 0}, {"1", 3}, {"0.99999", 2}, {"0.999999", 3}, {"0.875", -1}}[r.Intn(7)]
		c.Prob, c.Rounds = pr.p, pr.r
	}
	if r.Chance(50) {
		c.Sampling = []int64{-1, 20, 50, 500, 3000, 10_000}[r.Intn(6)]
	}
	if r.Chance(35) {
		c.MinConfs = []int{-1, 1, 2}[r.Intn(3)]
	}
	c.Mercury = r.Chance(20)
	return c
}

func c16GenLimits(r *Rng) c16Cfg {
	var c c16Cfg
	c.Batch = []int{-1, 0, 1, 2, 2, 3, 3, 5, 10, 20}[r.Intn(10)]
	switch r.Intn(8) {
	case 0:
		c.GasLimit = 0 // default 5.3M
	case 1:
		c.GasLimit = uint32(r.Range(1, 3))
		if r.Bool() {
			c.Overhead = 1
			return c
		}
	case 2:
		c.GasLimit = 1<<32 - 1
	case 3:
		c.GasLimit = uint32(r.Range(1000, 100000))
	default:
		c.GasLimit = 5_300_000
	}
	switch r.Intn(9) {
	case 0:
		c.Overhead = 0 // default 300k
	case 1:
		c.Overhead = 1
	case 2:
		c.Overhead = 1 << 31
	case 3:
		c.Overhead = 1<<32 - 1
	case 4:
		c.Overhead = uint32(r.Range(1, 500))
	default:
		c.Overhead = 300_000
	}
	return c
}

// c16GenPrior: configurations the same factory served before; often looser than the one under test, so
// that limits carried over from an earlier instance would show.
func c16GenPrior(r *Rng, em *Emitter) []c16Prior {
	if r.Chance(50) {
		return nil
	}
	em.Hit("factory-reused")
	var out []c16Prior
	for n := r.Range(1, 2); n > 0; n-- {
		switch r.Intn(5) {
		case 0, 1:
			out = append(out, c16Prior{Cfg: c16Cfg{Batch: 20, GasLimit: 1<<32 - 1, Overhead: 1}})
		case 2:
			em.Hit("prior=undecodable-config")
			out = append(out, c16Prior{Bad: true})
		default:
			out = append(out, c16Prior{Cfg: c16GenCfg(r)})
		}
	}
	return out
}

func c16Eff(c c16Cfg) (batch int, limit, overhead uint64) {
	batch, limit, overhead = c.Batch, uint64(c.GasLimit), uint64(c.Overhead)
	if batch <= 0 {
		batch = 1
	}
	if limit == 0 {
		limit = 5_300_000
	}
	if overhead == 0 {
		overhead = 300_000
	}
	return
}

// c16GenGas: gas values at the decision boundaries of the report loop, incl. near 2^32.
func c16GenGas(r *Rng, c c16Cfg, em *Emitter) uint32 {
	_, limit, ov := c16Eff(c)
	clamp := func(x uint64) uint32 {
		if x > 1<<32-1 {
			return 1<<32 - 1
		}
		return uint32(x)
	}
	switch r.Intn(16) {
	case 0:
		em.Hit("gas=2^32-1")
		return 1<<32 - 1
	case 1: // gas + overhead wraps to a small number in 32 bits
		em.Hit("gas=wraps32")
		return uint32((1<<32 - ov + uint64(r.Intn(5))) & 0xffffffff)
	case 2: // exactly fills the report alone
		if limit >= ov {
			em.Hit("gas=fill")
			return clamp(limit - ov)
		}
		return 0
	case 3:
		if limit >= ov {
			em.Hit("gas=fill+1")
			return clamp(limit - ov + 1)
		}
		return 1
	case 4:
		return 0
	case 5: // half: two fit, a third does not
		if limit >= 2*ov {
			em.Hit("gas=half")
			return clamp((limit - 2*ov) / 2)
		}
		return 1
	case 6:
		em.Hit("gas=2^31")
		return 1 << 31
	default:
		d := limit / uint64(r.Range(1, 6))
		if d == 0 {
			d = 1
		}
		return clamp(r.U64() % d)
	}
}

func c16GenScript(r *Rng, c c16Cfg, em *Emitter) c16Script {
	var s c16Script
	mode := r.Intn(20)
	switch mode {
	case 0:
		em.Hit("script=runErr")
		s.RunErr = true
		return s
	case 1:
		em.Hit("script=empty")
		s.NilRes = r.Bool()
		return s
	}
	s.EncErr = r.Chance(3)
	order := r.Perm(10)
	if r.Chance(60) {
		for i := range order {
			order[i] = i
		}
	}
	for _, pos := range order {
		if r.Chance(8) {
			continue // the check dropped this key
		}
		it := c16Item{Pos: pos, Eligible: r.Chance(72), EligErr: r.Chance(8), DetailErr: r.Chance(5), Gas: c16GenGas(r, c, em)}
		s.Items = append(s.Items, it)
	}
	switch mode {
	case 2: // more results than keys
		em.Hit("script=tooMany")
		for i := 0; i < 11; i++ {
			s.Items = append(s.Items, c16Item{Pos: 0, Eligible: true, Gas: 1})
		}
	case 3: // same key answered twice
		em.Hit("script=dupResult")
		if len(s.Items) > 0 {
			s.Items = append(s.Items, s.Items[0])
		}
	case 4:
		em.Hit("script=foreign")
		s.Items = append([]c16Item{{Pos: -1, Foreign: "5|4242", Eligible: true, Gas: 1}}, s.Items...)
	}
	return s
}

func c16GenCoord(r *Rng, ids []string, blocks []string, em *Emitter) c16Coord {
	var c c16Coord
	if r.Chance(35) {
		c.Kind = "real"
		em.Hit("coord=real")
		for _, id := range ids {
			if r.Chance(30) {
				b := "1"
				if len(blocks) > 0 {
					b = blocks[r.Intn(len(blocks))]
				}
				key := b + "|" + id
				c.Accepted = append(c.Accepted, key)
				if r.Chance(35) { // a perform log unblocks the id above the transmit block
					bi, _ := new(big.Int).SetString(b, 10)
					tb := new(big.Int).Add(bi, big.NewInt(int64(r.Range(-2, 3))))
					if tb.Sign() < 0 {
						tb.SetInt64(0)
					}
					c.Performs = append(c.Performs, c16Perform{Key: key, TBlock: tb.String(), Conf: int64(r.Range(0, 2))})
				}
			}
		}
		return c
	}
	c.Kind = "fake"
	em.Hit("coord=fake")
	for _, id := range ids {
		switch {
		case r.Chance(20):
			c.PendIds = append(c.PendIds, id)
		case r.Chance(6):
			c.ErrIds = append(c.ErrIds, id)
		}
	}
	return c
}

// c16GenMover: a few valid observations with distinct neighbouring blocks plus decodable-but-INVALID ones
// (bad / out-of-range / non-numeric block key, or a legal far-away block with a bad id) placed so that
// counting them would move the median (or make GetMedian panic).
func c16GenMover(r *Rng, em *Emitter) c16Input {
	in := c16Input{Mode: "report", Prior: c16GenPrior(r, em), Cfg: c16GenCfg(r), Epoch: uint32(r.Intn(1000)), Round: uint8(r.Intn(256)), Digest: r.U64()}
	base := 1000 + r.U64()%(1<<40)
	nv := r.Range(1, 5)
	pool := []string{c16Id(r), c16Id(r), c16Id(r)}
	var raws [][]byte
	var blocks []string
	for i := 0; i < nv; i++ {
		b := fmt.Sprintf("%d", base+uint64(i))
		blocks = append(blocks, b)
		ids := []string{pool[r.Intn(len(pool))]}
		if r.Chance(15) {
			ids = append(ids, pool[r.Intn(len(pool))], "77") // oversized but valid
		}
		raws = append(raws, c16RawObs(b, ids))
	}
	ni := r.Range(1, 3)
	low := r.Bool() // all invalid ones on the same side, so that they would shift the median
	for i := 0; i < ni; i++ {
		id := pool[r.Intn(len(pool))]
		bad := c16BadIds[r.Intn(len(c16BadIds))]
		var raw []byte
		switch r.Intn(8) {
		case 0:
			em.Hit("mover=legal-block-bad-id")
			b := fmt.Sprintf("%d", base-uint64(r.Range(1, 900)))
			if !low {
				b = fmt.Sprintf("%d", base+uint64(r.Range(10, 900)))
			}
			raw = c16RawObs(b, []string{bad})
		case 1:
			em.Hit("mover=legal-block-bad-later-id")
			b := "0"
			if !low {
				b = c16Max64
			}
			raw = c16RawObs(b, []string{id, bad})
		case 2:
			em.Hit("mover=block-2^64")
			raw = c16RawObs(c16Over64, []string{id})
		case 3:
			em.Hit("mover=block-negative")
			raw = c16RawObs(fmt.Sprintf("-%d", r.Range(0, 5)), []string{id})
		case 4:
			em.Hit("mover=block-noncanonical")
			raw = c16RawObs([]string{"007", "+5", "00", fmt.Sprintf("0%d", base+5000)}[r.Intn(4)], []string{id})
		case 5:
			em.Hit("mover=block-not-a-number")
			raw = c16RawObs([]string{"latest", "", "0x10", "1e3", " 12"}[r.Intn(5)], []string{id})
		case 6:
			em.Hit("mover=no-block")
			raw = []byte([]string{"{}", `{"2":["Nw=="]}`, `{"1":"","2":[]}`}[r.Intn(3)])
		default:
			em.Hit("mover=huge-block")
			raw = c16RawObs(strings.Repeat("9", r.Range(21, 60)), []string{id})
		}
		raws = append(raws, raw)
	}
	for _, i := range r.Perm(len(raws)) {
		in.Obs = append(in.Obs, hx(raws[i]))
	}
	in.Coord = c16GenCoord(r, pool, blocks, em)
	in.Script = c16GenScript(r, in.Cfg, em)
	return in
}

func c16GenReport(r *Rng, em *Emitter) c16Input {
	if r.Chance(20) {
		em.Hit("report=median-mover")
		return c16GenMover(r, em)
	}
	in := c16Input{Mode: "report", Prior: c16GenPrior(r, em), Cfg: c16GenCfg(r), Epoch: uint32(r.Intn(1000)), Round: uint8(r.Intn(256)), Digest: r.U64()}
	n := []int{1, 2, 3, 4, 4, 5, 7, 7, 10, 13, 16, 31}[r.Intn(12)]
	if r.Chance(2) {
		n = 0
	}
	em.Hit(fmt.Sprintf("nobs=%d", c16Bucket(n)))
	// base block and id pool
	var base *big.Int
	switch r.Intn(6) {
	case 0:
		base = big.NewInt(int64(r.Intn(4)))
	case 1:
		base, _ = new(big.Int).SetString(c16Max64, 10)
		base.Sub(base, big.NewInt(int64(r.Intn(4))))
	default:
		base = new(big.Int).SetUint64(r.U64() % (1 << 40))
	}
	pool := make([]string, r.Range(1, n+3))
	for i := range pool {
		pool[i] = c16Id(r)
	}
	distinct := false
	switch {
	case r.Chance(30) && len(pool) > 2: // many observers propose the same upkeep
		pool = pool[:2]
	case r.Chance(40): // every observer proposes its own upkeep
		distinct = true
		for len(pool) < n {
			pool = append(pool, c16Id(r))
		}
	}
	var validBlocks []string
	max64, _ := new(big.Int).SetString(c16Max64, 10)
	for i := 0; i < n; i++ {
		kind := r.Intn(100)
		b := new(big.Int).Add(base, big.NewInt(int64(r.Range(-3, 3))))
		if b.Sign() < 0 {
			b.SetInt64(0)
		}
		if b.Cmp(max64) > 0 {
			b.Set(max64)
		}
		block := b.String()
		// ids of this observation
		var ids []string
		switch r.Intn(10) {
		case 0:
			em.Hit("ids=0")
		case 1:
			em.Hit("ids=oversized")
			for j := r.Range(2, 5); j > 0; j-- {
				ids = append(ids, pool[r.Intn(len(pool))])
			}
			if r.Chance(20) {
				for j := 0; j < 200; j++ {
					ids = append(ids, fmt.Sprintf("%d", 1000+j))
				}
			}
		default:
			ids = []string{pool[r.Intn(len(pool))]}
			if distinct {
				ids[0] = pool[i]
			}
		}
		var raw []byte
		switch {
		case kind < 62:
			em.Hit("obs=valid")
			validBlocks = append(validBlocks, block)
			raw = c16RawObs(block, ids)
			if r.Chance(15) {
				raw = bytes.TrimRight(raw, "\n") // json.Marshal form
			}
		case kind < 68: // faulty but valid extreme block
			em.Hit("obs=valid-extreme-block")
			block = []string{"0", c16Max64, "1", new(big.Int).Add(base, big.NewInt(1_000_000)).String()}[r.Intn(4)]
			if bi, _ := new(big.Int).SetString(block, 10); bi.Cmp(max64) > 0 {
				block = c16Max64
			}
			validBlocks = append(validBlocks, block)
			raw = c16RawObs(block, ids)
		case kind < 76:
			em.Hit("obs=bad-block")
			raw = c16RawObs(c16BadBlocks[r.Intn(len(c16BadBlocks))], ids)
		case kind < 83:
			em.Hit("obs=bad-id")
			bad := c16BadIds[r.Intn(len(c16BadIds))]
			if r.Bool() || len(ids) == 0 {
				ids = append(ids, bad) // valid first id, invalid later one: whole observation dropped
			} else {
				ids[0] = bad
			}
			raw = c16RawObs(block, ids)
		case kind < 87:
			em.Hit("obs=truncated")
			raw = c16RawObs(block, ids)
			raw = raw[:r.Intn(len(raw))]
		case kind < 90:
			em.Hit("obs=garbage")
			raw = r.Bytes(r.Intn(40))
		case kind < 93:
			em.Hit("obs=wrong-type")
			raw = []byte([]string{`null`, `[]`, `{}`, `{"1":5,"2":[]}`, `{"1":"5","2":"x"}`, `{"1":"5","2":[7]}`, `"5"`, `{"1":"5","2":["!!"]}`, ``, `{"2":["Nw=="]}`}[r.Intn(10)])
		case kind < 97: // accepted by encoding/json although not canonical
			em.Hit("obs=noncanonical-json")
			canon := strings.TrimRight(string(c16RawObs(block, ids)), "\n")
			raw = []byte([]string{
				canon + "trailing garbage",
				" \n" + canon,
				strings.Replace(canon, `{"1":`, `{"9":true,"1":`, 1),
				strings.Replace(canon, `{"1":`, `{"1":"77","1":`, 1),
				strings.Replace(canon, `"2":`, `"2" : `, 1),
			}[r.Intn(5)])
			validBlocks = append(validBlocks, block)
		default:
			em.Hit("obs=null-ids")
			raw = []byte(fmt.Sprintf(`{"1":%q,"2":null}`, block))
			validBlocks = append(validBlocks, block)
		}
		in.Obs = append(in.Obs, hx(raw))
	}
	in.Coord = c16GenCoord(r, pool, validBlocks, em)
	in.Script = c16GenScript(r, in.Cfg, em)
	if r.Chance(20) { // the report-time check goes through the repository's runner to a scripted registry
		em.Hit("report=registry-level")
		in.Reg = c16GenReg(r)
	}
	if r.Chance(8) { // the validator refuses one of the values in use without an error
		em.Hit("report=validator-refuses")
		if r.Bool() && len(validBlocks) > 0 {
			in.Deny = []string{validBlocks[r.Intn(len(validBlocks))]}
		} else {
			in.Deny = []string{pool[r.Intn(len(pool))]}
		}
	}
	return in
}

// c16GenObsShift: consecutive heads over one small pool of upkeeps whose eligible set shrinks, shifts or is
// reordered from head to head; Observation() is called after each head and WHILE the next one is sampled.
func c16GenObsShift(r *Rng, em *Emitter) c16Input {
	in := c16Input{Mode: "obs", Prior: c16GenPrior(r, em), Cfg: c16GenCfg(r), Epoch: uint32(r.Intn(1000)), Round: uint8(r.Intn(256)), Digest: r.U64()}
	np := r.Range(2, 5)
	pool := make([]string, np)
	for i := range pool {
		pool[i] = c16Id(r)
	}
	nh := r.Range(2, 4)
	base := r.U64() % (1 << 40)
	prev := make([]bool, np) // eligibility at the previous head
	for i := range prev {
		prev[i] = r.Chance(60)
	}
	var blocks []string
	for hi := 0; hi < nh; hi++ {
		h := c16Head{Block: fmt.Sprintf("%d", base+uint64(hi)), Active: np, After: r.Chance(70)}
		h.AcceptAfter = h.After && r.Chance(50)
		blocks = append(blocks, h.Block)
		cur := make([]bool, np)
		kind := r.Intn(5)
		if hi == 0 {
			kind = 3
		}
		switch kind {
		case 4: // everything vanished: the check answers with no result at all
			em.Hit("shift=vanish")
		case 0: // shrinking: some of the previously eligible upkeeps were performed
			em.Hit("shift=shrink")
			for i := range cur {
				cur[i] = prev[i] && r.Chance(50)
			}
		case 1: // shifting: the previously eligible ones are done, others became eligible
			em.Hit("shift=shift")
			for i := range cur {
				cur[i] = !prev[i]
			}
		case 2: // same set, results in another order
			em.Hit("shift=reorder")
			copy(cur, prev)
		default:
			copy(cur, prev)
			if hi > 0 {
				for i := range cur {
					cur[i] = r.Chance(50)
				}
			}
		}
		order := r.Perm(np)
		if r.Chance(40) { // eligible results first: the first staged id lands on slot 0 of the list in use
			var a, b []int
			for _, i := range order {
				if cur[i] {
					a = append(a, i)
				} else {
					b = append(b, i)
				}
			}
			order = append(a, b...)
		}
		for _, i := range order {
			if kind == 4 {
				break
			}
			h.Results = append(h.Results, c16HeadRes{Key: h.Block + "|" + pool[i], Eligible: cur[i]})
		}
		if hi > 0 && r.Chance(85) {
			h.MidAt = r.Range(1, np+1) // np+1: beyond the last result, never reached
			em.Hit("mid-observe")
		}
		if hi < nh-1 && h.MidAt == 0 && r.Chance(50) {
			h.MidAt = r.Range(1, np)
		}
		if h.MidAt > 0 {
			switch w := c16Window(in.Cfg); r.Intn(4) {
			case 0: // the sampling window runs out while the results are being staged
				h.StallMs = w + int64(r.Range(3, 40))
				em.Hit("stall>window")
			case 1:
				h.StallMs = w - int64(r.Range(3, 15))
				em.Hit("stall<window")
			case 2:
				h.StallMs = int64(r.Range(1, 10))
			}
		}
		if r.Chance(5) {
			h.RunErr = true
		}
		if r.Chance(25) { // slow RPC: the next head arrives while this one is still being checked
			h.SlowRun = true
			em.Hit("slow-run")
		}
		in.Heads = append(in.Heads, h)
		if !h.RunErr {
			prev = cur
		}
	}
	in.Coord = c16GenCoord(r, pool, blocks, em)
	return in
}

func c16GenObs(r *Rng, em *Emitter) c16Input {
	in := c16GenObs0(r, em)
	for i := range in.Heads {
		if in.Heads[i].AcceptAfter && r.Chance(25) { // a report the plugin must refuse instead of the observed key's
			in.Heads[i].AcceptKind = []string{"empty", "garbage", "nokeys"}[r.Intn(3)]
			em.Hit("accept=" + in.Heads[i].AcceptKind)
		}
	}
	if r.Chance(10) {
		in.ObsFail = true
		em.Hit("observer-fails-once")
	}
	return in
}

func c16GenObs0(r *Rng, em *Emitter) c16Input {
	if r.Chance(30) {
		em.Hit("obs=registry-level")
		return c16GenObsReg(r, em)
	}
	if r.Chance(50) {
		em.Hit("obs=shifting-heads")
		return c16GenObsShift(r, em)
	}
	in := c16Input{Mode: "obs", Prior: c16GenPrior(r, em), Cfg: c16GenCfg(r), Epoch: uint32(r.Intn(1000)), Round: uint8(r.Intn(256)), Digest: r.U64()}
	nh := r.Range(0, 3)
	em.Hit(fmt.Sprintf("heads=%d", nh))
	var ids []string
	var blocks []string
	for i := 0; i < nh; i++ {
		h := c16Head{Active: r.Range(0, 6), SrcErr: r.Chance(7), RunErr: r.Chance(7)}
		switch r.Intn(12) {
		case 0:
			em.Hit("head=odd-block")
			h.Block = c16BadBlocks[r.Intn(len(c16BadBlocks))]
		case 1:
			h.Block = c16Max64
		case 2:
			em.Hit("head=huge-block")
			h.Block = strings.Repeat("9", r.Range(850, 1100))
		default:
			h.Block = fmt.Sprintf("%d", r.U64()%(1<<40))
			blocks = append(blocks, h.Block)
		}
		nr := r.Range(0, 5)
		for j := 0; j < nr; j++ {
			id := c16Id(r)
			key := h.Block + "|" + id
			switch r.Intn(25) {
			case 0:
				em.Hit("res=unsplittable-key")
				key = []string{"", "nokey", "1|2|3", "|"}[r.Intn(4)]
			case 1:
				em.Hit("res=huge-id")
				id = strings.Repeat("7", r.Range(600, 900))
				key = h.Block + "|" + id
			case 2:
				em.Hit("res=odd-id")
				id = c16BadIds[r.Intn(len(c16BadIds)-2)] // the valid-UTF-8 ones
				if strings.Contains(id, "|") {
					id = "x"
				}
				key = h.Block + "|" + id
			}
			ids = append(ids, id)
			h.Results = append(h.Results, c16HeadRes{Key: key, Eligible: r.Chance(75), EligErr: r.Chance(8), DetailErr: r.Chance(6)})
		}
		if r.Chance(40) {
			h.MidAt = r.Range(1, nr+1)
			em.Hit("mid-observe")
			if r.Chance(40) {
				h.StallMs = c16Window(in.Cfg) + int64(r.Range(-15, 40))
				em.Hit("stall~window")
			}
		}
		h.After = r.Chance(40)
		h.AcceptAfter = h.After && r.Chance(50)
		if r.Chance(15) {
			h.SlowRun = true
			em.Hit("slow-run")
		}
		in.Heads = append(in.Heads, h)
	}
	in.Coord = c16GenCoord(r, ids, blocks, em)
	return in
}

func c16Bucket(n int) int {
	switch {
	case n <= 5:
		return n
	case n <= 10:
		return 10
	case n <= 16:
		return 16
	}
	return 31
}

// c16Edge: hand-written cases, run before the generated ones.
func c16Edge() []c16Input {
	obs := func(block string, ids ...string) string { return hx(c16RawObs(block, ids)) }
	all := func(n int, it c16Item) []c16Item {
		out := make([]c16Item, n)
		for i := range out {
			out[i] = it
			out[i].Pos = i
		}
		return out
	}
	fake := c16Coord{Kind: "fake"}
	def := c16Cfg{Batch: 1, GasLimit: 5_300_000, Overhead: 300_000}
	var out []c16Input
	// the defect repaired by "fix: v2 report: skip upkeeps …": key 10|7 found ineligible at report time
	out = append(out, c16Input{Mode: "report", Cfg: def, Coord: fake, Obs: []string{obs("10", "7"), obs("10", "7"), obs("10", "7")},
		Script: c16Script{Items: all(1, c16Item{Eligible: false, Gas: 100000})}})
	// the defect repaired by "fix: v2 report: compute report gas in 64 bits": gas + overhead wraps to 5 in uint32
	out = append(out, c16Input{Mode: "report", Cfg: def, Coord: fake, Obs: []string{obs("10", "7"), obs("11", "7"), obs("12", "7")},
		Script: c16Script{Items: all(1, c16Item{Eligible: true, Gas: 4294667301})}})
	// running total: two fit exactly, the third is one over; batch 10
	out = append(out, c16Input{Mode: "report", Cfg: c16Cfg{Batch: 10, GasLimit: 1000, Overhead: 100}, Coord: fake,
		Obs: []string{obs("5", "1"), obs("5", "2"), obs("5", "3"), obs("5", "4")},
		Script: c16Script{Items: []c16Item{{Pos: 0, Eligible: true, Gas: 400}, {Pos: 1, Eligible: true, Gas: 301}, {Pos: 2, Eligible: true, Gas: 300}, {Pos: 3, Eligible: true, Gas: 0}}}})
	// eligibility errors with ok=true and ok=false, detail error
	out = append(out, c16Input{Mode: "report", Cfg: c16Cfg{Batch: 10, GasLimit: 5_300_000, Overhead: 1}, Coord: fake,
		Obs: []string{obs("5", "1"), obs("5", "2"), obs("5", "3"), obs("5", "4")},
		Script: c16Script{Items: []c16Item{{Pos: 0, Eligible: true, EligErr: true, Gas: 1}, {Pos: 1, Eligible: false, EligErr: true, Gas: 1}, {Pos: 2, Eligible: true, DetailErr: true, Gas: 1}, {Pos: 3, Eligible: true, Gas: 1}}}})
	// extreme / non-canonical block strings, median of the valid ones only (even count: upper median)
	out = append(out, c16Input{Mode: "report", Cfg: def, Coord: fake,
		Obs: []string{obs("007", "1"), obs("-1", "2"), obs("", "3"), obs(c16Over64, "4"), obs(c16Max64, "5"), obs("0", "6"), obs("100", "7"), obs("101", "8")},
		Script: c16Script{Items: all(10, c16Item{Eligible: true, Gas: 1})}})
	// 31 observers, 31 distinct ids: only ten keys are checked; default config through zero values
	var many []string
	for i := 0; i < 31; i++ {
		many = append(many, obs(fmt.Sprintf("%d", 1000+i%3), fmt.Sprintf("%d", 500+i)))
	}
	out = append(out, c16Input{Mode: "report", Cfg: c16Cfg{Batch: 20, GasLimit: 0, Overhead: 0}, Coord: fake, Obs: many,
		Script: c16Script{Items: all(12, c16Item{Eligible: true, Gas: 100_000})}})
	// oversized id list (200 ids), duplicate ids across observers, one pending, one lookup error
	var big200 []string
	for i := 0; i < 200; i++ {
		big200 = append(big200, fmt.Sprintf("%d", i+1))
	}
	out = append(out, c16Input{Mode: "report", Cfg: c16Cfg{Batch: 5, GasLimit: 5_300_000, Overhead: 300_000},
		Coord: c16Coord{Kind: "fake", PendIds: []string{"9"}, ErrIds: []string{"8"}},
		Obs:   []string{obs("20", big200...), obs("21", "1"), obs("22", "9"), obs("23", "8"), obs("24", c16Max256), obs("24", c16Ovr256)},
		Script: c16Script{Items: all(10, c16Item{Eligible: true, Gas: 700_000})}})
	// real coordinator: 7 accepted (in flight), 8 accepted and performed at block 21 (free above it)
	out = append(out, c16Input{Mode: "report", Cfg: c16Cfg{Batch: 5, GasLimit: 5_300_000, Overhead: 300_000},
		Coord: c16Coord{Kind: "real", Accepted: []string{"20|7", "20|8"}, Performs: []c16Perform{{Key: "20|8", TBlock: "21", Conf: 1}}},
		Obs:   []string{obs("22", "7"), obs("23", "8"), obs("24", "9")},
		Script: c16Script{Items: all(10, c16Item{Eligible: true, Gas: 1})}})
	// no observation; all undecodable; runner error; too many results; encoder error
	out = append(out, c16Input{Mode: "report", Cfg: def, Coord: fake})
	out = append(out, c16Input{Mode: "report", Cfg: def, Coord: fake, Obs: []string{hx([]byte("{")), hx(nil), obs("x", "1")}})
	out = append(out, c16Input{Mode: "report", Cfg: def, Coord: fake, Obs: []string{obs("1", "1")}, Script: c16Script{RunErr: true}})
	out = append(out, c16Input{Mode: "report", Cfg: def, Coord: fake, Obs: []string{obs("1", "1")},
		Script: c16Script{Items: []c16Item{{Pos: 0, Eligible: true}, {Pos: 0, Eligible: true}}}})
	out = append(out, c16Input{Mode: "report", Cfg: def, Coord: fake, Obs: []string{obs("1", "1")},
		Script: c16Script{EncErr: true, Items: all(1, c16Item{Eligible: true, Gas: 1})}})
	// one factory, configuration tightened: batch 5 / 10M gas, then batch 2 / 1.5M gas, then batch 5 / 700k gas
	{
		loose := c16Cfg{Batch: 5, GasLimit: 10_000_000, Overhead: 100_000}
		five := []string{obs("50", "1"), obs("50", "2"), obs("50", "3"), obs("50", "4"), obs("50", "5")}
		sc := c16Script{Items: all(5, c16Item{Eligible: true, Gas: 500_000})}
		out = append(out, c16Input{Mode: "report", Prior: []c16Prior{{Cfg: loose}}, Cfg: c16Cfg{Batch: 2, GasLimit: 1_500_000, Overhead: 100_000}, Coord: fake, Obs: five, Script: sc})
		out = append(out, c16Input{Mode: "report", Prior: []c16Prior{{Cfg: loose}, {Cfg: c16Cfg{Batch: 2, GasLimit: 1_500_000, Overhead: 100_000}}}, Cfg: c16Cfg{Batch: 5, GasLimit: 700_000, Overhead: 100_000}, Coord: fake, Obs: five, Script: sc})
		out = append(out, c16Input{Mode: "report", Prior: []c16Prior{{Bad: true}}, Cfg: c16Cfg{Batch: 2, GasLimit: 1_500_000, Overhead: 100_000}, Coord: fake, Obs: five, Script: sc})
		out = append(out, c16Input{Mode: "report", Prior: []c16Prior{{Cfg: c16Cfg{Batch: 1, GasLimit: 700_000, Overhead: 100_000}}}, Cfg: loose, Coord: fake, Obs: five, Script: sc})
	}
	// a configured reportBlockLag is not subtracted from the median (valid blocks 1,100,101,102 -> 101)
	for _, lag := range []int{5, 1000} {
		cfg := def
		cfg.Lag = lag
		out = append(out, c16Input{Mode: "report", Cfg: cfg, Coord: fake, Obs: []string{obs("1", "7"), obs("100", "7"), obs("101", "7"), obs("102", "7")},
			Script: c16Script{Items: all(1, c16Item{Eligible: true, Gas: 1})}})
	}
	// decodable but invalid observations must not take part in the median (valid blocks 100,101[,102] -> 101)
	one := c16Script{Items: all(1, c16Item{Eligible: true, Gas: 1})}
	out = append(out, c16Input{Mode: "report", Cfg: def, Coord: fake, Script: one, Obs: []string{obs("100", "7"), obs("101", "7"), obs("-1", "7")}})
	out = append(out, c16Input{Mode: "report", Cfg: def, Coord: fake, Script: one, Obs: []string{obs("100", "7"), obs("101", "7"), obs("5", "-1")}})
	out = append(out, c16Input{Mode: "report", Cfg: def, Coord: fake, Script: one, Obs: []string{obs("100", "7"), obs("101", "7"), obs("102", "7"), obs(c16Over64, "7")}})
	out = append(out, c16Input{Mode: "report", Cfg: def, Coord: fake, Script: one, Obs: []string{obs("100", "7"), obs("101", "7"), obs("102", "7"), hx([]byte("{}"))}})
	out = append(out, c16Input{Mode: "report", Cfg: def, Coord: fake, Script: one, Obs: []string{obs("100", "7"), obs("101", "7"), obs("102", "7"), obs("latest", "7")}})
	// observation side
	hd := func(block string, rs ...c16HeadRes) c16Head { return c16Head{Block: block, Active: 3, Results: rs} }
	el := func(key string) c16HeadRes { return c16HeadRes{Key: key, Eligible: true} }
	out = append(out, c16Input{Mode: "obs", Cfg: def, Coord: fake}) // nothing sampled yet
	// the eligible set shifts between two heads; Observation() while the second one is being sampled
	for k := 1; k <= 4; k++ {
		h1 := hd("100", el("100|1"), el("100|2"), c16HeadRes{Key: "100|3"})
		h1.After = true
		h2 := hd("101", el("101|3"), c16HeadRes{Key: "101|1"}, c16HeadRes{Key: "101|2"})
		h2.MidAt, h2.After = k, true
		out = append(out, c16Input{Mode: "obs", Cfg: def, Coord: fake, Heads: []c16Head{h1, h2}})
	}
	// the RPC of head 100 (1,2 eligible) is still pending when head 101 (only 3 eligible) arrives
	{
		h1 := hd("100", el("100|1"), el("100|2"), c16HeadRes{Key: "100|3"})
		h1.SlowRun = true
		h2 := hd("101", c16HeadRes{Key: "101|1"}, c16HeadRes{Key: "101|2"}, el("101|3"))
		h2.After = true
		out = append(out, c16Input{Mode: "obs", Cfg: def, Coord: fake, Heads: []c16Head{h1, h2}})
		h0 := hd("99", el("99|9"))
		h3 := hd("102", el("102|1"))
		h3.SlowRun, h3.After = true, true
		out = append(out, c16Input{Mode: "obs", Cfg: def, Coord: fake, Heads: []c16Head{h0, h1, h2, h3}})
	}
	for _, w := range []int64{0, 20} {
		cfg := def
		cfg.Sampling = w
		h1 := hd("100", el("100|1"), el("100|2"), el("100|3"))
		h1.MidAt, h1.StallMs, h1.After = 2, c16Window(cfg)+5, true
		h2 := hd("101", c16HeadRes{Key: "101|1"}, c16HeadRes{Key: "101|2"}, c16HeadRes{Key: "101|3"})
		h2.After = true
		h3 := hd("102", el("102|3"))
		out = append(out, c16Input{Mode: "obs", Cfg: cfg, Coord: fake, Heads: []c16Head{h1, h2, h3}})
	}
	// blocks and ids of different lengths over several rounds: bytes returned earlier must stay as they were
	{
		h1 := hd("99", el("99|7"))
		h1.After = true
		h2 := hd("100", el("100|"+c16Max256))
		h2.After, h2.MidAt = true, 1
		h3 := hd("101")
		h3.After = true
		h4 := hd("1000000", el("1000000|8"))
		h4.After = true
		out = append(out, c16Input{Mode: "obs", Cfg: def, Coord: fake, Heads: []c16Head{h1, h2, h3, h4}})
	}
	for _, kind := range []string{"fake", "real"} {
		h1 := hd("100", el("100|5"), el("100|6"))
		h1.After, h1.AcceptAfter = true, true
		h2 := hd("101", el("101|5"), el("101|6"))
		h2.After, h2.AcceptAfter = true, true
		out = append(out, c16Input{Mode: "obs", Cfg: def, Coord: c16Coord{Kind: kind}, Heads: []c16Head{h1, h2}})
	}
	{
		h1 := hd("100", el("100|1"))
		h2 := hd("101", c16HeadRes{Key: "101|1"}, el("101|3"), el("101|4"))
		h2.MidAt = 3
		h3 := hd("102", el("102|1"), c16HeadRes{Key: "102|3"})
		h3.MidAt = 2
		out = append(out, c16Input{Mode: "obs", Cfg: def, Coord: fake, Heads: []c16Head{h1, h2, h3}})
	}
	out = append(out, c16Input{Mode: "obs", Cfg: def, Coord: c16Coord{Kind: "fake", PendIds: []string{"7"}},
		Heads: []c16Head{hd("10", el("10|5")), hd("11", el("11|7"), c16HeadRes{Key: "11|8"}, el("11|"+c16Max256), c16HeadRes{Key: "11|9", Eligible: true, EligErr: true})}})
	out = append(out, c16Input{Mode: "obs", Cfg: def, Coord: c16Coord{Kind: "real", Accepted: []string{"9|7"}},
		Heads: []c16Head{hd(c16Max64, el(c16Max64+"|7"), el(c16Max64+"|8"))}})
	out = append(out, c16Input{Mode: "obs", Cfg: def, Coord: fake, Heads: []c16Head{hd("12", el("12|3")), {Block: "13", Active: 0, Results: []c16HeadRes{el("13|4")}}}})
	out = append(out, c16Input{Mode: "obs", Cfg: def, Coord: fake, Heads: []c16Head{hd(strings.Repeat("9", 990), el("1|3"))}})
	out = append(out, c16Input{Mode: "obs", Cfg: def, Coord: fake, Heads: []c16Head{hd(strings.Repeat("9", 1100))}})
	out = append(out, c16Input{Mode: "obs", Cfg: def, Coord: fake, Heads: []c16Head{hd("14", el("nokey"))}})
	out = append(out, c16Input{Mode: "obs", Cfg: def, Coord: fake, Heads: []c16Head{hd("<\"\\ \x01é>", el("1|3"))}})
	return out
}

func TestC16(t *testing.T) {
	em := NewEmitter(t, "C16")
	defer em.Close()
	run := func(src string, in c16Input) {
		if in.Mode == "enc" {
			em.Emit(src, in, c16RunEnc(in))
			return
		}
		synctest.Test(t, func(t *testing.T) {
			impl := c16Run(t, in)
			if impl.Setup != "" {
				em.Hit("setup-problem")
			}
			em.Emit(src, in, impl)
		})
	}
	names, raws, replayOnly := corpusInputs(t, "C16")
	for i, raw := range raws {
		var in c16Input
		if err := json.Unmarshal(raw, &in); err != nil {
			t.Fatalf("%s: %v", names[i], err)
		}
		run(names[i], in)
	}
	if replayOnly {
		return
	}
	for _, in := range c16Edge() {
		run("edge", in)
	}
	for _, in := range c16EdgeReg() {
		run("edge", in)
	}
	for _, in := range c16EdgeMore() {
		run("edge", in)
	}
	r := NewRng(seed())
	n := tierN(20000, 400000)
	for i := 0; i < n; i++ {
		if i%100 == 99 {
			em.Hit("mode=enc")
			run("gen", c16GenEnc(r, em))
		} else if i%5 == 4 {
			em.Hit("mode=obs")
			run("gen", c16GenObs(r, em))
		} else {
			em.Hit("mode=report")
			run("gen", c16GenReport(r, em))
		}
	}
}
