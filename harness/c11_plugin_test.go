package harness

import (
	"context"
	"math/big"
	"testing"
	"testing/synctest"
	"time"

	"github.com/smartcontractkit/libocr/offchainreporting2plus/ocr3types"

	ocr2keepersv3 "github.com/smartcontractkit/chainlink-automation/pkg/v3"
	"github.com/smartcontractkit/chainlink-automation/pkg/v3/types"
	ocr2keepers "github.com/smartcontractkit/chainlink-common/pkg/types/automation"
)

// C11, plugin level: ONE plugin instance built by the public factory (NewNode) and called the way libocr
// calls it: Observation after Observation, each with the previous round's outcome.  The node's own flows
// (recovery proposal flow, sampling flow) put proposals into its pending sets between the rounds; the
// observation returned shows what the node proposes, i.e. both pending sets as the build hooks view them
// right after the pre-build hooks have applied the previous outcome.
//
//   add  = the proposals are fed to the node's providers (log: recoverable provider, conditional: active
//          upkeep provider, one conditional per add) and arrive in the metadata store through the real flow
//          (ticker -> runner -> add-to-metadata post-processor) during the following adv
//   obs  = Plugin.Observation with PreviousOutcome = encoded outcome carrying Surfaced (none when First)

const (
	c11LogAddWait  = int64(1300 * time.Millisecond) // > one tick of the 1 s recovery proposal flow
	c11CondAddWait = int64(3300 * time.Millisecond) // > one tick of the 3 s sampling flow
)

func c11RunPlugin(t *testing.T, in *c11Input) c11Impl {
	opts := NodeOpts{N: 4, F: 1}
	if in.Decoy {
		opts.Decoy = &NodeOpts{N: 4, F: 1, Digest: [32]byte{0xd}}
	}
	node := NewNode(t, opts)
	node.Run.mu.Lock()
	node.Run.fn = func(_ context.Context, ps []ocr2keepers.UpkeepPayload) ([]ocr2keepers.CheckResult, error) {
		out := make([]ocr2keepers.CheckResult, 0, len(ps))
		for _, p := range ps {
			out = append(out, ocr2keepers.CheckResult{Eligible: true, UpkeepID: p.UpkeepID, Trigger: p.Trigger, WorkID: p.WorkID,
				GasAllocated: 1000, PerformData: []byte{1}, FastGasWei: big.NewInt(1), LinkNative: big.NewInt(1)})
		}
		return out, nil
	}
	node.Run.mu.Unlock()
	feed := func(ps []JProp) (cond bool) {
		for _, p := range fromJProps(ps) {
			pl := ocr2keepers.UpkeepPayload{UpkeepID: p.UpkeepID, Trigger: p.Trigger, WorkID: p.WorkID}
			switch utg(p.UpkeepID) {
			case types.LogTrigger:
				node.Recov.mu.Lock()
				node.Recov.payloads = append(node.Recov.payloads, pl)
				node.Recov.mu.Unlock()
			case types.ConditionTrigger:
				node.Getter.mu.Lock()
				node.Getter.upkeeps = append(node.Getter.upkeeps, pl)
				node.Getter.mu.Unlock()
				cond = true
			}
		}
		return
	}
	// Early: the leading add operations are fed the moment the instance exists, while its services are still
	// being started: they arrive with the very first tick of the flows
	early := 0
	if in.Early {
		for early < len(in.Ops) && in.Ops[early].Op == "add" {
			feed(in.Ops[early].Ps)
			early++
		}
	}
	time.Sleep(1637 * time.Millisecond) // every service running; off the 1 s grid of the tickers
	defer func() {
		node.Close()
		time.Sleep(11 * time.Second)
		synctest.Wait()
	}()

	seen := map[string]uint8{}
	note := func(ps []JProp) {
		for _, p := range ps {
			if _, ok := seen[p.UID]; !ok {
				seen[p.UID] = uint8(utg(ocr2keepers.UpkeepIdentifier(b32(p.UID))))
			}
		}
	}
	impl := c11Impl{Outs: make([][]JProp, len(in.Ops)), Aux: make([][]JProp, len(in.Ops))}
	ctx := context.Background()
	seq := uint64(10)
	clearGetter := false
	var lastObs []JProp
	var lastSf [][]JProp
	for i := range in.Ops {
		op := &in.Ops[i]
		switch op.Op {
		case "add":
			note(op.Ps)
			if i < early {
				break // fed before the services ran
			}
			if feed(op.Ps) {
				clearGetter = true
			}
		case "adv":
			if op.D > 0 {
				time.Sleep(time.Duration(op.D))
				synctest.Wait()
			}
			if clearGetter {
				node.Getter.mu.Lock()
				node.Getter.upkeeps = nil
				node.Getter.mu.Unlock()
				clearGetter = false
			}
		case "probe":
			// the recoverable provider offers these logs (again); one tick of the recovery proposal flow later the
			// runner has been asked about exactly those that passed the flow's proposal filterer
			ps := op.Ps
			if op.Ref > 0 && op.Ref <= len(in.Ops) {
				ps = in.Ops[op.Ref-1].Ps
			}
			note(ps)
			node.Run.mu.Lock()
			from := len(node.Run.calls)
			node.Run.mu.Unlock()
			feed(ps)
			time.Sleep(time.Duration(c11LogAddWait))
			synctest.Wait()
			ran := map[string]bool{}
			node.Run.mu.Lock()
			for _, call := range node.Run.calls[from:] {
				for _, pl := range call {
					ran[pl.WorkID] = true
				}
			}
			node.Run.mu.Unlock()
			impl.Outs[i] = []JProp{}
			for _, p := range ps {
				if ran[p.WID] {
					impl.Outs[i] = append(impl.Outs[i], p)
				}
			}
		case "obs":
			var prev []byte
			if !op.First {
				c11Resolve(op, lastObs, lastSf)
				lastSf = op.Surfaced
				outcome := ocr2keepersv3.AutomationOutcome{}
				for _, round := range op.Surfaced {
					note(round)
					outcome.SurfacedProposals = append(outcome.SurfacedProposals, fromJProps(round))
				}
				b, err := outcome.Encode()
				if err != nil {
					t.Fatalf("encode outcome: %v", err)
				}
				prev = b
			}
			seq++
			raw, err := node.Plugin.Observation(ctx, ocr3types.OutcomeContext{SeqNr: seq, PreviousOutcome: prev}, nil)
			impl.Outs[i] = []JProp{}
			if err != nil {
				impl.Err = "Observation: " + err.Error()
				break
			}
			obs, err := ocr2keepersv3.DecodeAutomationObservation(raw, utg, wg)
			if err != nil {
				impl.Err = "decode observation: " + err.Error()
				break
			}
			impl.Outs[i] = toJProps(obs.UpkeepProposals)
			lastObs = impl.Outs[i]
			note(impl.Outs[i])
		default:
			t.Fatalf("plugin mode: unknown op %q", op.Op)
		}
	}
	c11FillTypes(in, seen)
	return impl
}

// ---------------------------------------------------------------- generator

// c11PluginPool: log identities (runs sharing an upkeep id) and conditional identities with the work ids
// the work id generator assigns (DecodeAutomationOutcome validates them).
func c11PluginPool(r *Rng, nl, nc int) (logs, conds []c11Ident) {
	for i := 0; i < nl; i++ {
		id := c11Ident{uid: genUpkeepID(r, true)}
		if i > 0 && r.Chance(50) {
			id.uid = logs[i-1].uid
		}
		id.ext = &ocr2keepers.LogTriggerExtension{TxHash: genHash(r), Index: uint32(i), BlockHash: genHash(r), BlockNumber: ocr2keepers.BlockNumber(90 + i)}
		id.wid = wg(id.uid, ocr2keepers.Trigger{LogTriggerExtension: id.ext})
		logs = append(logs, id)
	}
	for i := 0; i < nc; i++ {
		id := c11Ident{uid: genUpkeepID(r, false)}
		id.wid = wg(id.uid, ocr2keepers.Trigger{})
		conds = append(conds, id)
	}
	return
}

type c11PB struct {
	ops []c11Op
}

func (b *c11PB) addLogs(ps ...JProp) {
	if len(ps) == 0 {
		return
	}
	b.ops = append(b.ops, c11Op{Op: "add", Ps: ps}, c11Op{Op: "adv", D: c11LogAddWait})
}
func (b *c11PB) addCond(p JProp) {
	b.ops = append(b.ops, c11Op{Op: "add", Ps: []JProp{p}}, c11Op{Op: "adv", D: c11CondAddWait})
}
func (b *c11PB) obs(first bool, sf [][]JProp) {
	cp := make([][]JProp, len(sf))
	for i := range sf {
		cp[i] = append([]JProp{}, sf[i]...)
	}
	b.ops = append(b.ops, c11Op{Op: "obs", First: first, Surfaced: cp})
}
func (b *c11PB) obsPick(latest []JProp, pick string, pickN int, cand []JProp) {
	b.ops = append(b.ops, c11Op{Op: "obs", Surfaced: [][]JProp{append([]JProp{}, latest...)}, Pick: pick, PickN: pickN,
		Cand: append([]JProp(nil), cand...), Carry: true})
}
func (b *c11PB) obsAgain() { b.ops = append(b.ops, c11Op{Op: "obs", Pick: "again"}) }
func (b *c11PB) adv(d int64) { b.ops = append(b.ops, c11Op{Op: "adv", D: d}) }

// probe: payloads for the proposals of the operation at index `at`
func (b *c11PB) probe(at int) { b.ops = append(b.ops, c11Op{Op: "probe", Ref: at + 1}) }
func (b *c11PB) input(decoy bool) c11Input {
	return c11Input{Types: []c11Type{}, Ops: b.ops, Mode: "plugin", Decoy: decoy}
}

// c11GenPlugin: rounds of Observation on one instance; the outcome often stays the same from one round to
// the next (no block reached quorum: the surfaced history is carried over unchanged) while the node's flows
// put surfaced work ids back into the pending sets.
func c11GenPlugin(r *Rng, em *Emitter) c11Input {
	nl, nc := r.Range(1, 4), r.Range(0, 2)
	logs, conds := c11PluginPool(r, nl, nc)
	fixed := map[string]JProp{} // the proposal of an identity, as the node's flows produce it (payload trigger)
	prop := func(id c11Ident) JProp {
		if p, ok := fixed[id.wid]; ok {
			return p
		}
		p := id.at(r, 100)
		fixed[id.wid] = p
		return p
	}
	all := append(append([]c11Ident{}, logs...), conds...)
	b := &c11PB{}
	var first []JProp
	for _, id := range logs {
		if r.Chance(80) {
			first = append(first, prop(id))
		}
	}
	b.addLogs(first...)
	for _, id := range conds {
		if r.Chance(80) {
			b.addCond(prop(id))
		}
	}
	b.obs(true, nil)
	var sf [][]JProp
	rounds := r.Range(3, 6)
	for k := 0; k < rounds; k++ {
		if sf == nil || !r.Chance(55) {
			sf = nil
			used := map[string]bool{} // a valid outcome carries a work id at most once over its whole history
			for n := r.Range(1, 3); n > 0; n-- {
				var round []JProp
				for _, id := range all {
					if !used[id.wid] && r.Chance(40) {
						used[id.wid] = true
						p := prop(id)
						if r.Chance(30) { // surfaced on the coordinated block, not the one the node proposed
							p = id.at(r, uint64(101+r.Intn(2)))
						}
						round = append(round, p)
					}
				}
				sf = append(sf, round)
			}
			em.Hit("plugin:new-outcome")
		} else {
			em.Hit("plugin:same-outcome-again")
		}
		// between the rounds the node's flows (re-)propose work, surfaced or not
		var again []JProp
		for _, id := range logs {
			if r.Chance(50) {
				again = append(again, prop(id))
			}
		}
		if r.Chance(75) {
			b.addLogs(again...)
		}
		if len(conds) > 0 && r.Chance(50) {
			b.addCond(prop(conds[r.Intn(len(conds))]))
		}
		b.obs(false, sf)
	}
	em.Hit("plugin")
	return b.input(r.Chance(15))
}


// c11GenPluginWide: as c11GenPlugin, with more pending proposals than an observation carries (the same hook
// instances from Observation to Observation) and outcomes that surface what the node deferred in its last
// observation (another node proposed it), what it sent, and what it never held; the history of the previous
// outcome is carried along; sometimes the first proposals arrive while the services are still being started.
func c11GenPluginWide(r *Rng, em *Emitter) c11Input {
	nl, nc := r.Range(6, 14), 0
	if r.Chance(40) {
		nc = r.Range(1, 7)
	}
	logs, conds := c11PluginPool(r, nl, nc)
	foreignL, foreignC := c11PluginPool(r, 4, 2)
	foreign := append(foreignL, foreignC...)
	fixed := map[string]JProp{}
	prop := func(id c11Ident) JProp {
		if p, ok := fixed[id.wid]; ok {
			return p
		}
		p := id.at(r, 100)
		fixed[id.wid] = p
		return p
	}
	all := append(append([]c11Ident{}, logs...), conds...)
	b := &c11PB{}
	var first []JProp
	for _, id := range logs {
		if r.Chance(90) {
			first = append(first, prop(id))
		}
	}
	early := r.Chance(25) && len(first) > 0
	b.addLogs(first...)
	for _, id := range conds {
		if r.Chance(85) {
			b.addCond(prop(id))
		}
	}
	b.obs(true, nil)
	surfaced := map[string]bool{} // in the carried history for certain
	rounds := r.Range(3, 7)
	for k := 0; k < rounds; k++ {
		if k > 0 && r.Chance(30) {
			b.obsAgain()
			em.Hit("plugin-wide:same-outcome-again")
		} else {
			var cand []JProp
			for _, i := range r.Perm(len(all)) {
				p := prop(all[i])
				if r.Chance(25) { // surfaced on the coordinated block, not the one the node proposed
					p = all[i].at(r, uint64(101+r.Intn(2)))
				}
				cand = append(cand, p)
			}
			pick, pickN := "", 0
			var latest []JProp
			switch x := r.Intn(100); {
			case x < 50:
				pick, pickN = "deferred", r.Range(1, 3)
				em.Hit("plugin-wide:outcome-surfaces-deferred")
			case x < 70:
				pick, pickN = "sent", r.Range(1, 3)
				em.Hit("plugin-wide:outcome-surfaces-sent")
			case x < 92:
				for _, p := range cand {
					if !surfaced[p.WID] && r.Chance(20) {
						latest = append(latest, p)
						surfaced[p.WID] = true
					}
				}
				em.Hit("plugin-wide:outcome-surfaces-random")
			}
			if r.Chance(40) {
				f := foreign[r.Intn(len(foreign))]
				if !surfaced[f.wid] {
					surfaced[f.wid] = true
					latest = append(latest, prop(f))
				}
			}
			b.obsPick(latest, pick, pickN, cand)
		}
		// between the rounds the node's flows (re-)propose work, surfaced or not
		var again []JProp
		for _, id := range logs {
			if r.Chance(30) {
				again = append(again, prop(id))
			}
		}
		if r.Chance(50) {
			b.addLogs(again...)
		}
		if len(conds) > 0 && r.Chance(30) {
			b.addCond(prop(conds[r.Intn(len(conds))]))
		}
		if r.Chance(15) {
			b.obs(true, nil) // a round without a previous outcome
		}
	}
	em.Hit("plugin-wide")
	in := b.input(r.Chance(10))
	in.Early = early
	if early {
		em.Hit("plugin-wide:first-proposals-while-services-start")
	}
	return in
}

// c11GenPluginBurst: 66 … 140 log proposals arrive in one tick of the recovery proposal flow; round after round
// the outcome surfaces up to 50 proposals — the node's own alternating with other nodes' — and carries its
// history along, so that every Observation removes again what earlier rounds removed.  Part of the burst is
// never surfaced.  More than the runner's cache time later the provider offers the whole burst again: what is
// still pending is withheld by the flow's proposal filterer, the rest is checked and pending again.  A second
// drain leaves five or fewer: every observation must carry every one of them.
func c11GenPluginBurst(r *Rng, em *Emitter) c11Input {
	n := r.Range(66, 140)
	logs, _ := c11PluginPool(r, n, 0)
	props := make([]JProp, n)
	for i := range logs {
		props[i] = logs[i].at(r, 100)
	}
	b := &c11PB{}
	addAt := len(b.ops)
	b.addLogs(props...)
	b.obs(true, nil)
	absentShare := []int{40, 60, 80}[r.Intn(3)]
	drain := func(order []int, keep int) {
		var history [][]JProp
		for len(order) > keep {
			var latest []JProp
			for len(latest) < ocr2keepersv3.OutcomeSurfacedProposalsLimit-1 && len(order) > keep {
				if r.Chance(absentShare) {
					f, _ := c11PluginPool(r, 1, 0)
					latest = append(latest, f[0].at(r, 100))
				}
				latest = append(latest, props[order[0]])
				order = order[1:]
				if r.Chance(3) {
					break
				}
			}
			history = append([][]JProp{latest}, history...)
			if len(history) > ocr2keepersv3.OutcomeSurfacedProposalsRoundHistoryLimit {
				history = history[:ocr2keepersv3.OutcomeSurfacedProposalsRoundHistoryLimit]
			}
			b.obs(false, history)
		}
		b.obs(false, history)
	}
	// first drain: a remainder of the burst never reaches an outcome
	drain(r.Perm(n), r.Range(6, n/3))
	// the runner answers from its cache for 20 minutes; the proposal queue has long been emptied
	b.adv(21*int64(time.Minute) + int64(r.Range(1, 900))*int64(time.Millisecond))
	b.probe(addAt)
	b.obs(false, [][]JProp{{}})
	// second drain: everything but a handful
	drain(r.Perm(n), r.Range(0, 5))
	b.obs(false, [][]JProp{{}})
	em.Hit("plugin-burst")
	return b.input(false)
}

// c11PluginEdge: hand-written plugin-level histories.
func c11PluginEdge() []c11Input {
	r := NewRng(440044)
	var out []c11Input
	for _, decoy := range []bool{false, true} {
		logs, conds := c11PluginPool(r, 2, 2)
		if logs[1].uid == logs[0].uid { // two upkeeps here
			logs[1].uid = genUpkeepID(r, true)
			logs[1].wid = wg(logs[1].uid, ocr2keepers.Trigger{LogTriggerExtension: logs[1].ext})
		}
		A, B, C, D := logs[0].at(r, 100), logs[1].at(r, 100), conds[0].at(r, 100), conds[1].at(r, 100)
		// P1. pending {A,B | C,D}; outcome surfaces A and C -> proposed {B | D}; the node's flows re-add A and C;
		//     the next round's outcome is the same (carried over) -> still {B | D}; and once more
		b := &c11PB{}
		b.addLogs(A, B)
		b.addCond(C)
		b.addCond(D)
		b.obs(true, nil)
		sf := [][]JProp{{A, C}, {}}
		b.obs(false, sf)
		b.addLogs(A)
		b.addCond(C)
		b.obs(false, sf)
		b.obs(false, sf)
		b.addLogs(A, B)
		b.obs(false, sf)
		b.obs(false, [][]JProp{{B}, {A, C}, {}})
		out = append(out, b.input(decoy))
	}
	// P2. nothing pending when first surfaced; added later; same outcome again
	{
		logs, _ := c11PluginPool(r, 3, 0)
		A, B, C := logs[0].at(r, 100), logs[1].at(r, 100), logs[2].at(r, 100)
		b := &c11PB{}
		b.obs(true, nil)
		sf := [][]JProp{{A}, {B}}
		b.obs(false, sf)
		b.addLogs(A, B, C)
		b.obs(false, sf)
		b.addLogs(B)
		b.obs(false, sf)
		b.obs(false, [][]JProp{{}})
		out = append(out, b.input(false))
	}
	// P3. eight pending log proposals: five per observation; the outcome surfaces two of the three the node
	//     deferred (proposed by other nodes), then the same outcome again, then two it sent, then one more
	//     deferred: three are left and every observation carries all three
	{
		logs, _ := c11PluginPool(r, 8, 0)
		var all []JProp
		for _, id := range logs {
			all = append(all, id.at(r, 100))
		}
		b := &c11PB{}
		b.addLogs(all...)
		b.obs(true, nil)
		b.obsPick(nil, "deferred", 2, all)
		b.obsAgain()
		b.obsPick(nil, "sent", 2, all)
		b.obsPick(nil, "deferred", 1, all)
		b.obsAgain()
		in := b.input(false)
		out = append(out, in)
		in2 := b.input(false)
		in2.Ops = append([]c11Op(nil), in.Ops...)
		in2.Early = true // the proposals arrive while the services are still being started
		out = append(out, in2)
	}
	return out
}

func c11FillTypes(in *c11Input, seen map[string]uint8) {
	in.Types = in.Types[:0]
	for uid, ty := range seen {
		in.Types = append(in.Types, c11Type{UID: uid, T: ty})
	}
	sortC11Types(in.Types)
}
