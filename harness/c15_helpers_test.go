package harness

import (
	"bytes"
	"encoding/json"
	"fmt"
	"io"
	"math/big"
	"runtime"
	"runtime/debug"
	"strings"
	"sync"
	"unsafe"

	gojson "github.com/goccy/go-json"

	ocr2keepersv3 "github.com/smartcontractkit/chainlink-automation/pkg/v3"
	ocr2keepers "github.com/smartcontractkit/chainlink-common/pkg/types/automation"
)

// Helpers of C15: an order-preserving JSON tree (for the "lenient" mutations),
// the byte-level mutators of the "malformed" stream, and the hand-written edge cases.

// ---------------------------------------------------------------- ordered JSON tree

type c15Node struct {
	kind byte // 'z' null, 't' bool, 'n' number, 's' string, 'a' array, 'o' object
	b    bool
	num  string
	str  string
	arr  []*c15Node
	keys []string
	vals []*c15Node
}

func c15Parse(data []byte) *c15Node {
	dec := json.NewDecoder(bytes.NewReader(data))
	dec.UseNumber()
	n, err := c15ParseValue(dec)
	if err != nil {
		panic("c15Parse: " + err.Error())
	}
	return n
}

func c15ParseValue(dec *json.Decoder) (*c15Node, error) {
	tok, err := dec.Token()
	if err != nil {
		return nil, err
	}
	switch v := tok.(type) {
	case nil:
		return &c15Node{kind: 'z'}, nil
	case bool:
		return &c15Node{kind: 't', b: v}, nil
	case json.Number:
		return &c15Node{kind: 'n', num: string(v)}, nil
	case string:
		return &c15Node{kind: 's', str: v}, nil
	case json.Delim:
		switch v {
		case '[':
			n := &c15Node{kind: 'a'}
			for dec.More() {
				c, err := c15ParseValue(dec)
				if err != nil {
					return nil, err
				}
				n.arr = append(n.arr, c)
			}
			_, err := dec.Token()
			return n, err
		case '{':
			n := &c15Node{kind: 'o'}
			for dec.More() {
				kt, err := dec.Token()
				if err != nil {
					return nil, err
				}
				c, err := c15ParseValue(dec)
				if err != nil {
					return nil, err
				}
				n.keys = append(n.keys, kt.(string))
				n.vals = append(n.vals, c)
			}
			_, err := dec.Token()
			return n, err
		}
	}
	return nil, io.ErrUnexpectedEOF
}

func (n *c15Node) render(sb *strings.Builder) {
	switch n.kind {
	case 'z':
		sb.WriteString("null")
	case 't':
		if n.b {
			sb.WriteString("true")
		} else {
			sb.WriteString("false")
		}
	case 'n':
		sb.WriteString(n.num)
	case 's':
		b, _ := json.Marshal(n.str)
		sb.Write(b)
	case 'a':
		sb.WriteByte('[')
		for i, c := range n.arr {
			if i > 0 {
				sb.WriteByte(',')
			}
			c.render(sb)
		}
		sb.WriteByte(']')
	case 'o':
		sb.WriteByte('{')
		for i, c := range n.vals {
			if i > 0 {
				sb.WriteByte(',')
			}
			b, _ := json.Marshal(n.keys[i])
			sb.Write(b)
			sb.WriteByte(':')
			c.render(sb)
		}
		sb.WriteByte('}')
	}
}

func (n *c15Node) String() string {
	var sb strings.Builder
	n.render(&sb)
	return sb.String()
}

// c15Slot is a place where a node hangs: the root, an array element or an object value.
type c15Slot struct {
	parent *c15Node // nil = root
	idx    int
	key    string
}

func c15Walk(root *c15Node, f func(s c15Slot, n *c15Node)) {
	var rec func(s c15Slot, n *c15Node)
	rec = func(s c15Slot, n *c15Node) {
		f(s, n)
		for i, c := range n.arr {
			rec(c15Slot{parent: n, idx: i}, c)
		}
		for i, c := range n.vals {
			rec(c15Slot{parent: n, idx: i, key: n.keys[i]}, c)
		}
	}
	rec(c15Slot{}, root)
}

func c15Set(root **c15Node, s c15Slot, v *c15Node) {
	switch {
	case s.parent == nil:
		*root = v
	case s.parent.kind == 'a':
		s.parent.arr[s.idx] = v
	default:
		s.parent.vals[s.idx] = v
	}
}

func (n *c15Node) isByteArray() bool {
	if n.kind != 'a' || len(n.arr) != 32 {
		return false
	}
	for _, c := range n.arr {
		if c.kind != 'n' {
			return false
		}
	}
	return true
}

func c15Junk(r *Rng, depth int) *c15Node {
	switch k := r.Intn(8); {
	case k == 0:
		return &c15Node{kind: 'z'}
	case k == 1:
		return &c15Node{kind: 't', b: r.Bool()}
	case k == 2:
		return &c15Node{kind: 'n', num: fmt.Sprint(r.Intn(1000))}
	case k == 3:
		return &c15Node{kind: 's', str: []string{"", "x", "AQID", "nüll", "\"q\"\\"}[r.Intn(5)]}
	case k <= 5 && depth < 3:
		n := &c15Node{kind: 'a'}
		for i := r.Intn(3); i > 0; i-- {
			n.arr = append(n.arr, c15Junk(r, depth+1))
		}
		return n
	case depth < 3:
		n := &c15Node{kind: 'o'}
		for i := r.Intn(3); i > 0; i-- {
			n.keys = append(n.keys, fmt.Sprintf("k%d", i))
			n.vals = append(n.vals, c15Junk(r, depth+1))
		}
		return n
	}
	return &c15Node{kind: 'n', num: "7"}
}

var c15BoundaryNumbers = []string{
	"-1", "0", "1", "255", "256", "65536", "4294967295", "4294967296", "9223372036854775808",
	"18446744073709551615", "18446744073709551616", "18446744073709551617", "18446744073709551871", "18446744073709551872",
	"99999999999999999999", "100000000000000000000", "100000000000000000001", "-18446744073709551616",
	"115792089237316195423570985008687907853269984665640564039457584007913129639935",
	"115792089237316195423570985008687907853269984665640564039457584007913129639936",
	"-115792089237316195423570985008687907853269984665640564039457584007913129639936",
}

// c15LenientMutate applies one tree-level mutation inside the leniencies the model mirrors.
func c15LenientMutate(r *Rng, root **c15Node) string {
	type ref struct {
		s c15Slot
		n *c15Node
	}
	var all, objs, nums, barrs, pds []ref
	c15Walk(*root, func(s c15Slot, n *c15Node) {
		all = append(all, ref{s, n})
		switch {
		case n.kind == 'o' && len(n.keys) > 0:
			objs = append(objs, ref{s, n})
		case n.kind == 'n':
			nums = append(nums, ref{s, n})
		case n.isByteArray():
			barrs = append(barrs, ref{s, n})
		}
		if s.parent != nil && s.parent.kind == 'o' && s.key == "PerformData" {
			pds = append(pds, ref{s, n})
		}
	})
	pick := func(l []ref) (ref, bool) {
		if len(l) == 0 {
			return ref{}, false
		}
		return l[r.Intn(len(l))], true
	}
	switch op := r.Intn(14); op {
	case 13: // a present-but-empty log trigger extension ({} or explicit zeros), also where none belongs
		var exts []ref
		for _, x := range all {
			if x.s.parent != nil && x.s.parent.kind == 'o' && x.s.key == "LogTriggerExtension" {
				exts = append(exts, x)
			}
		}
		if e, ok := pick(exts); ok {
			n := &c15Node{kind: 'o'}
			switch r.Intn(3) {
			case 1:
				n.keys, n.vals = []string{"Index"}, []*c15Node{{kind: 'n', num: "0"}}
			case 2:
				n.keys = []string{"TxHash", "Index", "BlockHash", "BlockNumber"}
				n.vals = []*c15Node{{kind: 'a'}, {kind: 'n', num: "0"}, {kind: 'z'}, {kind: 'n', num: "0"}}
			}
			was := "object"
			if e.n.kind == 'z' {
				was = "null"
			}
			c15Set(root, e.s, n)
			return "zero-ext:" + was
		}
	case 12: // a short byte array decoded after its sibling fields (reorder + short-array in one step)
		var cands []ref
		for _, o := range objs {
			for _, v := range o.n.vals {
				if v.isByteArray() {
					cands = append(cands, o)
					break
				}
			}
		}
		if o, ok := pick(cands); ok {
			var idx []int
			for i, v := range o.n.vals {
				if v.isByteArray() {
					idx = append(idx, i)
				}
			}
			i := idx[r.Intn(len(idx))]
			k, v := o.n.keys[i], o.n.vals[i]
			o.n.keys = append(append(o.n.keys[:i:i], o.n.keys[i+1:]...), k)
			o.n.vals = append(append(o.n.vals[:i:i], o.n.vals[i+1:]...), v)
			v.arr = v.arr[:r.Intn(32)]
			return "short-array-last:" + k
		}
	case 0: // a field goes missing
		if o, ok := pick(objs); ok {
			i := r.Intn(len(o.n.keys))
			k := o.n.keys[i]
			o.n.keys = append(o.n.keys[:i:i], o.n.keys[i+1:]...)
			o.n.vals = append(o.n.vals[:i:i], o.n.vals[i+1:]...)
			return "drop:" + k
		}
	case 1: // a field becomes null
		if o, ok := pick(objs); ok {
			i := r.Intn(len(o.n.keys))
			o.n.vals[i] = &c15Node{kind: 'z'}
			return "null:" + o.n.keys[i]
		}
	case 2: // key order
		if o, ok := pick(objs); ok {
			p := r.Perm(len(o.n.keys))
			ks, vs := make([]string, len(p)), make([]*c15Node, len(p))
			for i, k := range p {
				ks[i], vs[i] = o.n.keys[k], o.n.vals[k]
			}
			o.n.keys, o.n.vals = ks, vs
			return "reorder"
		}
	case 3: // unknown key
		if o, ok := pick(objs); ok {
			at := r.Intn(len(o.n.keys) + 1)
			k := fmt.Sprintf("Zz%d", r.Intn(100))
			o.n.keys = append(o.n.keys[:at:at], append([]string{k}, o.n.keys[at:]...)...)
			o.n.vals = append(o.n.vals[:at:at], append([]*c15Node{c15Junk(r, 0)}, o.n.vals[at:]...)...)
			return "unknown-key"
		}
	case 4: // short byte array
		if a, ok := pick(barrs); ok {
			a.n.arr = a.n.arr[:r.Intn(32)]
			return "short-array"
		}
	case 5: // long byte array: the surplus is skipped without a type check
		if a, ok := pick(barrs); ok {
			for i := r.Range(1, 3); i > 0; i-- {
				a.n.arr = append(a.n.arr, c15Junk(r, 1))
			}
			return "long-array"
		}
	case 6, 7: // a number at a machine-integer boundary
		if n, ok := pick(nums); ok {
			n.n.num = c15BoundaryNumbers[r.Intn(len(c15BoundaryNumbers))]
			return "number:" + n.s.key
		}
	case 8: // a value of another JSON type
		if n, ok := pick(all); ok {
			for try := 0; try < 5; try++ {
				j := c15Junk(r, 2)
				if j.kind != n.n.kind {
					c15Set(root, n.s, j)
					return fmt.Sprintf("type:%c->%c:%s", n.n.kind, j.kind, n.s.key)
				}
			}
		}
	case 9: // base64 forms of PerformData
		if p, ok := pick(pds); ok && p.n.kind == 's' {
			s := p.n.str
			switch r.Intn(5) {
			case 0:
				p.n.str = strings.TrimRight(s, "=")
				return "b64:no-padding"
			case 1: // set the ignored trailing bits of a padded group
				if i := strings.IndexByte(s, '='); i > 0 {
					const alpha = "ABCDEFGHIJKLMNOPQRSTUVWXYZabcdefghijklmnopqrstuvwxyz0123456789+/"
					if v := strings.IndexByte(alpha, s[i-1]); v >= 0 { // an earlier mutation may have left a non-alphabet byte here
						p.n.str = s[:i-1] + string(alpha[v|1]) + s[i:]
						return "b64:trailing-bits"
					}
				}
			case 2:
				raw := r.Bytes(r.Intn(6))
				n := &c15Node{kind: 'a'}
				for _, b := range raw {
					n.arr = append(n.arr, &c15Node{kind: 'n', num: fmt.Sprint(b)})
				}
				if r.Chance(20) {
					n.arr = append(n.arr, &c15Node{kind: 'n', num: "256"})
				}
				c15Set(root, p.s, n)
				return "b64:as-number-array"
			case 3:
				at := r.Intn(len(s) + 1)
				p.n.str = s[:at] + string("*-_ =.%"[r.Intn(7)]) + s[at:]
				return "b64:bad-char"
			case 4:
				if len(s) > 0 {
					p.n.str = s[:r.Intn(len(s))]
					return "b64:cut"
				}
			}
		}
	case 10: // null inside a byte array
		if a, ok := pick(barrs); ok {
			a.n.arr[r.Intn(32)] = &c15Node{kind: 'z'}
			return "null-element"
		}
	case 11: // a whole element of a list becomes null / {}
		var lists []ref
		for _, x := range all {
			if x.n.kind == 'a' && len(x.n.arr) > 0 && x.n.arr[0].kind == 'o' {
				lists = append(lists, x)
			}
		}
		if l, ok := pick(lists); ok {
			if r.Bool() {
				l.n.arr[r.Intn(len(l.n.arr))] = &c15Node{kind: 'z'}
				return "null-item"
			}
			l.n.arr[r.Intn(len(l.n.arr))] = &c15Node{kind: 'o'}
			return "empty-item"
		}
	}
	return ""
}

// c15SmallEncoded: the encoding of a small valid message (seed of the mutators);
// mostly tiny (0–2 items per list, short PerformData) so that a mutation hits structure
func c15SmallEncoded(r *Rng) (kind string, data []byte) {
	tiny := r.Chance(80)
	trim := func(rs []ocr2keepers.CheckResult) []ocr2keepers.CheckResult {
		if tiny && len(rs) > 2 {
			rs = rs[:2]
		}
		for i := range rs {
			if len(rs[i].PerformData) > 70 {
				rs[i].PerformData = rs[i].PerformData[:r.Range(4, 70)]
			}
		}
		return rs
	}
	if r.Bool() {
		o, _, _ := c15SmallObs(r, c15Class(r))
		o.Performable = trim(o.Performable)
		if tiny {
			if len(o.UpkeepProposals) > 2 {
				o.UpkeepProposals = o.UpkeepProposals[:2]
			}
			if len(o.BlockHistory) > 2 {
				o.BlockHistory = o.BlockHistory[:2]
			}
		}
		return "obs", must(o.Encode())
	}
	o, _, _, _ := c15SmallOutcome(r, c15Class(r))
	o.AgreedPerformables = trim(o.AgreedPerformables)
	if tiny {
		if len(o.SurfacedProposals) > 2 {
			o.SurfacedProposals = o.SurfacedProposals[:2]
		}
		for i := range o.SurfacedProposals {
			if len(o.SurfacedProposals[i]) > 2 {
				o.SurfacedProposals[i] = o.SurfacedProposals[i][:2]
			}
		}
	}
	return "outcome", must(o.Encode())
}

func c15GenLenient(r *Rng, em *Emitter) c15Input {
	kind, data := c15SmallEncoded(r)
	root := c15Parse(data)
	var notes []string
	for k := r.Range(1, 3); k > 0; k-- {
		if n := c15LenientMutate(r, &root); n != "" {
			notes = append(notes, n)
			em.Hit("lenient:" + strings.SplitN(n, ":", 2)[0])
		}
	}
	return c15Input{Kind: kind, Mode: "lenient", Raw: []byte(root.String()), Note: strings.Join(notes, ",")}
}

// ---------------------------------------------------------------- byte-level mutation (malformed stream)

var c15Tokens = []string{"{", "}", "[", "]", ",", ":", "\"", "\\", "null", "true", "false", "0", "-", "e", ".", " ", "\n", "\x00", "\xff", "\xc3", "\\u", "\\ud800", "'", "/*", "//"}

var c15Monsters = []string{
	strings.Repeat("9", 19), strings.Repeat("9", 20), strings.Repeat("9", 21), strings.Repeat("9", 39), strings.Repeat("9", 78),
	strings.Repeat("1", 79), strings.Repeat("7", 1000), strings.Repeat("3", 5000), "-" + strings.Repeat("9", 100),
	"1e5", "1E400", "1e999999999", "1e-5", "-1", "-0", "0.5", "1.0", "00", "01", "0x10", "+1", ".5", "1.", "1e", "1e+", "Infinity", "NaN", "-",
	"18446744073709551615", "18446744073709551616", "340282366920938463463374607431768211456",
	"115792089237316195423570985008687907853269984665640564039457584007913129639936",
	"-115792089237316195423570985008687907853269984665640564039457584007913129639936",
	"4294967296", "256", "\"1\"", "[1]", "{}", "null", "true",
}

func c15Deep(r *Rng) string {
	n := []int{50, 1000, 9999, 10000, 10001, 20000}[r.Intn(6)]
	form := r.Intn(5)
	if form >= 2 && r.Chance(70) { // the object forms are five times as long; the edge cases have the big ones
		n = []int{50, 1000, 2001}[r.Intn(3)]
	}
	switch form {
	case 0:
		return strings.Repeat("[", n)
	case 1:
		return strings.Repeat("[", n) + strings.Repeat("]", n)
	case 2:
		return strings.Repeat(`{"a":`, n) + "1" + strings.Repeat("}", n)
	case 3:
		return strings.Repeat(`[{"a":`, n/2) + "1" + strings.Repeat("}]", n/2)
	}
	return strings.Repeat(`{"a":`, n)
}

// c15NumberSpans returns the [start,end) byte ranges of number tokens outside strings.
func c15NumberSpans(b []byte) [][2]int {
	var out [][2]int
	inStr := false
	for i := 0; i < len(b); i++ {
		c := b[i]
		if inStr {
			if c == '\\' {
				i++
			} else if c == '"' {
				inStr = false
			}
			continue
		}
		if c == '"' {
			inStr = true
			continue
		}
		if c == '-' || (c >= '0' && c <= '9') {
			j := i + 1
			for j < len(b) && b[j] >= '0' && b[j] <= '9' {
				j++
			}
			out = append(out, [2]int{i, j})
			i = j - 1
		}
	}
	return out
}

func c15Splice(b []byte, i, j int, ins string) []byte {
	out := make([]byte, 0, len(b)+len(ins))
	out = append(out, b[:i]...)
	out = append(out, ins...)
	return append(out, b[j:]...)
}

func c15MutateBytes(r *Rng, b, other []byte) ([]byte, string) {
	if len(b) == 0 {
		return []byte("{"), "seed-empty"
	}
	switch op := r.Intn(15); op {
	case 14: // an empty object where the optional extension is null
		if i := bytes.Index(b, []byte(`"LogTriggerExtension":null`)); i >= 0 {
			all := c15IndexAll(b, `"LogTriggerExtension":null`)
			k := all[r.Intn(len(all))]
			return c15Splice(b, k, k+len(`"LogTriggerExtension":null`), `"LogTriggerExtension":{}`), "zero-ext"
		}
	case 0:
		out := append([]byte(nil), b...)
		for k := r.Range(1, 3); k > 0; k-- {
			out[r.Intn(len(out))] ^= 1 << uint(r.Intn(8))
		}
		return out, "bitflip"
	case 1:
		return append([]byte(nil), b[:r.Intn(len(b))]...), "truncate"
	case 2:
		i := r.Intn(len(b))
		j := i + r.Intn(min(len(b)-i, 40)+1)
		return c15Splice(b, i, j, ""), "delete-span"
	case 3:
		i := r.Intn(len(b))
		j := i + r.Intn(min(len(b)-i, 200)+1)
		k := r.Intn(len(b) + 1)
		return c15Splice(b, k, k, string(b[i:j])), "duplicate-span"
	case 4:
		k := r.Intn(len(b) + 1)
		return c15Splice(b, k, k, c15Tokens[r.Intn(len(c15Tokens))]), "insert-token"
	case 5:
		if sp := c15NumberSpans(b); len(sp) > 0 {
			s := sp[r.Intn(len(sp))]
			return c15Splice(b, s[0], s[1], c15Monsters[r.Intn(len(c15Monsters))]), "monster-number"
		}
	case 6:
		if sp := c15NumberSpans(b); len(sp) > 0 && r.Bool() {
			s := sp[r.Intn(len(sp))]
			return c15Splice(b, s[0], s[1], c15Deep(r)), "deep-at-value"
		}
		if i := bytes.IndexByte(b, '{'); i >= 0 {
			all := c15Indexes(b, '{')
			k := all[r.Intn(len(all))] + 1
			return c15Splice(b, k, k, `"X":`+c15Deep(r)+`,`), "deep-at-unknown-key"
		}
	case 7:
		out := append([]byte(nil), b...)
		for k := r.Range(1, 4); k > 0; k-- {
			out[r.Intn(len(out))] = byte(r.U64())
		}
		return out, "random-bytes-in-place"
	case 8:
		if len(other) > 0 {
			return append(append([]byte(nil), b[:r.Intn(len(b))]...), other[r.Intn(len(other)):]...), "splice-two-messages"
		}
	case 9:
		if qs := c15Indexes(b, '"'); len(qs) > 0 {
			k := qs[r.Intn(len(qs))] + 1
			bad := []string{`\u12`, `\ud800`, `\udc00\ud800`, `\x41`, `\`, "\xff\xfe", "\xed\xa0\x80", `\u0000`, "\x00", "\n", `\uZZZZ`, `\"`}[r.Intn(12)]
			return c15Splice(b, k, k, bad), "string-poison"
		}
	case 10: // keys are matched case-insensitively by both decoders
		if qs := c15Indexes(b, '"'); len(qs) > 1 {
			k := qs[r.Intn(len(qs))]
			out := append([]byte(nil), b...)
			for i := k + 1; i < len(out) && out[i] != '"'; i++ {
				if r.Bool() {
					if out[i] >= 'a' && out[i] <= 'z' {
						out[i] -= 32
					} else if out[i] >= 'A' && out[i] <= 'Z' {
						out[i] += 32
					}
				}
			}
			return out, "key-case"
		}
	case 11: // duplicate keys
		keys := []string{"Performable", "UpkeepProposals", "BlockHistory", "AgreedPerformables", "SurfacedProposals", "Number", "Hash",
			"UpkeepID", "Trigger", "WorkID", "GasAllocated", "FastGasWei", "LinkNative", "PerformData", "LogTriggerExtension", "BlockNumber", "Eligible", "Index"}
		k := keys[r.Intn(len(keys))]
		if i := bytes.Index(b, []byte(`"`+k+`":`)); i >= 0 {
			junk := []string{"null", "[]", "{}", "0", "1", `""`, "true", `[1,2,3]`, `"AQ=="`}[r.Intn(9)]
			if r.Bool() {
				return c15Splice(b, i, i, `"`+k+`":`+junk+`,`), "duplicate-key-before"
			}
			// after: find the end of the value roughly by appending at the end of the enclosing object is hard at byte level;
			// put it right at the start of the next key instead
			if j := bytes.Index(b[i+1:], []byte(`,"`)); j >= 0 {
				at := i + 1 + j
				return c15Splice(b, at, at, `,"`+k+`":`+junk), "duplicate-key-after"
			}
		}
	case 12:
		tr := []string{"\x00", " \n\t", "{}", "x", "]", "}", ",", "\x00\x00\x00x", "null"}[r.Intn(9)]
		return append(append([]byte(nil), b...), tr...), "trailer"
	case 13:
		if len(b) > 2 {
			k := r.Intn(len(b))
			return c15Splice(b, k, k, strings.Repeat(string(b[k]), r.Range(2, 300))), "repeat-byte"
		}
	}
	out := append([]byte(nil), b...)
	out[r.Intn(len(out))] ^= 0x20
	return out, "bitflip"
}

func c15IndexAll(b []byte, sub string) []int {
	var out []int
	for off := 0; ; {
		i := bytes.Index(b[off:], []byte(sub))
		if i < 0 {
			return out
		}
		out = append(out, off+i)
		off += i + len(sub)
	}
}

func c15Indexes(b []byte, c byte) []int {
	var out []int
	for i, x := range b {
		if x == c {
			out = append(out, i)
		}
	}
	return out
}

func c15GenMalformed(r *Rng, em *Emitter) c15Input {
	kind, data := c15SmallEncoded(r)
	var note string
	switch k := r.Intn(20); {
	case k == 0: // no structure at all
		data, note = r.Bytes(r.Intn(64)), "random-bytes"
	case k == 1: // token soup
		var sb strings.Builder
		for i := r.Range(1, 60); i > 0; i-- {
			sb.WriteString(c15Tokens[r.Intn(len(c15Tokens))])
		}
		data, note = []byte(sb.String()), "token-soup"
	default:
		_, other := c15SmallEncoded(r)
		var notes []string
		for i := r.Range(1, 3); i > 0; i-- {
			var n string
			data, n = c15MutateBytes(r, data, other)
			notes = append(notes, n)
			em.Hit("malformed:" + n)
		}
		note = strings.Join(notes, ",")
	}
	if r.Chance(50) { // the decoder of the other kind sees it too
		if kind == "obs" {
			kind = "outcome"
		} else {
			kind = "obs"
		}
		em.Hit("malformed:cross-kind")
	}
	return c15Input{Kind: kind, Mode: "malformed", Raw: data, Note: note}
}

// ---------------------------------------------------------------- hand-written edge cases

func c15Edge() []c15Input {
	r := NewRng(151515)
	var out []c15Input
	// empty messages, every nil / empty rendering
	for _, m := range []int{0, 31} {
		out = append(out, c15Input{Kind: "obs", Mode: "valid", Nil: m, Obs: &JObs{Perf: []JCR{}, Props: []JProp{}, Hist: []JBK{}}})
		out = append(out, c15Input{Kind: "outcome", Mode: "valid", Nil: m, Outcome: &JOutcome{Agreed: []JCR{}, Surfaced: [][]JProp{}}})
		out = append(out, c15Input{Kind: "outcome", Mode: "valid", Nil: m, Outcome: &JOutcome{Agreed: []JCR{}, Surfaced: [][]JProp{{}, {}}}})
	}
	// one of everything at the numeric extremes
	mk := func(class int, f func(res *ocr2keepers.CheckResult)) ocr2keepers.CheckResult {
		res := c15Result(r, class)
		f(&res)
		res.WorkID = wg(res.UpkeepID, res.Trigger)
		return res
	}
	maxRes := mk(1, func(res *ocr2keepers.CheckResult) {
		res.GasAllocated = ^uint64(0)
		res.Trigger.BlockNumber = ocr2keepers.BlockNumber(^uint64(0))
		res.Trigger.LogTriggerExtension.Index = ^uint32(0)
		res.Trigger.LogTriggerExtension.BlockNumber = ocr2keepers.BlockNumber(^uint64(0))
		res.FastGasWei = new(big.Int).Set(c15U256Max)
		res.LinkNative = new(big.Int).Set(c15U256Max)
		res.PerformData = bytes.Repeat([]byte{0xff}, 10000)
		for i := range res.Trigger.BlockHash {
			res.Trigger.BlockHash[i] = 0xff
		}
	})
	minRes := mk(0, func(res *ocr2keepers.CheckResult) {
		res.GasAllocated = 1
		res.Trigger.BlockNumber = 0
		res.Trigger.BlockHash = [32]byte{}
		res.FastGasWei = big.NewInt(0)
		res.LinkNative = big.NewInt(0)
		res.PerformData = nil
	})
	extremes := ocr2keepersv3.AutomationObservation{
		Performable: []ocr2keepers.CheckResult{maxRes, minRes},
		UpkeepProposals: []ocr2keepers.CoordinatedBlockProposal{
			{UpkeepID: maxRes.UpkeepID, Trigger: maxRes.Trigger, WorkID: maxRes.WorkID},
			{UpkeepID: minRes.UpkeepID, Trigger: minRes.Trigger, WorkID: minRes.WorkID}},
		BlockHistory: ocr2keepers.BlockHistory{{Number: ocr2keepers.BlockNumber(^uint64(0)), Hash: maxRes.Trigger.BlockHash}, {Number: 0}},
	}
	out = append(out, c15Input{Kind: "obs", Mode: "valid", Obs: c15ObsToJ(extremes)})
	out = append(out, c15Input{Kind: "outcome", Mode: "valid", Outcome: c15OutcomeToJ(ocr2keepersv3.AutomationOutcome{
		AgreedPerformables: extremes.Performable, SurfacedProposals: [][]ocr2keepers.CoordinatedBlockProposal{nil, extremes.UpkeepProposals, {}}})})
	// every limit reached exactly
	full := ocr2keepersv3.AutomationObservation{
		Performable:     c15GenResults(r, ocr2keepersv3.ObservationPerformablesLimit),
		UpkeepProposals: c15Proposals(r, ocr2keepersv3.ObservationConditionalsProposalsLimit, ocr2keepersv3.ObservationLogRecoveryProposalsLimit, 0),
		BlockHistory:    c15History(r, ocr2keepersv3.ObservationBlockHistoryLimit),
	}
	out = append(out, c15Input{Kind: "obs", Mode: "valid", Obs: c15ObsToJ(full)})
	fullOut := ocr2keepersv3.AutomationOutcome{AgreedPerformables: c15GenResults(r, ocr2keepersv3.OutcomeAgreedPerformablesLimit)}
	for i := 0; i < ocr2keepersv3.OutcomeSurfacedProposalsRoundHistoryLimit; i++ {
		n := 2
		if i == 7 {
			n = ocr2keepersv3.OutcomeSurfacedProposalsLimit
		}
		fullOut.SurfacedProposals = append(fullOut.SurfacedProposals, c15Proposals(r, n/2, n-n/2, 0))
	}
	out = append(out, c15Input{Kind: "outcome", Mode: "valid", Outcome: c15OutcomeToJ(fullOut)})

	// leniencies the model mirrors, spelled out
	for _, s := range []string{
		`null`, `{}`, `{"Performable":null,"UpkeepProposals":null,"BlockHistory":null}`,
		`{"BlockHistory":[{"Number":1,"Hash":[1,2,3]}]}`,
		`{"BlockHistory":[{"Hash":null},{"Number":18446744073709551615}]}`,
		`{"BlockHistory":[{"Number":18446744073709551616}]}`,
		`{"BlockHistory":[{"Number":18446744073709551616},{"Number":0}]}`,
		`{"BlockHistory":[{"Number":99999999999999999999},{"Number":100000000000000000000}]}`,
		`{"BlockHistory":[{"Number":1,"Hash":[18446744073709551617,null,255]}]}`,
		`{"BlockHistory":[{"Number":1,"Hash":[256]}]}`,
		`{"BlockHistory":[null,{"Number":1}]}`,
		`{"BlockHistory":[null,{}]}`,
		`{"BlockHistory":{}}`, `{"BlockHistory":"x"}`, `{"BlockHistory":[[]]}`, `[]`, `7`, `"x"`, `true`,
		`{"Performable":[{}]}`, `{"Performable":[null]}`,
		`{"Performable":[{"GasAllocated":18446744073709551616}]}`,
		`{"Performable":[{"PerformData":"AQ"}]}`, `{"Performable":[{"PerformData":"AR=="}]}`, `{"Performable":[{"PerformData":[1,2]}]}`,
		`{"Performable":[{"FastGasWei":"12"}]}`, `{"Performable":[{"FastGasWei":-0}]}`,
		`{"UpkeepProposals":[{"Trigger":{"LogTriggerExtension":{}}}]}`,
		`{"UpkeepProposals":[{"Trigger":{"LogTriggerExtension":{"Index":4294967296}}}]}`,
		`{"UpkeepProposals":[{"Trigger":{"LogTriggerExtension":{"Index":18446744073709551621}}}]}`,
		`{"UpkeepProposals":[{"WorkID":5}]}`, `{"UpkeepProposals":[{"WorkID":null,"Trigger":null,"UpkeepID":null}]}`,
	} {
		out = append(out, c15Input{Kind: "obs", Mode: "lenient", Raw: []byte(s), Note: "edge"})
	}
	for _, s := range []string{
		`null`, `{}`, `{"AgreedPerformables":null,"SurfacedProposals":null}`, `{"SurfacedProposals":[null,[],[null]]}`,
		`{"SurfacedProposals":[{}]}`, `{"SurfacedProposals":[[[]]]}`, `{"AgreedPerformables":[[]]}`,
	} {
		out = append(out, c15Input{Kind: "outcome", Mode: "lenient", Raw: []byte(s), Note: "edge"})
	}

	// goccy array zero-fill: value-visible clobbering (deterministic) and the crash witness
	for _, s := range []string{
		// UpkeepID decoded after Trigger: the fill of the short id runs over Trigger.BlockNumber
		`{"UpkeepProposals":[{"Trigger":{"BlockNumber":15454646179759848164},"UpkeepID":[1]}]}`,
		// BlockHash decoded after the extension: the fill runs over the extension pointer
		`{"UpkeepProposals":[{"Trigger":{"LogTriggerExtension":{"Index":7},"BlockHash":[]}}]}`,
		// TxHash decoded after Index / BlockHash
		`{"UpkeepProposals":[{"Trigger":{"LogTriggerExtension":{"Index":4294967295,"BlockHash":[255,255,255,255],"TxHash":[9]}}}]}`,
		// the last field of a slice element: nothing visible, the write leaves the allocation
		`{"BlockHistory":[{"Number":1,"Hash":[]},{"Number":2,"Hash":[]}]}`,
	} {
		out = append(out, c15Input{Kind: "obs", Mode: "lenient", Raw: []byte(s), Note: "edge:zero-fill"})
	}
	out = append(out, c15Input{Kind: "outcome", Mode: "lenient", Note: "edge:zero-fill",
		Raw: []byte(`{"SurfacedProposals":[[{"Trigger":{"BlockNumber":72057594037927935},"UpkeepID":[]}]]}`)})
	out = append(out, c15Input{Kind: "obs", Mode: "gcstress", Note: "edge:zero-fill"}, c15Input{Kind: "outcome", Mode: "gcstress", Note: "edge:zero-fill"})

	// state across calls: concurrent encoders, concurrent decoders
	out = append(out, c15Input{Kind: "obs", Mode: "encstress", Note: "edge:concurrent-encode"}, c15Input{Kind: "outcome", Mode: "encstress", Note: "edge:concurrent-encode"})
	out = append(out, c15Input{Kind: "obs", Mode: "decstress", Note: "edge:concurrent-decode"}, c15Input{Kind: "outcome", Mode: "decstress", Note: "edge:concurrent-decode"})

	// one log upkeep several times in one message (different logs, hence different work ids):
	// twice performable, performable and proposed, proposed in two rounds
	{
		uid := c15UID(r, 1)
		mkT := func() ocr2keepers.Trigger { return c15TriggerP(r, uid, true) }
		res := func() ocr2keepers.CheckResult {
			x := c15Result(r, 1)
			x.UpkeepID, x.Trigger = uid, mkT()
			x.WorkID = wg(uid, x.Trigger)
			return x
		}
		prop := func() ocr2keepers.CoordinatedBlockProposal {
			t := mkT()
			return ocr2keepers.CoordinatedBlockProposal{UpkeepID: uid, Trigger: t, WorkID: wg(uid, t)}
		}
		out = append(out, c15Input{Kind: "obs", Mode: "valid", Note: "edge:repeated-log-upkeep", Obs: c15ObsToJ(ocr2keepersv3.AutomationObservation{
			Performable: []ocr2keepers.CheckResult{res(), res()}, UpkeepProposals: []ocr2keepers.CoordinatedBlockProposal{prop(), prop()}})})
		out = append(out, c15Input{Kind: "outcome", Mode: "valid", Note: "edge:repeated-log-upkeep", Outcome: c15OutcomeToJ(ocr2keepersv3.AutomationOutcome{
			AgreedPerformables: []ocr2keepers.CheckResult{res(), res()},
			SurfacedProposals:  [][]ocr2keepers.CoordinatedBlockProposal{{prop()}, {}, {prop(), prop()}}})})
		// … and the work id of one log on a proposal for another log of that upkeep
		sib := res()
		out = append(out, c15Input{Kind: "outcome", Mode: "violate", Rule: "wrongWorkIDProposal", Note: "edge:sibling-work-id", Outcome: c15OutcomeToJ(ocr2keepersv3.AutomationOutcome{
			AgreedPerformables: []ocr2keepers.CheckResult{sib}, SurfacedProposals: [][]ocr2keepers.CoordinatedBlockProposal{{c15SiblingProposal(r, sib)}}})})
		out = append(out, c15Input{Kind: "obs", Mode: "violate", Rule: "wrongWorkIDProposal", Note: "edge:sibling-work-id", Obs: c15ObsToJ(ocr2keepersv3.AutomationObservation{
			Performable: []ocr2keepers.CheckResult{sib}, UpkeepProposals: []ocr2keepers.CoordinatedBlockProposal{c15SiblingProposal(r, sib)}})})
	}
	// a present-but-all-zero extension: fine on a log upkeep, a type mismatch on a condition upkeep
	{
		zl := c15Result(r, 1)
		zl.Trigger.LogTriggerExtension = &ocr2keepers.LogTriggerExtension{}
		zl.WorkID = wg(zl.UpkeepID, zl.Trigger)
		out = append(out, c15Input{Kind: "obs", Mode: "valid", Note: "edge:zero-ext", Obs: c15ObsToJ(ocr2keepersv3.AutomationObservation{
			Performable: []ocr2keepers.CheckResult{zl}, UpkeepProposals: []ocr2keepers.CoordinatedBlockProposal{{UpkeepID: zl.UpkeepID, Trigger: zl.Trigger, WorkID: zl.WorkID}}})})
		zc := c15Result(r, 0)
		zc.Trigger.LogTriggerExtension = &ocr2keepers.LogTriggerExtension{}
		zc.WorkID = wg(zc.UpkeepID, zc.Trigger)
		out = append(out, c15Input{Kind: "obs", Mode: "violate", Rule: "typeMismatchResult", Note: "edge:zero-ext", Obs: c15ObsToJ(ocr2keepersv3.AutomationObservation{Performable: []ocr2keepers.CheckResult{zc}})})
		out = append(out, c15Input{Kind: "outcome", Mode: "violate", Rule: "typeMismatchProposal", Note: "edge:zero-ext", Outcome: c15OutcomeToJ(ocr2keepersv3.AutomationOutcome{
			SurfacedProposals: [][]ocr2keepers.CoordinatedBlockProposal{{{UpkeepID: zc.UpkeepID, Trigger: zc.Trigger, WorkID: zc.WorkID}}}})})
	}

	// arbitrary bytes: the nasty ones first
	deep := func(n int) []string {
		o, c := strings.Repeat("[", n), strings.Repeat("]", n)
		return []string{
			`{"X":` + o + c + `}`, `{"X":` + o, `{"X":` + strings.Repeat(`{"a":`, n) + "1" + strings.Repeat("}", n) + `}`,
			`{"BlockHistory":` + o + c + `}`, `{"Performable":[` + o + c + `]}`, `{"Performable":[{"X":` + o + c + `}]}`,
			`{"Performable":[{"FastGasWei":` + o + c + `}]}`, o + c, `{"BlockHistory":[{"Hash":[` + o + c + `]}]}`,
			`{"BlockHistory":[{"Hash":[` + strings.Repeat("1,", 32) + o + c + `]}]}`,
			`{"AgreedPerformables":[` + o + `]}`, `{"SurfacedProposals":` + o + c + `}`, `{"SurfacedProposals":[[{"Trigger":` + o + `}]]}`,
		}
	}
	var nasty []string
	for _, n := range []int{9990, 10001} {
		nasty = append(nasty, deep(n)...)
	}
	nasty = append(nasty, deep(499990)[:3]...)
	nasty = append(nasty, "", " ", "\x00", "{", "}", `{"`, `{"a`, `{"a"`, `{"a":`, `{"Performable":[{"Retryable":tru`, `{"Performable":nul`,
		`{"UpkeepProposals":[{"WorkID":"\u12`, `{"UpkeepProposals":[{"WorkID":"\u12"}]}`, `{"UpkeepProposals":[{"WorkID":"\ud800"}]}`,
		`{"UpkeepProposals":[{"WorkID":"abc`, `{"UpkeepProposals":[{"WorkID":"abc\`, "{\"UpkeepProposals\":[{\"WorkID\":\"\xff\xfe\"}]}",
		"{\"Performable\":[]}\x00", "{\"Performable\":\x00[]}", `{"BlockHistory":[{"Number":`+strings.Repeat("9", 100000)+`}]}`,
		`{"Performable":[{"FastGasWei":`+strings.Repeat("9", 50000)+`}]}`, `{"Performable":[{"FastGasWei":1e999999999}]}`,
		`{"blockhistory":[{"number":1,"hash":[1,2,3]}]}`, `{"BlockHistory":[{"Number":1}],"BlockHistory":[{"Number":2},{"Number":3}]}`,
		`{"BlockHistory":[{"Number":1,"Number":null}]}`, `{"BlockHistory":[`+strings.Repeat(`{"Number":1},`, 7000)+`{"Number":1}]}`,
		`{"Performable":[{"PerformData":"AQ\n=="}]}`, `{"Performable":[{"UpkeepID":"AQID"}]}`,
		strings.Repeat(`{"Performable":`, 5000), strings.Repeat(`"`, 1001), strings.Repeat(`\`, 1001), `{"Performable":[{"WorkID":"`+strings.Repeat(`\`, 999)+`"}]}`)
	for _, s := range nasty {
		out = append(out, c15Input{Kind: "obs", Mode: "malformed", Raw: []byte(s), Note: "edge"})
		out = append(out, c15Input{Kind: "outcome", Mode: "malformed", Raw: []byte(s), Note: "edge"})
	}
	return out
}

// ---------------------------------------------------------------- probes for the goccy array zero-fill

// goccy/go-json v0.10.2 zero-fills a JSON array that is shorter than its Go
// [N]T target with one 8-byte pointer store per missing element
// (internal/decoder/array.go: `*(*unsafe.Pointer)(p + idx*size) = d.zeroValue`).
// For [32]byte (element size 1) the last stores reach 7 bytes past the array:
// into the next struct field (Trigger.BlockNumber after UpkeepID, the
// LogTriggerExtension pointer after Trigger.BlockHash, Index after TxHash …) or
// past the allocation (BlockKey.Hash is the last field of a slice element).

var c15FixedKeys = map[string]bool{"UpkeepID": true, "BlockHash": true, "TxHash": true, "Hash": true}

func c15ParseSafe(data []byte) (n *c15Node, err error) {
	defer func() {
		if r := recover(); r != nil {
			n, err = nil, fmt.Errorf("%v", r)
		}
	}()
	dec := json.NewDecoder(bytes.NewReader(data))
	dec.UseNumber()
	n, err = c15ParseValue(dec)
	if err == nil {
		if _, e := dec.Token(); e != io.EOF {
			err = fmt.Errorf("trailing data")
		}
	}
	return
}

// c15PadShort pads every short array under a [32]byte key with explicit zeros; reports whether it did.
func c15PadShort(root *c15Node) bool {
	padded := false
	c15Walk(root, func(s c15Slot, n *c15Node) {
		if s.parent != nil && s.parent.kind == 'o' && c15FixedKeys[s.key] && n.kind == 'a' && len(n.arr) < 32 {
			for len(n.arr) < 32 {
				n.arr = append(n.arr, &c15Node{kind: 'n', num: "0"})
			}
			padded = true
		}
	})
	return padded
}

var c15CodecOnce struct {
	sync.Once
	name string
}

// c15Codec probes which JSON package sits behind DecodeAutomationObservation:
// goccy/go-json reduces an unsigned number of up to 20 digits modulo 2^64,
// encoding/json rejects it.  (Nothing is zero-filled by this message.)
func c15Codec() string {
	c15CodecOnce.Do(func() {
		c15CodecOnce.name = "std"
		_, err := ocr2keepersv3.DecodeAutomationObservation([]byte(`{"BlockHistory":[{"Number":18446744073709551621}]}`), utg, wg)
		if err == nil {
			c15CodecOnce.name = "goccy"
		}
	})
	return c15CodecOnce.name
}

// c15Unmarshal is the first step of Decode… with the package the repository uses.
func c15Unmarshal(data []byte, v any) error {
	if c15Codec() == "goccy" {
		return gojson.Unmarshal(data, v)
	}
	return json.Unmarshal(data, v)
}

func c15BareUnmarshal(kind string, data []byte) (canon string, ok bool) {
	defer func() {
		if r := recover(); r != nil {
			canon, ok = "", false
		}
	}()
	if kind == "obs" {
		var o ocr2keepersv3.AutomationObservation
		if err := c15Unmarshal(data, &o); err != nil {
			return "", false
		}
		return string(must(json.Marshal(c15ObsToJ(o)))), true
	}
	var o ocr2keepersv3.AutomationOutcome
	if err := c15Unmarshal(data, &o); err != nil {
		return "", false
	}
	return string(must(json.Marshal(c15OutcomeToJ(o)))), true
}

// c15ZeroFillProbe is independent of the Lean model: the message is decoded
// once as it is and once with every short [32]byte array padded with explicit
// zeros (both through the same re-rendering).  Zero-filling means exactly that
// padding, so the two values must be equal; if they differ the decoder has
// written outside the array.  Returns "" or a description of the difference.
func c15ZeroFillProbe(kind string, raw []byte) string {
	root, err := c15ParseSafe(raw)
	if err != nil {
		return ""
	}
	same := root.String()
	if !c15PadShort(root) {
		return ""
	}
	a, okA := c15BareUnmarshal(kind, []byte(same))
	b, okB := c15BareUnmarshal(kind, []byte(root.String()))
	if !okA || !okB || a == b {
		return ""
	}
	// first differing position, for the replay file
	i := 0
	for i < len(a) && i < len(b) && a[i] == b[i] {
		i++
	}
	lo := max(0, i-60)
	return fmt.Sprintf("short array: …%s  |  explicit zeros: …%s", a[lo:min(len(a), i+40)], b[lo:min(len(b), i+40)])
}

var c15Sink [][]byte

// c15GCStress is the crash witness.  The store that zero-fills element 0 is a
// pointer-typed store, so while the garbage collector is marking, the write
// barrier shades the OLD contents of the slot — eight bytes the peer chose
// freely by sending the key twice ("Hash":[b0…b31],"Hash":[]).  When those bytes
// form an address inside an unused heap span the runtime throws "found bad
// pointer in Go heap" and the process dies.  The address is computed in the
// child (heap layout differs per process); a remote peer would have to guess it,
// Go heaps on linux/amd64 before 1.26 start at the fixed address 0xc000000000.
func c15GCStress(kind string, impl *c15Impl) {
	big := make([]byte, 64<<20)
	addr := uintptr(unsafe.Pointer(&big[0])) + 32<<20
	big = nil
	runtime.GC()
	debug.FreeOSMemory()
	var bs []string
	for i := 0; i < 32; i++ {
		b := byte(0)
		if i < 8 {
			b = byte(addr >> (8 * uint(i)))
		}
		bs = append(bs, fmt.Sprint(b))
	}
	hash := strings.Join(bs, ",")
	var msg string
	if kind == "obs" {
		msg = `{"BlockHistory":[{"Number":1,"Hash":[` + hash + `],"Hash":[]}]}`
	} else {
		msg = `{"SurfacedProposals":[[{"Trigger":{"BlockHash":[` + hash + `],"BlockHash":[]}}]]}`
	}
	impl.Text = msg
	stop := make(chan struct{})
	done := make(chan struct{})
	go func() {
		defer close(done)
		for {
			select {
			case <-stop:
				return
			default:
				runtime.GC()
			}
		}
	}()
	for i := 0; i < 60_000 && impl.Panic == ""; i++ { // dies within a few thousand decodes when the defect is present
		c15Decode(kind, []byte(msg), impl, nil)
	}
	close(stop)
	<-done
}
