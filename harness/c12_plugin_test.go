package harness

import (
	"context"
	"encoding/json"
	"fmt"
	"runtime"
	"sort"
	"strconv"
	"strings"
	"sync"
	"sync/atomic"
	"testing"
	"testing/synctest"
	"time"

	"github.com/smartcontractkit/libocr/offchainreporting2plus/ocr3types"

	ocr2keepersv3 "github.com/smartcontractkit/chainlink-automation/pkg/v3"
	"github.com/smartcontractkit/chainlink-automation/pkg/v3/flows"
	"github.com/smartcontractkit/chainlink-automation/pkg/v3/stores"
	"github.com/smartcontractkit/chainlink-automation/pkg/v3/types"
	ocr2keepers "github.com/smartcontractkit/chainlink-common/pkg/types/automation"
)

// C12, two more kinds of cases.
//
// "plugin": the whole node as the operator's code builds it (plugin.NewReportingPluginFactory →
// NewReportingPlugin, see NewNode): payloads enter through the log provider (log-trigger flow) or as
// coordinated proposals of a previous outcome handed to Observation (recovery-final and conditional-final
// flows); the check pipeline answers each unit of work from a script (retryable failures with default or
// custom intervals, then a terminal result).  Observed: every call the pipeline sees, in virtual time, and
// what the node finally offers as performable.  Every retryable failure — of any flow, and of the retry
// flow itself — must lead to another check of the same payload after its interval and within one retry
// tick, until the terminal result, which is staged iff it is an eligible success.
//
// "stress": un-timed goroutines call Enqueue (a newer check block for successive work ids) while another
// calls Dequeue on the real retry queue; invocation/response stamps are recorded so that the driver can
// linearize the history and hold it against the model and the proved log predicate.

type c12PItem struct {
	P      c12Payload `json:"p"`
	Path   string     `json:"path"` // "log" | "recFinal" | "condFinal"
	Script []c12Res   `json:"script"`
}
type c12Check struct {
	T   int64  `json:"t"`   // virtual ns since the start of the case
	Ix  int    `json:"ix"`  // input item
	Att int    `json:"att"` // how many checks of that item came before
	B   uint64 `json:"b"`   // check block of the payload handed to the pipeline
}
type c12PluginOut struct {
	FeedAt  int64      `json:"feedAt"`
	Checks  []c12Check `json:"checks"`
	Unknown int        `json:"unknown"` // calls for payloads that are no input item
	Perf    []JCR      `json:"perf"`    // performables of the node's final observation
	ObsErr  string     `json:"obsErr"`
	// PeerReject: why a peer's ValidateObservation would refuse the node's final observation ("" = accepted).
	// Not part of C12 (C03 is about that); recorded because a staged result can cause it.
	PeerReject string `json:"peerReject"`
}

type c12StressIn struct {
	W     int `json:"w"`     // work ids queued at check block 1 and due
	G     int `json:"g"`     // enqueuing goroutines
	Per   int `json:"per"`   // work ids per goroutine that get check block 2
	N1    int `json:"n1"`    // n of the concurrent Dequeue
	After int `json:"after"` // the concurrent Dequeue is invoked once this many Enqueue calls have returned
	// the check block the work ids are queued at, and the newer one of the concurrent Enqueue calls (Old < New);
	// New == 0: blocks 1 and 2
	Old uint64 `json:"old"`
	New uint64 `json:"new"`
}

func (s c12StressIn) blocks() (uint64, uint64) {
	if s.New == 0 {
		return 1, 2
	}
	return s.Old, s.New
}

type c12StressOut struct {
	T0  int64       `json:"t0"`
	T1  int64       `json:"t1"`
	T2  int64       `json:"t2"`
	Enq [][]int64   `json:"enq"` // per goroutine: inv, ret, inv, ret, … stamps of its Enqueue calls, in order
	D1s []int64     `json:"d1s"` // inv, ret of the concurrent Dequeue
	D1  [][2]uint64 `json:"d1"`  // (work id index, check block) handed out, in order
	D2  [][2]uint64 `json:"d2"`
	Bad int         `json:"bad"` // handed-out payloads that are not of the case
}

// "fair": D records that fail again whenever they are retried (re-enqueued with a short interval, so all D are due
// at every call) and Dequeue(n) with n < D, for many rounds.  Go ranges over the map from a random position, so
// every record is within the first n with a probability bounded away from 0 in every call; a record that is due at
// every one of K calls and is never handed out has been starved behind the batch limit.
type c12FairIn struct {
	D      int   `json:"d"`      // records, all due at every call
	N      int   `json:"n"`      // batch limit of each Dequeue
	K      int   `json:"k"`      // rounds
	Iv     int64 `json:"iv"`     // interval of every (re-)enqueue, ns
	Step   int64 `json:"step"`   // virtual ns between rounds (> Iv)
	Prefix bool  `json:"prefix"` // work ids with a long common prefix (otherwise hashes)
	Edge   bool  `json:"edge"`   // check blocks from the ends of their domain (0, 1, 2^63, 2^64-1, …), one per record
}
type c12FairOut struct {
	Counts   []int `json:"counts"`   // per record: how often it was handed out
	Short    int   `json:"short"`    // calls that returned fewer than min(n, D) payloads
	Foreign  int   `json:"foreign"`  // handed-out payloads that are no record of the case (work id, check block), or handed out twice in a call
	MaxWait  []int `json:"maxWait"`  // per record: longest run of consecutive calls in which it was due and not handed out
	LastSeen []int `json:"lastSeen"` // per record: last round in which it was handed out (-1 never)
}

func c12RunFair(t *testing.T, in c12Input) c12Impl {
	f := *in.Fair
	q := stores.NewRetryQueue(quietLogger)
	r := NewRng(uint64(f.D*1000003 + f.N*1009 + f.K))
	ps := make([]ocr2keepers.UpkeepPayload, f.D)
	ix := map[string]int{}
	for i := range ps {
		if f.Prefix {
			ps[i] = ocr2keepers.UpkeepPayload{WorkID: fmt.Sprintf("0xabcdef%04d", i), Trigger: ocr2keepers.Trigger{BlockNumber: 7}}
		} else {
			ps[i] = c12GenPayload(r, true, 100)
		}
		if f.Edge {
			ps[i].Trigger.BlockNumber = ocr2keepers.BlockNumber(c12EdgeBlocks[(i*5)%len(c12EdgeBlocks)])
		}
		ix[ps[i].WorkID] = i
		_ = q.Enqueue(types.RetryRecord{Payload: ps[i], Interval: time.Duration(f.Iv)})
	}
	out := &c12FairOut{Counts: make([]int, f.D), MaxWait: make([]int, f.D), LastSeen: make([]int, f.D)}
	wait := make([]int, f.D)
	for i := range out.LastSeen {
		out.LastSeen[i] = -1
	}
	want := f.N
	if f.D < want {
		want = f.D
	}
	for k := 0; k < f.K; k++ {
		time.Sleep(time.Duration(f.Step))
		got, _ := q.Dequeue(f.N)
		if len(got) < want {
			out.Short++
		}
		seen := map[int]bool{}
		for _, p := range got {
			i, ok := ix[p.WorkID]
			if !ok || seen[i] || p.Trigger.BlockNumber != ps[i].Trigger.BlockNumber {
				out.Foreign++
				continue
			}
			seen[i] = true
			out.Counts[i]++
			out.LastSeen[i] = k
			// the retry fails again: the retry flow's post-processor schedules it once more
			_ = q.Enqueue(types.RetryRecord{Payload: p, Interval: time.Duration(f.Iv)})
		}
		for i := range wait {
			if seen[i] {
				wait[i] = 0
			} else {
				wait[i]++
				if wait[i] > out.MaxWait[i] {
					out.MaxWait[i] = wait[i]
				}
			}
		}
	}
	return c12Impl{Fair: out}
}

func c12GenFair(r *Rng) c12Input {
	n := []int{1, 2, 5, 10, 10, 10}[r.Intn(6)] // 10 = flows.RetryBatchSize
	f := c12FairIn{N: n, D: n + r.Range(1, 6), K: 1000, Iv: []int64{1, 5_000_000, int64(time.Second)}[r.Intn(3)], Prefix: r.Chance(30), Edge: r.Chance(35)}
	f.Step = f.Iv + 1 + int64(r.Intn(3))*int64(flows.RetryCheckInterval)
	return c12Input{Kind: "fair", Fair: &f}
}

// ---------------------------------------------------------------- plugin cases

func c12RunPlugin(t *testing.T, in c12Input) c12Impl {
	clk := c12Clock{start: time.Now()}
	opts := NodeOpts{N: 4, F: 1}
	if in.Decoy {
		opts.Decoy = &NodeOpts{N: 4, F: 1, Digest: [32]byte{9}}
	}
	node := NewNode(t, opts)
	out := &c12PluginOut{Checks: []c12Check{}, Perf: []JCR{}}

	byWid := map[string]int{}
	for i, it := range in.PItems {
		byWid[it.P.WID] = i
	}
	var mu sync.Mutex
	count := make([]int, len(in.PItems))
	node.Run.mu.Lock()
	node.Run.fn = func(_ context.Context, ps []ocr2keepers.UpkeepPayload) ([]ocr2keepers.CheckResult, error) {
		mu.Lock()
		defer mu.Unlock()
		now := clk.ns()
		res := make([]ocr2keepers.CheckResult, 0, len(ps))
		for _, p := range ps {
			i, ok := byWid[p.WorkID]
			if !ok {
				out.Unknown++
				res = append(res, ocr2keepers.CheckResult{PipelineExecutionState: 3, UpkeepID: p.UpkeepID, Trigger: p.Trigger, WorkID: p.WorkID})
				continue
			}
			att := count[i]
			count[i]++
			out.Checks = append(out.Checks, c12Check{T: now, Ix: i, Att: att, B: uint64(p.Trigger.BlockNumber)})
			sc := in.PItems[i].Script
			if att < len(sc) {
				res = append(res, fromC12Res(sc[att]))
			} else {
				// beyond the script: nothing more should have been checked
				res = append(res, ocr2keepers.CheckResult{PipelineExecutionState: 3, UpkeepID: p.UpkeepID, Trigger: p.Trigger, WorkID: p.WorkID})
			}
		}
		return res, nil
	}
	node.Run.mu.Unlock()

	time.Sleep(1637 * time.Millisecond) // every service is running; off the flows' 1 s grid
	out.FeedAt = clk.ns()
	var logs []ocr2keepers.UpkeepPayload
	var props []ocr2keepers.CoordinatedBlockProposal
	for _, it := range in.PItems {
		p := fromC12Payload(it.P)
		if it.Path == "log" {
			logs = append(logs, p)
		} else {
			props = append(props, ocr2keepers.CoordinatedBlockProposal{UpkeepID: p.UpkeepID, Trigger: p.Trigger, WorkID: p.WorkID})
		}
	}
	if len(logs) > 0 {
		node.Logs.mu.Lock()
		node.Logs.payloads = logs
		node.Logs.mu.Unlock()
	}
	if len(props) > 0 {
		prev := ocr2keepersv3.AutomationOutcome{SurfacedProposals: [][]ocr2keepers.CoordinatedBlockProposal{props}}
		raw, err := prev.Encode()
		if err == nil {
			_, err = node.Plugin.Observation(context.Background(), ocr3types.OutcomeContext{SeqNr: 2, PreviousOutcome: raw}, nil)
		}
		if err != nil {
			out.ObsErr = "feed: " + err.Error()
		}
	}

	time.Sleep(time.Duration(in.RunFor))
	synctest.Wait()

	raw, err := node.Plugin.Observation(context.Background(), ocr3types.OutcomeContext{SeqNr: 3}, nil)
	if err != nil {
		out.ObsErr += "final: " + err.Error()
	} else if obs, err := ocr2keepersv3.DecodeAutomationObservation(raw, utg, wg); err == nil {
		out.Perf = toJCRs(obs.Performable)
	} else {
		// the validating decoder of the peers refuses it; read what the node offers all the same
		out.PeerReject = err.Error()
		var plain ocr2keepersv3.AutomationObservation
		if err := json.Unmarshal(raw, &plain); err != nil {
			out.ObsErr += "decode: " + err.Error()
		} else {
			out.Perf = toJCRs(plain.Performable)
		}
	}
	sort.Slice(out.Perf, func(i, j int) bool { return out.Perf[i].WID < out.Perf[j].WID })

	node.Close()
	time.Sleep(11 * time.Second)
	synctest.Wait()
	mu.Lock()
	defer mu.Unlock()
	return c12Impl{Plugin: out}
}

// c12PluginScript: 0–3 retryable failures, then a terminal result.
func c12PluginScript(r *Rng, p ocr2keepers.UpkeepPayload) ([]c12Res, int64) {
	var sc []c12Res
	var horizon int64
	tick := int64(flows.RetryCheckInterval)
	nfail := []int{0, 1, 1, 1, 2, 2, 3}[r.Intn(7)]
	for i := 0; i < nfail; i++ {
		res := c12GenRes(r, p, 2)
		// intervals around the retry tick: well inside, exactly a multiple of it, default
		res.RetryInterval = time.Duration([]int64{0, 1, int64(50 * time.Millisecond), int64(time.Second), int64(3 * time.Second),
			int64(5 * time.Second), int64(5*time.Second) - 1, int64(7 * time.Second), -5}[r.Intn(9)])
		eff := int64(res.RetryInterval)
		if eff <= 0 {
			eff = int64(stores.RetryInterval)
		}
		horizon += eff + tick
		sc = append(sc, toC12Res(res))
	}
	term := []int{0, 0, 0, 1, 3, 4}[r.Intn(6)]
	if nfail == 0 && r.Chance(50) {
		term = 0
	}
	last := c12GenRes(r, p, term)
	if last.PipelineExecutionState != 0 {
		last.Retryable = false // the script ends with a terminal result
	}
	sc = append(sc, toC12Res(last))
	return sc, horizon
}

func c12GenPlugin(r *Rng) c12Input {
	in := c12Input{Kind: "plugin", RetryTick: int64(flows.RetryCheckInterval), Decoy: r.Chance(15)}
	n := r.Range(1, 7)
	var horizon int64
	paths := [][]string{{"log"}, {"recFinal"}, {"condFinal"}, {"log", "recFinal", "condFinal"}}[r.Intn(4)]
	block := c12BlockGen(r, func() uint64 { return uint64(r.Range(100, 120)) })
	for i := 0; i < n; i++ {
		path := paths[r.Intn(len(paths))]
		p := c12GenPayload(r, path != "condFinal", block())
		sc, h := c12PluginScript(r, p)
		if h > horizon {
			horizon = h
		}
		in.PItems = append(in.PItems, c12PItem{P: toC12Payload(p), Path: path, Script: sc})
	}
	// entry (≤ 2 ticks of 1 s) + the longest chain of retries + one more retry tick of slack
	in.RunFor = int64(3*time.Second) + horizon + int64(flows.RetryCheckInterval) + int64(r.Range(0, 900))*int64(time.Millisecond)
	return in
}

// c12PluginEdge: each flow's retryable path once, by hand.
func c12PluginEdge() []c12Input {
	r := NewRng(343434)
	var out []c12Input
	type pe struct {
		iv  time.Duration
		blk uint64
	}
	for _, path := range []string{"log", "recFinal", "condFinal"} {
		// … and once for a payload checked on block 0 (a trigger nobody stamped), 1 and 2^64-1
		for _, e := range []pe{{50 * time.Millisecond, 100}, {0, 100}, {50 * time.Millisecond, 0}, {time.Second, 1}, {50 * time.Millisecond, ^uint64(0)}} {
			iv := e.iv
			p := c12GenPayload(r, path != "condFinal", e.blk)
			f1 := c12GenRes(r, p, 2)
			f1.RetryInterval = iv
			f2 := c12GenRes(r, p, 2)
			f2.RetryInterval = time.Second
			eff := int64(iv)
			if eff <= 0 {
				eff = int64(stores.RetryInterval)
			}
			in := c12Input{Kind: "plugin", RetryTick: int64(flows.RetryCheckInterval),
				PItems: []c12PItem{{P: toC12Payload(p), Path: path, Script: []c12Res{toC12Res(f1), toC12Res(f2), toC12Res(c12GenRes(r, p, 0))}}},
				RunFor: int64(3*time.Second) + eff + int64(time.Second) + 3*int64(flows.RetryCheckInterval)}
			out = append(out, in)
		}
	}
	return out
}

// ---------------------------------------------------------------- stress cases

func c12StressPayload(i int, block uint64) ocr2keepers.UpkeepPayload {
	return ocr2keepers.UpkeepPayload{WorkID: "w" + strconv.Itoa(i), Trigger: ocr2keepers.Trigger{BlockNumber: ocr2keepers.BlockNumber(block)}}
}

func c12RunStress(t *testing.T, in c12Input) c12Impl {
	s := *in.Stress
	clk := c12Clock{start: time.Now()}
	q := stores.NewRetryQueue(quietLogger)
	bOld, bNew := s.blocks()
	out := &c12StressOut{Enq: make([][]int64, s.G), D1: [][2]uint64{}, D2: [][2]uint64{}}
	conv := func(ps []ocr2keepers.UpkeepPayload) [][2]uint64 {
		r := make([][2]uint64, 0, len(ps))
		for _, p := range ps {
			i, err := strconv.Atoi(strings.TrimPrefix(p.WorkID, "w"))
			if err != nil || i < 0 || i >= s.W {
				out.Bad++
				continue
			}
			r = append(r, [2]uint64{uint64(i), uint64(p.Trigger.BlockNumber)})
		}
		return r
	}
	time.Sleep(time.Microsecond)
	out.T0 = clk.ns()
	for i := 0; i < s.W; i++ {
		_ = q.Enqueue(types.RetryRecord{Payload: c12StressPayload(i, bOld), Interval: 1})
	}
	time.Sleep(10 * time.Nanosecond)
	out.T1 = clk.ns()
	var stamp, done, ready atomic.Int64
	spin := func() { // all goroutines are running before the first call is made
		ready.Add(1)
		for ready.Load() < int64(s.G+1) {
			runtime.Gosched()
		}
	}
	var wgr sync.WaitGroup
	start := make(chan struct{})
	for g := 0; g < s.G; g++ {
		wgr.Add(1)
		go func(g int) {
			defer wgr.Done()
			st := make([]int64, 0, 2*s.Per)
			<-start
			spin()
			for j := 0; j < s.Per; j++ {
				inv := stamp.Add(1)
				_ = q.Enqueue(types.RetryRecord{Payload: c12StressPayload(g*s.Per+j, bNew), Interval: 1})
				st = append(st, inv, stamp.Add(1))
				done.Add(1)
			}
			out.Enq[g] = st
		}(g)
	}
	wgr.Add(1)
	go func() {
		defer wgr.Done()
		<-start
		spin()
		for done.Load() < int64(s.After) {
			runtime.Gosched()
		}
		inv := stamp.Add(1)
		ps, _ := q.Dequeue(s.N1)
		out.D1s = []int64{inv, stamp.Add(1)}
		out.D1 = conv(ps)
	}()
	close(start)
	wgr.Wait()
	time.Sleep(10 * time.Nanosecond)
	out.T2 = clk.ns()
	ps, _ := q.Dequeue(s.W + 10)
	out.D2 = conv(ps)
	return c12Impl{Stress: out}
}

func c12GenStress(r *Rng, big bool) c12Input {
	s := c12StressIn{G: r.Range(2, 6)}
	s.Per = r.Range(40, 160)
	if big {
		s.Per = r.Range(300, 1200)
	}
	s.W = s.G*s.Per + r.Range(0, 30)
	s.After = r.Intn(s.G*s.Per*9/10 + 1)
	s.N1 = s.W + 10
	if r.Chance(20) {
		s.N1 = r.Range(1, s.W)
	}
	// the two check blocks: ordinary, or at the ends of the domain (0 → 1, 0 → 2^64-1, across the sign bit, at the top)
	bl := [][2]uint64{{1, 2}, {1, 2}, {1, 2}, {0, 1}, {0, ^uint64(0)}, {1<<63 - 1, 1 << 63}, {^uint64(0) - 1, ^uint64(0)}}[r.Intn(7)]
	s.Old, s.New = bl[0], bl[1]
	return c12Input{Kind: "stress", Stress: &s}
}

func c12PluginAndStress(t *testing.T, em *Emitter, r *Rng, run func(string, c12Input)) {
	for _, in := range c12PluginEdge() {
		run("edge", in)
	}
	np := tierN(160, 1600)
	for i := 0; i < np; i++ {
		in := c12GenPlugin(r)
		for _, it := range in.PItems {
			em.Hit("plugin:path=" + it.Path)
			em.Hit(fmt.Sprintf("plugin:retries=%d", len(it.Script)-1))
		}
		run("gen", in)
	}
	nf := tierN(24, 400)
	for i := 0; i < nf; i++ {
		in := c12GenFair(r)
		em.Hit(fmt.Sprintf("fair:n=%d", in.Fair.N))
		run("gen", in)
	}
	ns := tierN(150, 3000)
	for i := 0; i < ns; i++ {
		in := c12GenStress(r, thorough() && i%4 == 0)
		em.Hit(fmt.Sprintf("stress:g=%d", in.Stress.G))
		run("gen", in)
	}
}
