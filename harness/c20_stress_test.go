package harness

import (
	"bytes"
	"encoding/json"
	"fmt"
	"io"
	"log"
	"math/big"
	"os"
	"os/exec"
	"path/filepath"
	"sort"
	"strconv"
	"strings"
	"sync"
	"sync/atomic"
	"testing"
	"time"

	ocr2keepers "github.com/smartcontractkit/chainlink-common/pkg/types/automation"

	"github.com/smartcontractkit/chainlink-automation/tools/simulator/config"
	"github.com/smartcontractkit/chainlink-automation/tools/simulator/simulate/chain"
	"github.com/smartcontractkit/chainlink-automation/tools/simulator/simulate/loader"
	"github.com/smartcontractkit/chainlink-automation/tools/simulator/util"
)

// C20 — un-timed concurrent stress of the real loader.OCR3TransmitLoader, the one
// object every simulated node's ContractTransmitter calls from libocr's
// transmission goroutine.  In each round k "nodes" submit the SAME attested
// report of that round at the same instant (barrier start, real goroutines, no
// virtual time); then a block is loaded.  Ω: each (report, round) is accepted
// exactly once, lands once in the block and is counted once by the perform
// counter that feeds the verdict.  Runs in a CHILD process: an unsynchronised
// map access ends a Go process with "fatal error: concurrent map read and map
// write", which cannot be recovered.

const c20StressOutEnv = "C20_STRESS_OUT"

type c20StressResult struct {
	RoundsDone    int   `json:"rounds_done"`
	AcceptedTotal int64 `json:"accepted_total"`
	MultiRounds   int   `json:"multi_rounds"` // rounds whose report was accepted from more than one node
	ZeroRounds    int   `json:"zero_rounds"`  // rounds whose report was accepted from no node
	Loaded        int   `json:"loaded"`       // transmits put into blocks
	Increments    int64 `json:"increments"`   // what the perform counter received
	Results       int   `json:"results"`      // len(Results())
	// filled by the parent
	Crash     string   `json:"crash"`
	CrashAt   string   `json:"crash_at"`
	ChildExit int      `json:"child_exit"`
	Races     int      `json:"races"`
	RaceSites []string `json:"race_sites"`
	RaceBuild bool     `json:"race_build"`
	WallMs    int64    `json:"wall_ms"`
}

type c20CountProgress struct{ n atomic.Int64 }

func (p *c20CountProgress) Register(string, int64) error { return nil }
func (p *c20CountProgress) Increment(_ string, n int64)  { p.n.Add(n) }

// TestC20StressChild is the helper run in the child process only.
func TestC20StressChild(t *testing.T) {
	out := os.Getenv(c20StressOutEnv)
	if out == "" {
		t.Skip("helper for TestC20 (child process only)")
	}
	rounds, _ := strconv.Atoi(os.Getenv("C20_STRESS_ROUNDS"))
	k, _ := strconv.Atoi(os.Getenv("C20_STRESS_K"))
	per, _ := strconv.Atoi(os.Getenv("C20_STRESS_PER"))
	var res c20StressResult
	write := func() {
		b, _ := json.Marshal(res)
		_ = os.WriteFile(out, b, 0o644)
	}
	progress := &c20CountProgress{}
	tl, err := loader.NewOCR3TransmitLoader(config.SimulationPlan{
		Blocks: config.Blocks{Genesis: big.NewInt(1), Duration: 10},
	}, progress, log.New(io.Discard, "", 0))
	if err != nil {
		t.Fatal(err)
	}
	for round := 1; round <= rounds; round++ {
		results := make([]ocr2keepers.CheckResult, per)
		for i := range results {
			results[i] = ocr2keepers.CheckResult{
				Eligible: true,
				UpkeepID: ocr2keepers.UpkeepIdentifier([32]byte{byte(round), byte(round >> 8), byte(i)}),
				Trigger:  ocr2keepers.NewTrigger(ocr2keepers.BlockNumber(round), [32]byte{1}),
				WorkID:   fmt.Sprintf("work-%d-%d", round, i),
			}
		}
		report, err := util.EncodeCheckResultsToReportBytes(results)
		if err != nil {
			t.Fatal(err)
		}
		var (
			wg       sync.WaitGroup
			start    = make(chan struct{})
			accepted atomic.Int32
		)
		for n := 0; n < k; n++ {
			wg.Add(1)
			go func(from string) {
				defer wg.Done()
				<-start
				if err := tl.Transmit(from, report, uint64(round)); err == nil {
					accepted.Add(1)
				}
			}(fmt.Sprintf("node-%d", n))
		}
		close(start)
		wg.Wait()
		block := chain.Block{Number: big.NewInt(int64(round))}
		tl.Load(&block)
		for _, tx := range block.Transactions {
			if p, ok := tx.(chain.PerformUpkeepTransaction); ok {
				res.Loaded += len(p.Transmits)
			}
		}
		a := int(accepted.Load())
		res.AcceptedTotal += int64(a)
		if a > 1 {
			res.MultiRounds++
		}
		if a == 0 {
			res.ZeroRounds++
		}
		res.RoundsDone = round
		if round%256 == 0 {
			write() // progress survives a fatal runtime error
		}
	}
	res.Increments = progress.n.Load()
	res.Results = len(tl.Results())
	write()
}

func c20RunTransmit(in c20Input, exe string, raceBuild bool) c20StressResult {
	var r c20StressResult
	for attempt := 0; attempt < 3; attempt++ {
		var tsan bool
		r, tsan = c20RunTransmitOnce(in, exe, raceBuild)
		if !tsan {
			break
		}
	}
	return r
}

func c20RunTransmitOnce(in c20Input, exe string, raceBuild bool) (c20StressResult, bool) {
	res := c20StressResult{RaceSites: []string{}, RaceBuild: raceBuild}
	dir, err := os.MkdirTemp("", "c20stress")
	if err != nil {
		res.Crash = "harness: " + err.Error()
		return res, false
	}
	defer os.RemoveAll(dir)
	outPath := filepath.Join(dir, "result.json")
	cmd := exec.Command(exe, "-test.run", "^TestC20StressChild$", "-test.timeout", "10m")
	coverChild(cmd)
	cmd.Env = append(os.Environ(), c20StressOutEnv+"="+outPath,
		"C20_STRESS_ROUNDS="+strconv.Itoa(in.Rounds), "C20_STRESS_K="+strconv.Itoa(in.K), "C20_STRESS_PER="+strconv.Itoa(in.PerReport),
		"VERIF_OUT="+filepath.Join(dir, "unused.jsonl"))
	var buf bytes.Buffer
	cmd.Stdout, cmd.Stderr = &buf, &buf
	t0 := time.Now()
	runErr := cmd.Run()
	if b, err := os.ReadFile(outPath); err == nil {
		_ = json.Unmarshal(b, &res)
	}
	res.RaceSites, res.RaceBuild = []string{}, raceBuild
	res.WallMs = time.Since(t0).Milliseconds()
	if ee, ok := runErr.(*exec.ExitError); ok {
		res.ChildExit = ee.ExitCode()
	} else if runErr != nil {
		res.ChildExit = -1
	}
	out := buf.String()
	for _, rep := range c20RaceReports(out) {
		if !rep.ignored {
			res.Races++
			res.RaceSites = append(res.RaceSites, rep.site)
		}
	}
	sort.Strings(res.RaceSites)
	res.Crash, res.CrashAt, _ = c20CrashSite(out)
	if res.Crash == "" && res.ChildExit != 0 && res.Races == 0 {
		res.Crash = fmt.Sprintf("child exit %d: %s", res.ChildExit, c20Tail(out, 300))
	}
	return res, strings.Contains(out, "ThreadSanitizer: CHECK failed")
}

var _ = testing.Short
