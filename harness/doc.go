// Package harness drives the real chainlink-automation code (module replaced
// by /repo) on generated inputs and writes one JSON line per case for the Lean
// driver.  All entry points are Go tests so that they can run inside
// testing/synctest bubbles (virtual time).
package harness
