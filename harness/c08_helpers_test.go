package harness

import (
	"context"
	"fmt"
	"math/big"
	"runtime"
	"sort"
	"sync"
	"testing"
	"testing/synctest"
	"time"

	gojson "github.com/goccy/go-json"
	"github.com/smartcontractkit/libocr/commontypes"
	"github.com/smartcontractkit/libocr/offchainreporting2plus/ocr3types"
	ocr2plustypes "github.com/smartcontractkit/libocr/offchainreporting2plus/types"

	ocr2keepersv3 "github.com/smartcontractkit/chainlink-automation/pkg/v3"
	"github.com/smartcontractkit/chainlink-automation/pkg/v3/plugin"
	"github.com/smartcontractkit/chainlink-automation/pkg/v3/runner"
	"github.com/smartcontractkit/chainlink-automation/pkg/v3/types"
	ocr2keepers "github.com/smartcontractkit/chainlink-common/pkg/types/automation"
)

// C08 "scripts": the SAME two plugin instances observed over a sequence of rounds (…8, 9, 10, 11…) while what they hold
// changes between the rounds.  A hook keeps state across rounds only if it is wrong to (the shuffled-id cache of the
// staging hook, anything a build hook memoises), so every observation of a script is compared with the stateless model:
//
//   * window:  the candidate list of node A is EMPTY in the first round of a new ten-sequence window (everything in flight
//              and released afterwards / everything agreed by the previous outcome and staged again / everything expired and
//              staged again), the same work is a candidate again later in that window;
//   * reorg:   block histories longer than 256 republished with the same head number and different hashes / tails, shorter,
//              longer, advanced;
//   * readd:   the sampling flow proposes an upkeep again WHILE Observation runs — after RemoveFromMetadataHook dropped it
//              (the previous outcome surfaced it) and before AddConditionalProposalsHook reads the store.  RemoveProposals is
//              only ever called from inside Observation, immediately followed by the views, so add/remove/add without a
//              view in between needs exactly this interleaving; it is forced through two public seams: the pipeline fake
//              holds the second check of the upkeep until the upkeep-type getter (called by RemoveProposals) lets it go.

// c08RunRestage: TTL boundaries of results that are staged AGAIN on a newer check block, and a block-history update that
// arrives through the subscription WHILE Observation runs.
//
//   T1  node A stages the first checks (w@b1)
//   T2  (1…4 min later) half of the work is checked again on a newer block and staged again on A (replacing w@b1, the TTL
//       starts over); node B stages, at T2, exactly what A holds then — it never saw the first checks; for a few results
//       an OLDER check arrives late and is ignored
//   observations at T1+TTL-1ns, T1+TTL, T1+TTL+1ns, T2+TTL-1ns, T2+TTL, T2+TTL+1ns (expiry is `age > TTL`)
//   during the observation right after T2 the block source of node A delivers a new, shorter view: the type getter is
//   asked (by coordinator.ShouldProcess, for a result whose transmission failed) after AddBlockHistoryHook ran; there the
//   harness publishes and lets the store's goroutine take the update.  The observation must carry one of the two views.
func c08RunRestage(t *testing.T, rc c08ScriptRecipe, em *Emitter) []c08Shot {
	var wgFn types.WorkIDGenerator
	r := NewRng(rc.Seed)
	digest := genHash(r)
	const N, F = 4, 1
	nodes := [2]*c08SNode{}
	for i := range nodes {
		h := &c08Hook{}
		sn := &c08SNode{hook: h, byWid: map[string]ocr2keepers.CheckResult{}, seen: map[string]time.Time{}, stagedAt: map[int]time.Time{},
			rec: map[string]uint64{}, pending: map[string]bool{}, props: map[string]c08PropEntry{}, hist: ocr2keepers.BlockHistory{},
			at: map[string]time.Time{}, exact: map[int]bool{}}
		sn.Node = c08NewHookedNode(t, NodeOpts{N: N, F: F, Digest: digest, OracleID: i}, h, wgFn)
		sn.Run.mu.Lock()
		sn.Run.fn = sn.pipeline
		sn.Run.mu.Unlock()
		nodes[i] = sn
	}
	defer func() {
		for _, n := range nodes {
			n.Close()
		}
		time.Sleep(11 * time.Second)
		synctest.Wait()
	}()
	time.Sleep(1637 * time.Millisecond)
	A, B := nodes[0], nodes[1]
	height := uint64(r.Range(1000, 100000))
	var pool []ocr2keepers.CheckResult
	var lens []int
	add := func(res ocr2keepers.CheckResult) int {
		pool = append(pool, res)
		lens = append(lens, len(must(gojson.Marshal(res))))
		for _, n := range nodes {
			n.mu.Lock()
			n.byWid[res.WorkID] = res
			n.mu.Unlock()
		}
		return len(pool) - 1
	}
	key := func(res ocr2keepers.CheckResult) string { return fmt.Sprintf("%s@%d", res.WorkID, res.Trigger.BlockNumber) }
	// exactTimes replaces the hand-over times of the given entries by the times the pipeline was asked (= Add)
	exactTimes := func(n *c08SNode, idx []int) {
		n.mu.Lock()
		defer n.mu.Unlock()
		for _, k := range idx {
			if at, ok := n.at[key(pool[k])]; ok {
				if _, st := n.stagedAt[k]; st {
					n.stagedAt[k] = at
					n.exact[k] = true
				}
			}
		}
	}
	mkHist := func(top uint64, depth int) ocr2keepers.BlockHistory {
		h := make(ocr2keepers.BlockHistory, 0, depth)
		for d := 0; d < depth; d++ {
			h = append(h, ocr2keepers.BlockKey{Number: ocr2keepers.BlockNumber(top - uint64(d)), Hash: genHash(r)})
		}
		return h
	}
	publish := func(n *c08SNode, h ocr2keepers.BlockHistory) {
		n.Blocks.Publish(h)
		n.hist = h
	}
	// ---- T1: the first checks, on node A only
	var first []int
	for i := 0; i < rc.NRes; i++ {
		first = append(first, add(genResult(r, genUpkeepID(r, r.Chance(50)), height)))
	}
	A.feed(pool, r.Perm(len(first)))
	longView := mkHist(height+500, []int{257, 300, 400}[r.Intn(3)])
	publish(A, longView)
	publish(B, longView)
	time.Sleep(2130 * time.Millisecond)
	exactTimes(A, first)
	t1 := A.stagedAt[first[0]]
	// one result is reported, the transmission fails: from then on coordinator.ShouldProcess asks for its upkeep type
	z := pool[first[r.Intn(len(first))]]
	A.accept([]ocr2keepers.CheckResult{z})
	A.release(r, height)
	time.Sleep(1400 * time.Millisecond)
	var shots []c08Shot
	info := map[string]int{}
	seq := rc.Seq0
	shoot := func(altA ocr2keepers.BlockHistory, before func(i int)) {
		synctest.Wait()
		nx := [2]c08NodeX{A.view(pool, nil), B.view(pool, nil)}
		if altA != nil {
			nx[0].HistAlt = toJBKs(altA)
		}
		ic := map[string]int{}
		for k, v := range info {
			ic[k] = v
		}
		shots = append(shots, c08TakeShot(digest, F, seq, pool, lens, nx, nil, [2]*Node{A.Node, B.Node}, ic, before))
		seq += uint64(rc.Step)
		em.Hit(fmt.Sprintf("script-seq%%10=%d", seq%10))
	}
	shoot(nil, nil)
	// ---- T2: half of the work is checked again on a newer block; a few older checks arrive late; B catches up
	time.Sleep(t1.Add(time.Duration(r.Range(60, 240))*time.Second + 130*time.Millisecond).Sub(time.Now()))
	var second, late, feedA, feedB []int
	for j, k := range first {
		switch {
		case j%2 == 0: // checked again on a newer block: replaces the first check on A
			res := pool[k]
			res.Trigger.BlockNumber += ocr2keepers.BlockNumber(r.Range(1, 5))
			res.Trigger.BlockHash = genHash(r)
			k2 := add(res)
			second = append(second, k2)
			A.unstage(k)
			feedA = append(feedA, k2)
			feedB = append(feedB, k2)
		case j%7 == 1 && pool[k].Trigger.BlockNumber > 2: // an OLDER check arrives late: ignored, the first one and its age stay
			res := pool[k]
			res.Trigger.BlockNumber -= 2
			res.Trigger.BlockHash = genHash(r)
			late = append(late, add(res))
			feedB = append(feedB, k)
		default:
			feedB = append(feedB, k)
		}
	}
	A.feed(pool, feedA)
	for _, k := range late { // handed to A's log provider, but never staged (the store keeps the higher check block)
		A.Logs.mu.Lock()
		A.Logs.payloads = append(A.Logs.payloads, payloadOf(pool[k]))
		A.Logs.mu.Unlock()
	}
	B.feed(pool, feedB)
	time.Sleep(2130 * time.Millisecond)
	exactTimes(A, feedA)
	exactTimes(B, feedB)
	t2 := A.stagedAt[second[0]]
	info["restaged-on-newer-block"] = len(second)
	info["older-check-ignored"] = len(late)
	// ---- the observation during which node A's block source delivers a new, shorter view
	shortView := mkHist(height+507, r.Range(3, 60))
	A.hook.mu.Lock()
	A.hook.watch, A.hook.watchFired = z.UpkeepID, false
	A.hook.onWatch = func() {
		A.Blocks.Publish(shortView)
		time.Sleep(time.Millisecond) // the metadata store's goroutine takes the update while Observation is still running
	}
	A.hook.mu.Unlock()
	info["history-update-during-observation"] = 1
	shoot(shortView, func(i int) {
		A.hook.mu.Lock()
		A.hook.watching = i == 0
		A.hook.mu.Unlock()
	})
	delete(info, "history-update-during-observation")
	A.hook.mu.Lock()
	fired := A.hook.watchFired
	A.hook.watching = false
	A.hook.mu.Unlock()
	if !fired {
		t.Fatalf("c08 restage: the type getter was not asked for the released result during Observation")
	}
	A.hist = shortView
	// ---- the TTL boundaries
	for _, target := range []time.Time{t1.Add(c08StoreTTL - 1), t1.Add(c08StoreTTL), t1.Add(c08StoreTTL + 1),
		t2.Add(c08StoreTTL - 1), t2.Add(c08StoreTTL), t2.Add(c08StoreTTL + 1)} {
		if d := target.Sub(time.Now()); d > 0 {
			time.Sleep(d)
		}
		info["at-ttl-boundary"] = 1
		shoot(nil, nil)
	}
	em.Hit("script=restage")
	return shots
}

// c08CheckValues fills in what a check run determines besides the perform data — the hash of the check block, the gas
// allowance, the fast gas price and the link price — choosing values whose JSON encodings are as short as possible
// (class 0: hash bytes 0…9, one-digit numbers), as long as possible (class 2: hash bytes >= 100, numbers at the top of their
// ranges) or anything (class 1).  All of them are what an honest pipeline can answer.
func c08CheckValues(r *Rng, res *ocr2keepers.CheckResult, class int) {
	switch class {
	case 0:
		for i := range res.Trigger.BlockHash {
			res.Trigger.BlockHash[i] = byte(r.Intn(10))
		}
		res.GasAllocated = uint64(r.Range(1, 9))
		res.FastGasWei = big.NewInt(int64(r.Intn(10)))
		res.LinkNative = big.NewInt(int64(r.Intn(10)))
	case 2:
		for i := range res.Trigger.BlockHash {
			res.Trigger.BlockHash[i] = byte(100 + r.Intn(156))
		}
		res.GasAllocated = ^uint64(0) - uint64(r.Intn(1000))
		res.FastGasWei = new(big.Int).Sub(uint256MaxBig, big.NewInt(int64(r.Intn(1000))))
		res.LinkNative = new(big.Int).Sub(uint256MaxBig, big.NewInt(int64(r.Intn(1000))))
	default:
		res.Trigger.BlockHash = genHash(r)
		res.GasAllocated = uint64(r.Range(1, 5_000_000))
		res.FastGasWei = new(big.Int).SetUint64(r.U64() % 1e12)
		res.LinkNative = new(big.Int).SetUint64(r.U64() % 1e18)
	}
}

// c08RunRecheck: the byte limit decides how many results an observation carries (about a hundred results with 5…10 KB of
// perform data each, of uneven sizes), and BETWEEN two observations of one ten-sequence window staged results are replaced
// through the result store by a re-check on a higher block: the same unit of work (same work id, same upkeep), but other
// values in every field a check fills in — check block and hash, gas, prices, perform data of the same or of another
// length.  "The result of work w" therefore changes its encoded length while w stays a candidate; whatever a hook keeps
// about a result from one call to the next (within the window it keeps the shuffled ids) must not enter the measurement.
//
//   T1  node A stages the first checks                                    -> observation s0
//   T2  a part is checked again (A replaces); node B joins and stages exactly what A holds now
//                                                                         -> observation s1 (same window)
//   T3  another part (of the current versions) is checked again on both   -> observation s2 (same window)
//                                                                         -> observation s3 (next window, nothing new)
//   T4  again                                                             -> observation s4
func c08RunRecheck(t *testing.T, rc c08ScriptRecipe, em *Emitter) []c08Shot {
	var wgFn types.WorkIDGenerator
	r := NewRng(rc.Seed)
	digest := genHash(r)
	const N, F = 4, 1
	nodes := [2]*c08SNode{}
	for i := range nodes {
		h := &c08Hook{}
		sn := &c08SNode{hook: h, byWid: map[string]ocr2keepers.CheckResult{}, seen: map[string]time.Time{}, stagedAt: map[int]time.Time{},
			rec: map[string]uint64{}, pending: map[string]bool{}, props: map[string]c08PropEntry{}, hist: ocr2keepers.BlockHistory{},
			at: map[string]time.Time{}, exact: map[int]bool{}}
		sn.Node = c08NewHookedNode(t, NodeOpts{N: N, F: F, Digest: digest, OracleID: i}, h, wgFn)
		sn.Run.mu.Lock()
		sn.Run.fn = sn.pipeline
		sn.Run.mu.Unlock()
		nodes[i] = sn
	}
	defer func() {
		for _, n := range nodes {
			n.Close()
		}
		time.Sleep(11 * time.Second)
		synctest.Wait()
	}()
	time.Sleep(1637 * time.Millisecond)
	A, B := nodes[0], nodes[1]
	// check blocks just below a power of ten now and then: the re-check's block number gains a digit
	height := []uint64{uint64(r.Range(1000, 100000)), 9_998, 99_999, 999_998}[r.Intn(4)]
	var pool []ocr2keepers.CheckResult
	var lens []int
	add := func(res ocr2keepers.CheckResult) int {
		pool = append(pool, res)
		lens = append(lens, len(must(gojson.Marshal(res))))
		for _, n := range nodes {
			n.mu.Lock()
			n.byWid[res.WorkID] = res
			n.mu.Unlock()
		}
		return len(pool) - 1
	}
	class := func(first bool) int {
		switch rc.Drift {
		case "grow":
			if first {
				return 0
			}
			return 2
		case "shrink":
			if first {
				return 2
			}
			return 0
		}
		return r.Intn(3)
	}
	pdLen := func() int {
		switch r.Intn(8) {
		case 0:
			return 10_000 // the on-chain cap
		case 1:
			return r.Range(0, 3000)
		}
		return r.Range(5000, 10_000)
	}
	// ---- T1
	cur := map[string]int{} // work id -> pool index of the version staged now
	var wids []string
	for i := 0; i < rc.NRes; i++ {
		res := genResult(r, genUpkeepID(r, r.Chance(50)), height-uint64(r.Intn(2)))
		c08CheckValues(r, &res, class(true))
		res.PerformData = r.Bytes(pdLen())
		cur[res.WorkID] = add(res)
		wids = append(wids, res.WorkID)
	}
	view := make(ocr2keepers.BlockHistory, 0, 300)
	for d, depth := 0, []int{0, 3, 100, 256, 300}[r.Intn(5)]; d < depth; d++ {
		view = append(view, ocr2keepers.BlockKey{Number: ocr2keepers.BlockNumber(height + 20 - uint64(d)), Hash: genHash(r)})
	}
	if rc.Fit > 0 && rc.NRes <= ocr2keepersv3.ObservationPerformablesLimit {
		// len(observation) = base - len("null") + len("[]") + sum(len(result_i)) + (n-1); base64 moves in steps of 4 bytes
		empty := ocr2keepersv3.AutomationObservation{UpkeepProposals: []ocr2keepers.CoordinatedBlockProposal{}, BlockHistory: view[:min(len(view), ocr2keepersv3.ObservationBlockHistoryLimit)]}
		base := len(must(empty.Encode()))
		total := func() int {
			t := base - 4 + 2 + len(wids) - 1
			for _, w := range wids {
				t += lens[cur[w]]
			}
			return t
		}
		target := ocr2keepersv3.MaxObservationLength - rc.Fit
		for pass := 0; pass < 4; pass++ {
			for _, w := range wids {
				diff := target - total()
				if diff >= 0 && diff < 4 {
					break
				}
				k := cur[w]
				n := len(pool[k].PerformData) + diff*3/4
				if diff < 0 {
					n -= 3
				}
				n = max(0, min(10_000, n))
				pool[k].PerformData = r.Bytes(n)
				lens[k] = len(must(gojson.Marshal(pool[k])))
				for _, nd := range nodes {
					nd.mu.Lock()
					nd.byWid[w] = pool[k]
					nd.mu.Unlock()
				}
			}
		}
		if d := target - total(); d < 0 || d >= 4 {
			t.Fatalf("c08 recheck: cannot place %d results %d bytes below the limit (off by %d)", rc.NRes, rc.Fit, d)
		}
	}
	var first []int
	for _, w := range wids {
		first = append(first, cur[w])
	}
	perm := r.Perm(len(first))
	feed0 := make([]int, len(first))
	for i, j := range perm {
		feed0[i] = first[j]
	}
	A.feed(pool, feed0)
	for _, n := range nodes {
		n.Blocks.Publish(view)
		n.hist = view
	}
	time.Sleep(2130 * time.Millisecond)
	var shots []c08Shot
	info := map[string]int{}
	shoot := func(seq uint64) {
		synctest.Wait()
		nx := [2]c08NodeX{A.view(pool, nil), B.view(pool, nil)}
		ic := map[string]int{}
		for k, v := range info {
			ic[k] = v
		}
		shots = append(shots, c08TakeShot(digest, F, seq, pool, lens, nx, nil, [2]*Node{A.Node, B.Node}, ic, nil, rc.Evals))
		em.Hit(fmt.Sprintf("script-seq%%10=%d", seq%10))
	}
	// recheck replaces the staged version of a random part of the work on the given nodes
	recheck := func(percent int, bJoins bool) {
		grown, shrunk, n := 0, 0, 0
		var feed []int
		for _, w := range wids {
			k := cur[w]
			if !r.Chance(percent) {
				continue
			}
			res := pool[k]
			res.Trigger.BlockNumber += ocr2keepers.BlockNumber(r.Range(1, 3))
			c08CheckValues(r, &res, class(false))
			mode := rc.PDMode
			if mode == "mixed" || mode == "" {
				mode = []string{"same-len", "other-len"}[r.Intn(2)]
			}
			switch {
			case mode == "same-len":
				res.PerformData = r.Bytes(len(res.PerformData))
			case r.Bool(): // another length close to the old one
				res.PerformData = r.Bytes(max(0, min(10_000, len(res.PerformData)+r.Range(-40, 60))))
			default:
				res.PerformData = r.Bytes(pdLen())
			}
			k2 := add(res)
			if d := lens[k2] - lens[k]; d > 0 {
				grown += d
			} else {
				shrunk -= d
			}
			n++
			A.unstage(k)
			if !bJoins {
				B.unstage(k)
			}
			cur[w] = k2
			feed = append(feed, k2)
		}
		A.feed(pool, feed)
		if bJoins { // everything A holds now, in another order
			var all []int
			for _, j := range r.Perm(len(wids)) {
				all = append(all, cur[wids[j]])
			}
			B.feed(pool, all)
		} else {
			B.feed(pool, feed)
		}
		time.Sleep(2130 * time.Millisecond)
		info["restaged-on-newer-block"] = n
		info["recheck-bytes-grown"] = grown
		info["recheck-bytes-shrunk"] = shrunk
	}
	step := uint64(rc.Step)
	if step == 0 {
		step = 1
	}
	s0 := rc.Seq0
	shoot(s0)
	recheck(r.Range(50, 100), true)
	shoot(s0 + step)
	recheck(r.Range(30, 100), false)
	shoot(s0 + 2*step)
	delete(info, "restaged-on-newer-block")
	delete(info, "recheck-bytes-grown")
	delete(info, "recheck-bytes-shrunk")
	s3 := (s0+2*step)/10*10 + 10 + uint64(r.Intn(3))
	time.Sleep(1130 * time.Millisecond)
	shoot(s3)
	recheck(r.Range(30, 100), false)
	shoot(s3 + 1)
	em.Hit("script=recheck")
	em.Hit("recheck-drift=" + rc.Drift)
	return shots
}

type c08ScriptRecipe struct {
	Script    bool   `json:"script"` // discriminates a script from a world recipe
	Seed      uint64 `json:"seed"`
	Variant   string `json:"variant"` // inflight-release | agreed-refeed | expire-refeed | none | churn
	NRes      int    `json:"nres"`
	Seq0      uint64 `json:"seq0"`
	Step      int    `json:"step"` // sequence numbers advance by this much per round
	Shots     int    `json:"shots"`
	BothEmpty bool   `json:"bothEmpty"` // node B goes through the same empty round (otherwise it keeps a candidate)
	Reorg     bool   `json:"reorg"`
	Readd     bool   `json:"readd"`
	LongIDs   bool   `json:"longIDs"` // a structured work-id scheme with ids of 96 characters, many logs of two busy upkeeps
	Shot      int    `json:"shot"` // the round this line is about (-1: all)
	// variant "recheck": how the encodings of re-checked results compare with those of the results they replace
	// (grow | shrink | mixed) and what the re-check's perform data looks like (same-len | other-len | mixed)
	Drift  string `json:"drift,omitempty"`
	PDMode string `json:"pdMode,omitempty"`
	// Fit (recheck, at most 100 results): the perform data lengths are adjusted so that the first observation carries ALL
	// results and ends this many bytes (+ at most 3) below MaxObservationLength: no trimming yet, any growth needs it
	Fit int `json:"fit,omitempty"`
	// Evals: between the Observation calls of a round the same instances also evaluate Outcome (twice) and Reports on the
	// round's inputs, as libocr does on every node
	Evals bool `json:"evals,omitempty"`
}

const c08GcInterval = 30 * time.Second // pkg/v3/stores/result_store.go gcInterval (regenerated as Gen.gcIntervalNs)

// c08LongWorkID is a structured work-id scheme (the generator is injected into the factory; nothing restricts its shape):
// 64 hex characters for the upkeep followed by the log's index as 32 hex digits — 96 characters, and the ids of the logs of
// one upkeep differ in the last characters only.  Like the production generators it ignores the check block and the log's
// block number.
func c08LongWorkID(uid ocr2keepers.UpkeepIdentifier, trig ocr2keepers.Trigger) string {
	base := wg(uid, ocr2keepers.Trigger{})
	if e := trig.LogTriggerExtension; e != nil {
		return base + fmt.Sprintf("%032x", e.Index)
	}
	return base + fmt.Sprintf("%032x", 0)
}

type c08ScriptInput struct {
	c08ScriptRecipe
	X *c08X `json:"x,omitempty"`
}

// c08Hook is the upkeep-type getter handed to the factory of a scripted node.
type c08Hook struct {
	mu    sync.Mutex
	armed bool
	x, y  ocr2keepers.UpkeepIdentifier
	nx    int
	fire  func()
	fired bool
	// watch: run onWatch once when the type of this upkeep is asked for (e.g. by coordinator.ShouldProcess inside
	// FilterResults, i.e. after AddBlockHistoryHook and before the final Encode)
	watching     bool
	watch        ocr2keepers.UpkeepIdentifier
	onWatch      func()
	watchFired   bool
}

func (h *c08Hook) typeGetter(uid ocr2keepers.UpkeepIdentifier) types.UpkeepType {
	var f func()
	h.mu.Lock()
	if h.armed {
		if uid == h.x {
			h.nx++
		} else if uid == h.y && h.nx >= 2 { // validation asked for x once, RemoveProposals a second time: x is removed now
			h.armed, h.fired = false, true
			f = h.fire
		}
	}
	if h.watching && uid == h.watch {
		h.watching, h.watchFired = false, true
		f = h.onWatch
	}
	h.mu.Unlock()
	if f != nil {
		f()
	}
	return utg(uid)
}

// c08NewHookedNode is NewNode with the upkeep-type getter replaced by the hook (same factory call otherwise).
func c08NewHookedNode(t testing.TB, o NodeOpts, h *c08Hook, wgFn types.WorkIDGenerator) *Node {
	if wgFn == nil {
		wgFn = wg
	}
	n := &Node{Logs: &fakeLogProvider{}, Events: &fakeEvents{}, Blocks: &fakeBlocks{}, Recov: &fakeRecoverable{},
		Getter: &fakeGetter{}, Run: &fakeRunnable{}, Enc: &recEncoder{}, States: &fakeStateUpdater{}, N: o.N, F: o.F}
	n.Digest = ocr2plustypes.ConfigDigest(o.Digest)
	fac := plugin.NewReportingPluginFactory(n.Logs, n.Events, n.Blocks, n.Recov, fakeBuilder{}, n.Getter, n.Run,
		runner.RunnerConfig{Workers: 4, WorkerQueueLength: 100, CacheExpire: 20 * time.Minute, CacheClean: 30 * time.Second},
		n.Enc, h.typeGetter, wgFn, n.States, quietLogger)
	p, info, err := fac.NewReportingPlugin(context.Background(), ocr3types.ReportingPluginConfig{
		ConfigDigest: n.Digest, OracleID: commontypes.OracleID(o.OracleID), N: o.N, F: o.F, OffchainConfig: []byte(`{}`),
	})
	if err != nil {
		t.Fatalf("NewReportingPlugin: %v", err)
	}
	n.Plugin, n.Info = p, info
	return n
}

type c08PropEntry struct {
	res ocr2keepers.CheckResult // the result the proposal was made from (its trigger is the proposal's trigger)
	at  time.Time
}

// c08SNode is one scripted instance together with what the harness knows it must hold.
type c08SNode struct {
	*Node
	hook *c08Hook
	mu   sync.Mutex
	// pipeline fake
	byWid    map[string]ocr2keepers.CheckResult
	seen     map[string]time.Time
	gate     chan struct{}
	gateWid  string
	gateBlk  uint64
	gateHit  bool
	at       map[string]time.Time // "work id@check block" -> virtual time of the pipeline call (= time of the store's Add)
	exact    map[int]bool         // stagedAt[k] is the exact Add time (TTL boundaries may be hit to the nanosecond)
	// expected state
	stagedAt map[int]time.Time // pool index -> when it was handed to the log provider
	order    []int             // pool indices in feeding order
	rec      map[string]uint64 // coordinator record: work id -> check block of the accepted report
	pending  map[string]bool   // … and whether the transmission is still pending (in flight)
	events   []ocr2keepers.TransmitEvent
	hist     ocr2keepers.BlockHistory
	props    map[string]c08PropEntry // work id -> proposal in the metadata store
	propOrd  []string
}

func (n *c08SNode) pipeline(_ context.Context, ps []ocr2keepers.UpkeepPayload) ([]ocr2keepers.CheckResult, error) {
	out := make([]ocr2keepers.CheckResult, 0, len(ps))
	for _, p := range ps {
		n.mu.Lock()
		res, ok := n.byWid[p.WorkID]
		var g chan struct{}
		if ok {
			if _, s := n.seen[p.WorkID]; !s {
				n.seen[p.WorkID] = time.Now()
			}
			if n.at != nil {
				n.at[fmt.Sprintf("%s@%d", p.WorkID, p.Trigger.BlockNumber)] = time.Now()
			}
			if n.gate != nil && p.WorkID == n.gateWid && uint64(p.Trigger.BlockNumber) == n.gateBlk {
				g = n.gate
				n.gateHit = true
			}
		}
		n.mu.Unlock()
		if g != nil {
			<-g // a slow check: answered when the script lets it go
		}
		if ok {
			res.Trigger = p.Trigger // checked on the payload's block
			out = append(out, res)
		}
	}
	return out, nil
}

func (n *c08SNode) feed(pool []ocr2keepers.CheckResult, idx []int) {
	now := time.Now()
	var rs []ocr2keepers.CheckResult
	for _, k := range idx {
		rs = append(rs, pool[k])
		if n.pending[pool[k].WorkID] {
			continue // the coordinator pre-processor withholds the payload: never checked, never staged
		}
		if _, ok := n.stagedAt[k]; !ok {
			n.stagedAt[k] = now
			n.order = append(n.order, k)
		}
	}
	ps := make([]ocr2keepers.UpkeepPayload, len(rs))
	for i, r := range rs {
		ps[i] = payloadOf(r)
	}
	n.Logs.mu.Lock()
	n.Logs.payloads = append(n.Logs.payloads, ps...)
	n.Logs.mu.Unlock()
}

func (n *c08SNode) unstage(k int) {
	delete(n.stagedAt, k)
	for i, v := range n.order {
		if v == k {
			n.order = append(n.order[:i], n.order[i+1:]...)
			break
		}
	}
}

// accept hands reports carrying the results to ShouldAcceptAttestedReport and mirrors coordinator.Accept.
func (n *c08SNode) accept(rs []ocr2keepers.CheckResult) {
	for k := 0; k < len(rs); k += 9 {
		e := min(k+9, len(rs))
		rep := must(n.Enc.Encode(rs[k:e]...))
		n.Enc.Take()
		if _, err := n.Plugin.ShouldAcceptAttestedReport(context.Background(), 1, ocr3types.ReportWithInfo[pluginInfo]{Report: rep}); err != nil {
			panic(err)
		}
	}
	for _, res := range rs {
		blk := uint64(res.Trigger.BlockNumber)
		if old, ok := n.rec[res.WorkID]; !ok || old < blk {
			n.rec[res.WorkID] = blk
			n.pending[res.WorkID] = true
		}
	}
}

// release reports failed transmissions (stale / reorged / insufficient funds) of everything in flight; the coordinator
// picks them up at its next poll.
func (n *c08SNode) release(r *Rng, height uint64) {
	var wids []string
	for wid, p := range n.pending {
		if p {
			wids = append(wids, wid)
		}
	}
	sort.Strings(wids) // map order must not decide which random hash an event gets
	for _, wid := range wids {
		res := n.byWid[wid]
		n.events = append(n.events, ocr2keepers.TransmitEvent{
			Type:            []ocr2keepers.TransmitEventType{ocr2keepers.StaleReportEvent, ocr2keepers.ReorgReportEvent, ocr2keepers.InsufficientFundsReportEvent}[r.Intn(3)],
			TransmitBlock:   ocr2keepers.BlockNumber(height + 1),
			Confirmations:   3,
			TransactionHash: genHash(r),
			UpkeepID:        res.UpkeepID,
			WorkID:          wid,
			CheckBlock:      ocr2keepers.BlockNumber(n.rec[wid]),
		})
		n.pending[wid] = false
	}
	sort.Slice(n.events, func(i, j int) bool { return n.events[i].WorkID < n.events[j].WorkID })
	n.Events.Set(n.events...)
}

// view is what the node must hold now.
func (n *c08SNode) view(pool []ocr2keepers.CheckResult, readd []JProp) c08NodeX {
	now := time.Now()
	x := c08NodeX{Staged: []int{}, Inflight: []string{}, Log: []JProp{}, Cond: []JProp{}, Hist: toJBKs(n.hist), Readd: readd}
	for _, k := range n.order {
		if at, ok := n.stagedAt[k]; ok {
			if age := now.Sub(at); !n.exact[k] && age > c08StoreTTL-3*time.Second && age < c08StoreTTL+3*time.Second {
				panic("c08 script: a staged result is within 3 s of the store TTL at an observation")
			} else if age > c08StoreTTL {
				continue
			}
			x.Staged = append(x.Staged, k)
		}
	}
	for wid, p := range n.pending {
		if p {
			x.Inflight = append(x.Inflight, wid)
		}
	}
	sort.Strings(x.Inflight)
	for _, wid := range n.propOrd {
		e, ok := n.props[wid]
		if !ok {
			continue
		}
		p := toJProp(ocr2keepers.CoordinatedBlockProposal{UpkeepID: e.res.UpkeepID, Trigger: e.res.Trigger, WorkID: wid})
		if utg(e.res.UpkeepID) == types.LogTrigger {
			x.Log = append(x.Log, p)
		} else {
			x.Cond = append(x.Cond, p)
		}
	}
	return x
}

// noteProposals records which of the offered results reached the metadata store (the pipeline was asked about them).
func (n *c08SNode) noteProposals(rs []ocr2keepers.CheckResult) {
	n.mu.Lock()
	defer n.mu.Unlock()
	for _, res := range rs {
		if at, ok := n.seen[res.WorkID]; ok {
			if _, have := n.props[res.WorkID]; !have {
				n.props[res.WorkID] = c08PropEntry{res: res, at: at}
				n.propOrd = append(n.propOrd, res.WorkID)
			}
		}
	}
}

// afterShot applies what the pre-build hooks did with the previous outcome.
func (n *c08SNode) afterShot(pool []ocr2keepers.CheckResult, prev *ocr2keepersv3.AutomationOutcome, readd []ocr2keepers.CheckResult) {
	if prev != nil {
		agreed := map[string]bool{}
		for _, res := range prev.AgreedPerformables {
			agreed[res.WorkID] = true
		}
		for _, k := range append([]int{}, n.order...) {
			if agreed[pool[k].WorkID] {
				n.unstage(k)
			}
		}
		for _, round := range prev.SurfacedProposals {
			for _, p := range round {
				if e, ok := n.props[p.WorkID]; ok && utg(e.res.UpkeepID) == utg(p.UpkeepID) {
					delete(n.props, p.WorkID)
				}
			}
		}
	}
	for _, res := range readd {
		n.props[res.WorkID] = c08PropEntry{res: res, at: time.Now()}
		have := false
		for _, w := range n.propOrd {
			have = have || w == res.WorkID
		}
		if !have {
			n.propOrd = append(n.propOrd, res.WorkID)
		}
	}
}

// c08RunScript runs a script inside the current bubble; one shot per round.
func c08RunScript(t *testing.T, rc c08ScriptRecipe, em *Emitter) []c08Shot {
	if rc.Variant == "restage" {
		return c08RunRestage(t, rc, em)
	}
	if rc.Variant == "recheck" {
		return c08RunRecheck(t, rc, em)
	}
	var wgFn types.WorkIDGenerator
	if rc.LongIDs {
		wgFn = c08LongWorkID
	}
	tc := time.Now() // every ticker of the instances starts now: log flow ticks at tc+1s·j, the store's collector at tc+30s·j
	r := NewRng(rc.Seed)
	digest := genHash(r)
	const N, F = 4, 1
	nodes := [2]*c08SNode{}
	for i := range nodes {
		h := &c08Hook{}
		sn := &c08SNode{hook: h, byWid: map[string]ocr2keepers.CheckResult{}, seen: map[string]time.Time{}, stagedAt: map[int]time.Time{},
			rec: map[string]uint64{}, pending: map[string]bool{}, props: map[string]c08PropEntry{}, hist: ocr2keepers.BlockHistory{},
			at: map[string]time.Time{}, exact: map[int]bool{}}
		sn.Node = c08NewHookedNode(t, NodeOpts{N: N, F: F, Digest: digest, OracleID: i}, h, wgFn)
		sn.Run.mu.Lock()
		sn.Run.fn = sn.pipeline
		sn.Run.mu.Unlock()
		nodes[i] = sn
	}
	defer func() {
		for _, n := range nodes {
			n.mu.Lock()
			if n.gate != nil {
				select {
				case <-n.gate:
				default:
					close(n.gate)
				}
			}
			n.mu.Unlock()
			n.Close()
		}
		time.Sleep(11 * time.Second)
		synctest.Wait()
	}()
	time.Sleep(1637 * time.Millisecond)
	A, B := nodes[0], nodes[1]
	height := uint64(r.Range(1000, 100000))
	var pool []ocr2keepers.CheckResult
	var lens []int
	var busy []ocr2keepers.UpkeepIdentifier // long-id scheme: two log upkeeps with many logs each
	logCounter := uint32(100)
	mkRes := func(uid ocr2keepers.UpkeepIdentifier, block uint64) ocr2keepers.CheckResult {
		res := genResult(r, uid, block)
		if wgFn != nil {
			if e := res.Trigger.LogTriggerExtension; e != nil {
				logCounter++
				e.Index = logCounter
			}
			res.WorkID = wgFn(uid, res.Trigger)
		}
		return res
	}
	addPool := func(logType bool) int {
		var res ocr2keepers.CheckResult
		switch {
		case rc.LongIDs && r.Chance(65):
			if len(busy) < 2 {
				busy = append(busy, genUpkeepID(r, true))
			}
			res = mkRes(busy[r.Intn(len(busy))], height-uint64(r.Intn(4)))
		case !rc.LongIDs && r.Chance(6):
			res = genResultOtherType(r, height-uint64(r.Intn(4)))
		default:
			res = mkRes(genUpkeepID(r, logType), height-uint64(r.Intn(4)))
		}
		if r.Chance(4) {
			res.PerformData = r.Bytes(r.Range(100, 3000))
		}
		pool = append(pool, res)
		lens = append(lens, len(must(gojson.Marshal(res))))
		for _, n := range nodes {
			n.mu.Lock()
			n.byWid[res.WorkID] = res
			n.mu.Unlock()
		}
		return len(pool) - 1
	}
	known := func(res ocr2keepers.CheckResult) {
		for _, n := range nodes {
			n.mu.Lock()
			n.byWid[res.WorkID] = res
			n.mu.Unlock()
		}
	}
	// ---- round 0 state: the pool on both nodes (different orders), proposals, a block history
	for i := 0; i < rc.NRes; i++ {
		addPool(r.Chance(60))
	}
	wave := make([]int, len(pool)) // churn: the results staged last
	for i := range wave {
		wave[i] = i
	}
	A.feed(pool, r.Perm(len(pool)))
	if rc.Variant != "churn" { // churn: node B only joins for the last wave (a sorter that has seen nothing before)
		B.feed(pool, r.Perm(len(pool)))
	}
	var props []ocr2keepers.CheckResult
	nl, nc := r.Range(0, 7), r.Range(1, 7)
	for i := 0; i < nl+nc; i++ {
		res := mkRes(genUpkeepID(r, i < nl), height)
		props = append(props, res)
		known(res)
		for _, n := range nodes {
			if i < nl {
				n.Recov.mu.Lock()
				n.Recov.payloads = append(n.Recov.payloads, payloadOf(res))
				n.Recov.mu.Unlock()
			} else {
				n.Getter.mu.Lock()
				n.Getter.upkeeps = append(n.Getter.upkeeps, payloadOf(res))
				n.Getter.mu.Unlock()
			}
		}
	}
	// block histories: one chain, republished in variations
	chain := map[uint64][32]byte{}
	mkHist := func(top uint64, depth int, fresh int, tailFrom int) ocr2keepers.BlockHistory {
		h := make(ocr2keepers.BlockHistory, 0, depth)
		for d := 0; d < depth; d++ {
			num := top - uint64(d)
			if _, ok := chain[num]; !ok || d < fresh || (tailFrom > 0 && d >= tailFrom) {
				chain[num] = genHash(r) // reorg: new hashes for the newest `fresh` blocks / for everything from tailFrom down
			}
			h = append(h, ocr2keepers.BlockKey{Number: ocr2keepers.BlockNumber(num), Hash: chain[num]})
		}
		return h
	}
	top := height + 500
	// block sources with a short window (fewer than 256 blocks per update) as well as long ones
	depth := []int{5, 16, 100, 257, 300, 400}[r.Intn(6)]
	publish := func(h ocr2keepers.BlockHistory, which int) {
		for i, n := range nodes {
			if which == 2 || which == i {
				n.Blocks.Publish(h)
				n.hist = h
			}
		}
	}
	publish(mkHist(top, depth, 0, 0), 2)
	time.Sleep(4130 * time.Millisecond) // every later sleep is a multiple of 10 ms: the script stays 7-8 ms off the 1 s grids
	for _, n := range nodes {
		n.Getter.mu.Lock()
		n.Getter.upkeeps = nil
		n.Getter.mu.Unlock()
		n.noteProposals(props)
	}
	// ---- the rounds
	step := uint64(rc.Step)
	if step == 0 {
		step = 1
	}
	boundary := -1
	for k := 0; k < rc.Shots; k++ {
		if (rc.Seq0+uint64(k)*step)/10 > rc.Seq0/10 {
			boundary = k
			break
		}
	}
	readdAt := -1
	if rc.Readd {
		var opts []int
		for k := 1; k < rc.Shots; k++ {
			if k != boundary && k != boundary+1 {
				opts = append(opts, k)
			}
		}
		if len(opts) > 0 {
			readdAt = opts[r.Intn(len(opts))]
		}
	}
	// what the node offers now: staged (handed over at least 1.1 s ago, so that the log flow has ticked) and not in flight.
	// A report for work whose payload is still waiting for the next tick would make the coordinator withhold the payload.
	candidates := func(n *c08SNode) []ocr2keepers.CheckResult {
		var out []ocr2keepers.CheckResult
		now := time.Now()
		for _, k := range n.order {
			if at, ok := n.stagedAt[k]; ok && !n.pending[pool[k].WorkID] && now.Sub(at) >= 1100*time.Millisecond {
				out = append(out, pool[k])
			}
		}
		return out
	}
	var refeed []int
	var prevOfLast *ocr2keepersv3.AutomationOutcome // the previous outcome the last round was run on
	noSurface := map[string]bool{} // work that was surfaced once is not surfaced again by the script
	stagedIdx := map[string]int{}  // … and the pool index of the result the final flows staged for it
	var shots []c08Shot
	info := map[string]int{}
	for k := 0; k < rc.Shots; k++ {
		seq := rc.Seq0 + uint64(k)*step
		var prev *ocr2keepersv3.AutomationOutcome
		var readdJ [2][]JProp
		var readdRes []ocr2keepers.CheckResult
		// -- what happens before this round
		if k == boundary {
			switch rc.Variant {
			case "inflight-release":
				A.accept(candidates(A))
				if rc.BothEmpty {
					B.accept(candidates(B))
				} else if c := candidates(B); len(c) > 1 {
					B.accept(c[:len(c)/2])
				}
			case "agreed-refeed":
				o := ocr2keepersv3.AutomationOutcome{AgreedPerformables: []ocr2keepers.CheckResult{}, SurfacedProposals: [][]ocr2keepers.CoordinatedBlockProposal{}}
				seenW := map[string]bool{}
				for _, n := range nodes {
					for _, kk := range n.order {
						if _, ok := n.stagedAt[kk]; ok && !seenW[pool[kk].WorkID] && len(o.AgreedPerformables) < 100 {
							seenW[pool[kk].WorkID] = true
							o.AgreedPerformables = append(o.AgreedPerformables, pool[kk])
							refeed = append(refeed, kk)
						}
					}
				}
				prev = &o
				if !rc.BothEmpty {
					B.feed(pool, []int{addPool(true)})
					time.Sleep(1200 * time.Millisecond)
				}
			case "expire-refeed":
				time.Sleep(c08StoreTTL + 35*time.Second)
				for _, n := range nodes {
					for _, kk := range append([]int{}, n.order...) {
						refeed = append(refeed, kk)
						n.unstage(kk)
					}
				}
				if !rc.BothEmpty {
					B.feed(pool, []int{addPool(true)})
					time.Sleep(1200 * time.Millisecond)
				}
			}
			info["empty-round-at-window-start"] = 1
		} else if k > 0 && rc.Variant == "churn" {
			// everything staged expires; a new wave of as many results arrives: more than 2^14 distinct work ids pass
			// through node A's staging hook within one ten-sequence window
			// The collector (a tick every 30 s since the store started) removes the expired wave at its first tick after
			// the expiry.  A small batch handed to the log provider half a second earlier is picked up by the log flow's
			// tick at that very instant: the store's Add runs while the collector is at work on thousands of entries.
			A.mu.Lock()
			tAdd := A.at[fmt.Sprintf("%s@%d", pool[wave[0]].WorkID, pool[wave[0]].Trigger.BlockNumber)]
			A.mu.Unlock()
			g0 := tc
			for !(g0.Sub(tAdd) > c08StoreTTL) {
				g0 = g0.Add(c08GcInterval)
			}
			time.Sleep(g0.Add(-490 * time.Millisecond).Sub(time.Now()))
			small := map[int]bool{}
			var smallIdx []int
			for j := 0; j < 60; j++ {
				q := addPool(r.Chance(60))
				small[q] = true
				smallIdx = append(smallIdx, q)
			}
			A.feed(pool, smallIdx)
			B.feed(pool, smallIdx)
			time.Sleep(1000 * time.Millisecond)
			info["staged-at-a-collector-tick"] = len(smallIdx)
			for _, n := range nodes {
				for _, kk := range append([]int{}, n.order...) {
					if !small[kk] {
						n.unstage(kk)
					}
				}
			}
			var idx []int
			for j := 0; j < rc.NRes; j++ {
				idx = append(idx, addPool(r.Chance(60)))
			}
			wave = idx
			A.feed(pool, idx)
			if k == rc.Shots-1 {
				perm := r.Perm(len(idx))
				rev := make([]int, len(idx))
				for j, q := range perm {
					rev[j] = idx[q]
				}
				B.feed(pool, rev)
			}
			time.Sleep(1200 * time.Millisecond)
			info["distinct-ids-in-window"] = len(pool)
		} else if k > 0 {
			// ordinary traffic between two rounds
			if r.Chance(50) {
				var idx []int
				for j := r.Range(1, 5); j > 0; j-- {
					idx = append(idx, addPool(r.Chance(60)))
				}
				A.feed(pool, idx)
				if r.Chance(80) {
					B.feed(pool, idx)
				}
			}
			if r.Chance(30) {
				n := nodes[r.Intn(2)]
				if c := candidates(n); len(c) > 0 {
					n.accept(c[:min(len(c), r.Range(1, 3))])
				}
			}
			prevPct := 25
			if rc.Evals {
				prevPct = 50
			}
			if r.Chance(prevPct) && k != boundary+1 {
				// a small previous outcome: agrees on a few candidates, surfaces a held proposal
				o := ocr2keepersv3.AutomationOutcome{AgreedPerformables: []ocr2keepers.CheckResult{}, SurfacedProposals: [][]ocr2keepers.CoordinatedBlockProposal{}}
				if c := candidates(A); len(c) > 0 {
					for _, j := range r.Perm(len(c))[:min(len(c), r.Range(1, 4))] {
						o.AgreedPerformables = append(o.AgreedPerformables, c[j])
					}
				}
				if rc.Evals && len(A.propOrd) > 0 && r.Chance(70) {
					// … or up to three of them in one round
					var round []ocr2keepers.CoordinatedBlockProposal
					want := r.Range(1, 3)
					for _, j := range r.Perm(len(A.propOrd)) {
						if e, ok := A.props[A.propOrd[j]]; ok && !noSurface[e.res.WorkID] && len(round) < want {
							sp := ocr2keepers.CoordinatedBlockProposal{UpkeepID: e.res.UpkeepID, Trigger: e.res.Trigger, WorkID: e.res.WorkID}
							c08StampWithView(r, &sp, A.hist)
							round = append(round, sp)
						}
					}
					if len(round) > 0 {
						o.SurfacedProposals = append(o.SurfacedProposals, round)
					}
				} else if len(A.propOrd) > 0 && r.Chance(50) {
					if e, ok := A.props[A.propOrd[r.Intn(len(A.propOrd))]]; ok && !noSurface[e.res.WorkID] {
						sp := ocr2keepers.CoordinatedBlockProposal{UpkeepID: e.res.UpkeepID, Trigger: e.res.Trigger, WorkID: e.res.WorkID}
						c08StampWithView(r, &sp, A.hist) // coordinated on a recent block of the view
						o.SurfacedProposals = append(o.SurfacedProposals, []ocr2keepers.CoordinatedBlockProposal{sp})
					}
				}
				prev = &o
			}
		}
		if k == boundary+1 && boundary >= 0 {
			switch rc.Variant {
			case "inflight-release":
				for _, n := range nodes {
					n.release(r, height)
				}
				time.Sleep(1400 * time.Millisecond)
			case "agreed-refeed", "expire-refeed":
				A.feed(pool, refeed)
				B.feed(pool, refeed)
				time.Sleep(2200 * time.Millisecond)
			}
			info["same-work-candidates-again"] = 1
		}
		// block history
		if k > 0 && (rc.Reorg || r.Chance(30)) && rc.Variant != "churn" {
			which := []int{2, 2, 2, 0, 1}[r.Intn(5)]
			switch r.Intn(7) {
			case 0: // the chain advances
				top += uint64(r.Range(1, 3))
				publish(mkHist(top, depth, 0, 0), which)
			case 1, 2: // same-height reorg: the newest blocks get other hashes, the head NUMBER stays
				publish(mkHist(top, depth, r.Range(1, 5), 0), which)
				info["same-head-reorg"]++
			case 3: // the deep part of the view is corrected
				publish(mkHist(top, depth, 0, r.Range(100, 255)), which)
				info["tail-corrected"]++
			case 4: // shorter / longer view with the same head
				depth = []int{5, 16, 100, 256, 257, 300, 400}[r.Intn(7)]
				publish(mkHist(top, depth, 0, 0), which)
			case 5: // a burst: two views queued back to back in the subscription channel, the SECOND one's head is not higher
				// (same-height reorg right behind the orphaned head / reorg to a lower height / an empty view).  One P while
				// sending, so that both are in the channel before the store's loop runs.
				top += 2
				v1 := mkHist(top, depth, 0, 0)
				var v2 ocr2keepers.BlockHistory
				switch r.Intn(3) {
				case 0:
					v2 = mkHist(top, depth, r.Range(1, 3), 0)
				case 1:
					top--
					v2 = mkHist(top, depth, 2, 0)
				default:
					v2 = ocr2keepers.BlockHistory{}
				}
				old := runtime.GOMAXPROCS(1)
				for i, n := range nodes {
					if which == 2 || which == i {
						n.Blocks.Publish(v1)
						n.Blocks.Publish(v2)
						n.hist = v2
					}
				}
				runtime.GOMAXPROCS(old)
				info["history-burst"]++
			case 6: // nothing new
			}
			time.Sleep(300 * time.Millisecond)
		}
		if k == readdAt {
			// new conditional upkeeps are sampled (x gets the smallest work id of the store), the network surfaces x and y,
			// and x is sampled again on a newer block: its check is still running when Observation starts
			var fresh []ocr2keepers.CheckResult
			minWid := ""
			for wid, e := range A.props {
				if utg(e.res.UpkeepID) != types.LogTrigger && (minWid == "" || wid < minWid) {
					minWid = wid
				}
			}
			for len(fresh) < 3 {
				res := mkRes(genUpkeepID(r, false), height)
				if len(fresh) == 0 && minWid != "" && res.WorkID > minWid {
					continue // x must sort before every key already in the store
				}
				if len(fresh) > 0 && res.WorkID < fresh[0].WorkID {
					continue
				}
				fresh = append(fresh, res)
				known(res)
			}
			xr, yr := fresh[0], fresh[1]
			for _, n := range nodes {
				n.Getter.mu.Lock()
				n.Getter.upkeeps = []ocr2keepers.UpkeepPayload{payloadOf(fresh[1]), payloadOf(fresh[0]), payloadOf(fresh[2])}
				n.Getter.mu.Unlock()
			}
			time.Sleep(3200 * time.Millisecond)
			for _, n := range nodes {
				n.Getter.mu.Lock()
				n.Getter.upkeeps = nil
				n.Getter.mu.Unlock()
				n.noteProposals(fresh)
			}
			x2 := xr
			x2.Trigger.BlockNumber++
			x2.Trigger.BlockHash = genHash(r)
			A.mu.Lock()
			A.gate, A.gateWid, A.gateBlk, A.gateHit = make(chan struct{}), xr.WorkID, uint64(x2.Trigger.BlockNumber), false
			A.mu.Unlock()
			A.Getter.mu.Lock()
			A.Getter.upkeeps = []ocr2keepers.UpkeepPayload{payloadOf(x2)}
			A.Getter.mu.Unlock()
			time.Sleep(3200 * time.Millisecond)
			synctest.Wait()
			A.Getter.mu.Lock()
			A.Getter.upkeeps = nil
			A.Getter.mu.Unlock()
			A.mu.Lock()
			hit := A.gateHit
			gate := A.gate
			A.mu.Unlock()
			o := ocr2keepersv3.AutomationOutcome{AgreedPerformables: []ocr2keepers.CheckResult{}, SurfacedProposals: [][]ocr2keepers.CoordinatedBlockProposal{{
				{UpkeepID: xr.UpkeepID, Trigger: xr.Trigger, WorkID: xr.WorkID},
				{UpkeepID: yr.UpkeepID, Trigger: yr.Trigger, WorkID: yr.WorkID},
			}}}
			for i := range o.SurfacedProposals[0] {
				c08StampWithView(r, &o.SurfacedProposals[0][i], A.hist)
			}
			prev = &o
			if hit {
				A.hook.mu.Lock()
				A.hook.armed, A.hook.x, A.hook.y, A.hook.nx, A.hook.fired = true, xr.UpkeepID, yr.UpkeepID, 0, false
				A.hook.fire = func() {
					close(gate)
					time.Sleep(time.Millisecond) // every other goroutine runs until it blocks: the check returns, the proposal is added
				}
				A.hook.mu.Unlock()
				readdRes = []ocr2keepers.CheckResult{x2}
				readdJ[0] = []JProp{toJProp(ocr2keepers.CoordinatedBlockProposal{UpkeepID: x2.UpkeepID, Trigger: x2.Trigger, WorkID: x2.WorkID})}
				info["proposal-readded-during-observation"] = 1
			} else {
				close(gate)
				info["readd-gate-missed"] = 1
			}
		}
		// the previous round did not commit (leader change, lost messages): libocr runs this one on the SAME previous outcome,
		// which the instances have already been through once (Observation, Outcome and Reports decoded it)
		rerun := false
		if rc.Evals && prev == nil && prevOfLast != nil && k != boundary && k != boundary+1 && k != readdAt && r.Chance(60) {
			prev, rerun = prevOfLast, true
			info["rerun-on-same-previous-outcome"] = 1
		}
		prevOfLast = prev
		time.Sleep(time.Duration(r.Range(114, 234)) * 10 * time.Millisecond)
		synctest.Wait()
		nodeX := [2]c08NodeX{A.view(pool, readdJ[0]), B.view(pool, nil)}
		infoCopy := map[string]int{}
		for kk, v := range info {
			infoCopy[kk] = v
		}
		sh := c08TakeShot(digest, F, seq, pool, lens, nodeX, prev, [2]*Node{A.Node, B.Node}, infoCopy, nil, rc.Evals)
		delete(info, "rerun-on-same-previous-outcome")
		if k == readdAt && len(readdRes) > 0 {
			A.hook.mu.Lock()
			fired := A.hook.fired
			A.hook.armed = false
			A.hook.mu.Unlock()
			if !fired {
				t.Fatalf("c08 script: the type-getter hook did not fire during Observation")
			}
		}
		A.afterShot(pool, prev, readdRes)
		B.afterShot(pool, prev, nil)
		// AddToProposalQHook queued what the outcome surfaced: within a second the final flows check it on the coordinated
		// block and stage the (eligible) result — unless the work is in flight on that node
		if prev != nil && !rerun { // (a round run again queues the same proposals again: same check, same block, nothing new is staged)
			stagedAny := false
			defer0 := func() {
				if stagedAny {
					time.Sleep(1130 * time.Millisecond) // let the final flows tick before the script does anything else
				}
			}
			for _, round := range prev.SurfacedProposals {
				for _, p := range round {
					stagedAny = true
					A.mu.Lock()
					res, ok := A.byWid[p.WorkID]
					A.mu.Unlock()
					if !ok {
						continue
					}
					res.Trigger = p.Trigger
					pool = append(pool, res)
					lens = append(lens, len(must(gojson.Marshal(res))))
					noSurface[p.WorkID] = true
					stagedIdx[p.WorkID] = len(pool) - 1
					for _, n := range nodes {
						if !n.pending[p.WorkID] {
							n.stagedAt[len(pool)-1] = time.Now()
							n.order = append(n.order, len(pool)-1)
						}
					}
				}
			}
			defer0()
			if rc.Evals {
				// a report carrying the result of the LAST proposal of a round is in flight on node B only: B withholds it, the
				// network agrees on the results of the other proposals of that round and keeps this one in the history
				for _, round := range prev.SurfacedProposals {
					if len(round) < 2 || !r.Chance(70) {
						continue
					}
					w := round[len(round)-1].WorkID
					if idx, ok := stagedIdx[w]; ok && !B.pending[w] {
						if _, st := B.stagedAt[idx]; st {
							B.accept([]ocr2keepers.CheckResult{pool[idx]})
							info["surfaced-result-in-flight-on-one-node"] = 1
						}
					}
				}
			}
		}
		shots = append(shots, sh)
		delete(info, "proposal-readded-during-observation")
		em.Hit(fmt.Sprintf("script-seq%%10=%d", seq%10))
	}
	em.Hit("script=" + rc.Variant)
	return shots
}

func c08ScriptGen(r *Rng, i int) c08ScriptRecipe {
	rc := c08ScriptRecipe{Script: true, Seed: r.U64(), Shot: -1, Step: []int{1, 1, 1, 2, 3}[r.Intn(5)], Shots: r.Range(5, 8)}
	rc.Variant = []string{"inflight-release", "agreed-refeed", "expire-refeed", "none"}[i%4]
	rc.NRes = []int{3, 20, 60, 99, 120, 160}[r.Intn(6)]
	if rc.Variant == "agreed-refeed" && rc.NRes > 95 {
		rc.NRes = r.Range(5, 95) // the previous outcome can agree on 100 at most
	}
	rc.Seq0 = uint64(r.Range(0, 300))*10 + uint64([]int{7, 8, 8, 9}[r.Intn(4)])
	rc.BothEmpty = r.Chance(40)
	rc.Reorg = i%3 == 1
	rc.Readd = i%5 == 2
	rc.LongIDs = i%4 == 3
	rc.Evals = i%2 == 0
	if i%40 == 13 {
		return c08ChurnScript(rc.Seed)
	}

	if i%8 == 6 {
		return c08ScriptRecipe{Script: true, Seed: rc.Seed, Variant: "restage", NRes: []int{2, 9, 40, 110, 150}[r.Intn(5)], Seq0: rc.Seq0, Step: 1, Shot: -1}
	}
	return rc
}

// c08ChurnScript: three waves of 5500 results within one window (16 500 distinct work ids through one sorter), cap active.
func c08ChurnScript(seed uint64) c08ScriptRecipe {
	return c08ScriptRecipe{Script: true, Seed: seed, Variant: "churn", NRes: 5500, Seq0: 10*(seed%400) + 3, Step: 1, Shots: 3, Shot: -1}
}

// c08RecheckScript: staged results replaced by re-checks between observations of one window, byte limit active (or reached
// only by the re-checks: 88…99 results stay just below it at first)
func c08RecheckScript(r *Rng, seed uint64, i int) c08ScriptRecipe {
	rc := c08ScriptRecipe{Script: true, Seed: seed, Variant: "recheck", Shot: -1,
		NRes:   []int{88, 92, 96, 100, 104, 110, 130}[r.Intn(7)],
		Seq0:   uint64(r.Range(0, 300))*10 + uint64(r.Range(0, 4)),
		Step:   r.Range(1, 2),
		Drift:  []string{"grow", "mixed", "grow", "shrink"}[i%4],
		PDMode: []string{"same-len", "mixed", "same-len", "other-len"}[r.Intn(4)],
		Evals:  r.Chance(30)}
	if i%2 == 0 { // every result fits, the observation ends just below the limit
		rc.NRes = []int{80, 90, 96, 100}[r.Intn(4)]
		rc.Fit = []int{1, 4, 200, 3000}[r.Intn(4)] + r.Intn(3)
	}
	return rc
}

func c08ScriptEdge() []c08ScriptRecipe {
	return []c08ScriptRecipe{
		{Script: true, Seed: 112, Variant: "recheck", NRes: 104, Seq0: 131, Step: 1, Shot: -1, Drift: "grow", PDMode: "same-len"},
		{Script: true, Seed: 113, Variant: "recheck", NRes: 96, Seq0: 140, Step: 2, Shot: -1, Drift: "mixed", PDMode: "mixed"},
		{Script: true, Seed: 116, Variant: "recheck", NRes: 100, Seq0: 172, Step: 1, Shot: -1, Drift: "grow", PDMode: "same-len", Fit: 1},
		{Script: true, Seed: 117, Variant: "recheck", NRes: 84, Seq0: 180, Step: 1, Shot: -1, Drift: "mixed", PDMode: "same-len", Fit: 2500},
		{Script: true, Seed: 114, Variant: "agreed-refeed", NRes: 40, Seq0: 157, Step: 1, Shots: 8, Shot: -1, Evals: true},
		{Script: true, Seed: 115, Variant: "none", NRes: 20, Seq0: 163, Step: 1, Shots: 8, Shot: -1, Evals: true, Readd: true},
		{Script: true, Seed: 101, Variant: "inflight-release", NRes: 120, Seq0: 8, Step: 1, Shots: 6, Shot: -1},
		{Script: true, Seed: 102, Variant: "agreed-refeed", NRes: 40, Seq0: 18, Step: 1, Shots: 5, Shot: -1, BothEmpty: true},
		{Script: true, Seed: 103, Variant: "expire-refeed", NRes: 130, Seq0: 29, Step: 2, Shots: 5, Shot: -1},
		{Script: true, Seed: 104, Variant: "none", NRes: 10, Seq0: 37, Step: 1, Shots: 8, Shot: -1, Reorg: true},
		{Script: true, Seed: 105, Variant: "none", NRes: 10, Seq0: 47, Step: 1, Shots: 6, Shot: -1, Readd: true},
		{Script: true, Seed: 106, Variant: "inflight-release", NRes: 30, Seq0: 59, Step: 1, Shots: 6, Shot: -1, Reorg: true, Readd: true, BothEmpty: true},
		c08ChurnScript(107),
		{Script: true, Seed: 110, Variant: "none", NRes: 160, Seq0: 97, Step: 1, Shots: 8, Shot: -1, LongIDs: true},
		{Script: true, Seed: 111, Variant: "inflight-release", NRes: 120, Seq0: 118, Step: 3, Shots: 8, Shot: -1, LongIDs: true, Reorg: true},
		{Script: true, Seed: 108, Variant: "restage", NRes: 12, Seq0: 71, Step: 1, Shot: -1},
		{Script: true, Seed: 109, Variant: "restage", NRes: 140, Seq0: 85, Step: 1, Shot: -1},
	}
}

func c08RunAndEmitScript(t *testing.T, em *Emitter, src string, rc c08ScriptRecipe) {
	var shots []c08Shot
	synctest.Test(t, func(t *testing.T) { shots = c08RunScript(t, rc, em) })
	for k, sh := range shots {
		if rc.Shot >= 0 && k != rc.Shot {
			continue
		}
		one := rc
		one.Shot = k
		x := sh.X
		em.Emit(src, c08ScriptInput{c08ScriptRecipe: one, X: &x}, sh.Impl)
	}
}
