package harness

import (
	"context"
	"encoding/json"
	"fmt"
	"hash/fnv"
	"math/big"
	"sort"
	"sync"
	"testing"
	"testing/synctest"
	"time"

	gojson "github.com/goccy/go-json"
	"github.com/smartcontractkit/libocr/commontypes"
	"github.com/smartcontractkit/libocr/offchainreporting2plus/ocr3types"
	ocr2plustypes "github.com/smartcontractkit/libocr/offchainreporting2plus/types"

	ocr2keepersv3 "github.com/smartcontractkit/chainlink-automation/pkg/v3"
	"github.com/smartcontractkit/chainlink-automation/pkg/v3/random"
	"github.com/smartcontractkit/chainlink-automation/pkg/v3/types"
	ocr2keepers "github.com/smartcontractkit/chainlink-common/pkg/types/automation"
)

// C08 — An observation is the network-canonical prefix of what the node holds.
//
// One case = one "world": two plugin instances built by the public factory in one bubble, fed the SAME pool of
// eligible results through the real log-trigger flow (fake log provider -> coordinator pre-processor -> real runner ->
// fake pipeline -> post-processors -> result store) in DIFFERENT orders and waves, some results one store-TTL earlier,
// some ineligible / failed ones, in-flight sets through ShouldAcceptAttestedReport, proposals through the recovery
// proposal flow and the conditional sampling flow, block histories through the block subscriber; then
// Observation(seqNr) on both.  The recipe (small, JSON round-trippable) regenerates the world deterministically.

const c08StoreTTL = 5 * time.Minute     // pkg/v3/stores/result_store.go storeTTL (regenerated as Gen.storeTTLNs)
const c08ProposalTTL = 24 * time.Hour   // pkg/v3/stores/metadata_store.go logRecoveryExpiry / conditionalExpiry

type c08Recipe struct {
	Seed       uint64   `json:"seed"`
	Seqs       []uint64 `json:"seqs"`       // Observation is called once per sequence number (same staged world)
	NRes       int      `json:"nres"`       // eligible results both nodes are fed
	ExtraB     int      `json:"extraB"`     // eligible results only node B is fed (different candidate sets)
	NOld       int      `json:"nold"`       // results staged one store TTL earlier …
	OldDeltaMs int      `json:"oldDeltaMs"` // … their age at Observation time is storeTTL + this (<= 0: still live)
	NBad       int      `json:"nbad"`       // ineligible / failed pipeline results (must never be staged)
	Layout     string   `json:"layout"`     // small | heavy-first | heavy-last | alternating | heavy-random | beyond-cap
	NHeavy     int      `json:"nheavy"`
	InflightA  int      `json:"inflightA"`  // accepted (in flight) work among the first candidates, node A
	InflightB  int      `json:"inflightB"`  // -1: the same set as A
	NLog       int      `json:"nlog"`       // log recovery proposals (fake recoverable provider)
	NCond      int      `json:"ncond"`      // conditional proposals (fake upkeep getter, sampling flow)
	NAgedCond  int      `json:"nagedCond"`  // conditional proposals (sampling flow) created one proposal TTL earlier, too …
	AgedReprop bool     `json:"agedReprop"` // … and sampled AGAIN shortly before the observation (no observation in between)
	NAgedProps int      `json:"nagedProps"` // proposals created one proposal TTL earlier …
	AgedDeltaMs int     `json:"agedDeltaMs"` // … their age at Observation time is 24h + this
	PropInflight int    `json:"propInflight"` // proposals whose work is accepted afterwards
	HistA      int      `json:"histA"`
	HistB      int      `json:"histB"`
	Prev       bool     `json:"prev"`       // Observation gets a previous outcome agreeing on staged work and surfacing held proposals
	WavesB     int      `json:"wavesB"`     // node B receives its payloads in this many consecutive ticks
	AcceptFirst bool    `json:"acceptFirst"` // in-flight reports are accepted BEFORE the payloads arrive
}

type c08NodeX struct {
	Staged   []int    `json:"staged"` // indices into pool, in the order the node was fed
	Inflight []string `json:"inflight"`
	Log      []JProp  `json:"log"`
	Cond     []JProp  `json:"cond"`
	Hist     []JBK    `json:"hist"`
	// proposals a flow added WHILE Observation ran, after the pre-build hooks and before the build hooks read the store
	// (scripted interleaving, see c08_helpers_test.go)
	Readd []JProp `json:"readd,omitempty"`
	// a second block-history view the store held while Observation ran (an update arrived through the subscription
	// during the call): the observation must carry one of the two
	HistAlt []JBK `json:"histAlt,omitempty"`
}

type c08PoolEntry struct {
	JCR
	Len int `json:"len"` // len(gojson.Marshal(result))
}

type c08X struct {
	Info   map[string]int `json:"info"` // what the harness did that must NOT show: expired / withheld / failed results
	F      int            `json:"f"`
	Seq    uint64         `json:"seq"`
	Digest string         `json:"digest"`
	Aux    JRoundAux      `json:"aux"`
	Pool   []c08PoolEntry `json:"pool"`
	Nodes  []c08NodeX     `json:"nodes"`
	Prev   *JOutcome      `json:"prev"`
}

type c08Input struct {
	c08Recipe
	X *c08X `json:"x,omitempty"` // expanded view for the driver; ignored (regenerated) on replay
}

type c08NodeImpl struct {
	Err  string `json:"err,omitempty"`
	// EvalErr: the instance evaluated Outcome / Reports on the round's inputs after its observation and that failed
	EvalErr string `json:"evalErr,omitempty"`
	Obs  *JObs  `json:"obs"`
	Len  int    `json:"len"`
	Base int    `json:"base"`
}
type c08Impl struct {
	Nodes []c08NodeImpl `json:"nodes"`
}

// compactPD keeps long perform data out of the case lines: length + 64-bit FNV-1a, applied identically to what was fed
// and to what came back, so equality of results is preserved (up to a 2^-64 collision).
func compactPD(pd []byte) string {
	if len(pd) <= 48 {
		return hx(pd)
	}
	h := fnv.New64a()
	h.Write(pd)
	return fmt.Sprintf("#%d:%016x", len(pd), h.Sum64())
}
func toJCRc(r ocr2keepers.CheckResult) JCR {
	j := toJCR(r)
	j.PD = compactPD(r.PerformData)
	return j
}
func toJObsC(o ocr2keepersv3.AutomationObservation) JObs {
	j := JObs{Perf: make([]JCR, 0, len(o.Performable)), Props: toJProps(o.UpkeepProposals), Hist: toJBKs(o.BlockHistory)}
	for _, r := range o.Performable {
		j.Perf = append(j.Perf, toJCRc(r))
	}
	return j
}

// c08Shot is one Observation call on both nodes.
type c08Shot struct {
	Seq     uint64
	Raw     [2][]byte
	Err     [2]error
	Obs     [2]*ocr2keepersv3.AutomationObservation
	PeerErr [2]string // verdict of the OTHER instance's ValidateObservation on Raw[i] ("" = accepted)
	Limits  ocr3types.ReportingPluginLimits
	X       c08X
	Impl    c08Impl
	Info    map[string]int
}

type c08Node struct {
	*Node
	mu     sync.Mutex
	seen   map[string]time.Time // work id -> virtual time of the (first) pipeline call answering it
	fed    []int                // pool indices in feeding order
}

func (n *c08Node) setPipeline(byWid map[string]ocr2keepers.CheckResult) {
	n.Run.mu.Lock()
	n.Run.fn = func(_ context.Context, ps []ocr2keepers.UpkeepPayload) ([]ocr2keepers.CheckResult, error) {
		out := make([]ocr2keepers.CheckResult, 0, len(ps))
		n.mu.Lock()
		for _, p := range ps {
			if res, ok := byWid[p.WorkID]; ok {
				if _, s := n.seen[p.WorkID]; !s {
					n.seen[p.WorkID] = time.Now()
				}
				out = append(out, res)
			}
		}
		n.mu.Unlock()
		return out, nil
	}
	n.Run.mu.Unlock()
}

func payloadOf(r ocr2keepers.CheckResult) ocr2keepers.UpkeepPayload {
	return ocr2keepers.UpkeepPayload{UpkeepID: r.UpkeepID, Trigger: r.Trigger, WorkID: r.WorkID}
}

func (n *c08Node) feedLogs(rs []ocr2keepers.CheckResult) {
	ps := make([]ocr2keepers.UpkeepPayload, len(rs))
	for i, r := range rs {
		ps[i] = payloadOf(r)
	}
	n.Logs.mu.Lock()
	n.Logs.payloads = append(n.Logs.payloads, ps...)
	n.Logs.mu.Unlock()
}

func (n *c08Node) accept(rs ...ocr2keepers.CheckResult) {
	if len(rs) == 0 {
		return
	}
	rep := must(n.Enc.Encode(rs...))
	n.Enc.Take()
	if _, err := n.Plugin.ShouldAcceptAttestedReport(context.Background(), 1, ocr3types.ReportWithInfo[pluginInfo]{Report: rep}); err != nil {
		panic(err)
	}
}

// c08RunWorld builds the world of a recipe, runs the real code and returns one shot per sequence number.
// Must be called inside a synctest bubble.
func c08RunWorld(t *testing.T, rc c08Recipe, em *Emitter) []c08Shot {
	r := NewRng(rc.Seed)
	digest := genHash(r)
	const N, F = 4, 1
	nodes := [2]*c08Node{}
	for i := range nodes {
		nodes[i] = &c08Node{Node: NewNode(t, NodeOpts{N: N, F: F, Digest: digest}), seen: map[string]time.Time{}}
	}
	defer func() {
		for _, n := range nodes {
			n.Close()
		}
		time.Sleep(11 * time.Second)
		synctest.Wait()
	}()
	time.Sleep(1637 * time.Millisecond)

	// ---- the pool
	height := uint64(r.Range(1000, 100000))
	mk := func(logType bool) ocr2keepers.CheckResult {
		return genResult(r, genUpkeepID(r, logType), height-uint64(r.Intn(4)))
	}
	var pool []ocr2keepers.CheckResult // index space of x.pool: common, extraB, old
	for i := 0; i < rc.NRes+rc.ExtraB+rc.NOld; i++ {
		if rc.Layout != "max-log" && r.Chance(6) {
			pool = append(pool, genResultOtherType(r, height-uint64(r.Intn(4)))) // neither a conditional nor a log upkeep
			continue
		}
		pool = append(pool, mk(r.Chance(60) || rc.Layout == "max-log"))
	}
	common := pool[:rc.NRes]
	// perform data layout relative to the canonical order of the FIRST sequence number's source
	if len(rc.Seqs) == 0 {
		rc.Seqs = []uint64{1}
	}
	ks0 := random.GetRandomKeySource(digest[:], rc.Seqs[0]/10)
	order := make([]int, len(common))
	for i := range order {
		order[i] = i
	}
	sh := map[int]string{}
	for i := range common {
		sh[i] = random.ShuffleString(common[i].WorkID, ks0)
	}
	sort.Slice(order, func(a, b int) bool { return sh[order[a]] < sh[order[b]] })
	heavy := func() []byte { return r.Bytes(r.Range(8000, 10000)) }
	win := len(order)
	if win > 100 {
		win = 100
	}
	switch rc.Layout {
	case "heavy-first":
		for k := 0; k < rc.NHeavy && k < len(order); k++ {
			pool[order[k]].PerformData = heavy()
		}
	case "heavy-last": // the tail of the 100-window
		for k := 0; k < rc.NHeavy && k < win; k++ {
			pool[order[win-1-k]].PerformData = heavy()
		}
	case "alternating": // heavy (8-10 KB) and medium (5-7 KB) results take turns
		for k := 0; k < len(order) && k < rc.NHeavy; k++ {
			if k%2 == 0 {
				pool[order[k]].PerformData = heavy()
			} else {
				pool[order[k]].PerformData = r.Bytes(r.Range(5000, 7000))
			}
		}
	case "heavy-random":
		for _, k := range r.Perm(len(order)) {
			if rc.NHeavy == 0 {
				break
			}
			pool[order[k]].PerformData = heavy()
			rc.NHeavy--
		}
	case "max-log": // every result as long as the on-chain cap allows: log trigger (four 32-byte arrays), 10 000 bytes of perform data
		for i := range pool {
			pool[i].PerformData = r.Bytes(10_000)
		}
	case "beyond-cap": // far beyond the on-chain cap: reaches the `limit <= 0` exit of the trimming
		for k := 0; k < rc.NHeavy && k < len(order); k++ {
			pool[order[k]].PerformData = r.Bytes(r.Range(500_000, 600_000))
		}
	default:
		for i := range common {
			switch {
			case r.Chance(5):
				pool[i].PerformData = r.Bytes(r.Range(100, 2000))
			case r.Chance(3):
				pool[i].PerformData = nil
			}
		}
	}
	// boundary values of the other fields
	for i := range pool {
		switch r.Intn(40) {
		case 0:
			pool[i].FastGasWei = new(big.Int).Set(uint256MaxBig)
		case 1:
			pool[i].LinkNative = big.NewInt(0)
		case 2:
			pool[i].GasAllocated = ^uint64(0)
		}
	}
	byWid := map[string]ocr2keepers.CheckResult{}
	for _, res := range pool {
		byWid[res.WorkID] = res
	}
	// results the pipeline reports as ineligible / failed: never staged
	var bad []ocr2keepers.CheckResult
	for i := 0; i < rc.NBad; i++ {
		res := mk(r.Chance(60))
		switch r.Intn(4) {
		case 0:
			res.Eligible = false
			res.IneligibilityReason = uint8(r.Range(1, 5))
		case 1:
			res.PipelineExecutionState = uint8(r.Range(1, 5))
		case 2:
			res.PipelineExecutionState = uint8(r.Range(1, 5))
			res.Retryable = true
		case 3:
			res.PipelineExecutionState = 1
			res.Eligible = false
		}
		bad = append(bad, res)
		byWid[res.WorkID] = res
	}
	// proposals: eligible sampling / recovery results end up in the metadata store
	var logProps, condProps, agedProps, agedCond []ocr2keepers.CheckResult
	for i := 0; i < rc.NAgedCond; i++ {
		res := mk(false)
		agedCond = append(agedCond, res)
		byWid[res.WorkID] = res
	}
	for i := 0; i < rc.NLog; i++ {
		res := mk(true)
		logProps = append(logProps, res)
		byWid[res.WorkID] = res
	}
	for i := 0; i < rc.NCond; i++ {
		res := mk(false)
		condProps = append(condProps, res)
		byWid[res.WorkID] = res
	}
	for i := 0; i < rc.NAgedProps; i++ {
		res := mk(true)
		agedProps = append(agedProps, res)
		byWid[res.WorkID] = res
	}
	for _, n := range nodes {
		n.setPipeline(byWid)
	}

	// ---- phase 0 (optional): proposals one proposal-TTL earlier
	var agedAt time.Time
	if rc.NAgedProps > 0 || rc.NAgedCond > 0 {
		for _, n := range nodes {
			n.Recov.mu.Lock()
			for _, res := range agedProps {
				n.Recov.payloads = append(n.Recov.payloads, payloadOf(res))
			}
			n.Recov.mu.Unlock()
			n.Getter.mu.Lock()
			for _, res := range agedCond {
				n.Getter.upkeeps = append(n.Getter.upkeeps, payloadOf(res))
			}
			n.Getter.mu.Unlock()
		}
		if rc.NAgedCond > 0 {
			time.Sleep(2 * time.Second) // one sampling interval
		}
		time.Sleep(2137 * time.Millisecond)
		for _, n := range nodes {
			n.Getter.mu.Lock()
			n.Getter.upkeeps = nil
			n.Getter.mu.Unlock()
		}
		if rc.NAgedProps > 0 {
			agedAt = nodes[0].seen[agedProps[0].WorkID]
		} else {
			agedAt = nodes[0].seen[agedCond[0].WorkID]
		}
	}
	// ---- phase 1 (optional): results one store-TTL earlier
	const mainPhase = 40 * time.Second
	old := pool[rc.NRes+rc.ExtraB:]
	var oldAt time.Time
	if rc.NAgedProps > 0 || rc.NAgedCond > 0 {
		// Observation will be at agedAt + 24h + delta; leave room for the old-results phase and the main phase
		target := agedAt.Add(c08ProposalTTL + time.Duration(rc.AgedDeltaMs)*time.Millisecond)
		lead := mainPhase
		if rc.NOld > 0 {
			lead += c08StoreTTL + 10*time.Second
		}
		time.Sleep(target.Add(-lead).Sub(time.Now()))
	}
	if rc.NOld > 0 {
		for _, n := range nodes {
			n.feedLogs(old)
			for k := range old {
				n.fed = append(n.fed, rc.NRes+rc.ExtraB+k)
			}
		}
		time.Sleep(2137 * time.Millisecond)
		oldAt = nodes[0].seen[old[0].WorkID]
		target := oldAt.Add(c08StoreTTL + time.Duration(rc.OldDeltaMs)*time.Millisecond)
		if d := target.Add(-mainPhase).Sub(time.Now()); d > 0 {
			time.Sleep(d)
		}
	}
	phaseStart := time.Now()

	// ---- main phase: in-flight (before), payloads, proposals, history, in-flight (after)
	pickInflight := func(k int) []ocr2keepers.CheckResult {
		// among the first 150 of the canonical order, so that filtering changes the prefix
		w := len(order)
		if w > 150 {
			w = 150
		}
		var out []ocr2keepers.CheckResult
		for _, j := range r.Perm(w) {
			if len(out) >= k {
				break
			}
			out = append(out, pool[order[j]])
		}
		return out
	}
	inflA := pickInflight(rc.InflightA)
	inflB := inflA
	if rc.InflightB >= 0 {
		inflB = pickInflight(rc.InflightB)
	}
	infl := [2][]ocr2keepers.CheckResult{inflA, inflB}
	acceptAll := func() {
		for i, n := range nodes {
			// several reports of up to 7 upkeeps each
			for k := 0; k < len(infl[i]); k += 7 {
				e := k + 7
				if e > len(infl[i]) {
					e = len(infl[i])
				}
				n.accept(infl[i][k:e]...)
			}
		}
	}
	if rc.AcceptFirst {
		acceptAll()
	}
	// node A: one wave in one random order; node B: another order, in WavesB consecutive ticks
	permA := r.Perm(rc.NRes)
	var feedA []ocr2keepers.CheckResult
	for _, k := range permA {
		feedA = append(feedA, pool[k])
		nodes[0].fed = append(nodes[0].fed, k)
	}
	feedA = append(feedA, bad...)
	nodes[0].feedLogs(feedA)
	permB := r.Perm(rc.NRes + rc.ExtraB)
	waves := rc.WavesB
	if waves < 1 {
		waves = 1
	}
	for w := 0; w < waves; w++ {
		lo, hi := len(permB)*w/waves, len(permB)*(w+1)/waves
		var feedB []ocr2keepers.CheckResult
		for _, k := range permB[lo:hi] {
			feedB = append(feedB, pool[k])
			nodes[1].fed = append(nodes[1].fed, k)
		}
		if w == 0 {
			feedB = append(bad, feedB...)
		}
		nodes[1].feedLogs(feedB)
		time.Sleep(1 * time.Second)
	}
	for _, n := range nodes {
		n.Recov.mu.Lock()
		for _, res := range logProps {
			n.Recov.payloads = append(n.Recov.payloads, payloadOf(res))
		}
		n.Recov.mu.Unlock()
		n.Getter.mu.Lock()
		for _, res := range condProps {
			n.Getter.upkeeps = append(n.Getter.upkeeps, payloadOf(res))
		}
		if rc.AgedReprop { // still eligible: the sampling flow proposes them again
			for _, res := range agedCond {
				n.Getter.upkeeps = append(n.Getter.upkeeps, payloadOf(res))
			}
		}
		n.Getter.mu.Unlock()
	}
	time.Sleep(4 * time.Second) // >= one sampling interval (3 s) and several 1 s ticks
	for _, n := range nodes {
		n.Getter.mu.Lock()
		n.Getter.upkeeps = nil
		n.Getter.mu.Unlock()
	}
	// block histories (a well-behaved block source: strictly descending numbers)
	mkHist := func(k int) ocr2keepers.BlockHistory {
		h := make(ocr2keepers.BlockHistory, 0, k)
		for i := 0; i < k; i++ {
			h = append(h, ocr2keepers.BlockKey{Number: ocr2keepers.BlockNumber(height + 400 - uint64(i)), Hash: genHash(r)})
		}
		return h
	}
	histA := mkHist(rc.HistA)
	hists := [2]ocr2keepers.BlockHistory{histA, histA}
	if rc.HistB != rc.HistA {
		hists[1] = mkHist(rc.HistB)
	}
	// each instance has its own fake block source
	for i, n := range nodes {
		if len(hists[i]) > 0 || r.Chance(50) {
			n.Blocks.Publish(hists[i])
		} else {
			hists[i] = ocr2keepers.BlockHistory{} // never published: the store's initial empty history
		}
	}
	time.Sleep(500 * time.Millisecond)
	if !rc.AcceptFirst {
		acceptAll()
	}
	// proposals whose work gets accepted afterwards (in flight => withheld)
	var propInfl []ocr2keepers.CheckResult
	allProps := append(append([]ocr2keepers.CheckResult{}, logProps...), condProps...)
	for _, k := range r.Perm(len(allProps)) {
		if len(propInfl) >= rc.PropInflight {
			break
		}
		propInfl = append(propInfl, allProps[k])
	}
	for _, n := range nodes {
		n.accept(propInfl...)
	}
	// ---- the previous outcome: agrees on some staged work, surfaces some held proposals
	var prev *ocr2keepersv3.AutomationOutcome
	if rc.Prev {
		o := ocr2keepersv3.AutomationOutcome{AgreedPerformables: []ocr2keepers.CheckResult{}, SurfacedProposals: [][]ocr2keepers.CoordinatedBlockProposal{}}
		w := len(order)
		if w > 120 {
			w = 120
		}
		for _, j := range r.Perm(w) {
			if len(o.AgreedPerformables) >= 1+w/4 || len(o.AgreedPerformables) >= 100 {
				break
			}
			o.AgreedPerformables = append(o.AgreedPerformables, pool[order[j]])
		}
		var round []ocr2keepers.CoordinatedBlockProposal
		for _, k := range r.Perm(len(allProps)) {
			if len(round) >= (len(allProps)+2)/3 {
				break
			}
			res := allProps[k]
			p := ocr2keepers.CoordinatedBlockProposal{UpkeepID: res.UpkeepID, Trigger: res.Trigger, WorkID: res.WorkID}
			p.Trigger.BlockNumber += 3 // coordinated on another block …
			c08StampWithView(r, &p, hists[0]) // … a recent block of the node's own view, as a real outcome does
			round = append(round, p)
		}
		o.SurfacedProposals = append(o.SurfacedProposals, round)
		prev = &o
	}
	// ---- Observation at the planned instant
	if rc.NOld > 0 {
		target := oldAt.Add(c08StoreTTL + time.Duration(rc.OldDeltaMs)*time.Millisecond)
		if d := target.Sub(time.Now()); d > 0 {
			time.Sleep(d)
		} else if d < 0 {
			t.Fatalf("c08: main phase overran its budget by %v (started %v ago)", -d, time.Since(phaseStart))
		}
	} else if rc.NAgedProps > 0 || rc.NAgedCond > 0 {
		target := agedAt.Add(c08ProposalTTL + time.Duration(rc.AgedDeltaMs)*time.Millisecond)
		if d := target.Sub(time.Now()); d > 0 {
			time.Sleep(d)
		} else if d < 0 {
			t.Fatalf("c08: main phase overran its budget by %v", -d)
		}
	} else {
		time.Sleep(137 * time.Millisecond)
	}
	synctest.Wait()
	now := time.Now()

	// ---- what each node should hold now
	lens := make([]int, len(pool))
	for i := range pool {
		lens[i] = len(must(gojson.Marshal(pool[i])))
	}
	info := map[string]int{"bad": rc.NBad}
	reproposed := map[string]bool{} // proposed again after the first record expired: a fresh record
	if rc.AgedReprop {
		for _, res := range agedCond {
			reproposed[res.WorkID] = true
		}
		info["proposal-reproposed-after-expiry"] = len(agedCond)
	}
	nodeX := [2]c08NodeX{}
	for i, n := range nodes {
		x := c08NodeX{Staged: []int{}, Inflight: []string{}, Log: []JProp{}, Cond: []JProp{}, Hist: toJBKs(hists[i])}
		for _, k := range n.fed {
			at, ok := n.seen[pool[k].WorkID]
			if !ok {
				info["withheld"]++
				continue // withheld by the coordinator pre-processor (accepted before it arrived): never checked
			}
			if now.Sub(at) > c08StoreTTL {
				info["expired"]++
				continue // expired
			}
			if k >= rc.NRes+rc.ExtraB {
				info["old-but-live"]++
			}
			x.Staged = append(x.Staged, k)
		}
		for _, res := range infl[i] {
			x.Inflight = append(x.Inflight, res.WorkID)
		}
		for _, res := range propInfl {
			x.Inflight = append(x.Inflight, res.WorkID)
		}
		addProp := func(res ocr2keepers.CheckResult) {
			at, ok := n.seen[res.WorkID]
			if ok && now.Sub(at) > c08ProposalTTL {
				info["proposal-expired"]++
			}
			if !ok || (now.Sub(at) > c08ProposalTTL && !reproposed[res.WorkID]) {
				return
			}
			p := toJProp(ocr2keepers.CoordinatedBlockProposal{UpkeepID: res.UpkeepID, Trigger: res.Trigger, WorkID: res.WorkID})
			if utg(res.UpkeepID) == types.LogTrigger {
				x.Log = append(x.Log, p)
			} else {
				x.Cond = append(x.Cond, p)
			}
		}
		for _, res := range agedProps {
			addProp(res)
		}
		for _, res := range agedCond {
			addProp(res)
		}
		for _, res := range allProps {
			addProp(res)
		}
		nodeX[i] = x
	}
	em.Hit(fmt.Sprintf("staged=%d", bucket3k(len(nodeX[0].Staged))))
	em.Hit("layout=" + rc.Layout)

	// ---- the shots
	var shots []c08Shot
	for _, seq := range rc.Seqs {
		shots = append(shots, c08TakeShot(digest, F, seq, pool, lens, nodeX, prev, [2]*Node{nodes[0].Node, nodes[1].Node}, info, nil))
	}
	return shots
}

// c08TakeShot calls Observation(seq, prev) on both instances and builds the case line: what the harness says each node
// holds (nodeX, indices into pool) and what each instance returned.  `before[i]`, if set, runs right before instance i's call.
func c08TakeShot(digest [32]byte, F int, seq uint64, pool []ocr2keepers.CheckResult, lens []int, nodeX [2]c08NodeX,
	prev *ocr2keepersv3.AutomationOutcome, nodes [2]*Node, info map[string]int, before func(i int), evals ...bool) c08Shot {
	var prevBytes []byte
	var jprev *JOutcome
	if prev != nil {
		prevBytes = must(prev.Encode())
		jp := toJOutcome(*prev)
		jprev = &jp
	}
	sh := c08Shot{Seq: seq, Info: info}
	a := newAux(digest, seq/10) // the performables are ordered with the source of seqNr/10
	used := map[int]bool{}
	for i := range nodeX {
		for _, k := range nodeX[i].Staged {
			used[k] = true
		}
	}
	x := c08X{Info: info, F: F, Seq: seq, Digest: hx(digest[:]), Prev: jprev}
	// pool entries that nobody holds are dropped from the line (indices are remapped)
	remap := map[int]int{}
	for k := range pool {
		if used[k] {
			remap[k] = len(x.Pool)
			x.Pool = append(x.Pool, c08PoolEntry{JCR: toJCRc(pool[k]), Len: lens[k]})
			a.wid(pool[k].WorkID)
			a.aux.Utg[hx(pool[k].UpkeepID[:])] = int(utg(pool[k].UpkeepID))
		}
	}
	x.Nodes = make([]c08NodeX, 2)
	for i := range nodeX {
		nx := nodeX[i]
		st := make([]int, len(nx.Staged))
		for j, k := range nx.Staged {
			st[j] = remap[k]
		}
		nx.Staged = st
		x.Nodes[i] = nx
		for _, p := range append(append(append([]JProp{}, nx.Log...), nx.Cond...), nx.Readd...) {
			a.aux.Utg[p.UID] = int(utg(b32(p.UID)))
		}
	}
	if prev != nil {
		for _, round := range prev.SurfacedProposals {
			for _, p := range round {
				a.aux.Utg[hx(p.UpkeepID[:])] = int(utg(p.UpkeepID))
			}
		}
	}
	a.aux.Wg = nil
	x.Aux = a.aux
	for i, n := range nodes {
		if before != nil {
			before(i)
		}
		raw, err := n.Plugin.Observation(context.Background(), ocr3types.OutcomeContext{SeqNr: seq, PreviousOutcome: prevBytes}, nil)
		sh.Raw[i], sh.Err[i] = raw, err
		sh.Limits = n.Info.Limits
		if err == nil {
			peer := nodes[1-i]
			if verr := peer.Plugin.ValidateObservation(context.Background(), ocr3types.OutcomeContext{SeqNr: seq, PreviousOutcome: prevBytes}, nil,
				ocr2plustypes.AttributedObservation{Observation: raw, Observer: commontypes.OracleID(i)}); verr != nil {
				sh.PeerErr[i] = verr.Error()
			}
		}
		ni := c08NodeImpl{Len: len(raw)}
		if err != nil {
			ni.Err = err.Error()
		} else {
			var o ocr2keepersv3.AutomationObservation
			if err := gojson.Unmarshal(raw, &o); err != nil {
				ni.Err = "observation bytes do not decode: " + err.Error()
			} else {
				jo := toJObsC(o)
				ni.Obs = &jo
				sh.Obs[i] = &o
				base := o
				base.Performable = nil
				ni.Base = len(must(base.Encode()))
				for _, p := range o.UpkeepProposals {
					x.Aux.Utg[hx(p.UpkeepID[:])] = int(utg(p.UpkeepID))
				}
				for _, p := range o.Performable {
					x.Aux.Utg[hx(p.UpkeepID[:])] = int(utg(p.UpkeepID))
				}
			}
		}
		sh.Impl.Nodes = append(sh.Impl.Nodes, ni)
	}
	if len(evals) > 0 && evals[0] {
		for i, e := range c08Evaluate(nodes, seq, prevBytes, sh.Raw) {
			sh.Impl.Nodes[i].EvalErr = e
		}
	}
	sh.X = x
	return sh
}

// c08Evaluate: what libocr runs on every node besides Observation — Outcome on the round's attributed observations (twice:
// a node may evaluate it again at any time) and Reports on the previous round's outcome — on the SAME instances and the same
// previous-outcome bytes the observations were built from.  Nothing of it may show in a later observation: the results are
// dropped, the next shots are compared with the model as before.
func c08Evaluate(nodes [2]*Node, seq uint64, prevBytes []byte, raws [2][]byte) (errs [2]string) {
	ctx := context.Background()
	outctx := ocr3types.OutcomeContext{SeqNr: seq, PreviousOutcome: prevBytes}
	var aos []ocr2plustypes.AttributedObservation
	for i, raw := range raws {
		if raw != nil {
			aos = append(aos, ocr2plustypes.AttributedObservation{Observation: raw, Observer: commontypes.OracleID(i)})
		}
	}
	for i, n := range nodes {
		var first []byte
		for k := 0; k < 2; k++ {
			out, err := n.Plugin.Outcome(ctx, outctx, nil, aos)
			if err != nil {
				errs[i] = fmt.Sprintf("Outcome on the two instances' own observations: %v", err)
				break
			}
			if k == 0 {
				first = out
			} else if string(first) != string(out) {
				errs[i] = "Outcome evaluated twice on one instance and the same inputs gave different bytes"
			}
		}
		if prevBytes != nil {
			if _, err := n.Plugin.Reports(ctx, seq, prevBytes); err != nil && errs[i] == "" {
				errs[i] = fmt.Sprintf("Reports on the previous outcome (which Observation accepted): %v", err)
			}
			n.Enc.Take()
		}
	}
	return errs
}

var uint256MaxBig, _ = new(big.Int).SetString("115792089237316195423570985008687907853269984665640564039457584007913129639935", 10)

func bucket3k(n int) int {
	switch {
	case n <= 2:
		return n
	case n < 99:
		return 50
	case n <= 101:
		return n
	case n < 400:
		return 200
	case n < 2000:
		return 1000
	}
	return 3000
}

// c08Gen draws a recipe; sizes and sequence numbers concentrate at the decision boundaries.
func c08Gen(r *Rng, i int) c08Recipe {
	rc := c08Recipe{Seed: r.U64(), Layout: "small", InflightB: -1, WavesB: r.Range(1, 3)}
	sizes := []int{0, 1, 2, 5, 30, 60, 99, 100, 101, 102, 150, 300, 700}
	rc.NRes = sizes[r.Intn(len(sizes))]
	if i%25 == 7 {
		rc.NRes = 3000
	} else if i%25 == 19 {
		rc.NRes = r.Range(1000, 2000)
	}
	// sequence numbers across the /10 boundary
	base := uint64(r.Range(0, 500)) * 10
	switch r.Intn(4) {
	case 0:
		rc.Seqs = []uint64{base + 9, base + 10, base + 11}
	case 1:
		rc.Seqs = []uint64{base + 19, base + 20}
	case 2:
		rc.Seqs = []uint64{base + uint64(r.Range(1, 8)), base + 9}
	default:
		rc.Seqs = []uint64{uint64(r.Range(1, 1<<30))}
	}
	if r.Chance(3) {
		rc.Seqs = []uint64{0, 9, 10}
	}
	if rc.NRes > 400 {
		rc.Seqs = rc.Seqs[:1] // big lines: one shot
	}
	if r.Chance(25) && rc.NRes > 0 {
		rc.NOld = r.Range(1, 6)
		rc.OldDeltaMs = []int{137, 1, 29_863, -1, -363, 0}[r.Intn(6)]
	}
	if r.Chance(40) {
		rc.NBad = r.Range(1, 8)
	}
	if r.Chance(60) && rc.NRes > 0 {
		rc.InflightA = r.Range(1, 1+min(rc.NRes, 150)/3)
		switch r.Intn(3) {
		case 0:
			rc.InflightB = -1
		case 1:
			rc.InflightB = r.Range(0, 1+min(rc.NRes, 150)/3)
		default:
			rc.InflightB = 0
		}
		rc.AcceptFirst = r.Chance(25)
	}
	if r.Chance(15) {
		rc.ExtraB = r.Range(1, 20)
	}
	if i%12 == 5 { // maximal-size results around the point where the byte limit starts to cut
		rc.NRes = r.Range(55, 90)
		rc.Layout = "max-log"
		rc.Seqs = rc.Seqs[:1]
	}
	// heavy layouts: make the byte limit cut
	if rc.NRes >= 100 && r.Chance(55) && rc.Layout == "small" {
		rc.Layout = []string{"heavy-first", "heavy-last", "alternating", "heavy-random"}[r.Intn(4)]
		rc.NHeavy = []int{85, 90, 100, 100, 110, 120, 150}[r.Intn(7)]
		if rc.Layout == "heavy-random" {
			rc.NHeavy = rc.NRes * r.Range(50, 100) / 100
			if rc.NHeavy > 400 {
				rc.NHeavy = 400
			}
		}
	}
	switch r.Intn(5) {
	case 0:
	case 1:
		rc.NLog, rc.NCond = r.Range(0, 5), r.Range(0, 5)
	case 2:
		rc.NLog, rc.NCond = r.Range(4, 7), r.Range(4, 7)
	default:
		rc.NLog, rc.NCond = r.Range(0, 12), r.Range(0, 12)
	}
	if rc.NLog+rc.NCond > 0 && r.Chance(35) {
		rc.PropInflight = r.Range(1, 1+(rc.NLog+rc.NCond)/3)
	}
	hs := []int{0, 1, 2, 10, 255, 256, 257, 300, 400}
	rc.HistA = hs[r.Intn(len(hs))]
	rc.HistB = rc.HistA
	if r.Chance(20) {
		rc.HistB = hs[r.Intn(len(hs))]
	}
	rc.Prev = r.Chance(30)
	return rc
}

// c08Edge: hand-written worlds, run before the generated ones.
// c08SweepEdge: the number of staged maximal-size results swept densely (every value) across the point where the byte
// limit starts to cut — about 68 with a full block history and 10 proposals (node A), about 71 without history (node B).
func c08SweepEdge() []c08Recipe {
	var out []c08Recipe
	for n := 60; n <= 80; n++ {
		out = append(out, c08Recipe{Seed: 6000 + uint64(n), Seqs: []uint64{uint64(100 + n)}, NRes: n, Layout: "max-log", InflightB: -1,
			NLog: 6, NCond: 6, HistA: 256, HistB: 0})
	}
	return out
}

// genResultOtherType: a well-formed eligible result of an upkeep whose type is neither "condition" nor "log", with a plain
// trigger or with a log extension (validation is type agnostic for such upkeeps)
func genResultOtherType(r *Rng, block uint64) ocr2keepers.CheckResult {
	uid := genUpkeepIDOther(r)
	res := genResult(r, uid, block)
	if r.Bool() {
		res.Trigger.LogTriggerExtension = &ocr2keepers.LogTriggerExtension{TxHash: genHash(r), Index: uint32(r.Intn(5)), BlockHash: genHash(r), BlockNumber: ocr2keepers.BlockNumber(block)}
		res.WorkID = wg(uid, res.Trigger)
	}
	return res
}

// c08StampWithView binds a surfaced proposal to one of the newest blocks of a block-history view (number and hash), the
// way coordination stamps the proposals of a round with the latest quorum block.  An empty view leaves it as it is.
func c08StampWithView(r *Rng, p *ocr2keepers.CoordinatedBlockProposal, view ocr2keepers.BlockHistory) {
	if len(view) == 0 {
		return
	}
	b := view[r.Intn(min(len(view), 12))]
	p.Trigger.BlockNumber, p.Trigger.BlockHash = b.Number, b.Hash
}

func c08Edge() []c08Recipe {
	return []c08Recipe{
		{Seed: 1, Seqs: []uint64{9, 10, 11}, NRes: 0, Layout: "small", InflightB: -1},
		{Seed: 2, Seqs: []uint64{19, 20}, NRes: 1, Layout: "small", InflightB: -1, HistA: 256, HistB: 256},
		{Seed: 3, Seqs: []uint64{7}, NRes: 100, Layout: "small", InflightB: -1, NLog: 5, NCond: 5, HistA: 257, HistB: 257},
		{Seed: 4, Seqs: []uint64{8}, NRes: 101, Layout: "small", InflightA: 1, InflightB: 0, NLog: 6, NCond: 6, HistA: 400, HistB: 400},
		// the byte limit: 100 results of 8-10 KB in the window
		{Seed: 5, Seqs: []uint64{30}, NRes: 150, Layout: "heavy-first", NHeavy: 100, InflightB: -1, HistA: 256, HistB: 256, NLog: 5, NCond: 5},
		{Seed: 6, Seqs: []uint64{31}, NRes: 150, Layout: "heavy-last", NHeavy: 60, InflightB: -1, HistA: 10, HistB: 10},
		{Seed: 7, Seqs: []uint64{32}, NRes: 300, Layout: "alternating", NHeavy: 120, InflightB: -1, HistA: 256, HistB: 0},
		// same candidates, different block histories, byte limit cutting: the two lists may differ in length only
		{Seed: 8, Seqs: []uint64{33}, NRes: 120, Layout: "heavy-first", NHeavy: 120, InflightB: -1, HistA: 0, HistB: 400, WavesB: 3},
		// results exactly at / just past the store TTL
		{Seed: 9, Seqs: []uint64{40}, NRes: 20, NOld: 4, OldDeltaMs: 1, Layout: "small", InflightB: -1},
		{Seed: 10, Seqs: []uint64{41}, NRes: 20, NOld: 4, OldDeltaMs: 0, Layout: "small", InflightB: -1},
		{Seed: 11, Seqs: []uint64{42}, NRes: 20, NOld: 4, OldDeltaMs: -1, Layout: "small", InflightB: -1},
		// everything in flight
		{Seed: 12, Seqs: []uint64{50}, NRes: 12, InflightA: 12, InflightB: -1, Layout: "small", NBad: 5},
		// previous outcome removes staged work and held proposals
		{Seed: 13, Seqs: []uint64{59, 60}, NRes: 130, Layout: "small", InflightB: -1, Prev: true, NLog: 9, NCond: 9, PropInflight: 2, HistA: 300, HistB: 300},
		{Seed: 19, Seqs: []uint64{66}, NRes: 20, Layout: "small", InflightB: -1, Prev: true, NLog: 3, NCond: 3, HistA: 40, HistB: 12},
		// proposals one proposal-TTL old (24 h of virtual time)
		{Seed: 14, Seqs: []uint64{61}, NRes: 10, Layout: "small", InflightB: -1, NLog: 3, NCond: 3, NAgedProps: 3, AgedDeltaMs: 137},
		{Seed: 15, Seqs: []uint64{62}, NRes: 10, Layout: "small", InflightB: -1, NLog: 3, NCond: 3, NAgedProps: 3, AgedDeltaMs: -363},
		// the instance was idle for a day (no round, no view of the conditional proposals); still-eligible upkeeps are sampled again
		{Seed: 18, Seqs: []uint64{65}, NRes: 10, Layout: "small", InflightB: -1, NLog: 2, NCond: 2, NAgedProps: 1, NAgedCond: 3, AgedReprop: true, AgedDeltaMs: 60_000},
		// outside the property's quantifier (perform data far beyond the on-chain cap): the trimming gives up
		{Seed: 16, Seqs: []uint64{63}, NRes: 2, Layout: "beyond-cap", NHeavy: 2, InflightB: -1},
		{Seed: 17, Seqs: []uint64{64}, NRes: 3000, Layout: "heavy-random", NHeavy: 400, InflightA: 40, InflightB: 10, HistA: 256, HistB: 256, WavesB: 3},
	}
}

func c08RunAndEmit(t *testing.T, em *Emitter, src string, rc c08Recipe) {
	var shots []c08Shot
	synctest.Test(t, func(t *testing.T) { shots = c08RunWorld(t, rc, em) })
	for _, sh := range shots {
		one := rc
		one.Seqs = []uint64{sh.Seq}
		x := sh.X
		em.Emit(src, c08Input{c08Recipe: one, X: &x}, sh.Impl)
		em.Hit(fmt.Sprintf("seq%%10=%d", sh.Seq%10))
	}
}

func TestC08(t *testing.T) {
	em := NewEmitter(t, "C08")
	defer em.Close()
	names, raws, replayOnly := corpusInputs(t, "C08")
	for i, raw := range raws {
		var probe struct {
			Script bool `json:"script"`
		}
		if err := json.Unmarshal(raw, &probe); err != nil {
			t.Fatalf("%s: %v", names[i], err)
		}
		if probe.Script {
			var in c08ScriptInput
			if err := json.Unmarshal(raw, &in); err != nil {
				t.Fatalf("%s: %v", names[i], err)
			}
			c08RunAndEmitScript(t, em, names[i], in.c08ScriptRecipe)
			continue
		}
		var in c08Input
		if err := json.Unmarshal(raw, &in); err != nil {
			t.Fatalf("%s: %v", names[i], err)
		}
		c08RunAndEmit(t, em, names[i], in.c08Recipe)
	}
	if replayOnly {
		return
	}
	for _, rc := range c08Edge() {
		c08RunAndEmit(t, em, "edge", rc)
	}
	for _, rc := range c08SweepEdge() {
		c08RunAndEmit(t, em, "edge", rc)
	}
	for _, rc := range c08ScriptEdge() {
		c08RunAndEmitScript(t, em, "edge", rc)
	}
	r := NewRng(seed() + 8000)
	n := tierN(110, 2000)
	for i := 0; i < n; i++ {
		c08RunAndEmit(t, em, "gen", c08Gen(r, i))
	}
	// the same two instances over several rounds
	rs := NewRng(seed() + 8500)
	ns := tierN(40, 800)
	for i := 0; i < ns; i++ {
		c08RunAndEmitScript(t, em, "gen", c08ScriptGen(rs, i))
	}
	// re-checks replacing staged results between the observations of one window, at the byte limit
	rr := NewRng(seed() + 8700)
	for i, nr := 0, tierN(6, 120); i < nr; i++ {
		c08RunAndEmitScript(t, em, "gen", c08RecheckScript(rr, rr.U64(), i))
	}
}
