package harness

import (
	"context"
	"fmt"
	"testing"
	"time"

	ocr2types "github.com/smartcontractkit/libocr/offchainreporting2plus/types"

	v2 "github.com/smartcontractkit/chainlink-automation/pkg/v2"
	v2coord "github.com/smartcontractkit/chainlink-automation/pkg/v2/coordinator"
	v2enc "github.com/smartcontractkit/chainlink-automation/pkg/v2/encoding"
	"github.com/smartcontractkit/chainlink-automation/pkg/v2/observer/polling"
)

// C18, OCR2 (v2) plugin: built by v2.NewReportingPluginFactory with the repository's report coordinator
// (coordinator.CoordinatorFactory: log poll every second, two cache cleaners) and polling observer
// (PollingObserverFactory: head-driven sampling behind internal/util.RecoverableService); the log provider, the
// registry, the head source and the runner are fakes that count / hold / panic through the same probe as v3.

type c18V2Enc struct{ v2enc.BasicEncoder }

func (c18V2Enc) EncodeReport([]v2.UpkeepResult) ([]byte, error)       { return nil, nil }
func (c18V2Enc) KeysFromReport([]byte) ([]v2.UpkeepKey, error)        { return nil, nil }
func (c18V2Enc) Eligible(v2.UpkeepResult) (bool, error)               { return false, nil }
func (c18V2Enc) Detail(v2.UpkeepResult) (v2.UpkeepKey, uint32, error) { return nil, 0, nil }

type c18V2Runner struct{}

func (c18V2Runner) CheckUpkeep(context.Context, bool, ...v2.UpkeepKey) ([]v2.UpkeepResult, error) {
	return nil, nil
}

type c18V2Logs struct{ p *c18Probe }

func (l *c18V2Logs) PerformLogs(context.Context) ([]v2.PerformLog, error) {
	l.p.hit(c18SiteV2Perform)
	return nil, nil
}
func (l *c18V2Logs) StaleReportLogs(context.Context) ([]v2.StaleReportLog, error) {
	l.p.hit(c18SiteV2Stale)
	return nil, nil
}

type c18V2Source struct{ p *c18Probe }

func (s *c18V2Source) GetActiveUpkeepIDs(context.Context) ([]v2.UpkeepIdentifier, error) {
	s.p.hit(c18SiteV2Source)
	return nil, nil
}

// c18V2Heads offers a new head every second for as long as somebody takes it (the real head ticker drops heads
// nobody is waiting for); stop() ends the feeder so that the bubble can end.
type c18V2Heads struct {
	ch   chan v2.BlockKey
	quit chan struct{}
}

func (h *c18V2Heads) HeadTicker() chan v2.BlockKey { return h.ch }
func (h *c18V2Heads) feed() {
	for n := 100; ; n++ {
		select {
		case h.ch <- v2.BlockKey(fmt.Sprintf("%d", n)):
		case <-h.quit:
			return
		default:
		}
		select {
		case <-time.After(time.Second):
		case <-h.quit:
			return
		}
	}
}

func newC18V2Sys(t testing.TB, in c18Input) *c18Sys {
	pr := newC18Probe(in.PanicSite, in.PanicAtCall, in.PanicCount, in.CoolDownNs)
	pr.setHold(in.HoldSite, in.HoldAtCall, in.HoldNs)
	heads := &c18V2Heads{ch: make(chan v2.BlockKey), quit: make(chan struct{})}
	cf := &v2coord.CoordinatorFactory{Logger: quietLogger, Encoder: v2enc.BasicEncoder{}, Logs: &c18V2Logs{p: pr}, CacheClean: 30 * time.Second}
	of := &polling.PollingObserverFactory{Logger: quietLogger, Source: &c18V2Source{p: pr}, Heads: heads, Runner: c18V2Runner{}, Encoder: c18V2Enc{}}
	fac := v2.NewReportingPluginFactory(c18V2Enc{}, c18V2Runner{}, cf, of, quietLogger)
	p, _, err := fac.NewReportingPlugin(context.Background(), ocr2types.ReportingPluginConfig{N: 4, F: 1, OffchainConfig: []byte(`{}`)})
	if err != nil {
		t.Fatalf("v2 NewReportingPlugin: %v", err)
	}
	go heads.feed()
	return &c18Sys{probe: pr, close: p.Close, subs: func() int { return 0 }, stopEnv: func() { close(heads.quit) },
		sites: c18SitesV2, others: []string{c18SiteV2Perform, c18SiteV2Stale, c18SiteV2Source}}
}
