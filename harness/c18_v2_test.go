package harness

import (
	"context"
	"fmt"
	"testing"
	"time"

	ocr2types "github.com/smartcontractkit/libocr/offchainreporting2plus/types"

	v2 "github.com/smartcontractkit/chainlink-automation/pkg/v2"
	v2coord "github.com/smartcontractkit/chainlink-automation/pkg/v2/coordinator"
	v2enc "github.com/smartcontractkit/chainlink-automation/pkg/v2/encoding"
	"github.com/smartcontractkit/chainlink-automation/pkg/v2/observer/polling"
)

// C18, OCR2 (v2) plugin: built by v2.NewReportingPluginFactory with the repository's report coordinator
// (coordinator.CoordinatorFactory: log poll every second, two cache cleaners) and polling observer
// (PollingObserverFactory: head-driven sampling behind internal/util.RecoverableService); the log provider, the
// registry, the head source and the runner are fakes that count / hold / panic through the same probe as v3.

// c18V2Enc is the plugin's / polling observer's encoder: the repository's BasicEncoder plus the four report methods;
// MakeUpkeepKey (called by the observer's head task for every sampled id) is a fault site.
type c18V2Enc struct {
	v2enc.BasicEncoder
	p *c18Probe
}

func (c18V2Enc) EncodeReport([]v2.UpkeepResult) ([]byte, error)       { return nil, nil }
func (c18V2Enc) KeysFromReport([]byte) ([]v2.UpkeepKey, error)        { return nil, nil }
func (c18V2Enc) Eligible(v2.UpkeepResult) (bool, error)               { return false, nil }
func (c18V2Enc) Detail(v2.UpkeepResult) (v2.UpkeepKey, uint32, error) { return nil, 0, nil }
func (e c18V2Enc) MakeUpkeepKey(b v2.BlockKey, id v2.UpkeepIdentifier) v2.UpkeepKey {
	e.p.hit(c18SiteV2ObsEnc)
	return e.BasicEncoder.MakeUpkeepKey(b, id)
}

// c18V2CoordEnc is the report coordinator's encoder; SplitUpkeepKey runs on the coordinator's poll loop for every
// confirmed perform log.
type c18V2CoordEnc struct {
	v2enc.BasicEncoder
	p *c18Probe
}

func (e c18V2CoordEnc) SplitUpkeepKey(k v2.UpkeepKey) (v2.BlockKey, v2.UpkeepIdentifier, error) {
	e.p.hit(c18SiteV2CoordEnc)
	return e.BasicEncoder.SplitUpkeepKey(k)
}

type c18V2Runner struct{ p *c18Probe }

func (r c18V2Runner) CheckUpkeep(ctx context.Context, _ bool, _ ...v2.UpkeepKey) ([]v2.UpkeepResult, error) {
	r.p.hitCtx(ctx, c18SiteV2Check)
	r.p.returned(c18SiteV2Check)
	return nil, nil
}

// every poll returns one confirmed perform log, so that the coordinator's encoder is exercised on its loop
type c18V2Logs struct{ p *c18Probe }

func (l *c18V2Logs) PerformLogs(ctx context.Context) ([]v2.PerformLog, error) {
	l.p.hitCtx(ctx, c18SiteV2Perform)
	return []v2.PerformLog{{Key: v2.UpkeepKey("10|7"), TransmitBlock: "11", Confirmations: 5, TransactionHash: "0xc18"}}, nil
}
func (l *c18V2Logs) StaleReportLogs(ctx context.Context) ([]v2.StaleReportLog, error) {
	l.p.hitCtx(ctx, c18SiteV2Stale)
	return nil, nil
}

// the registry reports one active upkeep, so that every head leads to MakeUpkeepKey and CheckUpkeep
type c18V2Source struct{ p *c18Probe }

func (s *c18V2Source) GetActiveUpkeepIDs(ctx context.Context) ([]v2.UpkeepIdentifier, error) {
	s.p.hitCtx(ctx, c18SiteV2Source)
	return []v2.UpkeepIdentifier{v2.UpkeepIdentifier("7")}, nil
}

// c18V2Heads offers a new head every second for as long as somebody takes it (the real head ticker drops heads
// nobody is waiting for); stop() ends the feeder so that the bubble can end.
type c18V2Heads struct {
	ch   chan v2.BlockKey
	quit chan struct{}
}

func (h *c18V2Heads) HeadTicker() chan v2.BlockKey { return h.ch }
func (h *c18V2Heads) feed() {
	for n := 100; ; n++ {
		select {
		case h.ch <- v2.BlockKey(fmt.Sprintf("%d", n)):
		case <-h.quit:
			return
		default:
		}
		select {
		case <-time.After(time.Second):
		case <-h.quit:
			return
		}
	}
}

func newC18V2Sys(t testing.TB, in c18Input) *c18Sys {
	pr := newC18Probe(in.PanicSite, in.PanicAtCall, in.PanicCount, in.CoolDownNs)
	pr.setHold(in.HoldSite, in.HoldAtCall, in.HoldNs, in.HoldCtx)
	heads := &c18V2Heads{ch: make(chan v2.BlockKey), quit: make(chan struct{})}
	cf := &v2coord.CoordinatorFactory{Logger: quietLogger, Encoder: c18V2CoordEnc{p: pr}, Logs: &c18V2Logs{p: pr}, CacheClean: 30 * time.Second}
	of := &polling.PollingObserverFactory{Logger: quietLogger, Source: &c18V2Source{p: pr}, Heads: heads, Runner: c18V2Runner{p: pr}, Encoder: c18V2Enc{p: pr}}
	var cfi v2.CoordinatorFactory = cf
	if in.CloseFault == "v2-coordinator-close" {
		w := &c18V2CF{inner: cf} // the coordinator's Close stops it and then reports an error
		w.failClose.Store(true)
		cfi = w
	}
	fac := v2.NewReportingPluginFactory(c18V2Enc{p: pr}, c18V2Runner{p: pr}, cfi, of, quietLogger)
	go heads.feed()
	closeFn, first := c18Build(in, pr, func(cfg string) func() error {
		cctx, ccancel := context.WithCancel(context.Background())
		p, _, err := fac.NewReportingPlugin(cctx, ocr2types.ReportingPluginConfig{N: 4, F: 1, OffchainConfig: []byte(cfg)})
		ccancel()
		if err != nil {
			t.Fatalf("v2 NewReportingPlugin: %v", err)
		}
		return p.Close
	})
	return &c18Sys{probe: pr, close: closeFn, firstClose: first, progressSite: c18SiteV2Check, subs: func() int { return 0 }, stopEnv: func() { close(heads.quit) },
		sites:   c18SitesV2,
		flowRep: map[string]string{"coordinator": c18SiteV2Perform, "observer": c18SiteV2Source},
		flowOf: map[string]string{c18SiteV2Perform: "coordinator", c18SiteV2Stale: "coordinator", c18SiteV2CoordEnc: "coordinator",
			c18SiteV2Source: "observer", c18SiteV2ObsEnc: "observer", c18SiteV2Check: "observer"}}
}
