package harness

import (
	"context"
	"encoding/json"
	"fmt"
	"hash/fnv"
	"math/big"
	"reflect"
	"runtime"
	"sort"
	"strings"
	"sync"
	"testing"
	"testing/synctest"
	"time"
	"unsafe"

	"github.com/smartcontractkit/libocr/offchainreporting2plus/ocr3types"
	ocr2plustypes "github.com/smartcontractkit/libocr/offchainreporting2plus/types"

	"github.com/smartcontractkit/chainlink-automation/pkg/v3/plugin"
	"github.com/smartcontractkit/chainlink-automation/tools/simulator/config"
	"github.com/smartcontractkit/chainlink-automation/tools/simulator/simulate/chain"
	"github.com/smartcontractkit/chainlink-automation/tools/simulator/simulate/loader"
	"github.com/smartcontractkit/chainlink-automation/tools/simulator/simulate/ocr"
	"github.com/smartcontractkit/chainlink-automation/tools/simulator/simulate/upkeep"
	simutil "github.com/smartcontractkit/chainlink-automation/tools/simulator/util"
	ocr2keepers "github.com/smartcontractkit/chainlink-common/pkg/types/automation"
)

// C19 — simulated chain: one consistent chain, newest-first history, events once.
//
// Each case wires the REAL pieces the way tools/simulator/simulate/hydrator.go
// and node/group.go do — one BlockBroadcaster with the OCR3TransmitLoader as
// block loader; per attached node a Listener, a BlockHistoryTracker and a
// ReportTracker on that listener, and an OCR3Transmitter in front of the
// loader — and runs them in a synctest bubble (virtual time).
//
// Two delivery modes:
//   - "proxy"  : every listener is attached through a harness Broadcaster
//     (the interface chain.NewListener accepts) that owns one undelayed
//     subscription of the real broadcaster and forwards each block after a
//     per-subscriber, per-block delay taken from the input.  Arrival order is
//     therefore a function of the input (all arrival instants of a subscriber
//     are distinct) and the model predicts it.
//   - "native" : listeners subscribe directly; the broadcaster's own random
//     delay (global math/rand, up to MaxDelayMs > cadence) reorders blocks.  The
//     order is the implementation's choice and is read back from its output.
//
// Stopping: Listener, BlockHistoryTracker and ReportTracker only have an
// unexported stop() that a finalizer is supposed to call (it never can: the
// run goroutine keeps the object reachable).  The harness closes their chDone
// channel through reflection, which is all stop() does, so every bubble ends
// with no goroutine left.  Should that not be possible (field renamed) the
// results are recorded before the bubble returns and the leak panic of
// synctest is caught (counted as "bubble-leak").

type c19Tx struct {
	At    int64  `json:"at"` // µs after Start; never a multiple of 1000
	Rep   int    `json:"rep"`
	Round uint64 `json:"round"`
	Nodes []int  `json:"nodes"` // concurrent submitters
}

type c19Input struct {
	Genesis     string       `json:"genesis"`
	Count       int          `json:"count"`   // blocks broadcast
	Pad         int          `json:"pad"`     // how many of them come from EndPadding
	CadenceMs   int          `json:"cadence"` // ms
	Subs        int          `json:"subs"`
	Native      bool         `json:"native"`
	MaxDelayMs  int          `json:"maxDelay"` // native mode: BlockBroadcaster maxDelay
	Delays      [][]int      `json:"delays"`   // proxy mode: [subscriber][block index] ms
	Reports     [][]JCR      `json:"reports"`
	Raw         []string     `json:"raw"`              // parallel to Reports: non-empty = the report's bytes as they are (undecodable); Reports[i] is then empty
	Stress      *c19Stress   `json:"stress,omitempty"` // an un-timed Transmit ∥ Load case instead of a chain run
	Txs         []c19Tx      `json:"txs"`
	Queries     []int64      `json:"queries"`     // µs; proxy mode only
	Attach      []int64      `json:"attach"`      // per subscriber, µs: when it subscribes (0: before Start); proxy mode only
	Detach      []int64      `json:"detach"`      // per subscriber, µs: when it unsubscribes (0: never); proxy mode only
	Stalls      []c19Stall   `json:"stalls"`      // proxy mode only: a node's plugin side stops reading for a while
	Upkeeps     []c19Upkeeps `json:"upkeeps"`     // upkeep creations mined into blocks (UpkeepConfigLoader)
	Logs        []c19LogEv   `json:"logs"`        // log events mined into blocks (LogTriggerLoader)
	SwapLoaders bool         `json:"swapLoaders"` // block loaders in the order upkeeps, logs, transmits instead of node.Group's transmits, upkeeps, logs
	Grace       int64        `json:"grace"`       // µs a delivery may be in transit when a subscriber unsubscribes: MaxDelayMs*1000 (set by the normaliser)
}

// c19Upkeeps: Count upkeeps with ids Start+1 … Start+Count are created in block Block (index)
type c19Upkeeps struct {
	Block int     `json:"block"`
	Start int64   `json:"start"`
	Count int     `json:"count"`
	Log   bool    `json:"log"` // log-trigger instead of conditional upkeeps
	IDs   []int64 `json:"ids"` // Start+1 … Start+Count (filled by the normaliser; what the model reads)
}
type c19LogEv struct {
	Block int    `json:"block"`
	Value string `json:"value"`
}

// c19Stall: from From to To (µs) the consumer of subscriber Sub's block
// histories and of its second block subscription reads nothing; the listener,
// the trackers and the prompt observer go on.  Everything must still be
// delivered, in order, once it reads again.
type c19Stall struct {
	Sub  int   `json:"sub"`
	From int64 `json:"from"`
	To   int64 `json:"to"`
}

type c19JTx struct {
	From  string `json:"from"`
	Rep   int    `json:"rep"`
	Round uint64 `json:"round"`
}
type c19JBlock struct {
	N       string   `json:"n"`
	H       string   `json:"h"`
	Tx      []c19JTx `json:"tx"`
	C       string   `json:"c"`       // digest of the rendered block content
	Created []int64  `json:"created"` // ids of the upkeeps created in the block
}
type c19JEv struct {
	WID   string `json:"wid"`
	Blk   string `json:"blk"`
	Conf  int64  `json:"conf"`
	Rep   int    `json:"rep"`
	Round uint64 `json:"round"`
}
type c19JSub struct {
	Recv   []int      `json:"recv"`   // indices into dict
	Slow   []int      `json:"slow"`   // the same blocks as seen by the stallable consumer
	Active []int64    `json:"active"` // ids known to the node's ActiveTracker at the end, ascending
	Hists  [][]int64  `json:"hists"`  // flat [number-genesis, hash id, …]
	Events [][]c19JEv `json:"events"`
	Seen   []int      `json:"seen"` // per query: blocks received when it was made
}
type c19JRec struct {
	From  string  `json:"from"`
	Rep   int     `json:"rep"`
	Round uint64  `json:"round"`
	Blk   *string `json:"blk"`
}
type c19Impl struct {
	Dict     []c19JBlock `json:"dict"`       // distinct blocks seen anywhere
	Chain    []int       `json:"chain"`      // as broadcast (undelayed observer), canonicalised THE MOMENT they were broadcast; indices into dict
	After    []int       `json:"chainAfter"` // the same block values canonicalised again at the end of the run
	Times    []int64     `json:"times"`      // virtual µs after Start at which the observer got each block
	Hashes   []string    `json:"hashes"`     // hash ids used in hists
	Subs     []c19JSub   `json:"subs"`
	Accepted [][]bool    `json:"accepted"`
	Results  []c19JRec   `json:"results"`
	Leak     string      `json:"leak,omitempty"`
}

const c19UnknownRep = 1000000

// ---------------------------------------------------------------- input normalisation

func c19ReportBytes(rep []JCR) []byte {
	return must(simutil.EncodeCheckResultsToReportBytes(fromJCRs(rep)))
}

// c19Normalise makes an input well-formed (shapes, off-grid operation times,
// distinct arrival instants per subscriber).  It is idempotent, so corpus and
// replay inputs run exactly as recorded.
func c19Normalise(in *c19Input) {
	if in.Count < 1 {
		in.Count = 1
	}
	if in.Pad < 0 || in.Pad >= in.Count {
		in.Pad = 0
	}
	if in.CadenceMs < 1 {
		in.CadenceMs = 1
	}
	if in.Subs < 1 {
		in.Subs = 1
	}
	if _, ok := new(big.Int).SetString(in.Genesis, 10); !ok {
		in.Genesis = "1"
	}
	if in.Native {
		in.Delays = nil
		in.Queries = nil
		if in.MaxDelayMs < 0 {
			in.MaxDelayMs = 0
		}
	} else {
		in.MaxDelayMs = 0
		d := make([][]int, in.Subs)
		for s := range d {
			d[s] = make([]int, in.Count)
			seen := map[int]bool{}
			for i := range d[s] {
				if s < len(in.Delays) && i < len(in.Delays[s]) && in.Delays[s][i] > 0 {
					d[s][i] = in.Delays[s][i]
				}
				for seen[i*in.CadenceMs+d[s][i]] {
					d[s][i]++
				}
				seen[i*in.CadenceMs+d[s][i]] = true
			}
		}
		in.Delays = d
	}
	offGrid := func(v int64) int64 {
		if v < 1 {
			v = 1
		}
		if v%1000 == 0 {
			v += 137
		}
		return v
	}
	for i := range in.Txs {
		in.Txs[i].At = offGrid(in.Txs[i].At)
		if in.Txs[i].Rep < 0 || in.Txs[i].Rep >= len(in.Reports) {
			in.Txs[i].Rep = 0
		}
		for j, n := range in.Txs[i].Nodes {
			if n < 0 {
				in.Txs[i].Nodes[j] = 0
			}
		}
	}
	if len(in.Reports) == 0 {
		in.Txs = nil
	}
	sort.SliceStable(in.Txs, func(i, j int) bool { return in.Txs[i].At < in.Txs[j].At })
	for i := 1; i < len(in.Txs); i++ {
		for in.Txs[i].At <= in.Txs[i-1].At || in.Txs[i].At%1000 == 0 {
			in.Txs[i].At++
		}
	}
	for i := range in.Queries {
		in.Queries[i] = offGrid(in.Queries[i])
	}
	sort.Slice(in.Queries, func(i, j int) bool { return in.Queries[i] < in.Queries[j] })
	at := make([]int64, in.Subs)
	dt := make([]int64, in.Subs)
	{
		for i := range at {
			if i < len(in.Attach) && in.Attach[i] > 0 {
				at[i] = offGrid(in.Attach[i])
			}
			if i < len(in.Detach) && in.Detach[i] > 0 {
				dt[i] = offGrid(in.Detach[i])
				if dt[i] <= at[i] {
					dt[i] = at[i] + 1000
				}
			}
		}
	}
	in.Attach, in.Detach = at, dt
	// all operation instants distinct (operations are executed one after the other)
	used := map[int64]bool{}
	uniq := func(v int64) int64 {
		for used[v] || v%1000 == 0 {
			v++
		}
		used[v] = true
		return v
	}
	for i := range in.Txs {
		in.Txs[i].At = uniq(in.Txs[i].At)
	}
	sort.SliceStable(in.Txs, func(i, j int) bool { return in.Txs[i].At < in.Txs[j].At })
	for i := range in.Queries {
		in.Queries[i] = uniq(in.Queries[i])
	}
	sort.Slice(in.Queries, func(i, j int) bool { return in.Queries[i] < in.Queries[j] })
	for i := range in.Attach {
		if in.Attach[i] > 0 {
			in.Attach[i] = uniq(in.Attach[i])
		}
	}
	for i := range in.Detach {
		if in.Detach[i] > 0 {
			if in.Detach[i] <= in.Attach[i] {
				in.Detach[i] = in.Attach[i] + 1
			}
			in.Detach[i] = uniq(in.Detach[i])
		}
	}
	in.Grace = int64(in.MaxDelayMs) * 1000
	ups := []c19Upkeeps{}
	next := int64(0)
	for _, u := range in.Upkeeps {
		if u.Block < 0 || u.Block >= in.Count || u.Count < 1 {
			continue
		}
		if u.Start < next {
			u.Start = next // disjoint id ranges
		}
		u.IDs = make([]int64, u.Count)
		for k := range u.IDs {
			u.IDs[k] = u.Start + int64(k) + 1
		}
		next = u.Start + int64(u.Count)
		ups = append(ups, u)
	}
	in.Upkeeps = ups
	lgs := []c19LogEv{}
	for _, l := range in.Logs {
		if l.Block >= 0 && l.Block < in.Count {
			lgs = append(lgs, l)
		}
	}
	in.Logs = lgs
	stalls := []c19Stall{}
	stalled := map[int]bool{}
	if !in.Native {
		for _, st := range in.Stalls {
			if st.Sub < 0 || st.Sub >= in.Subs || stalled[st.Sub] || st.From < 1 {
				continue
			}
			stalled[st.Sub] = true
			st.From = uniq(offGrid(st.From))
			if st.To <= st.From {
				st.To = st.From + 1
			}
			st.To = uniq(offGrid(st.To))
			stalls = append(stalls, st)
		}
	}
	in.Stalls = stalls
	raw := make([]string, len(in.Reports))
	for i := range raw {
		if i < len(in.Raw) && in.Raw[i] != "" {
			raw[i] = in.Raw[i]
			in.Reports[i] = []JCR{}
		}
	}
	in.Raw = raw
	if in.Reports == nil {
		in.Reports = [][]JCR{}
	}
	if in.Txs == nil {
		in.Txs = []c19Tx{}
	}
	if in.Queries == nil {
		in.Queries = []int64{}
	}
	if in.Delays == nil {
		in.Delays = [][]int{}
	}
}

// ---------------------------------------------------------------- delaying proxy (proxy mode)

// c19Proxy is a chain.Broadcaster.  Its single Subscribe call (made by the
// listener's run goroutine) takes a real, undelayed subscription and forwards
// block i after delays[i] ms.
type c19Proxy struct {
	bb      *chain.BlockBroadcaster
	genesis *big.Int
	delays  []int // by block index (number - genesis)
	stop    chan struct{}
	wg      sync.WaitGroup
	mu      sync.Mutex
	ids     []int
}

func (p *c19Proxy) Subscribe(bool) (int, chan chain.Block) {
	id, src := p.bb.Subscribe(false)
	p.mu.Lock()
	p.ids = append(p.ids, id)
	p.mu.Unlock()
	out := make(chan chain.Block)
	p.wg.Add(1)
	go func() {
		defer p.wg.Done()
		for blk := range src {
			d := 0
			if blk.Number != nil {
				if i := new(big.Int).Sub(blk.Number, p.genesis); i.IsInt64() && i.Int64() >= 0 && i.Int64() < int64(len(p.delays)) {
					d = p.delays[i.Int64()]
				}
			}
			p.wg.Add(1)
			go func(blk chain.Block, d int) {
				defer p.wg.Done()
				if d > 0 {
					time.Sleep(time.Duration(d) * time.Millisecond)
				}
				select {
				case out <- blk:
				case <-p.stop:
				}
			}(blk, d)
		}
	}()
	return id, out
}

func (p *c19Proxy) Unsubscribe(id int) { p.bb.Unsubscribe(id) }

// detach unsubscribes from the real broadcaster; blocks already on their (delayed) way still arrive
func (p *c19Proxy) detach() {
	p.mu.Lock()
	ids := append([]int(nil), p.ids...)
	p.mu.Unlock()
	for _, id := range ids {
		p.bb.Unsubscribe(id)
	}
}

func (p *c19Proxy) shutdown() {
	p.mu.Lock()
	ids := p.ids
	p.mu.Unlock()
	for _, id := range ids {
		p.bb.Unsubscribe(id) // closes the source channel: the pump ends
	}
	close(p.stop)
	p.wg.Wait()
}

// c19SubscriptionID reads the id a Listener got from its block source (unexported field, read only).
func c19SubscriptionID(l *chain.Listener) (id int, ok bool) {
	defer func() {
		if recover() != nil {
			ok = false
		}
	}()
	v := reflect.ValueOf(l).Elem().FieldByName("subscriptionID")
	if !v.IsValid() {
		return 0, false
	}
	return int(v.Int()), true
}

// c19CloseDone does what the unexported stop() of Listener /
// BlockHistoryTracker / ReportTracker does: close(chDone).
func c19CloseDone(x any) (err error) {
	defer func() {
		if r := recover(); r != nil {
			err = fmt.Errorf("%v", r)
		}
	}()
	v := reflect.ValueOf(x).Elem().FieldByName("chDone")
	if !v.IsValid() {
		return fmt.Errorf("%T has no field chDone", x)
	}
	ch, ok := reflect.NewAt(v.Type(), unsafe.Pointer(v.UnsafeAddr())).Elem().Interface().(chan struct{})
	if !ok {
		return fmt.Errorf("%T.chDone is not a chan struct{}", x)
	}
	// the constructor registered a finalizer that calls stop(); once the run
	// goroutine is gone the object becomes collectable and that finalizer would
	// close chDone a second time (and from outside the bubble)
	runtime.SetFinalizer(x, nil)
	close(ch)
	return nil
}

// ---------------------------------------------------------------- one run

type c19Node struct {
	listener *chain.Listener
	tracker  *chain.BlockHistoryTracker
	reports  *ocr.ReportTracker
	active   *upkeep.ActiveTracker
	performs *upkeep.PerformTracker
	logs     *upkeep.LogTriggerTracker
	cfg      *ocr.OCR3ConfigTracker
	proxy    *c19Proxy
	histID   int
	stopped  bool // its listener and trackers were stopped mid-run (a node going away)

	mu     sync.Mutex
	recv   []chain.Block
	hists  []ocr2keepers.BlockHistory
	events [][]ocr2keepers.TransmitEvent
	seen   []int
	slow   []chain.Block
	fin    chan struct{}
	finObs chan struct{}
	pause  chan struct{}
	resume chan struct{}
	paused bool
}

func c19Digest(s string) string {
	h := fnv.New64a()
	h.Write([]byte(s))
	return fmt.Sprintf("%016x", h.Sum64())
}

// c19Run executes one case inside a bubble and returns what the real code did.
func c19Run(t *testing.T, in c19Input) c19Impl {
	genesis, _ := new(big.Int).SetString(in.Genesis, 10)
	cadence := time.Duration(in.CadenceMs) * time.Millisecond
	repBytes := make([][]byte, len(in.Reports))
	repIdx := map[string]int{}
	for i, r := range in.Reports {
		repBytes[i] = c19ReportBytes(r)
		if i < len(in.Raw) && in.Raw[i] != "" {
			repBytes[i] = []byte(in.Raw[i]) // a report no node can decode
		}
		if _, dup := repIdx[string(repBytes[i])]; dup {
			t.Fatalf("C19 input: reports %d and %d have identical bytes", repIdx[string(repBytes[i])], i)
		}
		repIdx[string(repBytes[i])] = i
	}
	repOf := func(b []byte) int {
		if i, ok := repIdx[string(b)]; ok {
			return i
		}
		return c19UnknownRep
	}

	// canon renders a block value as it is NOW (number, hash, transmits, digest of everything else)
	canon := func(b chain.Block) c19JBlock {
		jb := c19JBlock{N: "nil", H: hx(b.Hash[:]), Tx: []c19JTx{}, Created: []int64{}}
		if b.Number != nil {
			jb.N = b.Number.String()
		}
		other := []string{}
		for _, tx := range b.Transactions {
			switch v := tx.(type) {
			case chain.PerformUpkeepTransaction:
				for _, e := range v.Transmits {
					jb.Tx = append(jb.Tx, c19JTx{From: e.SendingAddress, Rep: repOf(e.Report), Round: e.Round})
					bn := "nil"
					if e.BlockNumber != nil {
						bn = e.BlockNumber.String()
					}
					other = append(other, fmt.Sprintf("transmit %s %x %x %d %s %x", e.SendingAddress, e.Report, e.Hash, e.Round, bn, e.BlockHash))
				}
				other = append(other, "end-perform")
			case chain.UpkeepCreatedTransaction:
				if v.Upkeep.ID != nil && v.Upkeep.ID.IsInt64() {
					jb.Created = append(jb.Created, v.Upkeep.ID.Int64())
				}
				other = append(other, fmt.Sprintf("%T %v", tx, tx))
			default:
				other = append(other, fmt.Sprintf("%T %v", tx, tx))
			}
		}
		jb.C = c19Digest(strings.Join(other, "\n"))
		return jb
	}

	tl, err := loader.NewOCR3TransmitLoader(config.SimulationPlan{}, nil, quietLogger)
	if err != nil {
		t.Fatalf("NewOCR3TransmitLoader: %v", err)
	}
	conf := config.Blocks{
		Genesis:    genesis,
		Cadence:    config.Duration(cadence),
		Jitter:     config.Duration(0),
		Duration:   in.Count - 1 - in.Pad,
		EndPadding: in.Pad,
	}
	// the other block loaders of node.Group: upkeep creations and log events from the simulation plan
	plan := config.SimulationPlan{Blocks: conf}
	for _, u := range in.Upkeeps {
		ev := config.GenerateUpkeepEvent{
			Event:           config.Event{Type: config.GenerateUpkeepEventType, TriggerBlock: new(big.Int).Add(genesis, big.NewInt(int64(u.Block)))},
			Count:           u.Count,
			StartID:         big.NewInt(u.Start),
			EligibilityFunc: "never",
			UpkeepType:      config.ConditionalUpkeepType,
			Expected:        config.NoneExpected,
		}
		if u.Log {
			ev.UpkeepType, ev.LogTriggeredBy = config.LogTriggerUpkeepType, "log-value"
		}
		plan.GenerateUpkeeps = append(plan.GenerateUpkeeps, ev)
	}
	for _, l := range in.Logs {
		plan.LogEvents = append(plan.LogEvents, config.LogTriggerEvent{
			Event:        config.Event{Type: config.LogTriggerEventType, TriggerBlock: new(big.Int).Add(genesis, big.NewInt(int64(l.Block)))},
			TriggerValue: l.Value,
		})
	}
	lUpkeep, err := loader.NewUpkeepConfigLoader(plan, nil)
	if err != nil {
		t.Fatalf("NewUpkeepConfigLoader: %v", err)
	}
	lLogs, err := loader.NewLogTriggerLoader(plan, nil)
	if err != nil {
		t.Fatalf("NewLogTriggerLoader: %v", err)
	}
	loaders := []chain.BlockLoaderFunc{tl.Load, lUpkeep.Load, lLogs.Load} // node.Group's order (without the OCR3 config loader)
	if in.SwapLoaders {
		loaders = []chain.BlockLoaderFunc{lUpkeep.Load, lLogs.Load, tl.Load}
	}
	bb := chain.NewBlockBroadcaster(conf, in.MaxDelayMs, quietLogger, nil, loaders...)

	// undelayed observer of the chain as broadcast
	var (
		srcMu    sync.Mutex
		srcChain []chain.Block
		srcSnap  []c19JBlock // each block rendered the moment it was broadcast: what was mined
		srcTimes []int64
		t0       time.Time // set just before Start
	)
	srcID, srcCh := bb.Subscribe(false)
	srcFin := make(chan struct{})
	go func() {
		defer close(srcFin)
		for b := range srcCh {
			srcMu.Lock()
			srcChain = append(srcChain, b)
			srcSnap = append(srcSnap, canon(b))
			srcTimes = append(srcTimes, time.Since(t0).Microseconds())
			srcMu.Unlock()
		}
	}()

	stopCollect := make(chan struct{})
	nodes := make([]*c19Node, in.Subs)
	// attach builds what hydrator.go builds per node on the shared broadcaster
	attach := func(s int) {
		n := &c19Node{fin: make(chan struct{}), finObs: make(chan struct{}), pause: make(chan struct{}), resume: make(chan struct{})}
		if in.Native {
			n.listener = chain.NewListener(bb, quietLogger)
		} else {
			n.proxy = &c19Proxy{bb: bb, genesis: genesis, delays: in.Delays[s], stop: make(chan struct{})}
			n.listener = chain.NewListener(n.proxy, quietLogger)
		}
		synctest.Wait() // the listener's goroutine has subscribed: ids are assigned in creation order
		n.tracker = chain.NewBlockHistoryTracker(n.listener, quietLogger)
		n.reports = ocr.NewReportTracker(n.listener, quietLogger)
		// the other consumers simulate.HydrateConfig puts on a node's listener
		n.active = upkeep.NewActiveTracker(n.listener, quietLogger)
		n.performs = upkeep.NewPerformTracker(n.listener, quietLogger)
		n.logs = upkeep.NewLogTriggerTracker(n.listener, n.active, n.performs, quietLogger)
		n.cfg = ocr.NewOCR3ConfigTracker(n.listener, quietLogger)
		id, chH, err := n.tracker.Subscribe()
		if err != nil {
			t.Fatalf("tracker.Subscribe: %v", err)
		}
		n.histID = id
		chB := n.listener.Subscribe(chain.BlockChannel)    // read promptly
		chSlow := n.listener.Subscribe(chain.BlockChannel) // read by the stallable consumer, like the histories
		go func() {
			defer close(n.finObs)
			for {
				select {
				case e := <-chB:
					if b, ok := e.Event.(chain.Block); ok {
						n.mu.Lock()
						n.recv = append(n.recv, b)
						n.mu.Unlock()
					}
				case <-stopCollect:
					return
				}
			}
		}()
		go func() {
			defer close(n.fin)
			for {
				select {
				case <-n.pause: // the plugin side of the node stops reading
					select {
					case <-n.resume:
					case <-stopCollect:
						return
					}
				case h, ok := <-chH:
					if !ok {
						chH = nil
						continue
					}
					n.mu.Lock()
					n.hists = append(n.hists, append(ocr2keepers.BlockHistory(nil), h...))
					n.mu.Unlock()
				case e := <-chSlow:
					if b, ok := e.Event.(chain.Block); ok {
						n.mu.Lock()
						n.slow = append(n.slow, b)
						n.mu.Unlock()
					}
				case <-stopCollect:
					return
				}
			}
		}()
		nodes[s] = n
		synctest.Wait()
	}
	for s := range nodes {
		if in.Attach[s] == 0 {
			attach(s)
		}
	}
	synctest.Wait()

	leak := []string{}
	stopNode := func(n *c19Node) {
		n.stopped = true
		for _, x := range []any{n.tracker, n.reports, n.active, n.performs, n.logs, n.cfg, n.listener} {
			if err := c19CloseDone(x); err != nil {
				leak = append(leak, err.Error())
			}
		}
	}

	transmitters := map[int]*ocr.OCR3Transmitter{}
	transmitter := func(n int) *ocr.OCR3Transmitter {
		if tr, ok := transmitters[n]; ok {
			return tr
		}
		tr := ocr.NewOCR3Transmitter(fmt.Sprintf("node-%d", n), tl)
		transmitters[n] = tr
		return tr
	}

	t0 = time.Now()
	done := bb.Start()
	go func() {
		<-done    // the broadcaster passed its limit
		bb.Stop() // its run loop is in the select again (or will find done closed): no send on the closed channel
	}()

	// operations in time order
	type op struct {
		at     int64
		tx     int // index into in.Txs or -1
		query  bool
		attach int // subscriber to attach, or -1
		detach int // subscriber to detach, or -1
		pause  int // subscriber whose consumer stops reading, or -1
		resume int // … reads again, or -1
	}
	ops := []op{}
	for _, st := range in.Stalls {
		ops = append(ops, op{at: st.From, tx: -1, attach: -1, detach: -1, pause: st.Sub, resume: -1},
			op{at: st.To, tx: -1, attach: -1, detach: -1, pause: -1, resume: st.Sub})
	}
	for s := range nodes {
		if in.Attach[s] > 0 {
			ops = append(ops, op{at: in.Attach[s], tx: -1, attach: s, detach: -1, pause: -1, resume: -1})
		}
		if in.Detach[s] > 0 {
			ops = append(ops, op{at: in.Detach[s], tx: -1, attach: -1, detach: s, pause: -1, resume: -1})
		}
	}
	for i, x := range in.Txs {
		ops = append(ops, op{at: x.At, tx: i, attach: -1, detach: -1, pause: -1, resume: -1})
	}
	for _, q := range in.Queries {
		ops = append(ops, op{at: q, tx: -1, query: true, attach: -1, detach: -1, pause: -1, resume: -1})
	}
	sort.SliceStable(ops, func(i, j int) bool { return ops[i].at < ops[j].at })

	impl := c19Impl{Accepted: make([][]bool, len(in.Txs))}
	queryAll := func() {
		for _, n := range nodes {
			if n == nil {
				continue // not attached yet
			}
			evs, err := n.reports.GetLatestEvents(context.Background())
			if err != nil {
				t.Fatalf("GetLatestEvents: %v", err)
			}
			n.mu.Lock()
			n.events = append(n.events, evs)
			n.seen = append(n.seen, len(n.recv)) // quiescent instant: listener, trackers and this observer have all handled the same blocks
			n.mu.Unlock()
		}
	}
	sleepUntil := func(at time.Duration) {
		if d := at - time.Since(t0); d > 0 {
			time.Sleep(d)
		}
		synctest.Wait()
	}
	for _, o := range ops {
		sleepUntil(time.Duration(o.at) * time.Microsecond)
		if o.query {
			queryAll()
			continue
		}
		if o.attach >= 0 {
			attach(o.attach) // a node joining while the chain runs
			continue
		}
		if o.pause >= 0 {
			if n := nodes[o.pause]; n != nil && !n.paused {
				n.pause <- struct{}{}
				n.paused = true
			}
			continue
		}
		if o.resume >= 0 {
			if n := nodes[o.resume]; n != nil && n.paused {
				n.resume <- struct{}{}
				n.paused = false
				synctest.Wait() // the backlog is drained
			}
			continue
		}
		if o.detach >= 0 {
			if n := nodes[o.detach]; n != nil && n.proxy != nil {
				n.proxy.detach() // Unsubscribe on the real broadcaster
				synctest.Wait()
			} else if n != nil && !n.stopped {
				// the node goes away: what Listener.stop() and the trackers' stop() do (run loops first, so
				// that nobody reads the channel Unsubscribe closes); deliveries still in transit hit the
				// closed channel and are dropped by the broadcaster's recover path
				stopNode(n)
				synctest.Wait()
				if id, ok := c19SubscriptionID(n.listener); ok {
					bb.Unsubscribe(id)
				}
				synctest.Wait()
			}
			continue
		}
		x := in.Txs[o.tx]
		flags := make([]bool, len(x.Nodes))
		var wg sync.WaitGroup
		for k, nd := range x.Nodes {
			tr := transmitter(nd)
			wg.Add(1)
			go func() { // concurrent submissions of the same (report, round)
				defer wg.Done()
				err := tr.Transmit(context.Background(), ocr2plustypes.ConfigDigest{}, x.Round,
					ocr3types.ReportWithInfo[plugin.AutomationReportInfo]{Report: repBytes[x.Rep]}, nil)
				flags[k] = err == nil
			}()
		}
		wg.Wait()
		impl.Accepted[o.tx] = flags
	}

	// let every block be broadcast and every delayed delivery arrive
	maxDelay := in.MaxDelayMs
	for _, ds := range in.Delays {
		for i, d := range ds {
			if v := d + (i-in.Count)*in.CadenceMs; v > maxDelay {
				maxDelay = v // delivery of block i happens at i*cadence+d; measured from count*cadence
			}
		}
	}
	sleepUntil(time.Duration(in.Count)*cadence + time.Duration(maxDelay+1)*time.Millisecond + 500*time.Microsecond)
	queryAll() // the final answer of every report tracker
	results := tl.Results()

	// ---- stop everything
	close(stopCollect)
	for _, n := range nodes {
		<-n.fin
		<-n.finObs
	}
	for _, n := range nodes {
		if !n.stopped {
			_ = n.tracker.Unsubscribe(n.histID)
			stopNode(n)
		}
	}
	synctest.Wait()
	if len(leak) == 0 {
		for _, n := range nodes {
			if n.proxy != nil {
				n.proxy.shutdown()
			}
		}
		for _, n := range nodes {
			if n.proxy == nil {
				if id, ok := c19SubscriptionID(n.listener); ok {
					bb.Unsubscribe(id) // no-op for a node that went away mid-run
				}
			}
		}
		bb.Unsubscribe(srcID)
		<-srcFin
		synctest.Wait()
	}
	// else: a run loop could not be stopped.  Closing its source channel would make it spin on
	// zero blocks, so everything is left parked; the bubble then ends with blocked goroutines,
	// which c19Bubble turns into a note.
	srcMu.Lock()
	defer srcMu.Unlock()
	impl.Leak = strings.Join(leak, "; ")

	// ---- canonicalise
	txHash := map[[32]byte]c19JRec{}
	for _, r := range results {
		j := c19JRec{From: r.SendingAddress, Rep: repOf(r.Report), Round: r.Round}
		if r.BlockNumber != nil {
			s := r.BlockNumber.String()
			j.Blk = &s
		}
		txHash[r.Hash] = j
		impl.Results = append(impl.Results, j)
	}
	sort.Slice(impl.Results, func(i, j int) bool {
		a, b := impl.Results[i], impl.Results[j]
		if a.Rep != b.Rep {
			return a.Rep < b.Rep
		}
		if a.Round != b.Round {
			return a.Round < b.Round
		}
		return a.From < b.From
	})
	if impl.Results == nil {
		impl.Results = []c19JRec{}
	}
	dictIdx := map[string]int{}
	intern := func(jb c19JBlock) int {
		key := jb.N + "|" + jb.H + "|" + jb.C
		if i, ok := dictIdx[key]; ok {
			return i
		}
		dictIdx[key] = len(impl.Dict)
		impl.Dict = append(impl.Dict, jb)
		return len(impl.Dict) - 1
	}
	blockIdx := func(b chain.Block) int { return intern(canon(b)) }
	impl.Chain = []int{}
	for _, jb := range srcSnap {
		impl.Chain = append(impl.Chain, intern(jb))
	}
	impl.After = []int{}
	for _, b := range srcChain { // the same (shared) block values, as they are now
		impl.After = append(impl.After, blockIdx(b))
	}
	impl.Times = append([]int64{}, srcTimes...)
	hashIdx := map[string]int64{}
	impl.Hashes = []string{}
	for _, n := range nodes {
		js := c19JSub{Recv: []int{}, Hists: [][]int64{}, Events: [][]c19JEv{}, Seen: append([]int{}, n.seen...)}
		for _, b := range n.recv {
			js.Recv = append(js.Recv, blockIdx(b))
		}
		js.Active = []int64{}
		for _, ty := range []chain.UpkeepType{chain.ConditionalType, chain.LogTriggerType} {
			for _, u := range n.active.GetAllByType(ty) {
				if u.ID != nil && u.ID.IsInt64() {
					js.Active = append(js.Active, u.ID.Int64())
				} else {
					js.Active = append(js.Active, -1)
				}
			}
		}
		sort.Slice(js.Active, func(i, j int) bool { return js.Active[i] < js.Active[j] })
		js.Slow = []int{}
		for _, b := range n.slow {
			js.Slow = append(js.Slow, blockIdx(b))
		}
		for _, h := range n.hists {
			flat := make([]int64, 0, 2*len(h))
			for _, k := range h {
				rel := new(big.Int).Sub(new(big.Int).SetUint64(uint64(k.Number)), genesis)
				hs := hx(k.Hash[:])
				id, ok := hashIdx[hs]
				if !ok {
					id = int64(len(impl.Hashes))
					hashIdx[hs] = id
					impl.Hashes = append(impl.Hashes, hs)
				}
				if !rel.IsInt64() {
					rel = big.NewInt(-1 << 62) // cannot happen for uint64 numbers and genesis < 2^63; keeps the line decodable
				}
				flat = append(flat, rel.Int64(), id)
			}
			js.Hists = append(js.Hists, flat)
		}
		for _, evs := range n.events {
			je := []c19JEv{}
			for _, e := range evs {
				r, ok := txHash[e.TransactionHash]
				if !ok {
					r = c19JRec{Rep: c19UnknownRep}
				}
				je = append(je, c19JEv{WID: e.WorkID, Blk: fmt.Sprint(uint64(e.TransmitBlock)), Conf: e.Confirmations, Rep: r.Rep, Round: r.Round})
			}
			js.Events = append(js.Events, je)
		}
		impl.Subs = append(impl.Subs, js)
	}
	return impl
}

// c19Bubble runs one case in its own bubble.  The result is taken before the
// bubble function returns, so a goroutine leak (reported by synctest as a
// panic when the bubble ends) cannot lose it.
func c19Bubble(t *testing.T, em *Emitter, src string, in c19Input) {
	if in.Stress != nil { // real goroutines, no clock
		if in.Stress.Nodes < 1 || in.Stress.Rounds < 1 || len(in.Reports) == 0 {
			t.Fatalf("C19 stress input needs nodes, rounds and a report")
		}
		em.Emit(src, in, c19StressRun(t, in))
		return
	}
	c19Normalise(&in)
	var impl *c19Impl
	func() {
		defer func() {
			if r := recover(); r != nil {
				if impl != nil && strings.Contains(fmt.Sprint(r), "blocked goroutines remain") {
					em.Hit("bubble-leak")
					if impl.Leak == "" {
						impl.Leak = fmt.Sprint(r)
					}
					return
				}
				panic(r)
			}
		}()
		synctest.Test(t, func(t *testing.T) {
			out := c19Run(t, in)
			impl = &out
		})
	}()
	if impl == nil {
		t.Fatalf("C19: case produced no result")
	}
	if impl.Leak != "" {
		em.Hit("leak-note")
		t.Logf("C19: %s", impl.Leak)
	}
	em.Emit(src, in, impl)
}

// ---------------------------------------------------------------- un-timed Transmit ∥ Load

// c19Stress: Nodes goroutines each submit, round after round, the report of
// rounds 0 … Rounds-1 (report Reports[round % len(Reports)]) through their
// OCR3Transmitter while another goroutine keeps building blocks with the
// loader's Load — the two public entry points the simulator runs concurrently
// (nodes vs. block broadcaster), here without any clock so that the calls
// really interleave.  When every submitter has returned, two more blocks are
// built.  Every accepted (nil) submission must then be on chain exactly once.
type c19Stress struct {
	Nodes  int `json:"nodes"`
	Rounds int `json:"rounds"`
	Yield  int `json:"yield"` // the block builder yields the processor every Yield blocks (0: never)
}

type c19JStressBlock struct {
	N  string   `json:"n"`
	Tx []c19JTx `json:"tx"`
}
type c19StressImpl struct {
	Accepted [][]bool          `json:"accepted"` // [round][node]
	Blocks   []c19JStressBlock `json:"blocks"`   // the blocks that got a perform transaction, in order
	Results  []c19JRec         `json:"results"`
	Loads    int               `json:"loads"` // blocks built in all
}

func c19StressRun(t *testing.T, in c19Input) c19StressImpl {
	st := *in.Stress
	repBytes := make([][]byte, len(in.Reports))
	repIdx := map[string]int{}
	for i, r := range in.Reports {
		repBytes[i] = c19ReportBytes(r)
		repIdx[string(repBytes[i])] = i
	}
	repOf := func(b []byte) int {
		if i, ok := repIdx[string(b)]; ok {
			return i
		}
		return c19UnknownRep
	}
	tl, err := loader.NewOCR3TransmitLoader(config.SimulationPlan{}, nil, quietLogger)
	if err != nil {
		t.Fatalf("NewOCR3TransmitLoader: %v", err)
	}
	impl := c19StressImpl{Accepted: make([][]bool, st.Rounds), Blocks: []c19JStressBlock{}}
	for r := range impl.Accepted {
		impl.Accepted[r] = make([]bool, st.Nodes)
	}
	build := func(n int) {
		blk := &chain.Block{Number: big.NewInt(int64(n))}
		tl.Load(blk)
		impl.Loads++
		for _, tx := range blk.Transactions {
			if v, ok := tx.(chain.PerformUpkeepTransaction); ok {
				jb := c19JStressBlock{N: blk.Number.String(), Tx: []c19JTx{}}
				for _, e := range v.Transmits {
					jb.Tx = append(jb.Tx, c19JTx{From: e.SendingAddress, Rep: repOf(e.Report), Round: e.Round})
				}
				impl.Blocks = append(impl.Blocks, jb)
			}
		}
	}
	var (
		submitters sync.WaitGroup
		done       = make(chan struct{})
		built      = make(chan struct{})
	)
	go func() { // the block broadcaster's side
		defer close(built)
		n := 0
		for {
			select {
			case <-done:
				build(n) // every submitter has returned: two more blocks take whatever is pending
				build(n + 1)
				return
			default:
			}
			build(n)
			n++
			if st.Yield > 0 && n%st.Yield == 0 {
				runtime.Gosched()
			}
		}
	}()
	for k := 0; k < st.Nodes; k++ {
		tr := ocr.NewOCR3Transmitter(fmt.Sprintf("node-%d", k), tl)
		submitters.Add(1)
		go func() {
			defer submitters.Done()
			for r := 0; r < st.Rounds; r++ {
				err := tr.Transmit(context.Background(), ocr2plustypes.ConfigDigest{}, uint64(r),
					ocr3types.ReportWithInfo[plugin.AutomationReportInfo]{Report: repBytes[r%len(repBytes)]}, nil)
				impl.Accepted[r][k] = err == nil
			}
		}()
	}
	submitters.Wait()
	close(done)
	<-built
	for _, r := range tl.Results() {
		j := c19JRec{From: r.SendingAddress, Rep: repOf(r.Report), Round: r.Round}
		if r.BlockNumber != nil {
			s := r.BlockNumber.String()
			j.Blk = &s
		}
		impl.Results = append(impl.Results, j)
	}
	sort.Slice(impl.Results, func(i, j int) bool {
		a, b := impl.Results[i], impl.Results[j]
		if a.Round != b.Round {
			return a.Round < b.Round
		}
		return a.From < b.From
	})
	if impl.Results == nil {
		impl.Results = []c19JRec{}
	}
	return impl
}

func c19StressGen(r *Rng, em *Emitter) c19Input {
	in := c19Input{Genesis: "0", Count: 1, CadenceMs: 1, Subs: 1,
		Stress: &c19Stress{Nodes: r.Range(2, 8), Rounds: r.Range(100, 400), Yield: []int{0, 1, 7, 64}[r.Intn(4)]}}
	for n := r.Range(1, 3); n > 0; n-- { // decoding the pending reports is the slow part of Load
		rep := []JCR{}
		for q := r.Range(1, 8); q > 0; q-- {
			rep = append(rep, toJCR(genResult(r, genUpkeepID(r, r.Bool()), uint64(r.Range(10, 1000)))))
		}
		in.Reports = append(in.Reports, rep)
	}
	em.Hit(fmt.Sprintf("stress-nodes=%d", in.Stress.Nodes))
	return in
}

// ---------------------------------------------------------------- generator

func c19Pow10(k int) *big.Int { return new(big.Int).Exp(big.NewInt(10), big.NewInt(int64(k)), nil) }

func c19Gen(r *Rng, em *Emitter) c19Input {
	var in c19Input
	// size
	big_ := false
	switch x := r.Intn(100); {
	case x < 55:
		in.Count = r.Range(1, 40)
	case x < 82:
		in.Count = r.Range(41, 120)
	case x < 90:
		in.Count = []int{255, 256, 257, 258}[r.Intn(4)]
		big_ = true
	default:
		in.Count = r.Range(200, 300)
		big_ = true
	}
	if r.Chance(30) {
		in.Pad = r.Intn(in.Count)
	}
	in.Subs = r.Range(1, 8)
	if big_ {
		in.Subs = r.Range(1, 2)
	}
	in.CadenceMs = []int{10, 50, 100, 1000}[r.Intn(4)]
	// genesis: 10^k - j so that the run crosses a power of ten
	k := []int{1, 2, 2, 3, 3, 4, 6, 9, 12, 15, 18, 19}[r.Intn(12)]
	j := 0
	switch r.Intn(6) {
	case 0:
		j = 0
	case 1:
		j = r.Range(0, in.Count+3)
	case 2:
		j = in.Count - 1 // last block is 10^k
	default:
		j = r.Range(1, in.Count) // strictly inside
	}
	g := new(big.Int).Sub(c19Pow10(k), big.NewInt(int64(j)))
	if g.Sign() < 0 {
		g.SetInt64(0)
	}
	if r.Chance(8) {
		g.SetInt64(int64(r.Range(0, 12))) // crosses 10 and possibly 100 from the very start
	}
	in.Genesis = g.String()
	lo, hi := new(big.Int).Set(g), new(big.Int).Add(g, big.NewInt(int64(in.Count-1)))
	if len(lo.String()) != len(hi.String()) {
		em.Hit("crosses-power-of-ten")
	}
	em.Hit(fmt.Sprintf("digits=%d", len(hi.String())))
	em.Hit(fmt.Sprintf("blocks=%d", bucket(in.Count)))
	em.Hit(fmt.Sprintf("subs=%d", in.Subs))

	in.Native = !big_ && in.Count <= 60 && r.Chance(22)
	if in.Native {
		in.MaxDelayMs = in.CadenceMs * r.Range(2, 5)
		em.Hit("mode=native")
	} else {
		em.Hit("mode=proxy")
		in.Delays = make([][]int, in.Subs)
		c := in.CadenceMs
		for s := range in.Delays {
			d := make([]int, in.Count)
			prof := r.Intn(7)
			em.Hit(fmt.Sprintf("delay-profile=%d", prof))
			switch prof {
			case 0: // in order, immediate
			case 1: // in order, jittered below the cadence
				base := r.Intn(c)
				for i := range d {
					d[i] = base
				}
			case 2, 3: // random, several cadences: out of order
				m := c * []int{2, 3, 6, 12}[r.Intn(4)]
				for i := range d {
					d[i] = r.Intn(m)
				}
			case 4: // bursts arriving in reverse
				b := r.Range(2, 9)
				for i := range d {
					d[i] = (b - i%b) * 2 * c
				}
			case 5: // one or two stragglers arriving after everything else
				for n := r.Range(1, 2); n > 0; n-- {
					d[r.Intn(in.Count)] = (in.Count + r.Range(1, 5)) * c
				}
			case 6: // everything but the newest blocks held back: old blocks arrive last
				for i := range d {
					if i < in.Count/2 {
						d[i] = (in.Count - i + r.Range(1, 3)) * c
					}
				}
			}
			in.Delays[s] = d
		}
	}
	// a node restarting under the broadcaster's own random delays: it goes away (Unsubscribe) while blocks
	// may be in transit to it, and a new node attaches shortly after (sometimes within the delay window)
	if in.Native && r.Chance(70) {
		wspan := uint64(in.Count) * uint64(in.CadenceMs) * 1000
		in.Attach = make([]int64, in.Subs+1)
		in.Detach = make([]int64, in.Subs+1)
		t := 1 + int64(r.U64()%wspan)
		in.Detach[r.Intn(in.Subs)] = t
		gap := uint64(in.MaxDelayMs*1200 + 1) // sometimes after everything in transit has fired
		if r.Chance(65) {
			gap = uint64(in.MaxDelayMs*150 + 1) // mostly well inside the delay window
		}
		in.Attach[in.Subs] = t + 1 + int64(r.U64()%gap)
		in.Subs++
		em.Hit("native-restart")
	}
	// subscribers leaving and joining while the chain runs
	if in.Attach == nil {
		in.Attach = make([]int64, in.Subs)
		in.Detach = make([]int64, in.Subs)
	}
	if !in.Native {
		wspan := uint64(in.Count+1) * uint64(in.CadenceMs) * 1000
		if in.Subs >= 2 && r.Chance(40) {
			for n := r.Range(1, 2); n > 0; n-- {
				s := r.Intn(in.Subs)
				if r.Chance(70) {
					s = r.Intn(in.Subs - 1) // not the most recent subscriber
				}
				in.Detach[s] = 1 + int64(r.U64()%wspan)
			}
			em.Hit("sub-detach")
		}
		if r.Chance(30) {
			for n := r.Range(1, 2); n > 0; n-- {
				in.Attach[r.Intn(in.Subs)] = 1 + int64(r.U64()%wspan)
			}
			em.Hit("sub-late-join")
		}
	}
	// reports (distinct bytes; at most one empty)
	nrep := r.Range(0, 5)
	empty := false
	for i := 0; i < nrep; i++ {
		n := r.Range(0, 3)
		if n == 0 {
			if empty {
				n = 1
			}
			empty = true
		}
		rep := []JCR{}
		for q := 0; q < n; q++ {
			rep = append(rep, toJCR(genResult(r, genUpkeepID(r, r.Bool()), uint64(r.Range(10, 1000)))))
		}
		in.Reports = append(in.Reports, rep)
	}
	// some reports are bytes no node can decode (the loader accepts anything): they are mined like
	// the others, produce no event, and must not disturb the transmits around them
	in.Raw = make([]string, nrep)
	bad := []int{}
	for i := 0; i < nrep; i++ {
		if r.Chance(22) {
			if r.Bool() {
				in.Raw[i] = fmt.Sprintf("message-%d-%x", i, r.U64())
			} else {
				b := c19ReportBytes([]JCR{toJCR(genResult(r, genUpkeepID(r, r.Bool()), uint64(r.Range(10, 1000))))})
				in.Raw[i] = string(b[:len(b)/2]) // truncated JSON
			}
			in.Reports[i] = []JCR{}
			bad = append(bad, i)
		}
	}
	if len(bad) > 0 {
		em.Hit("undecodable-report")
	}
	if nrep > 0 {
		span := int64(in.Count+1) * int64(in.CadenceMs) * 1000
		ntx := r.Range(0, 8)
		if r.Chance(10) {
			ntx = r.Range(9, 30)
		}
		for i := 0; i < ntx; i++ {
			x := c19Tx{At: 1 + int64(r.U64()%uint64(span)), Rep: r.Intn(nrep), Round: uint64(r.Range(1, 3))}
			for n := r.Range(1, 8); n > 0; n-- {
				x.Nodes = append(x.Nodes, r.Intn(8)) // the same node may call twice
			}
			if i > 0 && r.Chance(25) { // resubmission of an earlier (report, round)
				p := in.Txs[r.Intn(len(in.Txs))]
				x.Rep, x.Round = p.Rep, p.Round
				em.Hit("tx-resubmission")
			}
			in.Txs = append(in.Txs, x)
			em.Hit(fmt.Sprintf("tx-concurrency=%d", len(x.Nodes)))
		}
		if r.Chance(35) {
			// the network moves on round by round (1, 2, 3, …, one or a few nodes submitting each
			// round's report in time) while stragglers re-submit the report of an EARLIER round,
			// 0 … 55 rounds behind the newest one
			nprog := r.Range(18, 70)
			ats := make([]int64, nprog)
			for i := range ats {
				ats[i] = 1 + int64(r.U64()%uint64(span))
			}
			sort.Slice(ats, func(i, j int) bool { return ats[i] < ats[j] })
			base := uint64(r.Range(1, 5))
			prog := make([]c19Tx, nprog)
			for i := range prog {
				x := c19Tx{At: ats[i], Rep: r.Intn(nrep), Round: base + uint64(i)}
				for n := r.Range(1, 3); n > 0; n-- {
					x.Nodes = append(x.Nodes, r.Intn(8))
				}
				prog[i] = x
			}
			in.Txs = append(in.Txs, prog...)
			for n := r.Range(1, 6); n > 0; n-- {
				i := r.Intn(nprog)
				lag := []int{0, 1, 2, 15, 16, 17, 18, 25, 40, 55}[r.Intn(10)]
				if lag > i {
					lag = i
				}
				late := c19Tx{At: prog[i].At + int64(r.Range(1, 900)), Rep: prog[i-lag].Rep, Round: prog[i-lag].Round}
				for k := r.Range(1, 2); k > 0; k-- {
					late.Nodes = append(late.Nodes, r.Intn(8))
				}
				in.Txs = append(in.Txs, late)
				em.Hit(fmt.Sprintf("straggler-lag=%d", bucket(lag)))
			}
			em.Hit("round-progression")
		}
		if in.Count >= 2 && r.Chance(45) {
			// several different transmits mined into ONE block, an undecodable one at any position
			for nb := r.Range(1, 3); nb > 0; nb-- {
				bi := r.Range(1, in.Count-1)
				lo := int64(bi-1) * int64(in.CadenceMs) * 1000
				k := r.Range(2, 4)
				pos := r.Intn(k)
				for j := 0; j < k; j++ {
					x := c19Tx{At: lo + int64(j+1)*int64(in.CadenceMs)*1000/int64(k+2), Rep: r.Intn(nrep), Round: uint64(1000 + 10*bi + j)}
					if j == pos && len(bad) > 0 {
						x.Rep = bad[r.Intn(len(bad))]
					}
					for n := r.Range(1, 3); n > 0; n-- {
						x.Nodes = append(x.Nodes, r.Intn(8))
					}
					in.Txs = append(in.Txs, x)
				}
				em.Hit(fmt.Sprintf("burst-in-one-block=%d", k))
			}
		}
		if !in.Native {
			for n := r.Range(0, 4); n > 0; n-- {
				in.Queries = append(in.Queries, 1+int64(r.U64()%uint64(span*2)))
			}
		}
	}
	// other transactions mined into the same blocks: upkeep creations and log events, preferably where a
	// perform transaction lands as well; block loaders in either order
	if r.Chance(55) {
		c := int64(in.CadenceMs) * 1000
		for n := r.Range(1, 3); n > 0; n-- {
			b := r.Intn(in.Count)
			if len(in.Txs) > 0 && r.Chance(70) {
				if bi := int(in.Txs[r.Intn(len(in.Txs))].At/c) + 1; bi < in.Count {
					b = bi
				}
			}
			in.Upkeeps = append(in.Upkeeps, c19Upkeeps{Block: b, Start: int64(r.Range(0, 50)), Count: r.Range(1, 4), Log: r.Chance(30)})
			if r.Chance(40) {
				in.Logs = append(in.Logs, c19LogEv{Block: b, Value: "log-value"})
			}
		}
		in.SwapLoaders = r.Chance(35)
		em.Hit("upkeep-creations")
	}
	// a node whose plugin side stops reading for a while: the listener's subscribers fall behind,
	// by more than their 100-slot buffers when the chain is long enough
	if !in.Native && r.Chance(60) {
		c := int64(in.CadenceMs) * 1000
		length := []int{100, 101, 102, 130, 210, in.Count}[r.Intn(6)]
		if in.Count <= 100 {
			length = r.Range(1, in.Count)
		}
		if length > in.Count {
			length = in.Count
		}
		first := r.Intn(in.Count - length + 1)
		// blocks first … first+length-1 are broadcast inside (From, To)
		from := int64(first)*c - c/2
		if from < 1 {
			from = 137
		}
		in.Stalls = append(in.Stalls, c19Stall{Sub: r.Intn(in.Subs), From: from, To: int64(first+length)*c - c/2})
		em.Hit(fmt.Sprintf("stall-blocks=%d", bucket(length)))
		if length > 100 {
			em.Hit("stall-blocks>100")
		}
	}
	c19Normalise(&in)
	return in
}

// c19Edge: hand-written cases, run before the generated ones.
func c19Edge() []c19Input {
	r := NewRng(191919)
	rep := func(n int) []JCR {
		out := []JCR{}
		for i := 0; i < n; i++ {
			out = append(out, toJCR(genResult(r, genUpkeepID(r, i%2 == 1), uint64(100+i))))
		}
		return out
	}
	zero := func(s, n int) [][]int {
		d := make([][]int, s)
		for i := range d {
			d[i] = make([]int, n)
		}
		return d
	}
	out := []c19Input{
		// the witness of the defect repaired by "fix: simulator: order block-number keys numerically":
		// blocks 98…101 gave the history [99, 98, 101]
		{Genesis: "98", Count: 4, CadenceMs: 100, Subs: 1, Delays: zero(1, 4)},
		// same range, delivered in reverse
		{Genesis: "98", Count: 4, CadenceMs: 100, Subs: 2, Delays: [][]int{{700, 500, 300, 100}, {0, 0, 0, 0}}},
		// 9 → 10 → 100 in one run, one transmit seen by three nodes at once, queried while blocks are in flight
		{Genesis: "8", Count: 95, CadenceMs: 10, Subs: 3, Delays: zero(3, 95), Reports: [][]JCR{rep(2), rep(1)},
			Txs: []c19Tx{{At: 25137, Rep: 0, Round: 1, Nodes: []int{0, 1, 2}}, {At: 25500, Rep: 0, Round: 1, Nodes: []int{3}},
				{At: 300137, Rep: 1, Round: 2, Nodes: []int{1, 1}}, {At: 300637, Rep: 0, Round: 2, Nodes: []int{2, 0}}},
			Queries: []int64{137, 26137, 31137, 500137}},
		// a single block
		{Genesis: "999999999999999999", Count: 1, CadenceMs: 50, Subs: 8, Delays: zero(8, 1)},
		// more blocks than the history depth, crossing 10^19-ish magnitudes (still below 2^64)
		{Genesis: "9999999999999999900", Count: 258, CadenceMs: 10, Subs: 1, Delays: zero(1, 258)},
		// a transmit after the last block: accepted, never on chain
		{Genesis: "5", Count: 3, CadenceMs: 100, Subs: 1, Delays: zero(1, 3), Reports: [][]JCR{rep(1)},
			Txs: []c19Tx{{At: 250137, Rep: 0, Round: 7, Nodes: []int{4, 5}}}},
		// native reordering by the broadcaster itself
		{Genesis: "95", Count: 12, CadenceMs: 10, Subs: 4, Native: true, MaxDelayMs: 45, Reports: [][]JCR{rep(2)},
			Txs: []c19Tx{{At: 15137, Rep: 0, Round: 1, Nodes: []int{0, 1, 2, 3}}}},
	}
	// more than ReportTrackerBlockRange blocks carrying transmits: the look-back cuts the answer
	lb := c19Input{Genesis: "990", Count: 130, CadenceMs: 10, Subs: 1, Delays: zero(1, 130), Reports: [][]JCR{rep(1)}}
	for i := 0; i < 120; i++ {
		lb.Txs = append(lb.Txs, c19Tx{At: int64(i)*10000 + 5137, Rep: 0, Round: uint64(i + 1), Nodes: []int{i % 8}})
	}
	lb.Queries = []int64{700137}
	out = append(out, lb)
	// an old block held back until every other one has arrived (latest block of the report tracker goes back)
	st := c19Input{Genesis: "97", Count: 8, CadenceMs: 100, Subs: 2, Delays: zero(2, 8), Reports: [][]JCR{rep(1)},
		Txs: []c19Tx{{At: 150137, Rep: 0, Round: 1, Nodes: []int{0}}}}
	st.Delays[0][1] = 2000
	out = append(out, st)
	// subscribers come and go while the chain runs: the first one leaves (the others must keep
	// receiving), one joins after that, one joins and leaves again, one joins after the last block
	out = append(out,
		c19Input{Genesis: "95", Count: 14, CadenceMs: 100, Subs: 3, Delays: zero(3, 14), Detach: []int64{350137, 0, 0}},
		c19Input{Genesis: "95", Count: 14, CadenceMs: 100, Subs: 3, Delays: zero(3, 14), Detach: []int64{250137, 0, 0},
			Attach: []int64{0, 0, 600137}},
		c19Input{Genesis: "995", Count: 20, CadenceMs: 10, Subs: 4, Delays: [][]int{make([]int, 20), {35, 0, 0, 0, 0, 0, 25, 0, 0, 0, 0, 0, 0, 0, 0, 0, 0, 0, 0, 0}, make([]int, 20), make([]int, 20)},
			Attach: []int64{0, 25137, 0, 400137}, Detach: []int64{0, 95137, 155137, 0}, Reports: [][]JCR{rep(1)},
			Txs: []c19Tx{{At: 45137, Rep: 0, Round: 1, Nodes: []int{0, 1}}}, Queries: []int64{70137, 120137}},
	)
	// a consumer that does not read for 150 blocks (its 100-slot subscription overflows) and, on a
	// long chain, for 230 blocks (the history tracker itself is held up and falls behind its own subscription)
	out = append(out,
		c19Input{Genesis: "900", Count: 160, CadenceMs: 10, Subs: 2, Delays: zero(2, 160), Stalls: []c19Stall{{Sub: 0, From: 20137, To: 1520137}}},
		c19Input{Genesis: "9990", Count: 260, CadenceMs: 10, Subs: 1, Delays: zero(1, 260), Stalls: []c19Stall{{Sub: 0, From: 100137, To: 2400137}}},
	)
	// 40 rounds, one report per round and block; node 7 re-submits old rounds 0, 16, 17 and 39 rounds late
	lateIn := c19Input{Genesis: "60", Count: 45, CadenceMs: 10, Subs: 1, Delays: zero(1, 45), Reports: [][]JCR{rep(1), rep(2)}}
	for i := 0; i < 40; i++ {
		lateIn.Txs = append(lateIn.Txs, c19Tx{At: int64(i)*10000 + 5137, Rep: i % 2, Round: uint64(i + 1), Nodes: []int{i % 4, (i + 1) % 4}})
	}
	lateIn.Txs = append(lateIn.Txs,
		c19Tx{At: 395237, Rep: 1, Round: 40, Nodes: []int{7}}, c19Tx{At: 395337, Rep: 1, Round: 24, Nodes: []int{7}},
		c19Tx{At: 395437, Rep: 0, Round: 23, Nodes: []int{7}}, c19Tx{At: 395537, Rep: 0, Round: 1, Nodes: []int{7, 6}})
	out = append(out, lateIn)
	// an undecodable report first / in the middle / last among three transmits of one block, read by
	// three nodes at different times (the block value is shared by all of them)
	for pos := 0; pos < 3; pos++ {
		e := c19Input{Genesis: "7", Count: 6, CadenceMs: 100, Subs: 3, Delays: [][]int{make([]int, 6), {40, 40, 40, 40, 40, 40}, {250, 250, 250, 250, 250, 250}},
			Reports: [][]JCR{rep(1), rep(2), {}}, Raw: []string{"", "", "message1"}, Queries: []int64{260137, 480137}}
		order := [][]int{{2, 0, 1}, {0, 2, 1}, {0, 1, 2}}[pos]
		for j, rp := range order {
			e.Txs = append(e.Txs, c19Tx{At: int64(110137 + 20000*j), Rep: rp, Round: uint64(5 + j), Nodes: []int{j, j + 1}})
		}
		out = append(out, e)
	}
	// a block that carries a perform transaction AND upkeep creations AND a log, block loaders in either order
	for _, swap := range []bool{false, true} {
		out = append(out, c19Input{Genesis: "98", Count: 6, CadenceMs: 100, Subs: 2, Delays: [][]int{make([]int, 6), {30, 30, 30, 30, 30, 30}},
			Reports: [][]JCR{rep(2)}, Txs: []c19Tx{{At: 150137, Rep: 0, Round: 1, Nodes: []int{0, 1}}},
			Upkeeps: []c19Upkeeps{{Block: 2, Start: 10, Count: 2}, {Block: 4, Start: 20, Count: 1, Log: true}},
			Logs:    []c19LogEv{{Block: 2, Value: "log-value"}}, SwapLoaders: swap, Queries: []int64{350137}})
	}
	// a node restarts under the broadcaster's own delays (up to 45 ms at a 10 ms cadence): node 0 goes away at
	// 60.137 ms with blocks in transit, a new node attaches 5 ms later
	out = append(out, c19Input{Genesis: "95", Count: 20, CadenceMs: 10, Subs: 3, Native: true, MaxDelayMs: 45,
		Detach: []int64{60137, 0, 0}, Attach: []int64{0, 0, 60637}})
	for i := range out {
		c19Normalise(&out[i])
	}
	return out
}

func TestC19(t *testing.T) {
	em := NewEmitter(t, "C19")
	defer em.Close()
	names, raws, replayOnly := corpusInputs(t, "C19")
	for i, raw := range raws {
		var in c19Input
		if err := json.Unmarshal(raw, &in); err != nil {
			t.Fatalf("%s: %v", names[i], err)
		}
		c19Bubble(t, em, names[i], in)
	}
	if replayOnly {
		return
	}
	for _, in := range c19Edge() {
		c19Bubble(t, em, "edge", in)
	}
	r := NewRng(seed())
	n := tierN(300, 3000)
	for i := 0; i < n; i++ {
		c19Bubble(t, em, "gen", c19Gen(r, em))
	}
	rs := NewRng(seed() + 7777)
	for i := tierN(12, 200); i > 0; i-- {
		c19Bubble(t, em, "stress", c19StressGen(rs, em))
	}
}
