package harness

import (
	"context"
	"runtime"
	"strings"
	"sync"

	"github.com/smartcontractkit/chainlink-automation/pkg/util"
)

// C14 — exact trace validation.  Needs the `verif` instrumentation hooks in /repo
// (pkg/util/verif_on.go: util.SetVerifHook; one verifPoint call after every access to a shared
// object in worker.go).  This file only records; the check — the log must be, up to an admissible
// reordering, a path of the model's `step` relation — is done by the driver (Spec/C14.lean
// `traceOk`, Drv/C14.lean `checkTrace`).
//
// The hook appends to ONE log under a mutex.  Guarantees of the log order: (1) events of one
// goroutine are in program order; (2) if hook call A returned before hook call B started, A is
// logged before B; (3) the action an event reports happened after the previous event of the same
// goroutine was logged and before the event itself was logged.  Two actions of different
// goroutines with overlapping intervals may be logged in either order; the checker therefore looks
// for a reordering that respects (1)-(3), it does not take the log order literally.
//
// Identities: the random group id of a RunJobs call is mapped to the caller index (the ctx the
// harness passes carries it; point "rj.start"); a worker execution (the goroutine doJob starts)
// is the goroutine id of the wk.*/sr.* events, tied to the dj.new/dj.reuse event by the worker name.

type c14Tracer struct {
	mu         sync.Mutex
	ev         []c14Ev
	group      map[int]int    // random group id -> caller index
	execOfName map[string]int // worker name -> its latest execution (set at dj.new / dj.reuse)
	execOfGo   map[uint64]int // worker goroutine -> execution
	nextExec   int
}

const c14Unknown = 999999

func c14Goid() uint64 {
	var buf [64]byte
	n := runtime.Stack(buf[:], false)
	// "goroutine 123 ["
	var id uint64
	for _, ch := range buf[len("goroutine "):n] {
		if ch < '0' || ch > '9' {
			break
		}
		id = id*10 + uint64(ch-'0')
	}
	return id
}

// c14WorkerNo: "worker-7" -> 7 (0: the result was not produced by a worker)
func c14WorkerNo(a any) int {
	name, _ := a.(string)
	n := 0
	for _, ch := range strings.TrimPrefix(name, "worker-") {
		if ch < '0' || ch > '9' {
			return 0
		}
		n = n*10 + int(ch-'0')
	}
	return n
}

func (tr *c14Tracer) grp(a any) int {
	if g, ok := a.(int); ok {
		if i, ok := tr.group[g]; ok {
			return i
		}
	}
	return c14Unknown
}

func (tr *c14Tracer) hook(point string, args ...any) {
	var goid uint64
	worker := strings.HasPrefix(point, "wk.") || strings.HasPrefix(point, "sr.")
	if worker {
		goid = c14Goid()
	}
	tr.mu.Lock()
	defer tr.mu.Unlock()
	e := c14Ev{P: point}
	switch {
	case point == "rj.start":
		idx := c14Unknown
		if ctx, ok := args[2].(context.Context); ok {
			if i, ok := ctx.Value(c14CallerKey{}).(int); ok {
				idx = i
			}
		}
		tr.group[args[0].(int)] = idx
		e.A, e.B = idx, args[1].(int)
	case point == "res.take":
		e.A, e.B = tr.grp(args[0]), args[1].(int)
	case point == "dj.new" || point == "dj.reuse":
		x := tr.nextExec
		tr.nextExec++
		tr.execOfName[args[0].(string)] = x
		e.A, e.B, e.C = x, tr.grp(args[1]), c14WorkerNo(args[0])
	case worker:
		x, ok := tr.execOfGo[goid]
		if !ok {
			// first event of this worker goroutine: it was started by the latest doJob of its worker
			x, ok = tr.execOfName[args[0].(string)]
			if !ok {
				x = c14Unknown
			}
			tr.execOfGo[goid] = x
		}
		e.A = x
		if len(args) > 1 {
			e.B = tr.grp(args[1])
		}
	case point == "rd.done":
		e.A, e.B = tr.grp(args[0]), c14WorkerNo(args[1])
	case len(args) > 0:
		e.A = tr.grp(args[0])
	}
	tr.ev = append(tr.ev, e)
}

func init() {
	c14TraceBegin = func(in c14Input) (func(string, int), func() []c14Ev) {
		tr := &c14Tracer{group: map[int]int{}, execOfName: map[string]int{}, execOfGo: map[uint64]int{}}
		util.SetVerifHook(tr.hook)
		env := func(point string, a int) {
			tr.mu.Lock()
			tr.ev = append(tr.ev, c14Ev{P: point, A: a})
			tr.mu.Unlock()
		}
		end := func() []c14Ev {
			util.SetVerifHook(nil)
			tr.mu.Lock()
			defer tr.mu.Unlock()
			return tr.ev
		}
		return env, end
	}
}
