package harness

import (
	"context"
	"fmt"
	"io"
	"log"
	"runtime"
	"strconv"
	"strings"
	"sync"
	"sync/atomic"
	"testing"
	"testing/synctest"
	"time"

	ocr2keepersv2 "github.com/smartcontractkit/chainlink-automation/pkg/v2"
	runnerv2 "github.com/smartcontractkit/chainlink-automation/pkg/v2/runner"
	runnerv3 "github.com/smartcontractkit/chainlink-automation/pkg/v3/runner"
	ocr2keepers "github.com/smartcontractkit/chainlink-common/pkg/types/automation"
)

// C14 through the runners: the worker-limit clause (and exactly-once delivery, return, no leak) must
// hold for the worker group AS THE RUNNER BUILDS IT.  The runner is constructed with its public
// constructor (v3: runner.NewRunner(logger, runnable, RunnerConfig{Workers, WorkerQueueLength, …});
// v2: runner.NewRunner(logger, registry, encoder, workers, workerQueueLength, …)) with
// Workers != WorkerQueueLength, 1..4 concurrent CheckUpkeeps callers submit more batches than there
// are workers, and the check pipeline (the "job function" of the property: one call per batch of
// WorkerBatchLimit payloads) holds until the harness releases it, so the number of pipeline calls in
// flight saturates at the group's real capacity.  One job of the property = one batch; a batch counts
// as delivered when the result of every payload of it is in CheckUpkeeps' return value exactly once
// (a result returned twice lists the batch twice).
//
// Close()/cancel DURING a call (modes stop, cancel, both; after k yields): pipeline calls in flight
// obey the context they are given (they return only when it ends, or hold, or yield); every caller
// must return.  A batch whose pipeline call failed is delivered to the runner's aggregate function as
// an error result; the runner's API does not expose these, but the runner logs each of them
// ("error received from worker result: <err>"): the harness gives the runner a logger of its own and
// reads the batch identity out of its own error text (`c14fail:<caller>:<batch>`); an error result
// without it (the worker skipped the call because the service context was cancelled) counts as `anon`.

const c14BatchLimit = 10 // runner.WorkerBatchLimit (v3) / workerBatchLimit (v2)

var _ = io.Discard

const c14FailTag = "c14fail:"

// c14LogSink collects the runner's log lines about error results
type c14LogSink struct {
	mu     sync.Mutex
	failed [][2]int // (caller, batch) of identified error results, one entry per log line
	anon   int      // error results without batch identity
}

func (l *c14LogSink) Write(b []byte) (int, error) {
	line := string(b)
	if strings.Contains(line, "error received from worker result") {
		l.mu.Lock()
		if k := strings.Index(line, c14FailTag); k >= 0 {
			var c, bt int
			if n, _ := fmt.Sscanf(line[k+len(c14FailTag):], "%d:%d", &c, &bt); n == 2 {
				l.failed = append(l.failed, [2]int{c, bt})
			} else {
				l.anon++
			}
		} else {
			l.anon++
		}
		l.mu.Unlock()
	}
	return len(b), nil
}

// payload idx of caller c <-> identifier
func c14PayloadID(c, idx int) string { return fmt.Sprintf("c%d-p%d", c, idx) }
func c14ParsePayloadID(s string) (c, idx int, ok bool) {
	if !strings.HasPrefix(s, "c") {
		return
	}
	parts := strings.SplitN(s[1:], "-p", 2)
	if len(parts) != 2 {
		return
	}
	c, e1 := strconv.Atoi(parts[0])
	idx, e2 := strconv.Atoi(parts[1])
	return c, idx, e1 == nil && e2 == nil
}

// number of payloads of a caller with `batches` batches: the last batch is partial
func c14PayloadCount(in c14Input, caller, batches int) int {
	if batches == 0 {
		return 0
	}
	return (batches-1)*c14BatchLimit + 1 + int((in.Salt+uint64(caller)*7)%c14BatchLimit)
}

type c14Pipeline struct {
	in       c14Input
	mu       sync.Mutex
	started  [][]int // per caller: batch indices the pipeline was called for
	conc     atomic.Int64
	maxConc  atomic.Int64
	holdMu   sync.Mutex
	holders  []chan struct{}
	problems []string
}

func (p *c14Pipeline) takeHolders() []chan struct{} {
	p.holdMu.Lock()
	defer p.holdMu.Unlock()
	hs := p.holders
	p.holders = nil
	return hs
}

// run is one call of the check pipeline for a batch of payload ids
func (p *c14Pipeline) run(ctx context.Context, ids []string) error {
	cur := p.conc.Add(1)
	for {
		m := p.maxConc.Load()
		if cur <= m || p.maxConc.CompareAndSwap(m, cur) {
			break
		}
	}
	defer p.conc.Add(-1)
	caller, first := -1, -1
	for i, id := range ids {
		c, idx, ok := c14ParsePayloadID(id)
		if !ok || (i > 0 && (c != caller || idx != first+i)) {
			p.mu.Lock()
			p.problems = append(p.problems, "pipeline called with a mixed or foreign batch: "+strings.Join(ids, ","))
			p.mu.Unlock()
			return nil
		}
		if i == 0 {
			caller, first = c, idx
		}
	}
	if caller < 0 || caller >= len(p.started) {
		return nil
	}
	batch := first / c14BatchLimit
	p.mu.Lock()
	p.started[caller] = append(p.started[caller], batch)
	p.mu.Unlock()
	yields, block, hold := c14Blocking(p.in, caller, batch)
	for y := 0; y < yields; y++ {
		runtime.Gosched()
	}
	fail := func() error { return fmt.Errorf("%s%d:%d (%w)", c14FailTag, caller, batch, ctx.Err()) }
	if block {
		// an RPC without answer: comes back only when the context it was given ends
		<-ctx.Done()
		return fail()
	}
	if hold {
		ch := make(chan struct{})
		p.holdMu.Lock()
		p.holders = append(p.holders, ch)
		p.holdMu.Unlock()
		select {
		case <-ch:
		case <-ctx.Done():
			return fail()
		}
	}
	return nil
}

// v3 Runnable
func (p *c14Pipeline) CheckUpkeeps(ctx context.Context, ps ...ocr2keepers.UpkeepPayload) ([]ocr2keepers.CheckResult, error) {
	ids := make([]string, len(ps))
	for i, x := range ps {
		ids[i] = x.WorkID
	}
	if err := p.run(ctx, ids); err != nil {
		return nil, err
	}
	out := make([]ocr2keepers.CheckResult, len(ps))
	for i, x := range ps {
		out[i] = ocr2keepers.CheckResult{WorkID: x.WorkID, UpkeepID: x.UpkeepID, Trigger: x.Trigger, Eligible: true}
	}
	return out, nil
}

// v2 Registry + Encoder
type c14V2 struct{ p *c14Pipeline }

func (r c14V2) CheckUpkeep(ctx context.Context, _ bool, keys ...ocr2keepersv2.UpkeepKey) ([]ocr2keepersv2.UpkeepResult, error) {
	ids := make([]string, len(keys))
	for i, k := range keys {
		ids[i] = string(k)
	}
	if err := r.p.run(ctx, ids); err != nil {
		return nil, err
	}
	out := make([]ocr2keepersv2.UpkeepResult, len(keys))
	for i, k := range keys {
		out[i] = string(k)
	}
	return out, nil
}
func (c14V2) Eligible(ocr2keepersv2.UpkeepResult) (bool, error) { return true, nil }
func (c14V2) Detail(r ocr2keepersv2.UpkeepResult) (ocr2keepersv2.UpkeepKey, uint32, error) {
	s, _ := r.(string)
	return ocr2keepersv2.UpkeepKey(s), 0, nil
}
func (c14V2) SplitUpkeepKey(k ocr2keepersv2.UpkeepKey) (ocr2keepersv2.BlockKey, ocr2keepersv2.UpkeepIdentifier, error) {
	return ocr2keepersv2.BlockKey(""), ocr2keepersv2.UpkeepIdentifier(k), nil
}

// c14RunRunner executes one case on a runner built by its public constructor.
func c14RunRunner(t *testing.T, in c14Input, verdict func(c14Impl)) (impl c14Impl) {
	n := len(in.Jobs)
	pipe := &c14Pipeline{in: in, started: make([][]int, n)}
	sink := &c14LogSink{}
	logger := log.New(sink, "", 0)
	type callerState struct {
		returned atomic.Bool
		ids      []string // work ids / keys in the return value
		err      string
	}
	cs := make([]*callerState, n)
	for i := range cs {
		cs[i] = &callerState{}
	}
	snapshot := func(phase string) c14Impl {
		out := c14Impl{Phase: phase, MaxConc: int(pipe.maxConc.Load())}
		pipe.mu.Lock()
		defer pipe.mu.Unlock()
		if len(pipe.problems) > 0 {
			out.Panic = pipe.problems[0]
		}
		for i, c := range cs {
			cc := c14Caller{Returned: c.returned.Load(), Delivered: []int{}, Started: append([]int{}, pipe.started[i]...),
				DeliveredAtReturn: -1, Panicked: []int{}, ErrDelivered: []int{}}
			if cc.Returned {
				if c.err != "" && !c14WillRelease(in.Mode) {
					out.Panic = "CheckUpkeeps returned an error: " + c.err
				}
				// payload results -> batches: a batch is delivered when all of its payloads came back
				// once; a payload that came back k times lists its batch k times
				total := c14PayloadCount(in, i, in.Jobs[i])
				seen := make([]int, total)
				for _, id := range c.ids {
					cc2, idx, ok := c14ParsePayloadID(id)
					if !ok || cc2 != i || idx >= total {
						cc.Anon++ // a result that is not one of this caller's payloads
						continue
					}
					seen[idx]++
				}
				for b := 0; b < in.Jobs[i]; b++ {
					lo, hi := b*c14BatchLimit, (b+1)*c14BatchLimit
					if hi > total {
						hi = total
					}
					min, max := 1<<30, 0
					for k := lo; k < hi; k++ {
						if seen[k] < min {
							min = seen[k]
						}
						if seen[k] > max {
							max = seen[k]
						}
					}
					if min >= 1 {
						for k := 0; k < max; k++ {
							cc.Delivered = append(cc.Delivered, b)
						}
					}
				}
				// error results the aggregate function received (one log line each)
				sink.mu.Lock()
				for _, f := range sink.failed {
					if f[0] == i {
						cc.Delivered = append(cc.Delivered, f[1])
					}
				}
				if i == 0 {
					cc.Anon += sink.anon // identity unknown: attributed to the first caller (totals only)
				}
				sink.mu.Unlock()
				cc.DeliveredAtReturn = len(cc.Delivered) + cc.Anon
			}
			out.Callers = append(out.Callers, cc)
			if !cc.Returned {
				out.Stuck = true
			}
		}
		return out
	}
	defer func() {
		if r := recover(); r != nil {
			msg := fmt.Sprint(r)
			if strings.Contains(msg, "deadlock: main bubble goroutine has exited") {
				impl.Deadlocked = true
			} else {
				impl.Panic = msg
			}
		}
	}()
	synctest.Test(t, func(t *testing.T) {
		base := c14BubbleGoroutines()
		var check func(ctx context.Context, caller int) ([]string, error)
		var closeRunner func()
		switch in.Via {
		case "runner-v2":
			r, err := runnerv2.NewRunner(logger, c14V2{pipe}, c14V2{pipe}, in.Workers, in.Queue, 20*time.Minute, 30*time.Second)
			if err != nil {
				impl.Panic = "NewRunner: " + err.Error()
				return
			}
			r.Start()
			closeRunner = func() { r.Close() }
			check = func(ctx context.Context, caller int) ([]string, error) {
				total := c14PayloadCount(in, caller, in.Jobs[caller])
				keys := make([]ocr2keepersv2.UpkeepKey, total)
				for k := range keys {
					keys[k] = ocr2keepersv2.UpkeepKey(c14PayloadID(caller, k))
				}
				mercury := caller < len(in.Mercury) && in.Mercury[caller]
				res, err := r.CheckUpkeep(ctx, mercury, keys...)
				ids := make([]string, 0, len(res))
				for _, x := range res {
					s, _ := x.(string)
					ids = append(ids, s)
				}
				return ids, err
			}
		default:
			r, err := runnerv3.NewRunner(logger, pipe, runnerv3.RunnerConfig{Workers: in.Workers, WorkerQueueLength: in.Queue,
				CacheExpire: 20 * time.Minute, CacheClean: 30 * time.Second})
			if err != nil {
				impl.Panic = "NewRunner: " + err.Error()
				return
			}
			go r.Start(context.Background())
			synctest.Wait() // the running flag is set (Close is a no-op before)
			closeRunner = func() { r.Close() }
			check = func(ctx context.Context, caller int) ([]string, error) {
				total := c14PayloadCount(in, caller, in.Jobs[caller])
				ps := make([]ocr2keepers.UpkeepPayload, total)
				for k := range ps {
					ps[k] = ocr2keepers.UpkeepPayload{WorkID: c14PayloadID(caller, k)}
				}
				res, err := r.CheckUpkeeps(ctx, ps...)
				ids := make([]string, 0, len(res))
				for _, x := range res {
					ids = append(ids, x.WorkID)
				}
				return ids, err
			}
		}
		ctxs := make([]context.Context, n)
		cancels := make([]context.CancelFunc, n)
		for i := range ctxs {
			ctxs[i], cancels[i] = context.WithCancel(context.Background())
		}
		for i := 0; i < n; i++ {
			i := i
			stagger := 0
			if i < len(in.Stagger) {
				stagger = in.Stagger[i]
			}
			go func() {
				for y := 0; y < stagger; y++ {
					runtime.Gosched()
				}
				ids, err := check(ctxs[i], i)
				cs[i].ids = ids
				if err != nil {
					cs[i].err = err.Error()
				}
				cs[i].returned.Store(true)
			}()
		}
		if in.Mode == "stop" || in.Mode == "cancel" || in.Mode == "both" {
			go func() {
				for y := 0; y < in.K; y++ {
					runtime.Gosched()
				}
				if in.Mode == "cancel" || in.Mode == "both" {
					go func() {
						for _, c := range cancels {
							c()
						}
					}()
				}
				if in.Mode == "stop" || in.Mode == "both" {
					closeRunner()
				}
			}()
		}
		for {
			synctest.Wait()
			hs := pipe.takeHolders()
			if len(hs) == 0 {
				break
			}
			for _, h := range hs {
				close(h)
			}
		}
		impl = snapshot("verdict")
		if impl.Stuck && verdict != nil {
			verdict(impl)
		}
		switch in.Mode {
		case "cancel-after":
			for _, c := range cancels {
				c()
			}
		case "stop-after":
			closeRunner()
		}
		synctest.Wait()
		for _, c := range cancels {
			c()
		}
		closeRunner()
		synctest.Wait()
		v := impl
		impl = snapshot("final")
		impl.Stuck = v.Stuck
		for i := range impl.Callers {
			impl.Callers[i].Returned = v.Callers[i].Returned
		}
		impl.Leaked = c14BubbleGoroutines() - base
	})
	return impl
}
