package harness

import (
	"bufio"
	"bytes"
	"encoding/json"
	"fmt"
	"math/big"
	"os"
	"os/exec"
	"path/filepath"
	"strings"
	"testing"
	"time"

	ocr2keepersv3 "github.com/smartcontractkit/chainlink-automation/pkg/v3"
	ocr2keepers "github.com/smartcontractkit/chainlink-common/pkg/types/automation"
)

// C15 — Observation/outcome wire format: faithful round-trip, strict checks, no crash.
//
// Four streams (input.mode):
//   valid      a valid value is encoded by the real Encode and decoded by the real
//              Decode…; the driver runs the model's decoder on the same bytes.
//   violate    a valid value with exactly one documented rule broken.
//   lenient    tree-level mutations of an encoded value inside the leniencies the
//              model mirrors (missing/null fields, key order, unknown keys, short /
//              long byte arrays, out-of-range numbers, type confusion, base64 forms).
//   malformed  arbitrary / mutated bytes; only "no panic" and "accepted ⇒ all
//              rules" are judged.
//   gcstress   the crash witness of the goccy array zero-fill (see c15GCStress).
//
// Everything that is not the output of an encoder is decoded in a CHILD process
// (re-exec of the test binary): a fatal crash of the decoder is a verdict, it
// must not take the harness down.

type c15Input struct {
	Kind    string    `json:"kind"` // "obs" | "outcome"
	Mode    string    `json:"mode"` // "valid" | "violate" | "lenient" | "malformed" | "gcstress" | "encstress" | "decstress"
	Obs     *JObs     `json:"obs,omitempty"`
	Outcome *JOutcome `json:"outcome,omitempty"`
	// Nil: Go renders nil and empty slices differently (null vs []); bit 0 empty
	// performables nil, 1 proposals / rounds nil, 2 history nil, 3 empty
	// PerformData nil, 4 empty round nil.
	Nil  int    `json:"nil"`
	Rule string `json:"rule,omitempty"` // violate: the rule that was broken
	Raw  []byte `json:"raw,omitempty"`  // lenient / malformed: the bytes to decode
	Note string `json:"note,omitempty"`
	// Pad > 0: the message is decoded a further time with insignificant JSON white
	// space added until it is Pad bytes long (the sender chooses the size of a
	// message); PadAt 0 trailing blanks, 1 leading, 2 after the first byte, 3 trailing newlines and tabs
	Pad   int `json:"pad,omitempty"`
	PadAt int `json:"padAt,omitempty"`
}

type c15UT struct {
	UID string `json:"uid"`
	T   uint8  `json:"t"`
}
type c15WG struct {
	UID  string `json:"uid"`
	Trig JTrig  `json:"trig"`
	WID  string `json:"wid"`
}

type c15Impl struct {
	Text    string    `json:"text,omitempty"` // bytes handed to Decode (valid/violate/lenient: JSON text)
	Panic   string    `json:"panic"`          // "" | recovered panic value | "fatal: …" | "timeout"
	Err     string    `json:"err"`            // "ok" | "malformed" | rule name
	ErrText string    `json:"errText,omitempty"`
	Obs     *JObs     `json:"obs,omitempty"`
	Outcome *JOutcome `json:"outcome,omitempty"`
	Codec   string    `json:"codec"` // JSON package behind Decode…, probed: "goccy" | "std"
	// Again: the same bytes decoded a second time after everything reachable from the first result was overwritten;
	// Alt: … under the second (utg, wg) pair (c15UtgAlt, c15WgAlt); Back: … under the first pair once more
	Again *c15Answer      `json:"again,omitempty"`
	Alt   *c15Answer      `json:"alt,omitempty"`
	Back  *c15Answer      `json:"back,omitempty"`
	Ws    string          `json:"ws"`            // white-space check: how the answer for the padded bytes differs from the answer for the bytes themselves
	Alias string          `json:"alias"`         // retained-bytes / retained-value check: what changed after a later Encode or after the input buffer was reused
	Oob   string          `json:"oob"`           // the explicit-zeros probe (c15ZeroFillProbe) saw a write outside a short [32]byte array
	UnmOk bool            `json:"unmOk"`         // lenient: bare goccy Unmarshal succeeded
	Unm   json.RawMessage `json:"unm,omitempty"` // lenient: that value, canonical
	Utg   []c15UT         `json:"utg"`
	Wg    []c15WG         `json:"wg"`
}

// ---------------------------------------------------------------- error classes

var c15ErrClass = map[string]string{
	fmt.Sprintf("block history length cannot be greater than %d", ocr2keepersv3.ObservationBlockHistoryLimit): "blockHistoryOverLimit",
	"block history cannot have duplicate block numbers":                                                       "dupBlockNumber",
	fmt.Sprintf("performable length cannot be greater than %d", ocr2keepersv3.ObservationPerformablesLimit):   "performablesOverLimit",
	"check result cannot have failed execution state":                                                         "failedState",
	"check result cannot be ineligible":                                                                       "ineligible",
	"invalid trigger: log trigger extension cannot be present for condition upkeep":                           "typeMismatchResult",
	"invalid trigger: log trigger extension cannot be empty for log upkeep":                                   "typeMismatchResult",
	"incorrect workID within result":                                                                          "wrongWorkIDResult",
	"gas allocated cannot be zero":                                                                            "zeroGas",
	"fast gas wei must be present":                                                                            "fastGasMissing",
	"fast gas wei must be in uint256 range":                                                                   "fastGasRange",
	"link native must be present":                                                                             "linkNativeMissing",
	"link native must be in uint256 range":                                                                    "linkNativeRange",
	"performable cannot have duplicate workIDs":                                                               "dupPerformableWorkID",
	fmt.Sprintf("upkeep proposals length cannot be greater than %d", ocr2keepersv3.ObservationConditionalsProposalsLimit+ocr2keepersv3.ObservationLogRecoveryProposalsLimit): "proposalsOverLimit",
	"log trigger extension cannot be present for condition upkeep": "typeMismatchProposal",
	"log trigger extension cannot be empty for log upkeep":         "typeMismatchProposal",
	"incorrect workID within proposal":                             "wrongWorkIDProposal",
	"proposals cannot have duplicate workIDs":                      "dupProposalWorkID",
	fmt.Sprintf("conditional upkeep proposals length cannot be greater than %d", ocr2keepersv3.ObservationConditionalsProposalsLimit):         "conditionalProposalsOverLimit",
	fmt.Sprintf("log upkeep proposals length cannot be greater than %d", ocr2keepersv3.ObservationLogRecoveryProposalsLimit):                  "logProposalsOverLimit",
	fmt.Sprintf("outcome performable length cannot be greater than %d", ocr2keepersv3.OutcomeAgreedPerformablesLimit):                         "agreedOverLimit",
	"agreed performable cannot have duplicate workIDs":                                                                                        "dupAgreedWorkID",
	fmt.Sprintf("number of rounds for surfaced proposals cannot be greater than %d", ocr2keepersv3.OutcomeSurfacedProposalsRoundHistoryLimit): "roundsOverLimit",
	fmt.Sprintf("number of surfaced proposals in a round cannot be greater than %d", ocr2keepersv3.OutcomeSurfacedProposalsLimit):             "roundProposalsOverLimit",
}

// c15Classify maps an error of Decode… to the small enum shared with the model:
// the exact text of a validation error -> its rule, anything else -> "malformed".
func c15Classify(err error) string {
	if err == nil {
		return "ok"
	}
	if c, ok := c15ErrClass[err.Error()]; ok {
		return c
	}
	return "malformed"
}

// ---------------------------------------------------------------- Go value <-> canonical

func c15ObsFromJ(j *JObs, nilMask int) ocr2keepersv3.AutomationObservation {
	o := ocr2keepersv3.AutomationObservation{
		Performable:     c15Results(j.Perf, nilMask),
		UpkeepProposals: fromJProps(j.Props),
		BlockHistory:    fromJBKs(j.Hist),
	}
	if len(j.Perf) == 0 && nilMask&1 != 0 {
		o.Performable = nil
	}
	if len(j.Props) == 0 && nilMask&2 != 0 {
		o.UpkeepProposals = nil
	}
	if len(j.Hist) == 0 && nilMask&4 != 0 {
		o.BlockHistory = nil
	}
	return o
}

func c15Results(js []JCR, nilMask int) []ocr2keepers.CheckResult {
	rs := fromJCRs(js)
	for i := range rs {
		if len(rs[i].PerformData) == 0 {
			if nilMask&8 != 0 {
				rs[i].PerformData = nil
			} else {
				rs[i].PerformData = []byte{}
			}
		}
	}
	return rs
}

func c15OutcomeFromJ(j *JOutcome, nilMask int) ocr2keepersv3.AutomationOutcome {
	o := ocr2keepersv3.AutomationOutcome{AgreedPerformables: c15Results(j.Agreed, nilMask)}
	if len(j.Agreed) == 0 && nilMask&1 != 0 {
		o.AgreedPerformables = nil
	}
	if !(len(j.Surfaced) == 0 && nilMask&2 != 0) {
		o.SurfacedProposals = make([][]ocr2keepers.CoordinatedBlockProposal, 0, len(j.Surfaced))
	}
	for _, round := range j.Surfaced {
		ps := fromJProps(round)
		if len(ps) == 0 && nilMask&16 != 0 {
			ps = nil
		}
		o.SurfacedProposals = append(o.SurfacedProposals, ps)
	}
	return o
}

func c15ObsToJ(o ocr2keepersv3.AutomationObservation) *JObs {
	return &JObs{Perf: toJCRs(o.Performable), Props: toJProps(o.UpkeepProposals), Hist: toJBKs(o.BlockHistory)}
}
func c15OutcomeToJ(o ocr2keepersv3.AutomationOutcome) *JOutcome {
	j := &JOutcome{Agreed: toJCRs(o.AgreedPerformables), Surfaced: make([][]JProp, 0, len(o.SurfacedProposals))}
	for _, r := range o.SurfacedProposals {
		j.Surfaced = append(j.Surfaced, toJProps(r))
	}
	return j
}

// c15Env tabulates the real utg / wg on every (upkeep id, trigger) of a value.
type c15Env struct {
	ut   []c15UT
	wg   []c15WG
	seen map[string]bool
}

func (e *c15Env) add(uid ocr2keepers.UpkeepIdentifier, trig ocr2keepers.Trigger) {
	if e.seen == nil {
		e.seen = map[string]bool{}
	}
	u := hx(uid[:])
	if !e.seen[u] {
		e.seen[u] = true
		e.ut = append(e.ut, c15UT{UID: u, T: uint8(utg(uid))})
	}
	jt := toJTrig(trig)
	b, _ := json.Marshal(jt)
	k := u + string(b)
	if !e.seen[k] {
		e.seen[k] = true
		e.wg = append(e.wg, c15WG{UID: u, Trig: jt, WID: wg(uid, trig)})
	}
}
func (e *c15Env) addObs(o ocr2keepersv3.AutomationObservation) {
	for _, r := range o.Performable {
		e.add(r.UpkeepID, r.Trigger)
	}
	for _, p := range o.UpkeepProposals {
		e.add(p.UpkeepID, p.Trigger)
	}
}
func (e *c15Env) addOutcome(o ocr2keepersv3.AutomationOutcome) {
	for _, r := range o.AgreedPerformables {
		e.add(r.UpkeepID, r.Trigger)
	}
	for _, round := range o.SurfacedProposals {
		for _, p := range round {
			e.add(p.UpkeepID, p.Trigger)
		}
	}
}
func (e *c15Env) into(impl *c15Impl) {
	impl.Utg, impl.Wg = e.ut, e.wg
	if impl.Utg == nil {
		impl.Utg = []c15UT{}
	}
	if impl.Wg == nil {
		impl.Wg = []c15WG{}
	}
}

// ---------------------------------------------------------------- running the real decoder

// c15Decode calls the real decoder with a recover; an ordinary panic becomes impl.Panic.
func c15Decode(kind string, data []byte, impl *c15Impl, env *c15Env) {
	defer func() {
		if r := recover(); r != nil {
			s := fmt.Sprint(r)
			if len(s) > 300 {
				s = s[:300]
			}
			impl.Panic = "recovered: " + s
			impl.Err = "panic"
		}
	}()
	if kind == "obs" {
		o, err := ocr2keepersv3.DecodeAutomationObservation(data, utg, wg)
		impl.Err = c15Classify(err)
		if err != nil {
			impl.ErrText = c15Short(err.Error())
			return
		}
		impl.Obs = c15ObsToJ(o)
		if env != nil {
			env.addObs(o)
		}
		return
	}
	o, err := ocr2keepersv3.DecodeAutomationOutcome(data, utg, wg)
	impl.Err = c15Classify(err)
	if err != nil {
		impl.ErrText = c15Short(err.Error())
		return
	}
	impl.Outcome = c15OutcomeToJ(o)
	if env != nil {
		env.addOutcome(o)
	}
}

func c15Short(s string) string {
	if len(s) > 160 {
		return s[:160]
	}
	return strings.ToValidUTF8(s, "?")
}

// c15RunLocal executes one case in the calling process.
func c15RunLocal(in c15Input) c15Impl {
	var impl c15Impl
	env := &c15Env{}
	switch in.Mode {
	case "valid", "violate":
		// The first encoding is KEPT while a second value of the same encoded
		// length (c15Twin…) is encoded; only then is the kept slice compared with
		// the snapshot taken right after the first call and handed to Decode.  A
		// message must stay what it was for as long as the caller holds it.
		var data, snap []byte
		var err error
		if in.Kind == "obs" {
			o := c15ObsFromJ(in.Obs, in.Nil)
			env.addObs(o)
			if data, err = o.Encode(); err == nil {
				snap = append([]byte(nil), data...)
				c15TwinObs(o).Encode()
			}
		} else {
			o := c15OutcomeFromJ(in.Outcome, in.Nil)
			env.addOutcome(o)
			if data, err = o.Encode(); err == nil {
				snap = append([]byte(nil), data...)
				c15TwinOutcome(o).Encode()
			}
		}
		if err != nil {
			impl.Err, impl.ErrText = "malformed", "encode: "+err.Error()
			env.into(&impl)
			impl.Codec = c15Codec()
			return impl
		}
		impl.Text = string(snap)
		if !bytes.Equal(data, snap) {
			impl.Alias = "encode: " + c15FirstDiff(snap, data)
		}
		c15DecodeRetained(in.Kind, data, &impl)
		c15Repeat(in.Kind, snap, &impl)
		c15PadCheck(in, snap, &impl)
	case "lenient":
		impl.Text = string(in.Raw)
		// the first step of Decode…, repeated here to see the value before validation
		func() {
			defer func() { recover() }()
			if in.Kind == "obs" {
				var o ocr2keepersv3.AutomationObservation
				if err := c15Unmarshal(in.Raw, &o); err == nil {
					impl.UnmOk, impl.Unm = true, must(json.Marshal(c15ObsToJ(o)))
					env.addObs(o)
				}
			} else {
				var o ocr2keepersv3.AutomationOutcome
				if err := c15Unmarshal(in.Raw, &o); err == nil {
					impl.UnmOk, impl.Unm = true, must(json.Marshal(c15OutcomeToJ(o)))
					env.addOutcome(o)
				}
			}
		}()
		c15Decode(in.Kind, in.Raw, &impl, nil)
		c15Repeat(in.Kind, in.Raw, &impl)
		c15PadCheck(in, in.Raw, &impl)
		impl.Oob = c15ZeroFillProbe(in.Kind, in.Raw)
	case "gcstress":
		c15GCStress(in.Kind, &impl)
	case "encstress":
		c15EncodeStress(in.Kind, &impl)
	case "decstress":
		c15DecodeStress(in.Kind, &impl)
	default:
		c15Decode(in.Kind, in.Raw, &impl, env)
		c15Repeat(in.Kind, in.Raw, &impl)
		impl.Again, impl.Alt, impl.Back = nil, nil, nil // arbitrary bytes: no tree for the model, the Go-side comparison (impl.Alias) stands
		c15PadCheck(in, in.Raw, &impl)
		impl.Oob = c15ZeroFillProbe(in.Kind, in.Raw)
	}
	env.into(&impl)
	impl.Codec = c15Codec()
	return impl
}

// ---------------------------------------------------------------- child process for the malformed stream

type c15ChildLine struct {
	I     int      `json:"i"`
	Begin bool     `json:"begin,omitempty"`
	Impl  *c15Impl `json:"impl,omitempty"`
}

// TestC15Child is the body of the child process: it decodes the inputs of the
// file named by VERIF_C15_CHILD_IN from index VERIF_C15_CHILD_START on and
// writes a begin marker before and the result after every case.
func TestC15Child(t *testing.T) {
	inPath := os.Getenv("VERIF_C15_CHILD_IN")
	if inPath == "" {
		t.Skip("child entry point of TestC15")
	}
	start := envInt("VERIF_C15_CHILD_START", 0)
	f, err := os.Open(inPath)
	if err != nil {
		t.Fatal(err)
	}
	defer f.Close()
	out, err := os.OpenFile(os.Getenv("VERIF_C15_CHILD_OUT"), os.O_APPEND|os.O_WRONLY|os.O_CREATE, 0o644)
	if err != nil {
		t.Fatal(err)
	}
	defer out.Close()
	sc := bufio.NewScanner(f)
	sc.Buffer(make([]byte, 1<<20), 1<<28)
	for i := 0; sc.Scan(); i++ {
		if i < start {
			continue
		}
		var in c15Input
		if err := json.Unmarshal(sc.Bytes(), &in); err != nil {
			t.Fatalf("child input %d: %v", i, err)
		}
		b, _ := json.Marshal(c15ChildLine{I: i, Begin: true})
		out.Write(append(b, '\n'))
		impl := c15RunLocal(in)
		b, _ = json.Marshal(c15ChildLine{I: i, Impl: &impl})
		out.Write(append(b, '\n'))
	}
}

// c15RunChild decodes every input in a child process (re-exec of this test
// binary).  If the child dies or hangs, the case it was working on gets
// Panic = "fatal: …" / "timeout" and a new child continues after it.
func c15RunChild(t *testing.T, ins []c15Input) []c15Impl {
	res := make([]c15Impl, len(ins))
	done := make([]bool, len(ins))
	if len(ins) == 0 {
		return res
	}
	dir, err := os.MkdirTemp("", "verif-c15-")
	if err != nil {
		t.Fatal(err)
	}
	defer os.RemoveAll(dir)
	inPath, outPath := filepath.Join(dir, "in.jsonl"), filepath.Join(dir, "out.jsonl")
	f, err := os.Create(inPath)
	if err != nil {
		t.Fatal(err)
	}
	w := bufio.NewWriter(f)
	for _, in := range ins {
		b, _ := json.Marshal(in)
		w.Write(b)
		w.WriteByte('\n')
	}
	w.Flush()
	f.Close()
	start := 0
	for attempts := 0; start < len(ins); attempts++ {
		if attempts > 200 {
			t.Fatalf("C15 child keeps dying (%d restarts)", attempts)
		}
		os.Remove(outPath)
		cmd := exec.Command(os.Args[0], "-test.run", "^TestC15Child$", "-test.timeout", "20m")
		coverChild(cmd)
		cmd.Env = append(os.Environ(), "VERIF_C15_CHILD_IN="+inPath, "VERIF_C15_CHILD_OUT="+outPath,
			fmt.Sprintf("VERIF_C15_CHILD_START=%d", start), "VERIF_OUT="+filepath.Join(dir, "unused.jsonl"), "VERIF_DIST=")
		var tail strings.Builder
		cmd.Stdout, cmd.Stderr = &c15Tail{b: &tail}, &c15Tail{b: &tail}
		if err := cmd.Start(); err != nil {
			t.Fatalf("start child: %v", err)
		}
		waitCh := make(chan error, 1)
		go func() { waitCh <- cmd.Wait() }()
		timedOut := false
		var werr error
		select {
		case werr = <-waitCh:
		case <-time.After(10 * time.Minute): // wall-clock guard against a decoder that never returns
			cmd.Process.Kill()
			werr = <-waitCh
			timedOut = true
		}
		last := -1
		if of, err := os.Open(outPath); err == nil {
			sc := bufio.NewScanner(of)
			sc.Buffer(make([]byte, 1<<20), 1<<28)
			for sc.Scan() {
				var l c15ChildLine
				if json.Unmarshal(sc.Bytes(), &l) != nil {
					continue // torn last line of a killed child
				}
				if l.Begin {
					last = l.I
				} else if l.Impl != nil && l.I >= 0 && l.I < len(ins) {
					res[l.I], done[l.I] = *l.Impl, true
				}
			}
			of.Close()
		}
		if werr == nil && !timedOut {
			break
		}
		if last < start {
			t.Fatalf("C15 child failed before its first case: %v\n%s", werr, tail.String())
		}
		if !done[last] {
			msg := "fatal: " + c15Short(strings.TrimSpace(tail.String()))
			if timedOut {
				msg = "timeout"
			}
			res[last] = c15Impl{Panic: msg, Err: "panic", Utg: []c15UT{}, Wg: []c15WG{}, Codec: c15Codec()}
			done[last] = true
		}
		start = last + 1
	}
	for i := range done {
		if !done[i] {
			t.Fatalf("C15 child produced no result for case %d", i)
		}
	}
	return res
}

// c15Tail keeps the first 2 KiB written (the head of a Go crash report names the cause).
type c15Tail struct{ b *strings.Builder }

func (c *c15Tail) Write(p []byte) (int, error) {
	if c.b.Len() < 2048 {
		n := 2048 - c.b.Len()
		if n > len(p) {
			n = len(p)
		}
		c.b.Write(p[:n])
	}
	return len(p), nil
}

// c15RunAll executes a batch in order: lenient and malformed cases in a child, the rest in process.
func c15RunAll(t *testing.T, ins []c15Input) []c15Impl {
	out := make([]c15Impl, len(ins))
	var mal []c15Input
	var malIdx []int
	for i, in := range ins {
		if in.Mode != "valid" && in.Mode != "violate" { // bytes no encoder produced: never decoded in this process
			mal = append(mal, in)
			malIdx = append(malIdx, i)
		} else {
			out[i] = c15RunLocal(in)
		}
	}
	for k, impl := range c15RunChild(t, mal) {
		out[malIdx[k]] = impl
	}
	return out
}

// ---------------------------------------------------------------- entry point

// c15Batch runs and emits the cases in generation order, a few thousand at a time
// (memory stays flat in the thorough tier; one child process per batch).
type c15Batch struct {
	t    *testing.T
	em   *Emitter
	ins  []c15Input
	srcs []string
}

func (b *c15Batch) add(src string, in c15Input) {
	b.ins, b.srcs = append(b.ins, in), append(b.srcs, src)
	if len(b.ins) >= 4000 {
		b.flush()
	}
}

func (b *c15Batch) flush() {
	impls := c15RunAll(b.t, b.ins)
	for i := range b.ins {
		if impls[i].Oob != "" {
			b.em.Hit("oob-zero-fill")
		}
		if impls[i].Panic != "" {
			b.em.Hit("crash")
		}
		if impls[i].Alias != "" {
			b.em.Hit("alias")
		}
		if impls[i].Ws != "" {
			b.em.Hit("ws-dependent")
		}
		if b.ins[i].Pad > 0 {
			b.em.Hit(fmt.Sprintf("padded:%s:%d", b.ins[i].Mode, b.ins[i].Pad))
		}
		if b.ins[i].Mode == "malformed" {
			switch {
			case impls[i].Panic != "":
				b.em.Hit("arbitrary:panic")
			case impls[i].Err == "ok":
				b.em.Hit("arbitrary:accepted")
			case impls[i].Err == "malformed":
				b.em.Hit("arbitrary:rejected-malformed")
			default:
				b.em.Hit("arbitrary:rejected-rule")
			}
		}
		b.em.Emit(b.srcs[i], b.ins[i], impls[i])
	}
	b.ins, b.srcs = b.ins[:0], b.srcs[:0]
}

func TestC15(t *testing.T) {
	if os.Getenv("VERIF_C15_CHILD_IN") != "" {
		t.Skip("child process")
	}
	em := NewEmitter(t, "C15")
	defer em.Close()
	b := &c15Batch{t: t, em: em}
	defer b.flush()
	names, raws, replayOnly := corpusInputs(t, "C15")
	for i, raw := range raws {
		var in c15Input
		if err := json.Unmarshal(raw, &in); err != nil {
			t.Fatalf("%s: %v", names[i], err)
		}
		b.add(names[i], in)
	}
	if replayOnly {
		return
	}
	for _, in := range c15Edge() {
		b.add("edge", in)
	}
	for _, in := range c15DomainEdge() {
		b.add("edge", in)
	}
	r := NewRng(seed())
	for i, n := 0, tierN(700, 7000); i < n; i++ {
		in := c15GenValid(r, em)
		c15MaybePad(r, &in, 3)
		b.add("gen", in)
	}
	nViol := tierN(26, 260) // per rule and message kind
	for _, v := range c15Violations {
		for i := 0; i < nViol; i++ {
			in := v.make(r)
			em.Hit("violate:" + in.Kind + ":" + in.Rule)
			c15MaybePad(r, &in, 3)
			b.add("gen", in)
		}
	}
	for i, n := 0, tierN(3000, 30000); i < n; i++ {
		in := c15GenLenient(r, em)
		c15MaybePad(r, &in, 12)
		b.add("gen", in)
	}
	for i, n := 0, tierN(20000, 200000); i < n; i++ {
		in := c15GenMalformed(r, em)
		c15MaybePad(r, &in, 3)
		b.add("gen", in)
	}
}

// ---------------------------------------------------------------- generators: valid values

var c15U256Max, _ = new(big.Int).SetString("115792089237316195423570985008687907853269984665640564039457584007913129639935", 10)

// c15UID: 0 condition, 1 log, 2 other type byte, 3 old-style id (counts as condition)
func c15UID(r *Rng, class int) ocr2keepers.UpkeepIdentifier {
	switch class {
	case 0:
		return genUpkeepID(r, false)
	case 1:
		return genUpkeepID(r, true)
	case 2:
		id := genUpkeepID(r, false)
		id[15] = byte(r.Range(2, 255))
		return id
	}
	var id ocr2keepers.UpkeepIdentifier
	copy(id[:], r.Bytes(32))
	id[4+r.Intn(11)] |= 1
	return id
}

func c15U64(r *Rng) uint64 {
	switch r.Intn(6) {
	case 0:
		return 0
	case 1:
		return ^uint64(0)
	case 2:
		return uint64(1) << 63
	case 3:
		return uint64(r.Intn(1000))
	}
	return r.U64()
}

// c15Ext: a log trigger extension; now and then the present-but-all-zero one
// (what `"LogTriggerExtension":{}` decodes to)
func c15Ext(r *Rng) *ocr2keepers.LogTriggerExtension {
	if r.Chance(5) {
		return &ocr2keepers.LogTriggerExtension{}
	}
	return c15ExtNZ(r)
}

// c15ExtNZ: an extension with a random (hence unique) transaction hash
func c15ExtNZ(r *Rng) *ocr2keepers.LogTriggerExtension {
	e := &ocr2keepers.LogTriggerExtension{TxHash: genHash(r), BlockHash: genHash(r), BlockNumber: ocr2keepers.BlockNumber(c15U64(r))}
	switch r.Intn(4) {
	case 0:
		e.Index = 0
	case 1:
		e.Index = ^uint32(0)
	default:
		e.Index = uint32(r.U64())
	}
	if r.Chance(10) {
		e.BlockHash = [32]byte{}
	}
	return e
}

// c15Pool remembers the log upkeeps of the message under construction so that
// one upkeep can occur several times with different logs (different work ids):
// as two performables, in several rounds of proposals, as performable and proposal.
type c15Pool struct {
	logs []ocr2keepers.UpkeepIdentifier
}

func (p *c15Pool) uid(r *Rng, class int) (id ocr2keepers.UpkeepIdentifier, reused bool) {
	if p != nil && class == 1 && len(p.logs) > 0 && r.Chance(30) {
		return p.logs[r.Intn(len(p.logs))], true
	}
	id = c15UID(r, class)
	if p != nil && class == 1 {
		p.logs = append(p.logs, id)
	}
	return id, false
}

// c15Trigger builds a trigger whose extension matches the upkeep type.
func c15Trigger(r *Rng, uid ocr2keepers.UpkeepIdentifier) ocr2keepers.Trigger {
	return c15TriggerP(r, uid, false)
}

// c15TriggerP: for a re-used upkeep the extension is never the all-zero one, so work ids stay distinct
func c15TriggerP(r *Rng, uid ocr2keepers.UpkeepIdentifier, reused bool) ocr2keepers.Trigger {
	ext := c15Ext
	if reused {
		ext = c15ExtNZ
	}
	t := ocr2keepers.Trigger{BlockNumber: ocr2keepers.BlockNumber(c15U64(r)), BlockHash: genHash(r)}
	switch uint8(utg(uid)) {
	case 0:
	case 1:
		t.LogTriggerExtension = ext(r)
	default:
		if r.Bool() {
			t.LogTriggerExtension = ext(r)
		}
	}
	return t
}

func c15Price(r *Rng) *big.Int {
	switch r.Intn(6) {
	case 0:
		return big.NewInt(0)
	case 1:
		return new(big.Int).Set(c15U256Max)
	case 2:
		return new(big.Int).SetBytes(r.Bytes(32))
	case 3:
		return new(big.Int).SetBytes(r.Bytes(r.Range(1, 31)))
	}
	return new(big.Int).SetUint64(r.U64() % 1e15)
}

func c15Result(r *Rng, class int) ocr2keepers.CheckResult { return c15ResultP(r, class, nil) }

func c15ResultP(r *Rng, class int, pool *c15Pool) ocr2keepers.CheckResult {
	uid, reused := pool.uid(r, class)
	trig := c15TriggerP(r, uid, reused)
	res := ocr2keepers.CheckResult{Eligible: true, UpkeepID: uid, Trigger: trig, WorkID: wg(uid, trig),
		FastGasWei: c15Price(r), LinkNative: c15Price(r)}
	switch r.Intn(5) {
	case 0:
		res.GasAllocated = 1
	case 1:
		res.GasAllocated = ^uint64(0)
	default:
		res.GasAllocated = 1 + r.U64()%10_000_000
	}
	switch r.Intn(8) {
	case 0:
		res.PerformData = []byte{}
	case 1:
		res.PerformData = r.Bytes(r.Range(1, 3)) // the three base64 padding classes
	case 2:
		if r.Chance(15) {
			res.PerformData = r.Bytes(r.Range(2000, 10000))
		} else {
			res.PerformData = r.Bytes(r.Range(100, 400))
		}
	default:
		res.PerformData = r.Bytes(r.Range(4, 70))
	}
	return res
}

func c15Class(r *Rng) int {
	switch r.Intn(10) {
	case 0:
		return 2
	case 1:
		return 3
	case 2, 3, 4, 5:
		return 1
	}
	return 0
}

func c15Proposal(r *Rng, class int) ocr2keepers.CoordinatedBlockProposal {
	return c15ProposalP(r, class, nil)
}

func c15ProposalP(r *Rng, class int, pool *c15Pool) ocr2keepers.CoordinatedBlockProposal {
	uid, reused := pool.uid(r, class)
	trig := c15TriggerP(r, uid, reused)
	return ocr2keepers.CoordinatedBlockProposal{UpkeepID: uid, Trigger: trig, WorkID: wg(uid, trig)}
}

func c15Size(r *Rng, limit int) int {
	switch r.Intn(24) {
	case 0, 1:
		return 0
	case 2:
		return limit
	case 3:
		return limit - 1
	case 4:
		return r.Range(0, limit)
	}
	if limit < 6 {
		return r.Range(0, limit)
	}
	return r.Range(1, 6)
}

func c15GenResults(r *Rng, n int) []ocr2keepers.CheckResult { return c15GenResultsP(r, n, &c15Pool{}) }

func c15GenResultsP(r *Rng, n int, pool *c15Pool) []ocr2keepers.CheckResult {
	out := make([]ocr2keepers.CheckResult, 0, n)
	seen := map[string]bool{}
	for len(out) < n {
		res := c15ResultP(r, c15Class(r), pool)
		if seen[res.WorkID] {
			continue
		}
		seen[res.WorkID] = true
		out = append(out, res)
	}
	return out
}

// c15Proposals: nc conditional-counting, nl log, no other-typed proposals
func c15Proposals(r *Rng, nc, nl, no int) []ocr2keepers.CoordinatedBlockProposal {
	return c15ProposalsP(r, nc, nl, no, &c15Pool{})
}

func c15ProposalsP(r *Rng, nc, nl, no int, pool *c15Pool) []ocr2keepers.CoordinatedBlockProposal {
	var out []ocr2keepers.CoordinatedBlockProposal
	for i := 0; i < nc; i++ {
		c := 0
		if r.Chance(20) {
			c = 3
		}
		out = append(out, c15Proposal(r, c))
	}
	for i := 0; i < nl; i++ {
		out = append(out, c15ProposalP(r, 1, pool))
	}
	for i := 0; i < no; i++ {
		out = append(out, c15Proposal(r, 2))
	}
	p := r.Perm(len(out))
	sh := make([]ocr2keepers.CoordinatedBlockProposal, len(out))
	for i, k := range p {
		sh[i] = out[k]
	}
	return sh
}

func c15History(r *Rng, n int) ocr2keepers.BlockHistory {
	out := make(ocr2keepers.BlockHistory, 0, n)
	seen := map[uint64]bool{}
	base := c15U64(r)
	for len(out) < n {
		var num uint64
		if r.Chance(80) {
			num = base - uint64(len(out)) // descending run, may wrap below zero on purpose
		} else {
			num = c15U64(r)
		}
		if seen[num] {
			base = r.U64()
			continue
		}
		seen[num] = true
		out = append(out, ocr2keepers.BlockKey{Number: ocr2keepers.BlockNumber(num), Hash: genHash(r)})
	}
	return out
}

func c15ValidObs(r *Rng) ocr2keepersv3.AutomationObservation {
	nc := c15Size(r, ocr2keepersv3.ObservationConditionalsProposalsLimit)
	nl := c15Size(r, ocr2keepersv3.ObservationLogRecoveryProposalsLimit)
	no := 0
	if room := ocr2keepersv3.ObservationConditionalsProposalsLimit + ocr2keepersv3.ObservationLogRecoveryProposalsLimit - nc - nl; room > 0 && r.Chance(30) {
		no = r.Range(1, room)
	}
	pool := &c15Pool{} // shared: a log upkeep may be performable and proposed (for another log) at once
	return ocr2keepersv3.AutomationObservation{
		Performable:     c15GenResultsP(r, c15Size(r, ocr2keepersv3.ObservationPerformablesLimit), pool),
		UpkeepProposals: c15ProposalsP(r, nc, nl, no, pool),
		BlockHistory:    c15History(r, c15Size(r, ocr2keepersv3.ObservationBlockHistoryLimit)),
	}
}

func c15ValidOutcome(r *Rng) ocr2keepersv3.AutomationOutcome {
	pool := &c15Pool{} // shared by the performables and every round of proposals
	o := ocr2keepersv3.AutomationOutcome{AgreedPerformables: c15GenResultsP(r, c15Size(r, ocr2keepersv3.OutcomeAgreedPerformablesLimit), pool)}
	rounds := c15Size(r, ocr2keepersv3.OutcomeSurfacedProposalsRoundHistoryLimit)
	seen := map[string]bool{}
	for i := 0; i < rounds; i++ {
		n := c15Size(r, ocr2keepersv3.OutcomeSurfacedProposalsLimit)
		if rounds > 6 && r.Chance(70) {
			n = r.Range(0, 3)
		}
		round := make([]ocr2keepers.CoordinatedBlockProposal, 0, n)
		for len(round) < n {
			p := c15ProposalP(r, c15Class(r), pool)
			if seen[p.WorkID] {
				continue
			}
			seen[p.WorkID] = true
			round = append(round, p)
		}
		o.SurfacedProposals = append(o.SurfacedProposals, round)
	}
	return o
}

func c15GenValid(r *Rng, em *Emitter) c15Input {
	in := c15Input{Mode: "valid", Nil: r.Intn(32)}
	if r.Chance(55) {
		in.Kind = "obs"
		o := c15ValidObs(r)
		in.Obs = c15ObsToJ(o)
		em.Hit(fmt.Sprintf("valid:obs:perf=%d", bucket(len(o.Performable))))
		em.Hit(fmt.Sprintf("valid:obs:hist=%d", c15Bucket256(len(o.BlockHistory))))
		em.Hit(fmt.Sprintf("valid:obs:props=%d", len(o.UpkeepProposals)))
	} else {
		in.Kind = "outcome"
		o := c15ValidOutcome(r)
		in.Outcome = c15OutcomeToJ(o)
		em.Hit(fmt.Sprintf("valid:outcome:agreed=%d", bucket(len(o.AgreedPerformables))))
		em.Hit(fmt.Sprintf("valid:outcome:rounds=%d", len(o.SurfacedProposals)))
	}
	return in
}

func c15Bucket256(n int) int {
	switch {
	case n <= 6:
		return n
	case n < 255:
		return 100
	}
	return n
}

// ---------------------------------------------------------------- generators: single-rule violations

type c15Violation struct {
	make func(r *Rng) c15Input
}

// a smallish valid message with at least one performable / proposal of the
// wanted class at a random position
func c15SmallObs(r *Rng, class int) (ocr2keepersv3.AutomationObservation, int, int) {
	pool := &c15Pool{}
	o := ocr2keepersv3.AutomationObservation{
		Performable:  c15GenResultsP(r, r.Range(0, 4), pool),
		BlockHistory: c15History(r, r.Range(0, 5)),
	}
	nc, nl := r.Range(0, 3), r.Range(0, 3)
	o.UpkeepProposals = c15ProposalsP(r, nc, nl, r.Intn(2), pool)
	pi := r.Intn(len(o.Performable) + 1)
	res := c15Result(r, class)
	o.Performable = append(o.Performable[:pi], append([]ocr2keepers.CheckResult{res}, o.Performable[pi:]...)...)
	qi := r.Intn(len(o.UpkeepProposals) + 1)
	p := c15Proposal(r, class)
	o.UpkeepProposals = append(o.UpkeepProposals[:qi], append([]ocr2keepers.CoordinatedBlockProposal{p}, o.UpkeepProposals[qi:]...)...)
	return o, pi, qi
}

func c15SmallOutcome(r *Rng, class int) (ocr2keepersv3.AutomationOutcome, int, int, int) {
	pool := &c15Pool{}
	o := ocr2keepersv3.AutomationOutcome{AgreedPerformables: c15GenResultsP(r, r.Range(0, 4), pool)}
	rounds := r.Range(1, 4)
	for i := 0; i < rounds; i++ {
		var round []ocr2keepers.CoordinatedBlockProposal
		for k := r.Range(0, 3); k > 0; k-- {
			round = append(round, c15ProposalP(r, c15Class(r), pool))
		}
		o.SurfacedProposals = append(o.SurfacedProposals, round)
	}
	pi := r.Intn(len(o.AgreedPerformables) + 1)
	res := c15Result(r, class)
	o.AgreedPerformables = append(o.AgreedPerformables[:pi], append([]ocr2keepers.CheckResult{res}, o.AgreedPerformables[pi:]...)...)
	ri := r.Intn(rounds)
	qi := r.Intn(len(o.SurfacedProposals[ri]) + 1)
	p := c15Proposal(r, class)
	round := o.SurfacedProposals[ri]
	o.SurfacedProposals[ri] = append(round[:qi:qi], append([]ocr2keepers.CoordinatedBlockProposal{p}, round[qi:]...)...)
	return o, pi, ri, qi
}

func c15OutOfRange(r *Rng) *big.Int {
	switch r.Intn(5) {
	case 0:
		return big.NewInt(-1)
	case 1:
		return new(big.Int).Add(c15U256Max, big.NewInt(1))
	case 2:
		return new(big.Int).Neg(new(big.Int).SetBytes(r.Bytes(r.Range(1, 40))))
	case 3:
		return new(big.Int).Lsh(big.NewInt(1), uint(r.Range(256, 600)))
	}
	return new(big.Int).Add(c15U256Max, new(big.Int).SetBytes(r.Bytes(r.Range(1, 40))))
}

// c15FlipExt breaks only the type rule: the extension is removed / added and the
// work id regenerated for the new trigger, so the work-id rule still holds.
func c15FlipExt(r *Rng, uid ocr2keepers.UpkeepIdentifier, t *ocr2keepers.Trigger, wid *string) {
	switch {
	case t.LogTriggerExtension != nil:
		t.LogTriggerExtension = nil
	case r.Chance(35): // present but empty: what "LogTriggerExtension":{} decodes to
		t.LogTriggerExtension = &ocr2keepers.LogTriggerExtension{}
	default:
		t.LogTriggerExtension = c15ExtNZ(r)
	}
	*wid = wg(uid, *t)
}

// c15SiblingProposal: a proposal for another log of sib's upkeep that carries sib's work id
func c15SiblingProposal(r *Rng, sib ocr2keepers.CheckResult) ocr2keepers.CoordinatedBlockProposal {
	t := ocr2keepers.Trigger{BlockNumber: ocr2keepers.BlockNumber(c15U64(r)), BlockHash: genHash(r), LogTriggerExtension: c15ExtNZ(r)}
	return ocr2keepers.CoordinatedBlockProposal{UpkeepID: sib.UpkeepID, Trigger: t, WorkID: sib.WorkID}
}

func c15WrongWID(r *Rng) string {
	switch r.Intn(5) {
	case 0:
		return ""
	case 1:
		return "wörk <id> & \"quoted\" \\   \x01 \U0001F600"
	case 2:
		return strings.Repeat("a", r.Range(1, 200))
	}
	return hx(r.Bytes(32))
}

// breakResult applies the named single-rule violation to one check result.
func c15BreakResult(r *Rng, rule string, res *ocr2keepers.CheckResult) {
	switch rule {
	case "failedState":
		if r.Bool() {
			res.PipelineExecutionState = uint8(r.Range(1, 255))
		} else {
			res.Retryable = true
		}
		// the later checks may be broken as well (the first one still decides): an
		// ineligibility reason next to the error state - also the complementary
		// one, state + reason = 256 -, a cleared eligible flag
		switch r.Intn(4) {
		case 0:
			res.IneligibilityReason = uint8(256 - int(res.PipelineExecutionState)) // 0 stays 0
		case 1:
			res.IneligibilityReason = uint8(r.Range(1, 255))
		case 2:
			res.Eligible = false
		}
	case "ineligible":
		if r.Bool() {
			res.Eligible = false
		} else {
			res.IneligibilityReason = uint8(r.Range(1, 255))
		}
	case "typeMismatchResult":
		c15FlipExt(r, res.UpkeepID, &res.Trigger, &res.WorkID)
	case "wrongWorkIDResult":
		res.WorkID = c15WrongWID(r)
	case "zeroGas":
		res.GasAllocated = 0
	case "fastGasMissing":
		res.FastGasWei = nil
	case "fastGasRange":
		res.FastGasWei = c15OutOfRange(r)
	case "linkNativeMissing":
		res.LinkNative = nil
	case "linkNativeRange":
		res.LinkNative = c15OutOfRange(r)
	default:
		panic("unknown result rule " + rule)
	}
}

var c15ResultRules = []string{"failedState", "ineligible", "typeMismatchResult", "wrongWorkIDResult", "zeroGas",
	"fastGasMissing", "fastGasRange", "linkNativeMissing", "linkNativeRange"}

func c15ObsIn(o ocr2keepersv3.AutomationObservation, rule string, r *Rng) c15Input {
	return c15Input{Kind: "obs", Mode: "violate", Rule: rule, Obs: c15ObsToJ(o), Nil: r.Intn(32)}
}
func c15OutcomeIn(o ocr2keepersv3.AutomationOutcome, rule string, r *Rng) c15Input {
	return c15Input{Kind: "outcome", Mode: "violate", Rule: rule, Outcome: c15OutcomeToJ(o), Nil: r.Intn(32)}
}

var c15Violations = func() []c15Violation {
	var vs []c15Violation
	add := func(f func(r *Rng) c15Input) { vs = append(vs, c15Violation{make: f}) }
	typedClass := func(r *Rng) int { return r.Intn(2) } // condition or log: the classes the type rule constrains

	// ---- observation
	add(func(r *Rng) c15Input {
		o, _, _ := c15SmallObs(r, c15Class(r))
		o.BlockHistory = c15History(r, ocr2keepersv3.ObservationBlockHistoryLimit+r.Range(1, 3))
		return c15ObsIn(o, "blockHistoryOverLimit", r)
	})
	add(func(r *Rng) c15Input {
		o, _, _ := c15SmallObs(r, c15Class(r))
		n := r.Range(2, 6)
		if r.Chance(10) {
			n = ocr2keepersv3.ObservationBlockHistoryLimit
		}
		o.BlockHistory = c15History(r, n)
		i, j := r.Intn(n), r.Intn(n-1)
		if j >= i {
			j++
		}
		o.BlockHistory[j].Number = o.BlockHistory[i].Number
		return c15ObsIn(o, "dupBlockNumber", r)
	})
	add(func(r *Rng) c15Input {
		o, _, _ := c15SmallObs(r, c15Class(r))
		o.Performable = c15GenResults(r, ocr2keepersv3.ObservationPerformablesLimit+r.Range(1, 2))
		return c15ObsIn(o, "performablesOverLimit", r)
	})
	for _, rule := range c15ResultRules {
		rule := rule
		add(func(r *Rng) c15Input {
			class := c15Class(r)
			if rule == "typeMismatchResult" {
				class = typedClass(r)
			}
			o, pi, _ := c15SmallObs(r, class)
			c15BreakResult(r, rule, &o.Performable[pi])
			return c15ObsIn(o, rule, r)
		})
	}
	add(func(r *Rng) c15Input {
		o, pi, _ := c15SmallObs(r, c15Class(r))
		dup := o.Performable[pi]
		// same upkeep and log identity (= same work id), everything else may differ
		dup.Trigger.BlockNumber = ocr2keepers.BlockNumber(c15U64(r))
		dup.Trigger.BlockHash = genHash(r)
		dup.GasAllocated = 1 + r.U64()%1000
		dup.PerformData = r.Bytes(r.Intn(10))
		dup.WorkID = wg(dup.UpkeepID, dup.Trigger)
		at := r.Intn(len(o.Performable) + 1)
		o.Performable = append(o.Performable[:at:at], append([]ocr2keepers.CheckResult{dup}, o.Performable[at:]...)...)
		return c15ObsIn(o, "dupPerformableWorkID", r)
	})
	add(func(r *Rng) c15Input {
		o, _, _ := c15SmallObs(r, c15Class(r))
		lim := ocr2keepersv3.ObservationConditionalsProposalsLimit + ocr2keepersv3.ObservationLogRecoveryProposalsLimit
		nc := r.Range(0, ocr2keepersv3.ObservationConditionalsProposalsLimit)
		nl := r.Range(0, ocr2keepersv3.ObservationLogRecoveryProposalsLimit)
		o.UpkeepProposals = c15Proposals(r, nc, nl, lim+r.Range(1, 2)-nc-nl) // only the total is over
		return c15ObsIn(o, "proposalsOverLimit", r)
	})
	add(func(r *Rng) c15Input {
		o, _, qi := c15SmallObs(r, typedClass(r))
		p := &o.UpkeepProposals[qi]
		c15FlipExt(r, p.UpkeepID, &p.Trigger, &p.WorkID)
		return c15ObsIn(o, "typeMismatchProposal", r)
	})
	add(func(r *Rng) c15Input {
		o, _, qi := c15SmallObs(r, c15Class(r))
		if r.Chance(40) {
			// the work id of ANOTHER log of the same upkeep, which is present as a performable
			sib := c15Result(r, 1)
			at := r.Intn(len(o.Performable) + 1)
			o.Performable = append(o.Performable[:at:at], append([]ocr2keepers.CheckResult{sib}, o.Performable[at:]...)...)
			o.UpkeepProposals[qi] = c15SiblingProposal(r, sib)
		} else {
			o.UpkeepProposals[qi].WorkID = c15WrongWID(r)
		}
		return c15ObsIn(o, "wrongWorkIDProposal", r)
	})
	add(func(r *Rng) c15Input {
		o, _, qi := c15SmallObs(r, 2) // a third "other"-typed proposal keeps both per-type counters in range
		dup := o.UpkeepProposals[qi]
		dup.Trigger.BlockNumber = ocr2keepers.BlockNumber(c15U64(r))
		dup.Trigger.BlockHash = genHash(r)
		dup.WorkID = wg(dup.UpkeepID, dup.Trigger)
		at := r.Intn(len(o.UpkeepProposals) + 1)
		o.UpkeepProposals = append(o.UpkeepProposals[:at:at], append([]ocr2keepers.CoordinatedBlockProposal{dup}, o.UpkeepProposals[at:]...)...)
		return c15ObsIn(o, "dupProposalWorkID", r)
	})
	add(func(r *Rng) c15Input {
		o, _, _ := c15SmallObs(r, c15Class(r))
		nc := ocr2keepersv3.ObservationConditionalsProposalsLimit + 1
		rest := ocr2keepersv3.ObservationLogRecoveryProposalsLimit - 1
		nl := r.Range(0, rest)
		o.UpkeepProposals = c15Proposals(r, nc, nl, r.Range(0, rest-nl))
		return c15ObsIn(o, "conditionalProposalsOverLimit", r)
	})
	add(func(r *Rng) c15Input {
		o, _, _ := c15SmallObs(r, c15Class(r))
		nl := ocr2keepersv3.ObservationLogRecoveryProposalsLimit + 1
		rest := ocr2keepersv3.ObservationConditionalsProposalsLimit - 1
		nc := r.Range(0, rest)
		o.UpkeepProposals = c15Proposals(r, nc, nl, r.Range(0, rest-nc))
		return c15ObsIn(o, "logProposalsOverLimit", r)
	})

	// a message that is valid for the SECOND (utg, wg) pair of the run (c15UtgAlt / c15WgAlt) and
	// breaks the work-id rule for the first: upkeeps of a third type, work ids of the other generator
	altResults := func(r *Rng, n int) []ocr2keepers.CheckResult {
		var out []ocr2keepers.CheckResult
		for i := 0; i < n; i++ {
			res := c15Result(r, 2)
			res.WorkID = c15WgAlt(res.UpkeepID, res.Trigger)
			out = append(out, res)
		}
		return out
	}
	altProposals := func(r *Rng, n int) []ocr2keepers.CoordinatedBlockProposal {
		var out []ocr2keepers.CoordinatedBlockProposal
		for i := 0; i < n; i++ {
			p := c15Proposal(r, 2)
			p.WorkID = c15WgAlt(p.UpkeepID, p.Trigger)
			out = append(out, p)
		}
		return out
	}
	add(func(r *Rng) c15Input {
		o := ocr2keepersv3.AutomationObservation{Performable: altResults(r, r.Range(1, 3)), UpkeepProposals: altProposals(r, r.Range(0, 3)),
			BlockHistory: c15History(r, r.Range(0, 4))}
		return c15ObsIn(o, "wrongWorkIDResult", r)
	})
	add(func(r *Rng) c15Input {
		o := ocr2keepersv3.AutomationOutcome{AgreedPerformables: altResults(r, r.Range(1, 3)),
			SurfacedProposals: [][]ocr2keepers.CoordinatedBlockProposal{altProposals(r, r.Range(0, 2)), altProposals(r, r.Range(0, 2))}}
		return c15OutcomeIn(o, "wrongWorkIDResult", r)
	})

	// ---- outcome
	add(func(r *Rng) c15Input {
		o, _, _, _ := c15SmallOutcome(r, c15Class(r))
		o.AgreedPerformables = c15GenResults(r, ocr2keepersv3.OutcomeAgreedPerformablesLimit+r.Range(1, 2))
		return c15OutcomeIn(o, "agreedOverLimit", r)
	})
	for _, rule := range c15ResultRules {
		rule := rule
		add(func(r *Rng) c15Input {
			class := c15Class(r)
			if rule == "typeMismatchResult" {
				class = typedClass(r)
			}
			o, pi, _, _ := c15SmallOutcome(r, class)
			c15BreakResult(r, rule, &o.AgreedPerformables[pi])
			return c15OutcomeIn(o, rule, r)
		})
	}
	add(func(r *Rng) c15Input {
		o, pi, _, _ := c15SmallOutcome(r, c15Class(r))
		dup := o.AgreedPerformables[pi]
		dup.Trigger.BlockNumber = ocr2keepers.BlockNumber(c15U64(r))
		dup.GasAllocated = 1 + r.U64()%1000
		dup.WorkID = wg(dup.UpkeepID, dup.Trigger)
		at := r.Intn(len(o.AgreedPerformables) + 1)
		o.AgreedPerformables = append(o.AgreedPerformables[:at:at], append([]ocr2keepers.CheckResult{dup}, o.AgreedPerformables[at:]...)...)
		return c15OutcomeIn(o, "dupAgreedWorkID", r)
	})
	add(func(r *Rng) c15Input {
		o, _, _, _ := c15SmallOutcome(r, c15Class(r))
		for len(o.SurfacedProposals) <= ocr2keepersv3.OutcomeSurfacedProposalsRoundHistoryLimit {
			var round []ocr2keepers.CoordinatedBlockProposal
			if r.Chance(30) {
				round = append(round, c15Proposal(r, c15Class(r)))
			}
			o.SurfacedProposals = append(o.SurfacedProposals, round)
		}
		return c15OutcomeIn(o, "roundsOverLimit", r)
	})
	add(func(r *Rng) c15Input {
		o, _, ri, _ := c15SmallOutcome(r, c15Class(r))
		for len(o.SurfacedProposals[ri]) <= ocr2keepersv3.OutcomeSurfacedProposalsLimit {
			o.SurfacedProposals[ri] = append(o.SurfacedProposals[ri], c15Proposal(r, c15Class(r)))
		}
		return c15OutcomeIn(o, "roundProposalsOverLimit", r)
	})
	add(func(r *Rng) c15Input {
		o, _, ri, qi := c15SmallOutcome(r, typedClass(r))
		p := &o.SurfacedProposals[ri][qi]
		c15FlipExt(r, p.UpkeepID, &p.Trigger, &p.WorkID)
		return c15OutcomeIn(o, "typeMismatchProposal", r)
	})
	add(func(r *Rng) c15Input {
		o, _, ri, qi := c15SmallOutcome(r, c15Class(r))
		if r.Chance(40) {
			sib := c15Result(r, 1)
			at := r.Intn(len(o.AgreedPerformables) + 1)
			o.AgreedPerformables = append(o.AgreedPerformables[:at:at], append([]ocr2keepers.CheckResult{sib}, o.AgreedPerformables[at:]...)...)
			o.SurfacedProposals[ri][qi] = c15SiblingProposal(r, sib)
		} else {
			o.SurfacedProposals[ri][qi].WorkID = c15WrongWID(r)
		}
		return c15OutcomeIn(o, "wrongWorkIDProposal", r)
	})
	add(func(r *Rng) c15Input {
		o, _, ri, qi := c15SmallOutcome(r, c15Class(r))
		dup := o.SurfacedProposals[ri][qi]
		dup.Trigger.BlockNumber = ocr2keepers.BlockNumber(c15U64(r))
		dup.WorkID = wg(dup.UpkeepID, dup.Trigger)
		rj := r.Intn(len(o.SurfacedProposals)) // the same or another round: the seen set spans rounds
		round := o.SurfacedProposals[rj]
		at := r.Intn(len(round) + 1)
		o.SurfacedProposals[rj] = append(round[:at:at], append([]ocr2keepers.CoordinatedBlockProposal{dup}, round[at:]...)...)
		return c15OutcomeIn(o, "dupProposalWorkID", r)
	})
	return vs
}()
