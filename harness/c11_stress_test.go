package harness

import (
	"bufio"
	"bytes"
	"encoding/json"
	"fmt"
	"os"
	"os/exec"
	"path/filepath"
	"runtime"
	"strings"
	"sync"
	"sync/atomic"
	"testing"
	"testing/synctest"
	"time"

	"github.com/smartcontractkit/chainlink-automation/pkg/v3/stores"
	"github.com/smartcontractkit/chainlink-automation/pkg/v3/types"
	simutil "github.com/smartcontractkit/chainlink-automation/tools/simulator/util"
	ocr2keepers "github.com/smartcontractkit/chainlink-common/pkg/types/automation"
)

// C11, concurrent use of the metadata store: the OCR goroutine removes surfaced proposals
// (Observation -> RemoveFromMetadataHook) while the flow goroutines add new ones (add-to-metadata
// post-processor) and view the pending set (proposal filterer, build hooks).  Real goroutines, real time,
// in a CHILD process: the Go runtime aborts the process on a concurrent map access and that cannot be
// recovered.  An abort, a hang, a view outside its linearizability window or a wrong final view is what the
// driver judges; the harness only records.

type c11StressIn struct {
	Seed  uint64 `json:"seed"`
	Round int    `json:"round"`
	T     uint8  `json:"t"`
	// Old is added first; then the (virtual) clock advances by Age; then Init is added.  No view happens
	// before the concurrent phase, so records of Old that are past their expiry are still in the store.
	Old    []JProp `json:"old"`
	Age    int64   `json:"age"`    // nanoseconds: 0, hours, exactly the 24 h expiry, 1 ns more, 25 h
	Init   []JProp `json:"init"`   // pending (fresh) at the start of the concurrent phase
	Remove []JProp `json:"remove"` // removed one by one, in this order, by one goroutine (all are in Init)
	// added one by one, in this order, by another goroutine: new work ids and re-additions of work ids of
	// Old with the identical proposal (the flows propose the same work again); none is in Init
	Add   []JProp `json:"add"`
	Views int     `json:"views"` // how many of the concurrent views are recorded
}

type c11StressView struct {
	RDS int     `json:"rds"` // removals that had returned when the view began
	RSE int     `json:"rse"` // removals that had started when the view returned
	ADS int     `json:"ads"`
	ASE int     `json:"ase"`
	Out []JProp `json:"out"`
}

type c11StressOut struct {
	Final []JProp         `json:"final"`
	Views []c11StressView `json:"views"`
}

// c11StressInputs builds the rounds of one run: both pending sets, sizes and ages varied.
func c11StressInputs(seed uint64, rounds int) []c11Input {
	r := NewRng(seed ^ 0x57e55)
	out := make([]c11Input, 0, rounds)
	ages := []int64{0, int64(time.Hour), c11MetaExpiry, c11MetaExpiry + 1, 25 * int64(time.Hour), 25 * int64(time.Hour)}
	for k := 0; k < rounds; k++ {
		ty := uint8(types.LogTrigger)
		if k%2 == 1 {
			ty = uint8(types.ConditionTrigger)
		}
		ni := []int{150, 250, 400}[r.Intn(3)]
		st := &c11StressIn{Seed: seed, Round: k, T: ty, Views: 4}
		mk := func(w string) JProp {
			return toJProp(ocr2keepers.CoordinatedBlockProposal{UpkeepID: ocr2keepers.UpkeepIdentifier(simutil.NewUpkeepID(r.Bytes(8), ty)),
				Trigger: ocr2keepers.Trigger{BlockNumber: 100}, WorkID: w})
		}
		// insertion order unrelated to key order
		if k%3 != 0 {
			st.Age = ages[r.Intn(len(ages))]
			for i, no := 0, []int{100, 400, 1200}[r.Intn(3)]; i < no; i++ {
				st.Old = append(st.Old, mk(fmt.Sprintf("o%04d", r.Intn(10000)*10000+i)))
			}
		}
		for i := 0; i < ni; i++ {
			st.Init = append(st.Init, mk(fmt.Sprintf("p%04d", r.Intn(10000)*10000+i)))
		}
		for _, i := range r.Perm(ni)[:ni/2] {
			st.Remove = append(st.Remove, st.Init[i])
		}
		// what the flows add meanwhile: new work, and work that was proposed long ago proposed again
		again := r.Perm(len(st.Old))
		share := []int{0, 50, 100}[r.Intn(3)]
		for i := 0; i < ni || len(again) > 0; i++ {
			if len(again) > 0 && r.Chance(share) || i >= ni {
				st.Add = append(st.Add, st.Old[again[0]])
				again = again[1:]
				if share == 0 {
					again = nil
				}
				continue
			}
			st.Add = append(st.Add, mk(fmt.Sprintf("n%04d", r.Intn(10000)*10000+i)))
		}
		out = append(out, c11Input{Types: []c11Type{}, Ops: []c11Op{}, Mode: "stress", Stress: st})
	}
	return out
}

// c11StressRound is the workload (runs in the child).
func c11StressRound(in *c11StressIn) (c11StressOut, error) {
	ms, err := stores.NewMetadataStore(&fakeBlocks{}, utg)
	if err != nil {
		return c11StressOut{}, err
	}
	if len(in.Old) > 0 {
		ms.AddProposals(fromJProps(in.Old)...)
	}
	if in.Age > 0 {
		time.Sleep(time.Duration(in.Age)) // virtual: the child runs the round inside a synctest bubble
	}
	ms.AddProposals(fromJProps(in.Init)...)
	rem, add := fromJProps(in.Remove), fromJProps(in.Add)
	var rStarted, rDone, aStarted, aDone atomic.Int64
	var wg sync.WaitGroup
	var stop atomic.Bool
	gate := make(chan struct{})
	wg.Add(2)
	go func() {
		defer wg.Done()
		<-gate
		for i, p := range rem {
			rStarted.Store(int64(i + 1))
			ms.RemoveProposals(p)
			rDone.Store(int64(i + 1))
		}
	}()
	go func() {
		defer wg.Done()
		<-gate
		for i, p := range add {
			aStarted.Store(int64(i + 1))
			ms.AddProposals(p)
			aDone.Store(int64(i + 1))
		}
	}()
	var out c11StressOut
	viewerDone := make(chan struct{})
	go func() {
		defer close(viewerDone)
		<-gate
		for n := 0; !stop.Load(); n++ {
			v := c11StressView{RDS: int(rDone.Load()), ADS: int(aDone.Load())}
			ps := ms.ViewProposals(types.UpkeepType(in.T))
			v.RSE, v.ASE = int(rStarted.Load()), int(aStarted.Load())
			// keep the first views taken while removals/additions are under way
			if n := len(out.Views); n < in.Views && (v.RDS < len(rem) || v.ADS < len(add)) && v.RSE+v.ASE > 0 &&
				(n == 0 || out.Views[n-1].RSE+out.Views[n-1].ASE+(len(rem)+len(add))/(in.Views+1) <= v.RDS+v.ADS) {
				v.Out = toJProps(ps)
				out.Views = append(out.Views, v)
			}
		}
	}()
	close(gate)
	wg.Wait()
	stop.Store(true)
	<-viewerDone
	out.Final = toJProps(ms.ViewProposals(types.UpkeepType(in.T)))
	return out, nil
}

// TestC11Child is the re-executed half of TestC11's stress cases; it does nothing on its own.
func TestC11Child(t *testing.T) {
	inPath, outPath := os.Getenv("VERIF_C11_CHILD"), os.Getenv("VERIF_C11_RESULT")
	if inPath == "" || outPath == "" {
		t.Skip("only runs as a child of TestC11")
	}
	b, err := os.ReadFile(inPath)
	if err != nil {
		t.Fatal(err)
	}
	var in c11StressIn
	if err := json.Unmarshal(b, &in); err != nil {
		t.Fatal(err)
	}
	var res c11StressOut
	// real goroutines on real processors; only the clock is virtual (ageing by hours costs nothing)
	synctest.Test(t, func(t *testing.T) {
		res, err = c11StressRound(&in)
	})
	if err != nil {
		t.Fatal(err)
	}
	rb, _ := json.Marshal(res)
	_ = os.WriteFile(outPath+".tmp", rb, 0o644)
	_ = os.Rename(outPath+".tmp", outPath)
}

var c11StressDir struct {
	once sync.Once
	dir  string
}

func c11RunStress(t *testing.T, in *c11Input) c11Impl {
	c11StressDir.once.Do(func() {
		d, err := os.MkdirTemp("", "verif-c11-stress-")
		if err != nil {
			t.Fatalf("tempdir: %v", err)
		}
		c11StressDir.dir = d
		t.Cleanup(func() { os.RemoveAll(d) })
	})
	st := in.Stress
	seen := map[string]uint8{}
	for _, l := range [][]JProp{st.Old, st.Init, st.Remove, st.Add} {
		for _, p := range l {
			seen[p.UID] = uint8(utg(ocr2keepers.UpkeepIdentifier(b32(p.UID))))
		}
	}
	c11FillTypes(in, seen)
	inPath := filepath.Join(c11StressDir.dir, fmt.Sprintf("in-%d.json", st.Round))
	outPath := filepath.Join(c11StressDir.dir, fmt.Sprintf("out-%d.json", st.Round))
	b, _ := json.Marshal(st)
	_ = os.WriteFile(inPath, b, 0o644)
	procs := runtime.NumCPU()
	if procs > 8 {
		procs = 8
	}
	if procs < 4 {
		procs = 4
	}
	cmd := exec.Command(os.Args[0], "-test.run", "^TestC11Child$", "-test.timeout", "100s")
	coverChild(cmd)
	cmd.Env = append(os.Environ(), "VERIF_C11_CHILD="+inPath, "VERIF_C11_RESULT="+outPath, fmt.Sprintf("GOMAXPROCS=%d", procs), "VERIF_OUT=", "VERIF_DIST=")
	var buf bytes.Buffer
	cmd.Stdout, cmd.Stderr = &buf, &buf
	impl := c11Impl{Outs: [][]JProp{}, Aux: [][]JProp{}, Exit: "ok"}
	if err := cmd.Start(); err != nil {
		impl.Exit = "spawn: " + err.Error()
		return impl
	}
	done := make(chan error, 1)
	go func() { done <- cmd.Wait() }()
	select {
	case err := <-done:
		if err != nil {
			if ee, ok := err.(*exec.ExitError); ok {
				impl.Exit = fmt.Sprintf("exit:%d", ee.ExitCode())
			} else {
				impl.Exit = "error"
			}
		}
	case <-time.After(90 * time.Second):
		_ = cmd.Process.Kill()
		<-done
		impl.Exit = "timeout"
	}
	sc := bufio.NewScanner(&buf)
	sc.Buffer(make([]byte, 1<<20), 1<<24)
	for sc.Scan() {
		line := sc.Text()
		if strings.HasPrefix(line, "fatal error:") || strings.HasPrefix(line, "panic:") {
			impl.Crash = line
			break
		}
	}
	if rb, err := os.ReadFile(outPath); err == nil {
		var res c11StressOut
		if json.Unmarshal(rb, &res) == nil {
			impl.Final, impl.Views = res.Final, res.Views
			if impl.Final == nil {
				impl.Final = []JProp{}
			}
		}
	}
	_ = os.Remove(inPath)
	_ = os.Remove(outPath)
	return impl
}
