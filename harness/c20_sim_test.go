package harness

import (
	"bytes"
	"context"
	"encoding/json"
	"fmt"
	"log"
	"math/big"
	mrand "math/rand"
	"os"
	"os/exec"
	"path/filepath"
	"regexp"
	"sort"
	"strconv"
	"strings"
	"sync"
	"testing"
	"testing/synctest"
	"time"

	"github.com/ethereum/go-ethereum/common"
	"github.com/smartcontractkit/libocr/offchainreporting2plus/chains/evmutil"

	"github.com/smartcontractkit/chainlink-automation/tools/simulator/config"
	"github.com/smartcontractkit/chainlink-automation/tools/simulator/node"
	"github.com/smartcontractkit/chainlink-automation/tools/simulator/run"
	"github.com/smartcontractkit/chainlink-automation/tools/simulator/simulate/chain"
	"github.com/smartcontractkit/chainlink-automation/tools/simulator/telemetry"
)

// C20 part 3 — the real simulator (real libocr, real plugin) in a synctest
// bubble, one simulation per CHILD process.
//
// The child re-executes this test binary with C20_CHILD_PLAN / C20_CHILD_OUT set
// and runs TestC20SimChild, which mirrors cmd/simulator/main.go statement by
// statement (main is package main and cannot be imported; the extractor pins the
// three statements the verdict depends on).  The simulator leaks listeners, so
// the bubble would end with "deadlock: main bubble goroutine has exited but
// blocked goroutines remain"; the child therefore writes result.json and leaves
// with os.Exit from inside the bubble.

type c20ChildResult struct {
	Verdict    bool   `json:"verdict"` // progress.AllProgressComplete()
	ExitCode   int    `json:"exit"`    // what main.go would pass to os.Exit
	Stage      string `json:"stage"`   // last stage reached ("done" = summary printed and verdict taken)
	Err        string `json:"err,omitempty"`
	VirtualSec int64  `json:"virtual_s"` // simulated seconds
	Progress   string `json:"progress"`  // what the progress writer printed (ANSI stripped)
}

const c20ChildPlanEnv = "C20_CHILD_PLAN"
const c20ChildOutEnv = "C20_CHILD_OUT"

// TestC20SimChild is the helper run in the child process only.
func TestC20SimChild(t *testing.T) {
	planPath, outDir := os.Getenv(c20ChildPlanEnv), os.Getenv(c20ChildOutEnv)
	if planPath == "" || outDir == "" {
		t.Skip("helper for TestC20 (child process only)")
	}
	mrand.Seed(int64(seed())) // simulator latencies/jitter use the global source; keys use crypto/rand (not controllable)
	res := c20ChildResult{Stage: "start", ExitCode: -1}
	write := func() {
		b, _ := json.Marshal(res)
		_ = os.WriteFile(filepath.Join(outDir, "result.json"), b, 0o644)
	}
	defer func() {
		if p := recover(); p != nil {
			res.Err = fmt.Sprintf("panic: %v", p)
			write()
			os.Exit(3)
		}
	}()
	// watchdog in REAL time, outside the bubble: a goroutine that waits for a lock is not "durably blocked", so a
	// shutdown that deadlocks on a mutex stalls the bubble's clock and no virtual-time watchdog can fire
	realLimit := 45 * time.Second
	if os.Getenv("C20_CHILD_REALLIMIT") != "" {
		if d, err := time.ParseDuration(os.Getenv("C20_CHILD_REALLIMIT")); err == nil {
			realLimit = d
		}
	}
	go func() {
		time.Sleep(realLimit)
		st := res.Stage
		res.Stage = "hang"
		res.Err = fmt.Sprintf("stage %q not left after %v of real time (the virtual clock is stalled: some goroutine waits for a lock)", st, realLimit)
		write()
		os.Exit(4)
	}()
	body := func(t *testing.T) {
		defer func() {
			if p := recover(); p != nil {
				res.Err = fmt.Sprintf("panic: %v", p)
				write()
				os.Exit(3)
			}
		}()
		t0 := time.Now()
		var progressOut bytes.Buffer
		var pmu sync.Mutex
		pw := c20WriterFunc(func(b []byte) (int, error) { pmu.Lock(); defer pmu.Unlock(); return progressOut.Write(b) })
		procLog := log.New(os.Stderr, "[simulator-startup] ", log.LstdFlags)

		// ----- read simulation file                                   (main.go)
		plan, err := run.LoadSimulationPlan(planPath)
		if err != nil {
			res.Stage, res.Err, res.ExitCode = "load", err.Error(), 1
			write()
			os.Exit(0)
		}
		// ----- setup simulation output directory and file handles
		outputs, err := run.SetupOutput(outDir, true, true, plan)
		if err != nil {
			res.Stage, res.Err, res.ExitCode = "output", err.Error(), 1
			write()
			os.Exit(0)
		}
		// ----- create simulated upkeeps from simulation plan
		upkeeps, err := chain.GenerateAllUpkeeps(plan)
		if err != nil {
			res.Stage, res.Err, res.ExitCode = "generate", err.Error(), 1
			write()
			os.Exit(0)
		}
		ngConf := node.GroupConfig{
			SimulationPlan: plan,
			Digester: evmutil.EVMOffchainConfigDigester{
				ChainID:         1,
				ContractAddress: common.BigToAddress(big.NewInt(12)),
			},
			Upkeeps: upkeeps,
			Collectors: []telemetry.Collector{
				outputs.RPCCollector,
				outputs.LogCollector,
				outputs.EventCollector,
			},
			Logger: outputs.SimulationLog,
		}
		progress := telemetry.NewProgressTelemetry(pw)
		progress.Start()

		ng, err := node.NewGroup(ngConf, progress)
		if err != nil {
			res.Stage, res.Err, res.ExitCode = "group", err.Error(), 1
			write()
			os.Exit(0)
		}
		ctx, cancel := context.WithCancel(context.Background())
		defer cancel()

		var wg sync.WaitGroup
		wg.Add(1)
		go func(serviceCtx context.Context, simPlan config.SimulationPlan, logger *log.Logger) {
			if err := ng.Start(serviceCtx, simPlan.Node); err != nil {
				logger.Printf("node group closed with error: %s", err)
			}
			if err := progress.Close(); err != nil {
				logger.Printf("failed to close progress tracker: %s", err)
			}
			wg.Done()
		}(ctx, plan, procLog)
		res.Stage = "running"
		// watchdog in VIRTUAL time: the chain takes (duration + padding + 1) cadences; a run whose Group.Start has
		// not returned several minutes (virtual) after that hangs — tickers of the stuck services keep the bubble's
		// clock moving, so the wait is short in real time
		chainTime := time.Duration(plan.Blocks.Duration+plan.Blocks.EndPadding+2) * (plan.Blocks.Cadence.Value() + plan.Blocks.Jitter.Value())
		finished := make(chan struct{})
		go func() {
			select {
			case <-finished:
			case <-time.After(chainTime + 10*time.Minute):
				res.Stage = "hang"
				res.Err = fmt.Sprintf("Group.Start had not returned %v (virtual) after the end of the chain", 10*time.Minute)
				res.VirtualSec = int64(time.Since(t0) / time.Second)
				write()
				os.Exit(4)
			}
		}()
		wg.Wait()
		close(finished)
		res.Stage = "closed"

		res.Verdict = progress.AllProgressComplete()
		if !res.Verdict {
			res.ExitCode = 1
		} else {
			res.ExitCode = 0
		}
		res.Stage = "done"
		res.VirtualSec = int64(time.Since(t0) / time.Second)
		time.Sleep(700 * time.Millisecond) // let the renderer print its last frame
		pmu.Lock()
		res.Progress = c20StripANSI(progressOut.String())
		pmu.Unlock()
		_ = outputs.Close()
		write()
		os.Exit(0) // leaked listeners would otherwise turn the end of the bubble into a deadlock panic
	}
	if os.Getenv("C20_CHILD_REALTIME") != "" {
		body(t) // no bubble: real clock, real scheduling (what takes wall time takes time)
		return
	}
	synctest.Test(t, body)
}

type c20WriterFunc func([]byte) (int, error)

func (f c20WriterFunc) Write(b []byte) (int, error) { return f(b) }

var c20AnsiRe = regexp.MustCompile(`\x1b\[[0-9;?]*[A-Za-z]`)

func c20StripANSI(s string) string { return c20AnsiRe.ReplaceAllString(s, "") }

// ---------------------------------------------------------------- parent side

type c20Row struct { // one row of the "Transmitted Results" table of simulation.log
	Block      string `json:"block"` // "<nil>" = never included in a block
	Round      uint64 `json:"round"`
	Sender     string `json:"sender"` // first 5 characters of the transmitter account
	Upkeep     string `json:"upkeep"` // full decimal upkeep id when the 8-character prefix is unique in the plan, else the prefix
	CheckBlock uint64 `json:"check_block"`
}
type c20Sent struct { // "transmit sent from A in round R" (one per accepted report)
	Sender string `json:"sender"` // first 5 characters
	Round  uint64 `json:"round"`
}
type c20Check struct { // "<id> eligibility <b> at block <n>" in a node's contract.log
	Node     int    `json:"node"`
	Upkeep   string `json:"upkeep"`
	Block    uint64 `json:"block"`
	Eligible bool   `json:"eligible"`
}
type c20TrackerLine struct { // a finished tracker as printed by the progress writer
	Msg   string `json:"msg"`
	State string `json:"state"` // "done" | "fail"
	Value string `json:"value"`
}

type c20SimRecord struct {
	Result          c20ChildResult   `json:"result"`
	ChildExit       int              `json:"child_exit"`
	ChildTail       string           `json:"child_tail,omitempty"`
	Crash           string           `json:"crash"`            // first line of a panic / fatal error of the child
	CrashAt         string           `json:"crash_at"`         // first repository frame of its stack (file:line)
	CrashInSummary  bool             `json:"crash_in_summary"` // the stack goes through Group.ReportResults
	WallMs          int64            `json:"wall_ms"`
	Rows            []c20Row         `json:"rows"`
	Sent            []c20Sent        `json:"sent"`
	SentAfterChart  int              `json:"sent_after_chart"` // reports accepted after the chart had been written (not part of the record)
	Checks          []c20Check       `json:"checks"`           // only those whose (upkeep, block) occurs in a row
	ChecksTotal     int              `json:"checks_total"`
	Nodes           int              `json:"nodes"`
	ConfigLoads     int              `json:"config_loads"` // "config loaded at" lines
	Switches        int              `json:"switches"`     // plugin instances created beyond the first one of each node (a later OCR3 config replaced the running instance)
	BlocksSeen      int              `json:"blocks_seen"`  // distinct "next block" lines + genesis
	SummaryEnd      bool             `json:"summary_end"`  // "================ end ================" printed
	SummaryPanic    string           `json:"summary_panic,omitempty"`
	Trackers        []c20TrackerLine `json:"trackers"`
	FinalResults    int              `json:"final_results"` // "%d transmits returned in final results" (last)
	SavedPlanOK     bool             `json:"saved_plan_ok"` // <out>/simulation_plan.json loads and equals the plan that ran
	Races           int              `json:"races"`         // race reports (race build only), except the ignored ones
	RaceSites       []string         `json:"race_sites"`    // "file:line ~ file:line" per counted report
	RacesIgnored    []string         `json:"races_ignored"` // reports with BOTH accesses inside github.com/jedib0t/go-pretty (sites)
	RaceBuild       bool             `json:"race_build"`
	TsanCheckFailed bool             `json:"tsan_check_failed"` // the race detector's runtime failed an internal check (after 3 attempts)
}

var (
	c20RowRe   = regexp.MustCompile(`^\|\s*(\S+)\s*\|\s*(\d+)\s*\|\s*(\S+)\s*\|\s*(\S+)\s*\|\s*(\d+)\s*\|$`)
	c20SentRe  = regexp.MustCompile(`transmit sent from (\S+) in round (\d+)`)
	c20CheckRe = regexp.MustCompile(`: (\d+) eligibility (true|false) at block (\d+)`)
	c20FinalRe = regexp.MustCompile(`(\d+) transmits returned in final results`)
	c20DoneRe  = regexp.MustCompile(`^(.*?)\s+\.\.\.\s+(done!|fail!)\s+\[(\S+) in`)
)

func c20Shorten(full string, n int) string {
	if len(full) < n {
		return full
	}
	return full[:n]
}

// c20RunSim runs one simulation in a child process and parses its record.
// c20RunSim retries a child whose race-detector RUNTIME failed an internal check ("ThreadSanitizer: CHECK failed",
// seen once in ~250 race-build children): that is a fault of the tool, not of the code under test.
func c20RunSim(t *testing.T, planJSON []byte, exe string, raceBuild bool, realtime ...bool) c20SimRecord {
	var rec c20SimRecord
	rt := len(realtime) > 0 && realtime[0]
	for attempt := 0; attempt < 3; attempt++ {
		rec = c20RunSimOnce(t, planJSON, exe, raceBuild, rt)
		if !rec.TsanCheckFailed {
			break
		}
	}
	return rec
}

func c20RunSimOnce(t *testing.T, planJSON []byte, exe string, raceBuild bool, realtime bool) c20SimRecord {
	dir, err := os.MkdirTemp("", "c20sim")
	if err != nil {
		return c20SimRecord{Result: c20ChildResult{Stage: "harness", Err: err.Error()}}
	}
	defer os.RemoveAll(dir)
	planPath := filepath.Join(dir, "plan.json")
	if err := os.WriteFile(planPath, planJSON, 0o644); err != nil {
		return c20SimRecord{Result: c20ChildResult{Stage: "harness", Err: err.Error()}}
	}
	outDir := filepath.Join(dir, "out")
	_ = os.MkdirAll(outDir, 0o755)
	cmd := exec.Command(exe, "-test.run", "^TestC20SimChild$", "-test.timeout", "10m")
	coverChild(cmd)
	cmd.Env = append(os.Environ(), c20ChildPlanEnv+"="+planPath, c20ChildOutEnv+"="+outDir, "VERIF_OUT="+filepath.Join(dir, "unused.jsonl"))
	if raceBuild {
		cmd.Env = append(cmd.Env, "C20_CHILD_REALLIMIT=150s")
	}
	if realtime {
		cmd.Env = append(cmd.Env, "C20_CHILD_REALTIME=1")
	}
	var buf bytes.Buffer
	cmd.Stdout, cmd.Stderr = &buf, &buf
	t0 := time.Now()
	runErr := cmd.Run()
	rec := c20SimRecord{WallMs: time.Since(t0).Milliseconds(), RaceBuild: raceBuild, Rows: []c20Row{}, Sent: []c20Sent{}, Checks: []c20Check{}, Trackers: []c20TrackerLine{}}
	if ee, ok := runErr.(*exec.ExitError); ok {
		rec.ChildExit = ee.ExitCode()
	} else if runErr != nil {
		rec.ChildExit = -1
	}
	out := buf.String()
	rec.TsanCheckFailed = strings.Contains(out, "ThreadSanitizer: CHECK failed")
	rec.RaceSites, rec.RacesIgnored = []string{}, []string{}
	for _, rep := range c20RaceReports(out) {
		if rep.ignored {
			rec.RacesIgnored = append(rec.RacesIgnored, rep.site)
		} else {
			rec.Races++
			rec.RaceSites = append(rec.RaceSites, rep.site)
		}
	}
	sort.Strings(rec.RaceSites)
	sort.Strings(rec.RacesIgnored)
	if rec.ChildExit != 0 || rec.Races > 0 {
		rec.ChildTail = c20CrashExcerpt(out)
	}
	rec.Crash, rec.CrashAt, rec.CrashInSummary = c20CrashSite(out)
	if b, err := os.ReadFile(filepath.Join(outDir, "result.json")); err == nil {
		_ = json.Unmarshal(b, &rec.Result)
	} else {
		rec.Result.Stage = "no-result"
		rec.ChildTail = c20CrashExcerpt(out)
	}

	// the plan that ran, for id prefixes
	plan, perr := config.DecodeSimulationPlan(planJSON)
	prefix := map[string][]string{}
	if perr == nil {
		if ups, err := chain.GenerateAllUpkeeps(plan); err == nil {
			for _, u := range ups {
				id := new(big.Int).SetBytes(u.UpkeepID[:]).String()
				prefix[c20Shorten(id, 8)] = append(prefix[c20Shorten(id, 8)], id)
			}
		}
		// saved plan
		if b, err := os.ReadFile(filepath.Join(outDir, "simulation_plan.json")); err == nil {
			if p2, err := config.DecodeSimulationPlan(b); err == nil {
				rec.SavedPlanOK = c20CanonEqual(c20PlanToCanon(plan), c20PlanToCanon(p2))
			}
		}
	}

	// simulation.log
	if b, err := os.ReadFile(filepath.Join(outDir, "simulation.log")); err == nil {
		blocks := map[string]bool{}
		chartSeen := false
		for _, line := range strings.Split(string(b), "\n") {
			if m := c20RowRe.FindStringSubmatch(strings.TrimSpace(line)); m != nil {
				round, _ := strconv.ParseUint(m[2], 10, 64)
				cb, _ := strconv.ParseUint(m[5], 10, 64)
				up := m[4]
				if full := prefix[up]; len(full) == 1 {
					up = full[0]
				}
				rec.Rows = append(rec.Rows, c20Row{Block: m[1], Round: round, Sender: m[3], Upkeep: up, CheckBlock: cb})
				continue
			}
			if strings.Contains(line, "Transmitted Results") {
				chartSeen = true
			}
			if m := c20SentRe.FindStringSubmatch(line); m != nil {
				// the record is the chart: a report accepted after the chart was written (the nodes run on until they are
				// closed, after the summary) cannot have rows in it
				if chartSeen {
					rec.SentAfterChart++
				} else {
					round, _ := strconv.ParseUint(m[2], 10, 64)
					rec.Sent = append(rec.Sent, c20Sent{Sender: c20Shorten(m[1], 5), Round: round})
				}
			}
			if m := c20FinalRe.FindStringSubmatch(line); m != nil {
				rec.FinalResults, _ = strconv.Atoi(m[1])
			}
			if strings.Contains(line, "config loaded at") {
				rec.ConfigLoads++
			}
			if i := strings.Index(line, "next block: "); i >= 0 {
				blocks[strings.TrimSpace(line[i+len("next block: "):])] = true
			}
			if strings.Contains(line, "================ end ================") {
				rec.SummaryEnd = true
			}
		}
		rec.BlocksSeen = len(blocks) + 1
	}
	// per-node contract logs
	want := map[string]bool{}
	for _, r := range rec.Rows {
		want[r.Upkeep+"@"+strconv.FormatUint(r.CheckBlock, 10)] = true
		if len(r.Upkeep) == 8 { // ambiguous prefix: keep by prefix
			want["p:"+r.Upkeep+"@"+strconv.FormatUint(r.CheckBlock, 10)] = true
		}
	}
	logs, _ := filepath.Glob(filepath.Join(outDir, "*", "contract.log"))
	sort.Strings(logs)
	rec.Nodes = len(logs)
	for ni, p := range logs {
		b, err := os.ReadFile(p)
		if err != nil {
			continue
		}
		seen := map[string]bool{}
		for _, line := range strings.Split(string(b), "\n") {
			m := c20CheckRe.FindStringSubmatch(line)
			if m == nil {
				continue
			}
			rec.ChecksTotal++
			key := m[1] + "@" + m[3]
			if !(want[key] || want["p:"+c20Shorten(m[1], 8)+"@"+m[3]]) {
				continue
			}
			el := m[2] == "true"
			k2 := key + fmt.Sprint(el)
			if seen[k2] {
				continue
			}
			seen[k2] = true
			blk, _ := strconv.ParseUint(m[3], 10, 64)
			rec.Checks = append(rec.Checks, c20Check{Node: ni, Upkeep: m[1], Block: blk, Eligible: el})
		}
	}
	// per-node general logs: a plugin instance replaced by a later configuration
	glogs, _ := filepath.Glob(filepath.Join(outDir, "*", "general.log"))
	for _, p := range glogs {
		b, err := os.ReadFile(p)
		if err != nil {
			continue
		}
		for _, line := range strings.Split(string(b), "\n") {
			if strings.Contains(line, "switching between configs") && !strings.Contains(line, "oldConfigDigest: "+strings.Repeat("0", 64)) {
				rec.Switches++
			}
		}
	}
	// finished trackers as printed
	seenT := map[string]bool{}
	for _, line := range strings.Split(rec.Result.Progress, "\n") {
		if m := c20DoneRe.FindStringSubmatch(strings.TrimSpace(line)); m != nil {
			msg := strings.TrimSpace(m[1])
			if seenT[msg] {
				continue
			}
			seenT[msg] = true
			st := "done"
			if m[2] == "fail!" {
				st = "fail"
			}
			rec.Trackers = append(rec.Trackers, c20TrackerLine{Msg: msg, State: st, Value: m[3]})
		}
	}
	rec.Result.Progress = "" // parsed; not needed by the driver
	return rec
}

type c20RaceReport struct {
	ignored bool   // BOTH racing accesses are inside github.com/jedib0t/go-pretty (its own unsynchronised timeStart)
	site    string // "file:line ~ file:line" (first frame outside the standard library of each access)
}

var c20FrameFileRe = regexp.MustCompile(`^\s+(/\S+\.go:\d+)`)

// c20StdlibFrame: the function of a stack frame belongs to the standard library
// (import path without a domain: runtime.x, reflect.Value.Int, encoding/json.x, internal/…).
func c20StdlibFrame(fn string) bool {
	k := strings.LastIndex(fn, "/")
	if k < 0 {
		return true
	}
	return !strings.Contains(strings.SplitN(fn[:k], "/", 2)[0], ".")
}

// c20RaceReports splits the race detector's output into reports and locates, for
// each of the two accesses, the first frame outside the standard library.
func c20RaceReports(out string) []c20RaceReport {
	var reps []c20RaceReport
	parts := strings.Split(out, "WARNING: DATA RACE")
	for _, part := range parts[1:] {
		if i := strings.Index(part, "=================="); i >= 0 {
			part = part[:i]
		}
		lines := strings.Split(part, "\n")
		var sites []string
		accesses, inPretty := 0, 0
		for i := 0; i < len(lines); i++ {
			l := lines[i]
			if !(strings.HasPrefix(l, "Write at") || strings.HasPrefix(l, "Read at") || strings.HasPrefix(l, "Previous write at") || strings.HasPrefix(l, "Previous read at") ||
				strings.HasPrefix(l, "Atomic") || strings.HasPrefix(l, "Previous atomic")) {
				continue
			}
			accesses++
			for j := i + 1; j+1 < len(lines) && strings.TrimSpace(lines[j]) != ""; j += 2 {
				fn := strings.TrimSpace(lines[j])
				if c20StdlibFrame(fn) {
					continue
				}
				if strings.HasPrefix(fn, "github.com/jedib0t/go-pretty/") {
					inPretty++
				}
				if m := c20FrameFileRe.FindStringSubmatch(lines[j+1]); m != nil {
					f := m[1]
					if k := strings.Index(f, "/tools/simulator/"); k >= 0 {
						f = f[k+1:]
					} else if k := strings.Index(f, "/pkg/v"); k >= 0 && strings.HasPrefix(fn, "github.com/smartcontractkit/chainlink-automation/") {
						f = f[k+1:]
					} else {
						f = filepath.Base(filepath.Dir(f)) + "/" + filepath.Base(f)
					}
					sites = append(sites, f)
				}
				break
			}
		}
		reps = append(reps, c20RaceReport{ignored: accesses == 2 && inPretty == 2, site: strings.Join(sites, " ~ ")})
	}
	return reps
}

// c20CrashExcerpt: the first panic / fatal error of the child with the start of its stack, else the tail.
func c20CrashExcerpt(out string) string {
	for _, mark := range []string{"fatal error: ", "panic: "} {
		if i := strings.Index(out, mark); i >= 0 {
			end := i + 2500
			if end > len(out) {
				end = len(out)
			}
			return out[i:end]
		}
	}
	return c20Tail(out, 1500)
}

var c20RepoFrameRe = regexp.MustCompile(`/((?:tools/simulator|pkg|cmd)/\S+\.go:\d+)`)

// c20CrashSite: first line of the first panic / fatal error, the first stack frame in repository code
// (the harness module is replaced by the repository, whose files appear under their own paths), and whether
// the crashing goroutine was printing the run summary.
func c20CrashSite(out string) (string, string, bool) {
	for _, mark := range []string{"fatal error: ", "panic: "} {
		i := strings.Index(out, mark)
		if i < 0 {
			continue
		}
		rest := out[i:]
		first := rest
		if k := strings.Index(rest, "\n"); k >= 0 {
			first = rest[:k]
		}
		stack := rest
		if k := strings.Index(rest, "\n\ngoroutine "); k >= 0 { // the crashing goroutine comes first
			if k2 := strings.Index(rest[k+2:], "\n\n"); k2 >= 0 {
				stack = rest[:k+2+k2]
			}
		}
		at := ""
		for _, line := range strings.Split(stack, "\n") {
			if strings.Contains(line, "/harness/") || strings.Contains(line, "/go/pkg/mod/") {
				continue
			}
			if m := c20RepoFrameRe.FindStringSubmatch(line); m != nil {
				at = m[1]
				break
			}
		}
		return first, at, strings.Contains(stack, ").ReportResults(")
	}
	return "", "", false
}

func c20Tail(s string, n int) string {
	if len(s) <= n {
		return s
	}
	return s[len(s)-n:]
}
