package harness

import (
	"bytes"
	"context"
	"encoding/json"
	"fmt"
	"io"
	"log"
	"math/big"
	"os"
	"os/exec"
	"path/filepath"
	"sort"
	"strings"
	"sync"
	"sync/atomic"
	"testing"
	"time"

	ocr2keepers "github.com/smartcontractkit/chainlink-common/pkg/types/automation"

	"github.com/smartcontractkit/chainlink-automation/pkg/v3/stores"
	"github.com/smartcontractkit/chainlink-automation/pkg/v3/types"
	"github.com/smartcontractkit/chainlink-automation/tools/simulator/config"
	"github.com/smartcontractkit/chainlink-automation/tools/simulator/simulate/chain"
)

// C20 — plugin instances that come and go while the simulated chain runs.
//
// A valid plan may carry any number of `ocr3config` events.  Every one after the first makes libocr close the
// current plugin instance of every node and build a new one WHILE the chain keeps producing blocks: the old
// instance's services are closed (its metadata store unsubscribes from the node's BlockHistoryTracker, which
// closes the subscriber channel), the new instance subscribes.  Two groups of cases:
//
//   sim       whole-simulator runs with plans of two and three config events at different blocks (virtual time),
//             and one on the real clock with a fast chain (c20MultiConfigPlan / c20MultiConfigFastPlan)
//   churn     the chain pieces of ONE node — real BlockBroadcaster -> Listener -> BlockHistoryTracker — with
//             subscribers coming and going un-timed while blocks flow (child process, below)

// c20MultiConfigPlan: k OCR3 config events at different blocks of a run of 70–90 blocks; conditional upkeeps with
// a short eligibility period and always-eligible log upkeeps with logs under every configuration, so that
// every generation of plugin instances checks, agrees and transmits.
func c20MultiConfigPlan(r *Rng, k int) config.SimulationPlan {
	genesis := int64(r.Range(1000, 90000))
	nodes := []int{4, 5, 7}[r.Intn(3)]
	f := (nodes - 1) / 3
	span := r.Range(22, 28) // blocks between two config events
	dur, pad := span*k+r.Range(6, 12), r.Range(15, 20)
	p := config.SimulationPlan{
		Node:    config.Node{Count: nodes, MaxServiceWorkers: 100, MaxQueueSize: 1000},
		Network: config.Network{MaxLatency: config.Duration(time.Duration(r.Range(10, 100)) * time.Millisecond)},
		RPC:     config.RPC{MaxBlockDelay: r.Range(0, 600), AverageLatency: r.Range(10, 200), ErrorRate: []float64{0, 0, 0.02}[r.Intn(3)], RateLimitThreshold: 1000},
		Blocks:  config.Blocks{Genesis: big.NewInt(genesis), Cadence: config.Duration(time.Second), Duration: dur, EndPadding: pad},
	}
	at := genesis + 1
	for i := 0; i < k; i++ {
		ev := c20ConfigEvent(at, f)
		ev.Event.Comment = fmt.Sprintf("ocr config %d of %d", i+1, k)
		if i > 0 && f > 1 && r.Chance(50) {
			ev.MaxFaultyNodesF = 1 // a later configuration may tolerate fewer faulty nodes
		}
		p.ConfigEvents = append(p.ConfigEvents, ev)
		at += int64(span + r.Range(-3, 3))
	}
	period := r.Range(12, 18)
	p.GenerateUpkeeps = append(p.GenerateUpkeeps, config.GenerateUpkeepEvent{
		Event: config.Event{Type: config.GenerateUpkeepEventType, TriggerBlock: big.NewInt(genesis + int64(r.Range(0, 2)))},
		Count: r.Range(1, 3), StartID: big.NewInt(200),
		EligibilityFunc: fmt.Sprintf("%dx - %d", period, r.Range(1, period-1)), OffsetFunc: fmt.Sprintf("%dx + %d", r.Range(1, 2), r.Range(0, 3)),
		UpkeepType: config.ConditionalUpkeepType, Expected: config.AllExpected,
	})
	trig := "test_trigger_event"
	p.GenerateUpkeeps = append(p.GenerateUpkeeps, config.GenerateUpkeepEvent{
		Event: config.Event{Type: config.GenerateUpkeepEventType, TriggerBlock: big.NewInt(genesis + int64(r.Range(0, 3)))},
		Count: r.Range(1, 2), StartID: big.NewInt(5000), EligibilityFunc: "always", UpkeepType: config.LogTriggerUpkeepType,
		LogTriggeredBy: trig, Expected: config.AllExpected,
	})
	for i := 0; i < k; i++ { // one log under every configuration
		p.LogEvents = append(p.LogEvents, config.LogTriggerEvent{
			Event:        config.Event{Type: config.LogTriggerEventType, TriggerBlock: big.NewInt(genesis + int64(span*i+r.Range(8, span-6)))},
			TriggerValue: trig,
		})
	}
	return p
}

// c20EarlyReconfigPlan: the network is re-configured twice right after its first configuration, before the first
// round has been committed: three generations of plugin instances within three blocks, then a normal run whose
// upkeeps are performed under the last configuration.
func c20EarlyReconfigPlan(r *Rng) config.SimulationPlan {
	p := c20MultiConfigPlan(r, 1)
	genesis := p.Blocks.Genesis.Int64()
	f := p.ConfigEvents[0].MaxFaultyNodesF
	for i := int64(2); i <= 3; i++ {
		ev := c20ConfigEvent(genesis+i, f)
		ev.Event.Comment = fmt.Sprintf("ocr config %d of 3", i)
		p.ConfigEvents = append(p.ConfigEvents, ev)
	}
	p.Blocks.Duration += 25
	return p
}

// c20MultiConfigFastPlan: a fast chain on the REAL clock (no bubble) whose plan re-configures the network many
// times: 4 ms blocks, a config event every 50 blocks.  Closing the instances of one generation and starting the
// next takes real time here, during which every node's block source goes on handing block histories out.
func c20MultiConfigFastPlan(r *Rng) config.SimulationPlan {
	genesis := int64(r.Range(1000, 90000))
	p := config.SimulationPlan{
		Node:    config.Node{Count: 4, MaxServiceWorkers: 100, MaxQueueSize: 1000},
		Network: config.Network{MaxLatency: config.Duration(2 * time.Millisecond)},
		RPC:     config.RPC{MaxBlockDelay: 3, AverageLatency: 2, ErrorRate: 0, RateLimitThreshold: 1000},
		Blocks:  config.Blocks{Genesis: big.NewInt(genesis), Cadence: config.Duration(4 * time.Millisecond), Duration: 330, EndPadding: 30},
	}
	for i := 0; i < 6; i++ {
		ev := c20ConfigEvent(genesis+5+int64(50*i+r.Range(0, 9)), 1)
		ev.Event.Comment = fmt.Sprintf("ocr config %d of 6", i+1)
		ms := func(n int) config.Duration { return config.Duration(time.Duration(n) * time.Millisecond) }
		ev.DeltaProgress, ev.DeltaResend, ev.DeltaInitial, ev.DeltaRound, ev.DeltaGrace = ms(2000), ms(2000), ms(20), ms(40), ms(5)
		ev.DeltaRequest, ev.DeltaStage, ev.MaxQuery, ev.MaxObservation, ev.MaxAccept, ev.MaxTransmit = ms(10), ms(2000), ms(20), ms(20), ms(20), ms(20)
		p.ConfigEvents = append(p.ConfigEvents, ev)
	}
	p.GenerateUpkeeps = []config.GenerateUpkeepEvent{{
		Event: config.Event{Type: config.GenerateUpkeepEventType, TriggerBlock: big.NewInt(genesis + 2)},
		Count: 2, StartID: big.NewInt(100), EligibilityFunc: "never", UpkeepType: config.LogTriggerUpkeepType,
		LogTriggeredBy: "x", Expected: config.NoneExpected,
	}}
	return p
}

// ---------------------------------------------------------------- churn (un-timed, child process)

// What a node's chain side looks like to its plugin instances (simulate.HydrateConfig): one BlockBroadcaster,
// the node's Listener, the node's BlockHistoryTracker as `BlockSubscriber`.  `workers` goroutines each play a
// plugin slot whose instance is replaced `instances` times:
//
//   mode "stores"  stores.NewMetadataStore(tracker) [Subscribe], Start in a goroutine, wait for the first block
//                  history (bounded), Close [Unsubscribe] — the real pkg/v3 metadata store, as plugin.newPlugin
//                  and the plugin's Close use it
//   mode "raw"     tracker.Subscribe, wait for the first history, tracker.Unsubscribe, then the channel must be
//                  found closed once it is drained
//
// `slow` further subscribers stay for the whole run and drain their channel with pauses longer than the block
// cadence (a consumer that is slow, e.g. an instance whose services have not been started yet): their buffers
// fill up, and the tracker spends most of a broadcast waiting for them WHILE the others come and go.
//
// Everything is un-timed (real goroutines, the real clock only paces the chain); the amount of work is a fixed
// count.  Ω: the process survives; every instance is attached and detached; histories arrive newest first;
// every detached channel is closed; after the churn the tracker still serves a fresh subscriber (no deadlock,
// nothing left blocked on a departed subscriber).  A panic of the tracker's goroutine cannot be recovered from
// outside, hence the child process.

type c20ChurnIn struct {
	Mode      string `json:"mode"`
	Workers   int    `json:"workers"`
	Instances int    `json:"instances"` // per worker
	CadenceUs int    `json:"cadence_us"`
	Slow      int    `json:"slow"`
	PauseUs   int    `json:"pause_us"` // pause of a slow subscriber between two reads
}

type c20ChurnResult struct {
	Attached  int64  `json:"attached"`   // instances subscribed
	Detached  int64  `json:"detached"`   // … and unsubscribed again
	Saw       int64  `json:"saw"`        // … that received a block history while attached
	BadOrder  int64  `json:"bad_order"`  // histories not strictly descending by block number
	NotClosed int64  `json:"not_closed"` // raw mode: channel not closed after Unsubscribe returned
	Errors    int64  `json:"errors"`     // Subscribe / Unsubscribe / NewMetadataStore errors
	SlowSeen  int64  `json:"slow_seen"`  // histories read by the slow subscribers
	AfterOK   bool   `json:"after_ok"`   // a fresh subscriber after the churn saw the chain advance
	Head      int64  `json:"head"`       // newest block (offset from genesis) the fresh subscriber saw
	Done      bool   `json:"done"`
	Stage     string `json:"stage"`
	// filled by the parent
	Crash     string   `json:"crash"`
	CrashAt   string   `json:"crash_at"`
	ChildExit int      `json:"child_exit"`
	Races     int      `json:"races"`
	RaceSites []string `json:"race_sites"`
	RaceBuild bool     `json:"race_build"`
	WallMs    int64    `json:"wall_ms"`
}

const c20ChurnOutEnv = "C20_CHURN_OUT"
const c20ChurnGenesis = 1000

func c20Descending(h ocr2keepers.BlockHistory) bool {
	for i := 1; i < len(h); i++ {
		if h[i-1].Number <= h[i].Number {
			return false
		}
	}
	return true
}

// TestC20ChurnChild is the helper run in the child process only.
func TestC20ChurnChild(t *testing.T) {
	outPath := os.Getenv(c20ChurnOutEnv)
	if outPath == "" {
		t.Skip("helper for TestC20 (child process only)")
	}
	var in c20ChurnIn
	if err := json.Unmarshal([]byte(os.Getenv("C20_CHURN_IN")), &in); err != nil {
		t.Fatal(err)
	}
	var (
		res                                                     c20ChurnResult
		attached, detached, saw, bad, notClosed, errs, slowSeen atomic.Int64
		resMu                                                   sync.Mutex
	)
	write := func(stage string) {
		resMu.Lock()
		defer resMu.Unlock()
		res.Stage = stage
		res.Attached, res.Detached, res.Saw, res.BadOrder = attached.Load(), detached.Load(), saw.Load(), bad.Load()
		res.NotClosed, res.Errors, res.SlowSeen = notClosed.Load(), errs.Load(), slowSeen.Load()
		b, _ := json.Marshal(res)
		_ = os.WriteFile(outPath, b, 0o644)
	}
	go func() { // real-time watchdog: a deadlock between broadcast and Subscribe / Unsubscribe ends here
		limit := 90 * time.Second
		if d, err := time.ParseDuration(os.Getenv("C20_CHILD_REALLIMIT")); err == nil {
			limit = d
		}
		time.Sleep(limit)
		resMu.Lock()
		st := res.Stage
		resMu.Unlock()
		write("hang after " + st)
		os.Exit(4)
	}()
	write("start")

	logger := log.New(io.Discard, "", 0)
	conf := config.Blocks{Genesis: big.NewInt(c20ChurnGenesis), Cadence: config.Duration(time.Duration(in.CadenceUs) * time.Microsecond), Duration: 100_000_000}
	broadcaster := chain.NewBlockBroadcaster(conf, 0, logger, nil)
	listener := chain.NewListener(broadcaster, logger)
	tracker := chain.NewBlockHistoryTracker(listener, logger)
	time.Sleep(20 * time.Millisecond) // the listener subscribes from its own goroutine
	broadcaster.Start()

	utg := func(ocr2keepers.UpkeepIdentifier) types.UpkeepType { return types.ConditionTrigger }
	firstWait := 50 * time.Millisecond

	// the slow subscribers
	type slowSub struct {
		id   int
		done chan struct{}
	}
	var slows []slowSub
	for i := 0; i < in.Slow; i++ {
		id, ch, err := tracker.Subscribe()
		if err != nil {
			errs.Add(1)
			continue
		}
		s := slowSub{id: id, done: make(chan struct{})}
		slows = append(slows, s)
		go func() {
			defer close(s.done)
			for h := range ch {
				slowSeen.Add(1)
				if !c20Descending(h) {
					bad.Add(1)
				}
				time.Sleep(time.Duration(in.PauseUs) * time.Microsecond)
			}
		}()
	}
	write("churn")
	churning := make(chan struct{})
	go func() { // the counts survive a crash of the process: the witness says how far the churn had come
		for {
			select {
			case <-churning:
				return
			case <-time.After(20 * time.Millisecond):
				write("churn")
			}
		}
	}()

	var wg sync.WaitGroup
	for w := 0; w < in.Workers; w++ {
		wg.Add(1)
		go func(w int) {
			defer wg.Done()
			for k := 0; k < in.Instances; k++ {
				switch in.Mode {
				case "stores":
					ms, err := stores.NewMetadataStore(tracker, utg)
					if err != nil {
						errs.Add(1)
						continue
					}
					attached.Add(1)
					ctx, cancel := context.WithCancel(context.Background())
					started := make(chan struct{})
					go func() { _ = ms.Start(ctx); close(started) }()
					deadline := time.Now().Add(firstWait)
					var h ocr2keepers.BlockHistory
					for {
						if h = ms.GetBlockHistory(); len(h) > 0 || !time.Now().Before(deadline) {
							break
						}
						time.Sleep(50 * time.Microsecond)
					}
					if len(h) > 0 {
						saw.Add(1)
						if !c20Descending(h) {
							bad.Add(1)
						}
					}
					closeBy, closed := time.Now().Add(5*time.Second), true
					for ms.Close() != nil { // "service not running" until Start has set its flag
						if !time.Now().Before(closeBy) {
							errs.Add(1)
							closed = false
							break
						}
						time.Sleep(20 * time.Microsecond)
					}
					if closed {
						<-started // Start returns once Close has told it to
					}
					cancel()
					detached.Add(1)
				default: // "raw"
					id, ch, err := tracker.Subscribe()
					if err != nil {
						errs.Add(1)
						continue
					}
					attached.Add(1)
					select {
					case h, ok := <-ch:
						if ok {
							saw.Add(1)
							if !c20Descending(h) {
								bad.Add(1)
							}
						}
					case <-time.After(firstWait):
					}
					// an instance lives for a while and leaves at no particular phase of the block cadence: stay for
					// 0 … 2 cadences more (a fixed function of worker and instance), reading what arrives
					if hold := time.Duration((w*131+k*37)%7) * time.Duration(in.CadenceUs) * time.Microsecond / 3; hold > 0 {
						leave := time.After(hold)
					stay:
						for {
							select {
							case h, ok := <-ch:
								if ok && !c20Descending(h) {
									bad.Add(1)
								}
							case <-leave:
								break stay
							}
						}
					}
					if err := tracker.Unsubscribe(id); err != nil {
						errs.Add(1)
					}
					detached.Add(1)
					closed := false
					timeout := time.After(5 * time.Second)
				drain:
					for {
						select {
						case _, ok := <-ch:
							if !ok {
								closed = true
								break drain
							}
						case <-timeout:
							break drain
						}
					}
					if !closed {
						notClosed.Add(1)
					}
				}
			}
		}(w)
	}
	wg.Wait()
	close(churning)
	write("slow-detach")
	for _, s := range slows {
		if err := tracker.Unsubscribe(s.id); err != nil {
			errs.Add(1)
		}
		<-s.done
	}
	write("after")
	// the tracker must still be alive and serving
	if id, ch, err := tracker.Subscribe(); err == nil {
		// blocks that piled up behind slow subscribers may still be arriving out of order (the head then stays where
		// it is for a while): wait until the newest block of the history has advanced
		first, head, advanced := int64(-1), int64(-1), false
		timeout := time.After(15 * time.Second)
	after:
		for !advanced {
			select {
			case h, ok := <-ch:
				if !ok {
					break after
				}
				if !c20Descending(h) {
					bad.Add(1)
				}
				if len(h) > 0 {
					head = int64(h[0].Number) - c20ChurnGenesis
					if first < 0 {
						first = head
					}
					advanced = head > first
				}
			case <-timeout:
				break after
			}
		}
		_ = tracker.Unsubscribe(id)
		resMu.Lock()
		res.AfterOK, res.Head = advanced, head
		resMu.Unlock()
	} else {
		errs.Add(1)
	}
	resMu.Lock()
	res.Done = true
	resMu.Unlock()
	write("done")
	os.Exit(0) // the chain components stop through finalizers only
}

func c20RunChurn(in c20Input, exe string, raceBuild bool) c20ChurnResult {
	var r c20ChurnResult
	for attempt := 0; attempt < 3; attempt++ {
		var tsan bool
		r, tsan = c20RunChurnOnce(in, exe, raceBuild)
		if !tsan {
			break
		}
	}
	return r
}

func c20RunChurnOnce(in c20Input, exe string, raceBuild bool) (c20ChurnResult, bool) {
	res := c20ChurnResult{RaceSites: []string{}, RaceBuild: raceBuild}
	dir, err := os.MkdirTemp("", "c20churn")
	if err != nil {
		res.Crash = "harness: " + err.Error()
		return res, false
	}
	defer os.RemoveAll(dir)
	outPath := filepath.Join(dir, "result.json")
	inJSON, _ := json.Marshal(in.Churn)
	cmd := exec.Command(exe, "-test.run", "^TestC20ChurnChild$", "-test.timeout", "10m")
	coverChild(cmd)
	cmd.Env = append(os.Environ(), c20ChurnOutEnv+"="+outPath, "C20_CHURN_IN="+string(inJSON), "VERIF_OUT="+filepath.Join(dir, "unused.jsonl"))
	if raceBuild {
		cmd.Env = append(cmd.Env, "C20_CHILD_REALLIMIT=240s")
	}
	var buf bytes.Buffer
	cmd.Stdout, cmd.Stderr = &buf, &buf
	t0 := time.Now()
	runErr := cmd.Run()
	if b, err := os.ReadFile(outPath); err == nil {
		_ = json.Unmarshal(b, &res)
	}
	res.RaceSites, res.RaceBuild = []string{}, raceBuild
	res.WallMs = time.Since(t0).Milliseconds()
	if ee, ok := runErr.(*exec.ExitError); ok {
		res.ChildExit = ee.ExitCode()
	} else if runErr != nil {
		res.ChildExit = -1
	}
	out := buf.String()
	for _, rep := range c20RaceReports(out) {
		if !rep.ignored {
			res.Races++
			res.RaceSites = append(res.RaceSites, rep.site)
		}
	}
	sort.Strings(res.RaceSites)
	res.Crash, res.CrashAt, _ = c20CrashSite(out)
	if res.Crash == "" && res.ChildExit != 0 && res.Races == 0 {
		res.Crash = fmt.Sprintf("child exit %d (%s): %s", res.ChildExit, res.Stage, c20Tail(out, 300))
	}
	return res, strings.Contains(out, "ThreadSanitizer: CHECK failed")
}
