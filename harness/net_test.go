package harness

import (
	"context"
	"crypto/sha256"
	"encoding/binary"
	"fmt"
	"math/big"
	"sort"
	"sync"
	"testing"
	"testing/synctest"
	"time"

	gojson "encoding/json"
	"github.com/smartcontractkit/libocr/commontypes"
	"github.com/smartcontractkit/libocr/offchainreporting2plus/ocr3types"
	ocr2plustypes "github.com/smartcontractkit/libocr/offchainreporting2plus/types"

	ocr2keepersv3 "github.com/smartcontractkit/chainlink-automation/pkg/v3"
	"github.com/smartcontractkit/chainlink-automation/pkg/v3/types"
	ocr2keepers "github.com/smartcontractkit/chainlink-common/pkg/types/automation"
)

// C09 — a network of n real plugin instances (public factory) driven through
// consecutive OCR3 rounds by a mini round driver, with up to f Byzantine or
// crashing members, late / duplicated transmit events and restarts.

// ---------------------------------------------------------------- simulated chain + pipeline

type netUpkeep struct {
	bigGas     bool // its gas allocation alone exceeds the report gas limit
	id         ocr2keepers.UpkeepIdentifier
	log        bool
	eligibleAt uint64 // conditional: eligible for check blocks >= eligibleAt
	logs       []netLog
}

type netLog struct {
	block uint64
	ext   ocr2keepers.LogTriggerExtension
	done  bool
}

type netTransmit struct {
	block   uint64
	tx      [32]byte
	upkeeps []ocr2keepers.CheckResult
}

type netFakeEvent struct {
	from uint64 // first block at which providers return it
	ev   ocr2keepers.TransmitEvent
}

type JNetEvent struct {
	Round      int    `json:"round"` // first round in which this member's provider returned the event
	Node       int    `json:"node"`
	WID        string `json:"wid"`
	CheckBlock uint64 `json:"cb"`
	Type       int    `json:"type"`
}

// JNetEv / JNetOp: the run as ONE totally ordered list of operations with virtual times, detailed enough to replay it
// on the network model (lean/AutoVerif/Model/Net.lean) step by step: rounds, every ShouldAccept / ShouldTransmit call
// with its answer, every answer of a member's transmit event provider (one coordinator poll), every restart.
type JNetEv struct {
	W    string `json:"w"`
	Tx   string `json:"tx"`
	Ty   int    `json:"ty"`
	Tb   uint64 `json:"tb"`
	Cb   uint64 `json:"cb"`
	Conf int64  `json:"conf"`
}

type JNetOp struct {
	At     int64    `json:"at"`     // virtual nanoseconds since the run started
	Kind   string   `json:"k"`      // round | accept | transmit | poll | restart
	Node   int      `json:"node"`   // member (unused for round)
	Report int      `json:"report"` // accept / transmit: report id; round: index into Rounds
	Ans    bool     `json:"ans"`    // accept / transmit: the answer; round: Reports returned without error
	Evs    []JNetEv `json:"evs,omitempty"`
}

type netWorld struct {
	start    time.Time
	ops      []JNetOp
	fake     []netFakeEvent
	seenEv   map[string]bool
	evLog    []JNetEvent
	curRound int
	mu        sync.Mutex
	r         *Rng
	height    uint64
	hashes    map[uint64][32]byte
	upkeeps   []*netUpkeep
	transmits []netTransmit
	performed map[string]uint64 // work id -> transmit block
}

// op records one operation of the main goroutine (the providers record their polls themselves, under the same lock)
func (w *netWorld) op(kind string, node, report int, ans bool) {
	w.mu.Lock()
	w.ops = append(w.ops, JNetOp{At: int64(time.Since(w.start)), Kind: kind, Node: node, Report: report, Ans: ans})
	w.mu.Unlock()
}

func (w *netWorld) hash(h uint64) [32]byte {
	if v, ok := w.hashes[h]; ok {
		return v
	}
	var v [32]byte
	s := sha256.Sum256(append([]byte("blk"), seqBytes(h)...))
	copy(v[:], s[:])
	w.hashes[h] = v
	return v
}

func (w *netWorld) history(top uint64, depth int) ocr2keepers.BlockHistory {
	var out ocr2keepers.BlockHistory
	for d := 0; d < depth && uint64(d) < top; d++ {
		out = append(out, ocr2keepers.BlockKey{Number: ocr2keepers.BlockNumber(top - uint64(d)), Hash: w.hash(top - uint64(d))})
	}
	return out
}

// checkResult is the deterministic "on-chain truth" every honest pipeline computes.
func (w *netWorld) checkResult(p ocr2keepers.UpkeepPayload) (ocr2keepers.CheckResult, bool) {
	var up *netUpkeep
	for _, u := range w.upkeeps {
		if u.id == p.UpkeepID {
			up = u
		}
	}
	res := ocr2keepers.CheckResult{UpkeepID: p.UpkeepID, Trigger: p.Trigger, WorkID: p.WorkID}
	if up == nil {
		return res, false
	}
	blk := uint64(p.Trigger.BlockNumber)
	if up.log {
		if _, done := w.performed[p.WorkID]; done {
			res.IneligibilityReason = 1
			return res, true
		}
	} else if blk < up.eligibleAt {
		res.IneligibilityReason = 1
		return res, true
	}
	h := sha256.Sum256(append(append([]byte{}, p.UpkeepID[:]...), seqBytes(blk)...))
	res.Eligible = true
	res.GasAllocated = 100_000 + uint64(binary.LittleEndian.Uint16(h[:2]))
	if up.bigGas {
		res.GasAllocated += 5_100_000
	}
	res.PerformData = append([]byte{}, h[2:2+int(h[1]%20)]...)
	res.FastGasWei = new(big.Int).SetUint64(1_000_000 + blk)
	res.LinkNative = new(big.Int).SetUint64(5_000_000 + blk%7)
	return res, true
}

// ---------------------------------------------------------------- one member of the network

type netPipelineEntry struct {
	Node int `json:"node"`
	Res  JCR `json:"res"`
}

type netMember struct {
	id        int
	node      *Node
	byzantine bool
	restarts  int
	evDelay   int // blocks of delay before this node's event provider shows a transmit
	lag       uint64
	deviant   bool          // a faulty member that runs the REAL plugin over a slow pipeline answering "eligible" with made-up data
	condCalls int           // conditional payloads this member's pipeline was asked about
	quiet     bool          // a decoy instance built on the same factory is alive: its polls are neither answered nor recorded
	lastPoll  time.Duration // virtual time of the instance's start or of its latest poll of the event provider
	maxGap    time.Duration // longest time the running instance went without polling its event provider
	accepted  map[int]bool // report ids this instance has accepted (since its last restart)
	everAcc   map[int]bool // report ids ever handed to ShouldAccept on this member (libocr persists accepted reports
	// across plugin restarts and keeps asking ShouldTransmit for them)
}

type netEvents struct {
	w *netWorld
	m *netMember
}

func (m *netMember) mark(now time.Duration) {
	if g := now - m.lastPoll; g > m.maxGap {
		m.maxGap = g
	}
	m.lastPoll = now
}

func (e *netEvents) GetLatestEvents(context.Context) ([]ocr2keepers.TransmitEvent, error) {
	e.w.mu.Lock()
	defer e.w.mu.Unlock()
	if e.m.quiet || e.m.deviant {
		return nil, nil
	}
	e.m.mark(time.Since(e.w.start))
	var out []ocr2keepers.TransmitEvent
	top := e.w.height
	note := func(ev ocr2keepers.TransmitEvent) {
		k := fmt.Sprintf("%d|%s|%d|%d|%x", e.m.id, ev.WorkID, ev.CheckBlock, ev.Type, ev.TransactionHash[:4])
		if !e.w.seenEv[k] {
			e.w.seenEv[k] = true
			e.w.evLog = append(e.w.evLog, JNetEvent{Round: e.w.curRound, Node: e.m.id, WID: ev.WorkID, CheckBlock: uint64(ev.CheckBlock), Type: int(ev.Type)})
		}
	}
	for _, fe := range e.w.fake {
		if fe.from+uint64(e.m.evDelay) <= top {
			ev := fe.ev
			ev.Confirmations = int64(top-fe.from) + 2
			out = append(out, ev)
			note(ev)
		}
	}
	for _, t := range e.w.transmits {
		if t.block+uint64(e.m.evDelay) > top || top-t.block > 200 {
			continue
		}
		for _, u := range t.upkeeps {
			ev := ocr2keepers.TransmitEvent{Type: ocr2keepers.PerformEvent, TransmitBlock: ocr2keepers.BlockNumber(t.block), Confirmations: int64(top - t.block),
				TransactionHash: t.tx, UpkeepID: u.UpkeepID, WorkID: u.WorkID, CheckBlock: u.Trigger.BlockNumber}
			out = append(out, ev)
			note(ev)
			if e.w.r.Chance(10) {
				out = append(out, ev) // duplicated delivery
			}
		}
	}
	po := JNetOp{At: int64(time.Since(e.w.start)), Kind: "poll", Node: e.m.id}
	for _, ev := range out {
		po.Evs = append(po.Evs, JNetEv{W: ev.WorkID, Tx: hx(ev.TransactionHash[:]), Ty: int(ev.Type), Tb: uint64(ev.TransmitBlock), Cb: uint64(ev.CheckBlock), Conf: ev.Confirmations})
	}
	e.w.ops = append(e.w.ops, po)
	return out, nil
}

// ---------------------------------------------------------------- trace (case input / impl)

type JNetObs struct {
	Oracle    int   `json:"oracle"`
	Byzantine bool  `json:"byz"`
	Valid     bool  `json:"valid"` // ValidateObservation of an honest member accepted it
	Perf      []JCR `json:"perf"`
}

type JNetQuery struct {
	Round    int  `json:"round"`
	Node     int  `json:"node"`
	Report   int  `json:"report"`
	Accept   bool `json:"accept"`   // this is the answer of ShouldAccept (only when IsAccept)
	IsAccept bool `json:"isAccept"` // query kind
	Transmit bool `json:"transmit"` // answer of ShouldTransmit
	Pre      bool `json:"pre"`      // asked right before the round's observations were built
}

type JNetRound struct {
	Seq       uint64    `json:"seq"`
	Obs       []JNetObs `json:"obs"`
	Agreed    []JCR     `json:"agreed"`
	Reports   []int     `json:"reports"` // ids into Trace.Reports
	Disagree  bool      `json:"disagree"` // honest members computed different outcome bytes
	OutcomeOK bool      `json:"outcomeOk"`
}

type JNetReport struct {
	ID      int   `json:"id"`
	Round   int   `json:"round"`
	Upkeeps []JCR `json:"upkeeps"`
}

type JNetTrace struct {
	N        int                `json:"n"`
	F        int                `json:"f"`
	Honest   []int              `json:"honest"`   // never Byzantine (may have been restarted)
	Correct  []int              `json:"correct"`  // neither Byzantine nor ever restarted
	Restarts map[string][]int   `json:"restarts"` // node -> rounds at which it was restarted
	Pipeline []netPipelineEntry `json:"pipeline"` // eligible results returned by honest members' pipelines
	Rounds   []JNetRound        `json:"rounds"`
	Reports  []JNetReport       `json:"reports"`
	Queries  []JNetQuery        `json:"queries"`
	Events   []JNetEvent        `json:"events"` // when each member's event provider first returned each transmit event
	// replay information (absent in traces recorded before the network model existed)
	Ops      []JNetOp `json:"ops,omitempty"`
	WindowNs int64    `json:"windowNs,omitempty"` // PerformLockoutWindow of the members, ns
	MinConf  int      `json:"minConf,omitempty"`
	Batch    int      `json:"batch,omitempty"` // MaxUpkeepBatchSize
}

type JNetImpl struct {
	Performed   int `json:"performed"`
	QuorumMismatch int `json:"quorumMismatch,omitempty"` // ObservationQuorum answers that differ from "at least 2f+1 observations"
	SamplingStarved int `json:"samplingStarved,omitempty"` // never restarted honest members with conditional upkeeps whose pipeline was never asked about one
	MaxPollGapMs int `json:"maxPollGapMs,omitempty"` // longest virtual time an open honest member went without polling its transmit event provider
	FirstReport map[string]int `json:"firstReport"` // upkeep -> first round in which it was reported
	Eligible    map[string]int `json:"eligible"`    // upkeep -> round at which it became eligible for everybody
}

// ---------------------------------------------------------------- driver

type netOpts struct {
	rounds     int
	conds      int
	logs       int
	byz        int
	crashes    int
	lateAccept bool
}

func runNetwork(t *testing.T, r *Rng, em *Emitter, roundEm func(JRound, JRoundImpl)) (JNetTrace, JNetImpl) {
	ns := []int{4, 4, 7, 5, 6, 9}
	n := ns[r.Intn(len(ns))]
	f := (n - 1) / 3
	faulty := r.Range(0, f)
	byz := r.Range(0, faulty)
	opts := netOpts{rounds: r.Range(12, 28), conds: r.Range(0, 6), logs: r.Range(0, 5), byz: byz, crashes: faulty - byz, lateAccept: r.Chance(60)}
	em.Hit(fmt.Sprintf("n=%d,f=%d,byz=%d,crash=%d", n, f, opts.byz, opts.crashes))

	w := &netWorld{start: time.Now(), seenEv: map[string]bool{}, r: r.Fork(), height: uint64(r.Range(100, 100000)), hashes: map[uint64][32]byte{}, performed: map[string]uint64{}}
	if r.Chance(20) {
		w.height = uint64(r.Range(95, 99)) // crosses 100 during the run
	}
	for i := 0; i < opts.conds; i++ {
		w.upkeeps = append(w.upkeeps, &netUpkeep{id: genUpkeepID(r, false), eligibleAt: w.height + uint64(r.Range(0, 12)), bigGas: r.Chance(15)})
	}
	for i := 0; i < opts.logs; i++ {
		w.upkeeps = append(w.upkeeps, &netUpkeep{id: genUpkeepID(r, true), log: true, bigGas: r.Chance(15)})
	}
	digest := genHash(r)
	trace := JNetTrace{N: n, F: f, Restarts: map[string][]int{}, WindowNs: int64(100000 * time.Millisecond), MinConf: 1, Batch: 3}
	impl := JNetImpl{FirstReport: map[string]int{}, Eligible: map[string]int{}}
	var pipeMu sync.Mutex

	members := make([]*netMember, n)
	perm := r.Perm(n)
	crashers := map[int]bool{}
	for i := 0; i < n; i++ {
		members[i] = &netMember{id: i, accepted: map[int]bool{}, everAcc: map[int]bool{}, evDelay: r.Range(0, 3), lag: uint64(r.Intn(2))}
	}
	for k := 0; k < opts.byz; k++ {
		members[perm[k]].byzantine = true
	}
	if opts.byz > 0 && r.Chance(40) {
		members[perm[0]].deviant = true
		em.Hit("deviant-member")
	}
	// sampling settings of the off-chain config: the default, the one of the simulator's plans, a relaxed target
	sampling := []string{``, `,"targetProbability":"0.999","targetInRounds":4`, `,"targetProbability":"0.5","targetInRounds":20`}[r.Intn(3)]
	pipeDelay := time.Duration(0)
	if r.Chance(50) {
		pipeDelay = time.Duration(r.Range(5, 40)) * time.Millisecond
	}
	for k := opts.byz; k < opts.byz+opts.crashes; k++ {
		crashers[perm[k]] = true
	}
	for _, m := range members {
		if !m.byzantine {
			trace.Honest = append(trace.Honest, m.id)
			if !crashers[m.id] {
				trace.Correct = append(trace.Correct, m.id)
			}
		}
	}

	startMember := func(m *netMember) {
		// libocr builds every instance of a node on ONE factory: an instance for an earlier configuration (other window,
		// confirmations, batch size, n, f) has been built and closed on it before
		w.mu.Lock()
		m.quiet = true
		w.mu.Unlock()
		decoy := &NodeOpts{N: n + 3, F: f + 1, OracleID: m.id, OffchainConfig: []byte(`{"performLockoutWindow":7000,"minConfirmations":3,"maxUpkeepBatchSize":1}`)}
		if (m.id+m.restarts)%2 == 0 {
			// … or one that differs only in settings the coordinator does not read
			decoy.OffchainConfig = []byte(`{"performLockoutWindow":100000,"minConfirmations":1,"maxUpkeepBatchSize":1,"gasLimitPerReport":1000000}`)
		}
		node := NewNodeWith(t, NodeOpts{N: n, F: f, Digest: digest, OracleID: m.id, OffchainConfig: []byte(`{"performLockoutWindow":100000,"minConfirmations":1,"maxUpkeepBatchSize":3` + sampling + `}`),
			Decoy: decoy, AfterDecoy: func() {
				w.mu.Lock()
				m.quiet = false
				m.lastPoll = time.Since(w.start)
				w.mu.Unlock()
			}}, &netEvents{w: w, m: m})
		node.Run.mu.Lock()
		node.Run.fn = func(_ context.Context, ps []ocr2keepers.UpkeepPayload) ([]ocr2keepers.CheckResult, error) {
			if m.deviant {
				// slow and wrong: everything is eligible, with data no honest pipeline computes
				time.Sleep(150 * time.Millisecond)
				out := make([]ocr2keepers.CheckResult, 0, len(ps))
				for _, p := range ps {
					out = append(out, ocr2keepers.CheckResult{Eligible: true, UpkeepID: p.UpkeepID, Trigger: p.Trigger, WorkID: p.WorkID,
						GasAllocated: 4242, PerformData: []byte{0xde, 0xad}, FastGasWei: big.NewInt(3), LinkNative: big.NewInt(3)})
				}
				return out, nil
			}
			if pipeDelay > 0 {
				time.Sleep(pipeDelay)
			}
			w.mu.Lock()
			defer w.mu.Unlock()
			out := make([]ocr2keepers.CheckResult, 0, len(ps))
			for _, p := range ps {
				if p.Trigger.LogTriggerExtension == nil {
					m.condCalls++
				}
				res, _ := w.checkResult(p)
				out = append(out, res)
				if res.Eligible {
					pipeMu.Lock()
					trace.Pipeline = append(trace.Pipeline, netPipelineEntry{Node: m.id, Res: toJCR(res)})
					pipeMu.Unlock()
				}
			}
			return out, nil
		}
		node.Run.mu.Unlock()
		m.node = node
		m.accepted = map[int]bool{}
	}
	for _, m := range members {
		if !m.byzantine || m.deviant {
			startMember(m)
		}
	}
	time.Sleep(1500 * time.Millisecond)

	var prevBytes []byte
	type pendingAccept struct {
		node, report, due int
	}
	var pend []pendingAccept
	reportBytes := map[int][]byte{}
	transmitted := map[int]bool{}
	seq := uint64(r.Range(1, 50))

	feed := func(round int) {
		// new blocks, block histories, active upkeeps, new log events
		w.mu.Lock()
		w.height += uint64(r.Range(1, 3))
		top := w.height
		for _, u := range w.upkeeps {
			if u.log && r.Chance(25) && len(u.logs) < 4 {
				u.logs = append(u.logs, netLog{block: top, ext: ocr2keepers.LogTriggerExtension{TxHash: genHash(r), Index: uint32(r.Intn(3)), BlockHash: w.hash(top), BlockNumber: ocr2keepers.BlockNumber(top)}})
			}
			if !u.log && u.eligibleAt <= top {
				if _, ok := impl.Eligible[hx(u.id[:])]; !ok {
					impl.Eligible[hx(u.id[:])] = round
				}
			}
		}
		w.mu.Unlock()
		for _, m := range members {
			if m.node == nil {
				continue
			}
			mtop := top - m.lag
			m.node.Blocks.Publish(w.history(mtop, 20))
			var active []ocr2keepers.UpkeepPayload
			var logs []ocr2keepers.UpkeepPayload
			w.mu.Lock()
			for _, u := range w.upkeeps {
				if !u.log {
					trig := ocr2keepers.NewTrigger(ocr2keepers.BlockNumber(mtop), w.hash(mtop))
					active = append(active, ocr2keepers.UpkeepPayload{UpkeepID: u.id, Trigger: trig, WorkID: wg(u.id, trig)})
				} else {
					for _, l := range u.logs {
						ext := l.ext
						// every member checks a log at the block in which it was emitted
						trig := ocr2keepers.NewLogTrigger(ocr2keepers.BlockNumber(l.block), w.hash(l.block), &ext)
						logs = append(logs, ocr2keepers.UpkeepPayload{UpkeepID: u.id, Trigger: trig, WorkID: wg(u.id, trig)})
					}
				}
			}
			w.mu.Unlock()
			m.node.Getter.mu.Lock()
			m.node.Getter.upkeeps = active
			m.node.Getter.mu.Unlock()
			m.node.Logs.mu.Lock()
			m.node.Logs.payloads = logs
			m.node.Logs.mu.Unlock()
		}
	}

	honestUp := func() []*netMember {
		var out []*netMember
		for _, m := range members {
			if !m.byzantine && m.node != nil {
				out = append(out, m)
			}
		}
		return out
	}

	for round := 0; round < opts.rounds; round++ {
		w.mu.Lock()
		w.curRound = round
		w.mu.Unlock()
		feed(round)
		time.Sleep(time.Duration(1137+r.Intn(900)) * time.Millisecond)
		synctest.Wait()

		// crashes: restart (state loss) at a round boundary
		for id := range crashers {
			if r.Chance(15) {
				m := members[id]
				w.mu.Lock()
				m.mark(time.Since(w.start))
				w.mu.Unlock()
				m.node.Close()
				w.op("restart", id, 0, false)
				startMember(m)
				m.restarts++
				trace.Restarts[fmt.Sprint(id)] = append(trace.Restarts[fmt.Sprint(id)], round)
				em.Hit("restart")
				time.Sleep(1300 * time.Millisecond)
				synctest.Wait() // polls due at this instant complete before the next call (total order of the recorded operations)
			}
		}

		// deliver delayed accepts that are due
		var rest []pendingAccept
		for _, p := range pend {
			if p.due <= round {
				m := members[p.node]
				ok, _ := m.node.Plugin.ShouldAcceptAttestedReport(context.Background(), seq, ocr3types.ReportWithInfo[pluginInfo]{Report: reportBytes[p.report]})
				m.accepted[p.report] = true
				m.everAcc[p.report] = true
				trace.Queries = append(trace.Queries, JNetQuery{Round: round, Node: p.node, Report: p.report, IsAccept: true, Accept: ok})
				w.op("accept", p.node, p.report, ok)
				em.Hit("late-accept")
			} else {
				rest = append(rest, p)
			}
		}
		pend = rest

		// --- observations
		up := honestUp()
		// what is in flight where, right before the observations are built
		for _, m := range up {
			ids := make([]int, 0, len(m.everAcc))
			for id := range m.everAcc {
				ids = append(ids, id)
			}
			sort.Ints(ids)
			for _, id := range ids {
				ok, _ := m.node.Plugin.ShouldTransmitAcceptedReport(context.Background(), seq, ocr3types.ReportWithInfo[pluginInfo]{Report: reportBytes[id]})
				trace.Queries = append(trace.Queries, JNetQuery{Round: round, Node: m.id, Report: id, Transmit: ok, Pre: true})
				w.op("transmit", m.id, id, ok)
			}
		}
		var aos []ocr2plustypes.AttributedObservation
		jr := JNetRound{Seq: seq}
		need := 2*f + 1
		// leader-chosen subset: all Byzantine members that want to + enough honest ones
		order := r.Perm(len(up))
		take := len(up)
		if r.Chance(40) {
			minHonest := need - opts.byz
			if minHonest < 0 {
				minHonest = 0
			}
			if minHonest <= len(up) {
				take = r.Range(minHonest, len(up))
			}
		}
		var honestObs [][]byte
		for _, k := range order[:take] {
			m := up[k]
			b, err := m.node.Plugin.Observation(context.Background(), ocr3types.OutcomeContext{SeqNr: seq, PreviousOutcome: prevBytes}, nil)
			if err != nil {
				continue
			}
			honestObs = append(honestObs, b)
			aos = append(aos, ocr2plustypes.AttributedObservation{Observation: b, Observer: commontypes.OracleID(m.id)})
		}
		for _, m := range members {
			if !m.byzantine || r.Chance(20) {
				continue
			}
			var b []byte
			kind := r.Intn(7)
			if m.deviant {
				kind = 7
			}
			em.Hit(fmt.Sprintf("net-byz-%d", kind))
			switch {
			case kind == 7: // the real plugin over a deviating pipeline
				if ob, err := m.node.Plugin.Observation(context.Background(), ocr3types.OutcomeContext{SeqNr: seq, PreviousOutcome: prevBytes}, nil); err == nil {
					b = ob
				}
			case kind == 0 && len(honestObs) > 0: // replay an honest observation
				b = honestObs[r.Intn(len(honestObs))]
			case kind == 1 && len(honestObs) > 0: // mutate every performable of an honest observation in one field
				var o ocr2keepersv3.AutomationObservation
				if gojson.Unmarshal(honestObs[r.Intn(len(honestObs))], &o) == nil {
					for i := range o.Performable {
						o.Performable[i] = mutateOneField(r, o.Performable[i], 8+r.Intn(3))
					}
					b = must(o.Encode())
				}
			case kind == 2: // fabricate results nobody's pipeline produced
				var o ocr2keepersv3.AutomationObservation
				o.BlockHistory = w.history(w.height, 5)
				for _, u := range w.upkeeps {
					trig := ocr2keepers.NewTrigger(ocr2keepers.BlockNumber(w.height), w.hash(w.height))
					if u.log {
						if len(u.logs) == 0 {
							continue
						}
						ext := u.logs[0].ext
						trig = ocr2keepers.NewLogTrigger(ocr2keepers.BlockNumber(u.logs[0].block), w.hash(u.logs[0].block), &ext)
					}
					o.Performable = append(o.Performable, ocr2keepers.CheckResult{Eligible: true, UpkeepID: u.id, Trigger: trig, WorkID: wg(u.id, trig),
						GasAllocated: 77, PerformData: []byte{0xba, 0xd0}, FastGasWei: big.NewInt(1), LinkNative: big.NewInt(1)})
				}
				b = must(o.Encode())
			case kind == 5 && len(honestObs) > 0: // UniqueID-collision partners (int64 wrap of gas) of what honest members send
				var o ocr2keepersv3.AutomationObservation
				if gojson.Unmarshal(honestObs[r.Intn(len(honestObs))], &o) == nil {
					for i := range o.Performable {
						o.Performable[i].GasAllocated = -o.Performable[i].GasAllocated // 2^64 - g: same UniqueID bytes
					}
					b = must(o.Encode())
				}
			case kind == 6: // one member lists the same fabricated result twice, not adjacent: [W, X, W]
				{
					var o ocr2keepersv3.AutomationObservation
					o.BlockHistory = w.history(w.height, 5)
					mk := func() ocr2keepers.CheckResult {
						uid := genUpkeepID(r, false)
						trig := ocr2keepers.NewTrigger(ocr2keepers.BlockNumber(w.height), w.hash(w.height))
						return ocr2keepers.CheckResult{Eligible: true, UpkeepID: uid, Trigger: trig, WorkID: wg(uid, trig), GasAllocated: 99, PerformData: []byte{0x66}, FastGasWei: big.NewInt(2), LinkNative: big.NewInt(2)}
					}
					wres, xres := mk(), mk()
					o.Performable = []ocr2keepers.CheckResult{wres, xres, wres}
					for k := 0; k < f; k++ {
						o.Performable = append(o.Performable, mk(), wres)
					}
					b = must(o.Encode())
				}
			case kind == 3:
				b = r.Bytes(r.Range(0, 30))
			default:
				b = must(ocr2keepersv3.AutomationObservation{BlockHistory: w.history(w.height+50, 3)}.Encode())
			}
			if b != nil {
				aos = append(aos, ocr2plustypes.AttributedObservation{Observation: b, Observer: commontypes.OracleID(m.id)})
			}
		}
		// libocr asks the plugin whether the observations it has collected form a quorum: it must say yes exactly from
		// 2f+1 on (n is not always 3f+1)
		if len(up) > 0 {
			for k := 0; k <= len(aos); k++ {
				q, qerr := up[0].node.Plugin.ObservationQuorum(context.Background(), ocr3types.OutcomeContext{SeqNr: seq, PreviousOutcome: prevBytes}, nil, aos[:k])
				if qerr != nil || q != (k >= need) {
					impl.QuorumMismatch++
				}
			}
		}
		if len(aos) < need || len(up) == 0 {
			em.Hit("round-without-quorum")
			trace.Rounds = append(trace.Rounds, jr)
			seq++
			continue
		}
		// delivery order
		po := r.Perm(len(aos))
		shuf := make([]ocr2plustypes.AttributedObservation, len(aos))
		for i, k := range po {
			shuf[i] = aos[k]
		}
		aos = shuf
		if r.Chance(50) {
			// adversarial delivery order: Byzantine observations first
			sort.SliceStable(aos, func(i, j int) bool { return members[aos[i].Observer].byzantine && !members[aos[j].Observer].byzantine })
		}
		validator := up[0].node.Plugin
		var rawsK [][]byte
		var oraclesK []int
		for _, ao := range aos {
			jo := JNetObs{Oracle: int(ao.Observer), Byzantine: members[ao.Observer].byzantine}
			jo.Valid = validator.ValidateObservation(context.Background(), ocr3types.OutcomeContext{SeqNr: seq, PreviousOutcome: prevBytes}, nil, ao) == nil
			var o ocr2keepersv3.AutomationObservation
			if gojson.Unmarshal(ao.Observation, &o) == nil {
				jo.Perf = toJCRs(o.Performable)
			}
			jr.Obs = append(jr.Obs, jo)
			rawsK = append(rawsK, ao.Observation)
			oraclesK = append(oraclesK, int(ao.Observer))
		}
		// --- outcome on every honest member
		var outBytes []byte
		for i, m := range up {
			ob, err := m.node.Plugin.Outcome(context.Background(), ocr3types.OutcomeContext{SeqNr: seq, PreviousOutcome: prevBytes}, nil, aos)
			if err != nil {
				continue
			}
			if i == 0 || outBytes == nil {
				outBytes = ob
			} else if string(ob) != string(outBytes) {
				jr.Disagree = true
			}
		}
		if outBytes == nil {
			trace.Rounds = append(trace.Rounds, jr)
			seq++
			continue
		}
		jr.OutcomeOK = true
		var outcome ocr2keepersv3.AutomationOutcome
		_ = gojson.Unmarshal(outBytes, &outcome)
		jr.Agreed = toJCRs(outcome.AgreedPerformables)
		if false && roundEm != nil {
			var prevO *ocr2keepersv3.AutomationOutcome
			if prevBytes != nil {
				var po ocr2keepersv3.AutomationOutcome
				if gojson.Unmarshal(prevBytes, &po) == nil {
					prevO = &po
				}
			}
			in := buildRound(n, f, digest, seq, prevO, rawsK, oraclesK)
			jo := toJOutcome(outcome)
			roundEm(in, JRoundImpl{Outcome: &jo, Bytes: hx(outBytes)})
		}
		// --- reports
		reps, err := up[0].node.Plugin.Reports(context.Background(), seq, outBytes)
		calls := up[0].node.Enc.Take()
		w.op("round", 0, round, err == nil)
		if roundEm != nil {
			var prevO *ocr2keepersv3.AutomationOutcome
			if prevBytes != nil {
				var po ocr2keepersv3.AutomationOutcome
				if gojson.Unmarshal(prevBytes, &po) == nil {
					prevO = &po
				}
			}
			in := buildRound(n, f, digest, seq, prevO, rawsK, oraclesK)
			jo := toJOutcome(outcome)
			im := JRoundImpl{Outcome: &jo, Bytes: hx(outBytes)}
			for _, c := range calls {
				im.Reports = append(im.Reports, toJCRs(c))
			}
			im.HasReports = err == nil
			roundEm(in, im)
		}
		if err == nil {
			for i, rp := range reps {
				id := len(trace.Reports)
				var ups []ocr2keepers.CheckResult
				if i < len(calls) {
					ups = calls[i]
				}
				trace.Reports = append(trace.Reports, JNetReport{ID: id, Round: round, Upkeeps: toJCRs(ups)})
				reportBytes[id] = rp.ReportWithInfo.Report
				jr.Reports = append(jr.Reports, id)
				if r.Chance(30) {
					// a late event that belongs to an OLDER check of the same work (e.g. another transmitter's stale report):
					// it must not release the newer report
					for _, u := range ups {
						if uint64(u.Trigger.BlockNumber) > 6 {
							w.mu.Lock()
							ty := ocr2keepers.StaleReportEvent
							if r.Bool() {
								ty = ocr2keepers.PerformEvent
							}
							w.fake = append(w.fake, netFakeEvent{from: w.height + 1, ev: ocr2keepers.TransmitEvent{Type: ty, TransmitBlock: ocr2keepers.BlockNumber(w.height + 1),
								TransactionHash: genHash(r), UpkeepID: u.UpkeepID, WorkID: u.WorkID, CheckBlock: u.Trigger.BlockNumber - ocr2keepers.BlockNumber(r.Range(1, 5))}})
							w.mu.Unlock()
							em.Hit("late-event-for-older-check")
						}
					}
				}
				for _, u := range ups {
					k := hx(u.UpkeepID[:])
					if _, ok := impl.FirstReport[k]; !ok {
						impl.FirstReport[k] = round
					}
				}
				// accept now or later, per member
				for _, m := range up {
					if opts.lateAccept && r.Chance(35) {
						pend = append(pend, pendingAccept{node: m.id, report: id, due: round + r.Range(1, 2)})
						continue
					}
					ok, _ := m.node.Plugin.ShouldAcceptAttestedReport(context.Background(), seq, rp.ReportWithInfo)
					m.accepted[id] = true
					m.everAcc[id] = true
					trace.Queries = append(trace.Queries, JNetQuery{Round: round, Node: m.id, Report: id, IsAccept: true, Accept: ok})
					w.op("accept", m.id, id, ok)
				}
			}
		}
		trace.Rounds = append(trace.Rounds, jr)
		prevBytes = outBytes

		// --- transmit decisions: every member is asked about every report it has accepted, at the same instant
		for _, m := range up {
			ids := make([]int, 0, len(m.everAcc))
			for id := range m.everAcc {
				ids = append(ids, id)
			}
			sort.Ints(ids)
			for _, id := range ids {
				ok, _ := m.node.Plugin.ShouldTransmitAcceptedReport(context.Background(), seq, ocr3types.ReportWithInfo[pluginInfo]{Report: reportBytes[id]})
				trace.Queries = append(trace.Queries, JNetQuery{Round: round, Node: m.id, Report: id, Transmit: ok})
				w.op("transmit", m.id, id, ok)
				if ok && !transmitted[id] && r.Chance(70) {
					transmitted[id] = true
					w.mu.Lock()
					w.height++
					tr := netTransmit{block: w.height, tx: genHash(r), upkeeps: fromJCRs(trace.Reports[id].Upkeeps)}
					w.transmits = append(w.transmits, tr)
					for _, u := range tr.upkeeps {
						if _, done := w.performed[u.WorkID]; !done {
							w.performed[u.WorkID] = tr.block
							impl.Performed++
						}
						for _, uu := range w.upkeeps {
							if uu.id == u.UpkeepID && !uu.log {
								uu.eligibleAt = tr.block + uint64(r.Range(3, 10)) // eligible again later
							}
						}
					}
					w.mu.Unlock()
				}
			}
		}
		seq += uint64(r.Range(1, 3))
	}
	for _, m := range members {
		if m.node != nil {
			w.mu.Lock()
			if !m.deviant {
				m.mark(time.Since(w.start))
				if g := int(m.maxGap / time.Millisecond); g > impl.MaxPollGapMs {
					impl.MaxPollGapMs = g
				}
				// the sampling flow ticks every 3 s and the run lasted more than 13 s: a member that was up all the time and has
				// conditional upkeeps has sent at least one of them to its pipeline
				if opts.conds > 0 && m.restarts == 0 && m.condCalls == 0 {
					impl.SamplingStarved++
				}
			}
			w.mu.Unlock()
			m.node.Close()
		}
	}
	time.Sleep(12 * time.Second)
	synctest.Wait()
	w.mu.Lock()
	trace.Events = append(trace.Events, w.evLog...)
	trace.Ops = append(trace.Ops, w.ops...)
	w.mu.Unlock()
	return trace, impl
}

// runScript drives ONE real member through a hand-written accept / restart / transmit sequence and wraps it into a
// trace (the other members only appear as observers that vouched for the results).
func runScript(t *testing.T, r *Rng, variant int) (JNetTrace, JNetImpl) {
	n, f := 4, 1
	digest := genHash(r)
	uid := genUpkeepID(r, false)
	mk := func(block uint64) ocr2keepers.CheckResult {
		res := genResult(r, uid, block)
		return res
	}
	lo, hi := mk(90), mk(100)
	// defaults of the off-chain configuration: lockout window 20 min, no confirmations required, one upkeep per report
	trace := JNetTrace{N: n, F: f, Honest: []int{0, 1, 2, 3}, Correct: []int{0, 1, 2}, Restarts: map[string][]int{"3": {2}},
		WindowNs: int64(20 * time.Minute), MinConf: 0, Batch: 1}
	start := time.Now()
	op := func(kind string, report int, ans bool) {
		trace.Ops = append(trace.Ops, JNetOp{At: int64(time.Since(start)), Kind: kind, Node: 3, Report: report, Ans: ans})
	}
	for _, res := range []ocr2keepers.CheckResult{lo, hi} {
		trace.Pipeline = append(trace.Pipeline, netPipelineEntry{Node: 0, Res: toJCR(res)})
	}
	vouch := func(res ocr2keepers.CheckResult) []JNetObs {
		var out []JNetObs
		for o := 0; o < 3; o++ {
			out = append(out, JNetObs{Oracle: o, Valid: true, Perf: []JCR{toJCR(res)}})
		}
		return out
	}
	// round 0 agrees on the older check block, round 1 on the newer one (the first report's acceptance is delayed)
	trace.Rounds = []JNetRound{
		{Seq: 1, Obs: vouch(lo), Agreed: []JCR{toJCR(lo)}, Reports: []int{0}, OutcomeOK: true},
		{Seq: 2, Obs: vouch(hi), Agreed: []JCR{toJCR(hi)}, Reports: []int{1}, OutcomeOK: true},
		{Seq: 3, OutcomeOK: false}, {Seq: 4, OutcomeOK: false},
	}
	trace.Reports = []JNetReport{{ID: 0, Round: 0, Upkeeps: []JCR{toJCR(lo)}}, {ID: 1, Round: 1, Upkeeps: []JCR{toJCR(hi)}}}
	op("round", 0, true)
	op("round", 1, true)
	node := NewNode(t, NodeOpts{N: n, F: f, Digest: digest, OracleID: 3})
	time.Sleep(1500 * time.Millisecond)
	rep := func(id int) ocr3types.ReportWithInfo[pluginInfo] {
		res := lo
		if id == 1 {
			res = hi
		}
		b := must(node.Enc.Encode(res))
		node.Enc.Take()
		return ocr3types.ReportWithInfo[pluginInfo]{Report: b}
	}
	accept := func(round, id int) {
		ok, _ := node.Plugin.ShouldAcceptAttestedReport(context.Background(), 1, rep(id))
		trace.Queries = append(trace.Queries, JNetQuery{Round: round, Node: 3, Report: id, IsAccept: true, Accept: ok})
		op("accept", id, ok)
	}
	ask := func(round, id int, pre bool) {
		ok, _ := node.Plugin.ShouldTransmitAcceptedReport(context.Background(), 1, rep(id))
		trace.Queries = append(trace.Queries, JNetQuery{Round: round, Node: 3, Report: id, Transmit: ok, Pre: pre})
		op("transmit", id, ok)
	}
	restart := func() {
		node.Close()
		op("restart", 0, false)
		time.Sleep(11 * time.Second)
		node = NewNode(t, NodeOpts{N: n, F: f, Digest: digest, OracleID: 3})
		time.Sleep(1500 * time.Millisecond)
	}
	switch variant {
	case 0: // newer report accepted, restart, the delayed older report is accepted afterwards; libocr still asks about both
		accept(1, 1)
		ask(1, 1, false)
		restart() // round 2
		accept(2, 0)
		ask(2, 0, false)
		ask(2, 1, false)
	case 1: // both accepted in order, then restart: nothing may be offered until accepted again
		accept(0, 0)
		accept(1, 1)
		ask(1, 0, false)
		ask(1, 1, false)
		restart()
		ask(2, 0, false)
		ask(2, 1, false)
		accept(3, 1)
		ask(3, 0, false)
		ask(3, 1, false)
	case 2: // older accepted after newer without restart: the awaited block must not move backwards
		trace.Restarts = map[string][]int{}
		trace.Correct = []int{0, 1, 2, 3}
		accept(1, 1)
		accept(2, 0)
		ask(2, 0, false)
		ask(2, 1, false)
	}
	node.Close()
	time.Sleep(11 * time.Second)
	return trace, JNetImpl{FirstReport: map[string]int{}, Eligible: map[string]int{}}
}

// runScriptAnyOf drives one real member through the two histories in which the clause "never willing to transmit two
// different reports for one unit of work at once" is false of the code (proved for the model in Props/C09Net:
// one_report_per_work_false_diff_blocks / _false_same_block; known findings):
//   variant 3: A = [w@lo, x@lo] accepted; w re-agreed at hi (A's acceptance was delayed elsewhere), B = [w@hi] accepted;
//              A stays offered on account of x, B on account of w
//   variant 4: A = [w@lo] accepted, B = [w@lo, x@hi] (w agreed again before anybody had accepted A) accepted
func runScriptAnyOf(t *testing.T, r *Rng, variant int) (JNetTrace, JNetImpl) {
	n, f := 4, 1
	digest := genHash(r)
	wid, xid := genUpkeepID(r, false), genUpkeepID(r, false)
	mk := func(uid ocr2keepers.UpkeepIdentifier, block uint64) ocr2keepers.CheckResult {
		res := genResult(r, uid, block)
		res.GasAllocated = uint64(r.Range(1000, 100000))
		return res
	}
	wlo, whi, xlo, xhi := mk(wid, 90), mk(wid, 100), mk(xid, 90), mk(xid, 100)
	var repA, repB []ocr2keepers.CheckResult
	if variant == 3 {
		repA, repB = []ocr2keepers.CheckResult{wlo, xlo}, []ocr2keepers.CheckResult{whi}
	} else {
		repA, repB = []ocr2keepers.CheckResult{wlo}, []ocr2keepers.CheckResult{wlo, xhi}
	}
	trace := JNetTrace{N: n, F: f, Honest: []int{0, 1, 2, 3}, Correct: []int{0, 1, 2, 3}, Restarts: map[string][]int{},
		WindowNs: int64(20 * time.Minute), MinConf: 0, Batch: 3}
	start := time.Now()
	op := func(kind string, report int, ans bool) {
		trace.Ops = append(trace.Ops, JNetOp{At: int64(time.Since(start)), Kind: kind, Node: 3, Report: report, Ans: ans})
	}
	jcrs := func(rs []ocr2keepers.CheckResult) []JCR {
		out := make([]JCR, len(rs))
		for i, x := range rs {
			out[i] = toJCR(x)
		}
		return out
	}
	for _, res := range []ocr2keepers.CheckResult{wlo, whi, xlo, xhi} {
		trace.Pipeline = append(trace.Pipeline, netPipelineEntry{Node: 0, Res: toJCR(res)})
	}
	vouch := func(rs []ocr2keepers.CheckResult) []JNetObs {
		var out []JNetObs
		for o := 0; o < 3; o++ {
			out = append(out, JNetObs{Oracle: o, Valid: true, Perf: jcrs(rs)})
		}
		return out
	}
	trace.Rounds = []JNetRound{
		{Seq: 1, Obs: vouch(repA), Agreed: jcrs(repA), Reports: []int{0}, OutcomeOK: true},
		{Seq: 2, Obs: vouch(repB), Agreed: jcrs(repB), Reports: []int{1}, OutcomeOK: true},
	}
	trace.Reports = []JNetReport{{ID: 0, Round: 0, Upkeeps: jcrs(repA)}, {ID: 1, Round: 1, Upkeeps: jcrs(repB)}}
	op("round", 0, true)
	op("round", 1, true)
	node := NewNode(t, NodeOpts{N: n, F: f, Digest: digest, OracleID: 3, OffchainConfig: []byte(`{"maxUpkeepBatchSize":3}`)})
	time.Sleep(1500 * time.Millisecond)
	rep := func(id int) ocr3types.ReportWithInfo[pluginInfo] {
		rs := repA
		if id == 1 {
			rs = repB
		}
		b := must(node.Enc.Encode(rs...))
		node.Enc.Take()
		return ocr3types.ReportWithInfo[pluginInfo]{Report: b}
	}
	for id := 0; id < 2; id++ {
		ok, _ := node.Plugin.ShouldAcceptAttestedReport(context.Background(), 1, rep(id))
		trace.Queries = append(trace.Queries, JNetQuery{Round: 1, Node: 3, Report: id, IsAccept: true, Accept: ok})
		op("accept", id, ok)
	}
	for id := 0; id < 2; id++ {
		ok, _ := node.Plugin.ShouldTransmitAcceptedReport(context.Background(), 1, rep(id))
		trace.Queries = append(trace.Queries, JNetQuery{Round: 1, Node: 3, Report: id, Transmit: ok})
		op("transmit", id, ok)
	}
	node.Close()
	time.Sleep(11 * time.Second)
	return trace, JNetImpl{FirstReport: map[string]int{}, Eligible: map[string]int{}}
}

func TestC09(t *testing.T) {
	em := NewEmitter(t, "C09")
	defer em.Close()
	script := func(v int) (tr JNetTrace, impl JNetImpl) {
		if v >= 3 {
			return runScriptAnyOf(t, NewRng(uint64(4242+v)), v)
		}
		return runScript(t, NewRng(uint64(4242+v)), v)
	}
	if _, raws, replayOnly := corpusInputs(t, "C09"); replayOnly {
		// a C09 replay re-runs the recorded script, or the network with the recorded seed (the conditional sampling in
		// the real code uses crypto/rand, so a schedule may differ in detail; the predicates are evaluated on whatever
		// trace results)
		var in struct {
			Kind   string `json:"kind"`
			Seed   uint64 `json:"seed"`
			Script *int   `json:"script"`
		}
		if err := gojson.Unmarshal(raws[0], &in); err == nil && in.Kind == "cover" {
			// a sampling coverage run is re-run from its parameters (c09_cover_test.go)
			coverCases(t, em, raws[0])
			return
		}
		if err := gojson.Unmarshal(raws[0], &in); err != nil || in.Kind != "trace" {
			t.Fatalf("C09 replays re-run a trace case by seed or script number (kind=%q): %v", in.Kind, err)
		}
		synctest.Test(t, func(t *testing.T) {
			if in.Script != nil {
				tr, impl := script(*in.Script)
				em.Emit("replay", map[string]any{"kind": "trace", "seed": *in.Script, "script": *in.Script, "trace": tr}, impl)
				return
			}
			tr, impl := runNetwork(t, NewRng(in.Seed), em, nil)
			em.Emit("replay", map[string]any{"kind": "trace", "seed": in.Seed, "trace": tr}, impl)
		})
		return
	}
	for v := 0; v < 5; v++ {
		synctest.Test(t, func(t *testing.T) {
			tr, impl := script(v)
			em.Emit("edge", map[string]any{"kind": "trace", "seed": v, "script": v, "trace": tr}, impl)
		})
	}
	r := NewRng(seed() + 9000)
	runs := tierN(24, 500)
	for i := 0; i < runs; i++ {
		s := r.U64() % 1_000_000
		synctest.Test(t, func(t *testing.T) {
			tr, impl := runNetwork(t, NewRng(s), em, func(in JRound, im JRoundImpl) {
				em.Emit("gen-round", map[string]any{"kind": "round", "round": in}, im)
			})
			em.Emit("gen", map[string]any{"kind": "trace", "seed": s, "trace": tr}, impl)
		})
	}
	// liveness side: fairness of the conditional sampling flow where the sampling ratio cuts the registry, and eventual
	// report of an eligible upkeep at the registry's tail (c09_cover_test.go)
	coverCases(t, em, nil)
}

var _ = types.ConditionTrigger
