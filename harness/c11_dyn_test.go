package harness

import (
	"fmt"
	"time"

	ocr2keepersv3 "github.com/smartcontractkit/chainlink-automation/pkg/v3"
	"github.com/smartcontractkit/chainlink-automation/pkg/v3/types"
	simutil "github.com/smartcontractkit/chainlink-automation/tools/simulator/util"
	ocr2keepers "github.com/smartcontractkit/chainlink-common/pkg/types/automation"
)

// C11, dynamics of the node's pending sets that a passive-container history never has:
//
//   life cycle   AddProposals / ViewProposals / RemoveProposals before the store's Start has run, while it
//                runs, after Close, and after a restart of the SAME instance (the plugin starts its services
//                asynchronously and the recoverer re-runs Start): none of this may lose a pending proposal
//   observation  what the node PROPOSES: the real build hooks (one instance of each over the whole history)
//                on the store of the history, more pending proposals than the per-observation limit, and
//                outcomes that surface what the node deferred in its last observation (surfaced through other
//                nodes), what it sent, and what it never held
//   volume       a burst of 65 … 700 simultaneously pending proposals of one type that drains (removals,
//                outcomes, expiry purges) to a fraction while work ids that are NOT pending are removed all
//                along (every round removes the whole 20-round history again), then re-additions
//
// The same dimensions exist at plugin level (c11_plugin_test.go: c11GenPluginWide, c11GenPluginBurst).

func (b *c11B) mstart()  { b.ops = append(b.ops, c11Op{Op: "mstart"}) }
func (b *c11B) mclose()  { b.ops = append(b.ops, c11Op{Op: "mclose"}) }
func (b *c11B) observe() { b.ops = append(b.ops, c11Op{Op: "observe"}) }
func (b *c11B) filter(t uint8, ps ...JProp) {
	b.ops = append(b.ops, c11Op{Op: "filter", T: t, Ps: ps})
}

// filterRef: payloads for the proposals of the operation at index `at` of the history built so far
func (b *c11B) filterRef(t uint8, at int) { b.ops = append(b.ops, c11Op{Op: "filter", T: t, Ref: at + 1}) }

// rawOutcome: the pre-build hooks only (no views after them: the next viewer may be a build hook)
func (b *c11B) rawOutcome(sf [][]JProp, pick string, pickN int, cand []JProp, carry bool) {
	cp := make([][]JProp, len(sf))
	for i := range sf {
		cp[i] = append([]JProp{}, sf[i]...)
	}
	b.ops = append(b.ops, c11Op{Op: "outcome", Surfaced: cp, Pick: pick, PickN: pickN, Cand: append([]JProp(nil), cand...), Carry: carry})
	b.enqs = append(b.enqs, b.now)
}

// ---------------------------------------------------------------- life cycle

// c11GenLife: a history over both pending sets with Start / Close of the store anywhere in it: adds before the
// first Start, around it, after Close, restarts with proposals pending, refused Start / Close calls.
func c11GenLife(r *Rng, em *Emitter) c11Input {
	b := newC11B(r)
	k := r.Range(2, 6)
	pool := c11Pool(r, k, func(i int) uint8 {
		if r.Chance(30) {
			return 0
		}
		return 1
	})
	pick := func() JProp { return pool[r.Intn(k)].at(r, uint64(100+r.Intn(3))) }
	some := func(p int) []JProp {
		var ps []JProp
		for i := range pool {
			if r.Chance(p) {
				ps = append(ps, pool[i].at(r, 100))
			}
		}
		if len(ps) == 0 {
			ps = append(ps, pick())
		}
		return ps
	}
	running := false
	shape := r.Intn(4)
	em.Hit(fmt.Sprintf("life:shape=%d", shape))
	switch shape {
	case 0: // the flows add before the store's Start has run
		b.add(some(60)...)
		if r.Bool() {
			b.adv(int64(r.Range(1, 900)) * int64(time.Millisecond))
			b.add(pick())
		}
		if r.Chance(40) {
			b.view(uint8(r.Intn(2)))
		}
		b.mstart()
		running = true
	case 1: // Start, add, Close, Start on one instance
		b.mstart()
		b.add(some(60)...)
		if r.Chance(50) {
			b.view(1)
		}
		b.mclose()
		if r.Chance(50) {
			b.add(pick())
		}
		b.adv(int64(r.Range(1, 5000)) * int64(time.Millisecond))
		b.mstart()
		running = true
	case 2: // started first, as a passive history would (if it started the store at all)
		b.mstart()
		running = true
	}
	b.view(1)
	b.view(0)
	n := r.Range(6, 24)
	for i := 0; i < n; i++ {
		switch x := r.Intn(100); {
		case x < 18:
			switch {
			case running && r.Chance(70):
				b.mclose()
				running = false
			case running:
				b.mstart() // refused
			case r.Chance(75):
				b.mstart()
				running = true
			default:
				b.mclose() // refused
			}
		case x < 46:
			if r.Chance(35) {
				b.add(some(40)...)
			} else {
				b.add(pick())
			}
		case x < 54:
			b.remove(pick())
		case x < 62:
			sf := [][]JProp{{pick()}}
			if r.Bool() {
				sf = append(sf, []JProp{pick()})
			}
			b.outcome(sf)
		case x < 80:
			b.view(uint8(r.Intn(2)))
		case x < 86:
			b.observe()
		case x < 90:
			b.filter(uint8(r.Intn(2)), some(50)...)
		default:
			switch r.Intn(4) {
			case 0:
				b.adv(1)
			case 1:
				b.adv(int64(r.Range(1, 3000)) * int64(time.Millisecond))
			case 2:
				b.adv(int64(r.Range(1, 23)) * int64(time.Hour))
			default:
				b.adv(25 * int64(time.Hour))
			}
		}
	}
	if r.Chance(50) { // one more turn of the life cycle right before the last look
		if running {
			b.mclose()
			if r.Bool() {
				b.mstart()
			}
		} else {
			b.mstart()
		}
	}
	b.view(1)
	b.view(0)
	b.observe()
	em.Hit("life")
	return b.input()
}

// ---------------------------------------------------------------- observation (hook level)

// c11WideIdents: n identities of one type with short distinct work ids in an order unrelated to key order
func c11WideIdents(r *Rng, n int, ty uint8, prefix string) []c11Ident {
	out := make([]c11Ident, n)
	perm := r.Perm(n)
	for i := range out {
		id := c11Ident{uid: ocr2keepers.UpkeepIdentifier(simutil.NewUpkeepID(r.Bytes(8), ty)), wid: fmt.Sprintf("%s%03d", prefix, perm[i])}
		if ty == uint8(types.LogTrigger) && i > 0 && r.Chance(30) {
			id.uid = out[i-1].uid // several logs of one upkeep
		}
		out[i] = id
	}
	return out
}

// c11GenObserve: rounds of (previous outcome through the pre-build hooks, then the build hooks) on one store
// with one instance of each hook; usually more pending proposals than an observation may carry.
func c11GenObserve(r *Rng, em *Emitter) c11Input {
	b := newC11B(r)
	nl, nc := r.Range(3, 16), 0
	if r.Chance(50) {
		nc = r.Range(1, 9)
	}
	logs := c11WideIdents(r, nl, uint8(types.LogTrigger), "L")
	conds := c11WideIdents(r, nc, uint8(types.ConditionTrigger), "C")
	all := append(append([]c11Ident{}, logs...), conds...)
	foreign := append(c11WideIdents(r, 4, uint8(types.LogTrigger), "FL"), c11WideIdents(r, 2, uint8(types.ConditionTrigger), "FC")...)
	pending := map[string]JProp{} // what the history believes is pending (work id -> proposal)
	addSome := func(p int) {
		var ps []JProp
		for _, i := range r.Perm(len(all)) {
			if r.Chance(p) {
				jp := all[i].at(r, uint64(100+r.Intn(2)))
				ps = append(ps, jp)
				pending[jp.WID] = jp
			}
		}
		if len(ps) == 0 {
			return
		}
		if r.Chance(70) {
			b.add(ps...)
		} else {
			for _, p := range ps {
				b.add(p)
			}
		}
	}
	if r.Chance(25) {
		b.mstart()
	}
	addSome(85)
	t0 := b.now
	if r.Chance(30) {
		b.adv(int64(r.Range(1, 23)) * int64(time.Hour))
		addSome(40)
	}
	b.observe()
	rounds := r.Range(3, 7)
	for k := 0; k < rounds; k++ {
		// the candidates: everything believed pending, in a random order
		var cand []JProp
		for _, i := range r.Perm(len(all)) {
			if p, ok := pending[all[i].wid]; ok {
				if r.Chance(25) { // surfaced on the coordinated block, not the one the node proposed
					p = all[i].at(r, uint64(101+r.Intn(2)))
				}
				cand = append(cand, p)
			}
		}
		pick, pickN := "", 0
		var latest []JProp
		switch x := r.Intn(100); {
		case x < 45:
			pick, pickN = "deferred", r.Range(1, 3)
			em.Hit("observe:outcome-surfaces-deferred")
		case x < 65:
			pick, pickN = "sent", r.Range(1, 3)
			em.Hit("observe:outcome-surfaces-sent")
		case x < 90:
			for _, p := range cand {
				if r.Chance(25) {
					latest = append(latest, p)
				}
			}
			em.Hit("observe:outcome-surfaces-random")
		default:
			em.Hit("observe:outcome-surfaces-nothing-of-this-node")
		}
		if r.Chance(40) { // proposals this node never held (other nodes' proposals)
			latest = append(latest, foreign[r.Intn(len(foreign))].at(r, 100))
		}
		if k > 0 && r.Chance(35) {
			// the outcome is carried over unchanged (no block reached quorum)
			em.Hit("observe:same-outcome-again")
			b.rawOutcome(nil, "again", 0, nil, false)
		} else {
			// the latest round, then the history of the previous outcome (what is picked is known at run time only)
			b.rawOutcome([][]JProp{latest}, pick, pickN, cand, true)
			// what is surfaced for certain is no longer believed pending (the picked ones stay believed: a
			// wrong belief only changes the mix of later rounds)
			for _, p := range latest {
				delete(pending, p.WID)
			}
		}
		if r.Chance(35) {
			b.view(1)
			b.view(0)
		}
		b.observe()
		switch r.Intn(8) {
		case 0:
			b.advTo(t0, c11MetaExpiry, c11Delta(r)) // deferred proposals expire before the next observation
		case 1, 2:
			b.adv(int64(r.Range(137, 2500)) * int64(time.Millisecond))
		}
		if r.Chance(45) {
			addSome(30) // the node's flows propose (again)
		}
		if r.Chance(10) {
			if p := cand; len(p) > 0 {
				b.remove(p[0])
				delete(pending, p[0].WID)
			}
		}
		if r.Chance(25) {
			b.observe() // two observations without an outcome between them (first round after a restart of the protocol)
		}
		if r.Chance(20) { // the recovery flow is offered the same logs again: its filterer views the pending set
			var ps []JProp
			for _, id := range logs {
				if r.Chance(60) {
					ps = append(ps, id.at(r, 100))
				}
			}
			b.filter(uint8(types.LogTrigger), ps...)
		}
	}
	em.Hit("observe")
	if nl > ocr2keepersv3.ObservationLogRecoveryProposalsLimit {
		em.Hit("observe:more-log-identities-than-limit")
	}
	if nc > ocr2keepersv3.ObservationConditionalsProposalsLimit {
		em.Hit("observe:more-conditional-identities-than-limit")
	}
	return b.input()
}

// ---------------------------------------------------------------- volume, drain, removals of absent work ids

func c11BurstSize(r *Rng) int {
	switch x := r.Intn(100); {
	case x < 50:
		return r.Range(65, 130)
	case x < 82:
		return r.Range(131, 260)
	case x < 96:
		return r.Range(261, 520)
	}
	return r.Range(521, 700)
}

// c11GenBurst: a burst of simultaneously pending proposals of one type, then a drain through removals of
// pending and of NOT pending work ids (single calls, batches, outcomes whose history is removed again round
// after round, expiry purges), views and observations along the way, then re-additions.
func c11GenBurst(r *Rng, em *Emitter) c11Input {
	b := newC11B(r)
	ty := uint8(types.LogTrigger)
	if r.Chance(30) {
		ty = uint8(types.ConditionTrigger)
	}
	n := c11BurstSize(r)
	ids := c11WideIdents(r, n, ty, "b")
	props := make([]JProp, n)
	for i := range ids {
		props[i] = ids[i].at(r, 100)
	}
	var foreignSeq int
	foreignOne := func() JProp {
		foreignSeq++
		id := c11Ident{uid: ocr2keepers.UpkeepIdentifier(simutil.NewUpkeepID(r.Bytes(8), ty)), wid: fmt.Sprintf("f%04d", foreignSeq)}
		return id.at(r, 100)
	}
	// the burst: one sample / one tick adds hundreds, in one or a few calls
	batches := r.Range(1, 4)
	var firstBatch []int
	var addAt []int // indices of the burst's add operations
	t0 := b.now
	for k, at := 0, 0; k < batches; k++ {
		end := n
		if k < batches-1 {
			end = at + r.Range(1, (n-at)/2+1)
		}
		addAt = append(addAt, len(b.ops))
		b.add(props[at:end]...)
		if k == 0 {
			for i := at; i < end; i++ {
				firstBatch = append(firstBatch, i)
			}
			if batches > 1 {
				b.adv(int64(r.Range(1, 5)) * int64(time.Hour))
			}
		}
		at = end
	}
	if r.Bool() {
		b.view(ty) // sorts the key slice
	}
	live := make([]int, n) // indices still believed pending, in removal order (random)
	copy(live, r.Perm(n))
	var removed []int
	var history [][]JProp
	target := r.Range(0, n/8)
	purged := batches == 1
	absentShare := []int{35, 60, 80}[r.Intn(3)]
	takeLive := func(k int) []int {
		if k > len(live) {
			k = len(live)
		}
		out := live[:k]
		live = live[k:]
		removed = append(removed, out...)
		return out
	}
	absentOne := func() JProp {
		if len(removed) > 0 && r.Bool() {
			return props[removed[r.Intn(len(removed))]] // was pending here, already removed
		}
		return foreignOne() // never pending here
	}
	for steps := 0; len(live) > target && steps < 400; steps++ {
		// a look at the pending set after most steps: the smaller the set, the more often (bounded output)
		if steps > 0 && r.Intn(len(live)+40) < 60 {
			b.view(ty)
		} else if steps > 0 && r.Chance(25) {
			// the flow is offered the logs of the burst again: what is still pending is withheld by its filterer
			b.filterRef(ty, addAt[r.Intn(len(addAt))])
		}
		switch x := r.Intn(100); {
		case x < 35:
			// RemoveProposals with pending and not pending work ids interleaved
			var ps []JProp
			for _, i := range takeLive(r.Range(1, len(live)/6+1)) {
				for r.Chance(absentShare) {
					ps = append(ps, absentOne())
				}
				ps = append(ps, props[i])
			}
			if r.Chance(absentShare) {
				ps = append(ps, absentOne())
			}
			if r.Chance(70) {
				b.remove(ps...)
			} else {
				for _, p := range ps {
					b.remove(p)
				}
			}
		case x < 70:
			// an outcome: the latest round surfaces pending and foreign proposals; the rest of its history
			// (removed in earlier rounds) is removed again
			var latest []JProp
			for _, i := range takeLive(r.Range(1, 30)) {
				if r.Chance(absentShare) {
					latest = append(latest, foreignOne())
				}
				latest = append(latest, props[i])
			}
			if len(latest) > ocr2keepersv3.OutcomeSurfacedProposalsLimit {
				latest = latest[:ocr2keepersv3.OutcomeSurfacedProposalsLimit]
			}
			history = append([][]JProp{latest}, history...)
			if len(history) > 6 {
				history = history[:6]
			}
			b.rawOutcome(history, "", 0, nil, false)
		case x < 80:
			b.remove(absentOne())
		case x < 90:
			b.view(ty)
		case x < 95:
			b.observe()
		default:
			if !purged {
				// the first batch of the burst expires: a view purges it at once
				purged = true
				b.advTo(t0, c11MetaExpiry, 1)
				b.view(ty)
				gone := map[int]bool{}
				for _, i := range firstBatch {
					gone[i] = true
				}
				keep := live[:0]
				for _, i := range live {
					if gone[i] {
						removed = append(removed, i)
					} else {
						keep = append(keep, i)
					}
				}
				live = keep
			}
		}
	}
	b.view(ty)
	b.observe()
	// re-additions: what was removed is proposed again; what is pending is proposed again too
	var again []JProp
	for _, i := range removed {
		if r.Chance(30) {
			again = append(again, props[i])
		}
	}
	for _, i := range live {
		if r.Chance(50) {
			again = append(again, props[i])
		}
	}
	if len(again) > 0 {
		b.add(again...)
	}
	b.remove(absentOne())
	b.view(ty)
	b.view(1 - ty)
	b.observe()
	em.Hit("burst")
	em.Hit(fmt.Sprintf("burst:size<=%d", []int{130, 260, 520, 700}[func() int {
		switch {
		case n <= 130:
			return 0
		case n <= 260:
			return 1
		case n <= 520:
			return 2
		}
		return 3
	}()]))
	return b.input()
}

// ---------------------------------------------------------------- hand-written cases

func c11DynEdge() []c11Input {
	r := NewRng(550055)
	H := int64(time.Hour)
	ids := func(ty uint8, wids ...string) []c11Ident {
		out := make([]c11Ident, len(wids))
		for i, w := range wids {
			out[i] = c11Ident{uid: ocr2keepers.UpkeepIdentifier(simutil.NewUpkeepID(r.Bytes(8), ty)), wid: w}
		}
		return out
	}
	var out []c11Input
	// D1. proposals added before the store's Start has run are pending afterwards
	{
		l, c := ids(1, "log-1", "log-2"), ids(0, "cond-1")
		b := newC11B(r)
		b.add(l[0].at(r, 100), c[0].at(r, 100))
		b.mstart()
		b.view(1)
		b.view(0)
		b.add(l[1].at(r, 100))
		b.observe()
		out = append(out, b.input())
	}
	// D2. Start -> add -> Close -> Start on one instance; refused calls change nothing
	{
		l := ids(1, "a", "b", "c")
		b := newC11B(r)
		b.mclose() // refused: not running
		b.mstart()
		b.mstart() // refused: already running
		b.add(l[0].at(r, 100), l[1].at(r, 100))
		b.view(1)
		b.mclose()
		b.add(l[2].at(r, 100)) // while closed
		b.view(1)
		b.adv(H)
		b.mstart()
		b.view(1) // a, b, c
		b.observe()
		b.mclose()
		b.mstart()
		b.outcome([][]JProp{{l[1].at(r, 100)}})
		b.view(1) // a, c
		out = append(out, b.input())
	}
	// D3. eight pending log proposals, five per observation; the outcome surfaces two the node deferred
	//     (another node proposed them), then the same outcome again, then two it sent
	{
		l := c11WideIdents(r, 8, 1, "w")
		b := newC11B(r)
		var all []JProp
		for _, id := range l {
			all = append(all, id.at(r, 100))
		}
		b.add(all...)
		b.observe()
		b.rawOutcome(nil, "deferred", 2, all, true)
		b.observe()
		b.observe()
		b.rawOutcome(nil, "sent", 2, all, true)
		b.observe()
		b.rawOutcome(nil, "deferred", 1, all, true)
		b.observe() // three left: all of them
		b.view(1)
		out = append(out, b.input())
	}
	// D4. 600 pending, drained one by one, each removal followed by the removal of a work id that was never
	//     pending here; then everything is proposed again
	for _, ty := range []uint8{1, 0} {
		n := 600
		l := c11WideIdents(r, n, ty, "v")
		props := make([]JProp, n)
		for i := range l {
			props[i] = l[i].at(r, 100)
		}
		b := newC11B(r)
		b.add(props...)
		var rm []JProp
		for i := 0; i < n-40; i++ {
			rm = append(rm, props[i], c11Ident{uid: ocr2keepers.UpkeepIdentifier(simutil.NewUpkeepID(r.Bytes(8), ty)), wid: fmt.Sprintf("x%04d", i)}.at(r, 100))
		}
		b.remove(rm[:600]...)
		b.view(ty)
		b.remove(rm[600:]...)
		b.view(ty)
		b.add(props[n-40:]...)
		b.view(ty)
		b.observe()
		out = append(out, b.input())
	}
	return out
}
