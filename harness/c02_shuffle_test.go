package harness

import (
	"fmt"
	"math/rand"

	"github.com/smartcontractkit/chainlink-automation/pkg/v3/random"
)

// C02 — the pseudo-random ordering: `random.ShuffleString(id, key)` is modelled as "the swap calls rand.Shuffle makes for
// (len(id), key), applied to the runes of id" (lean/AutoVerif/Model/Shuffle.lean). The harness records those calls with
// the same constructor calls ShuffleString uses and hands the model the strings; the driver applies the recorded swaps
// and compares with what the real ShuffleString returned. Injectivity and key-only dependence are then theorems about
// the model (Props/C02Shuffle.lean) and are also evaluated on the real outputs.

type c02ShuffleIn struct {
	Key   string   `json:"key"` // the 16-byte key source (hex)
	N     int      `json:"n"`   // length in runes of every string of the case
	Swaps [][2]int `json:"swaps"`
	Strs  []string `json:"strs"`
}
type c02ShuffleCase struct {
	Shuffle c02ShuffleIn `json:"shuffle"`
}
type c02ShuffleImpl struct {
	Out        []string `json:"out"`
	SwapsAgain [][2]int `json:"swapsAgain"`
}

func recordSwaps(key [16]byte, n int) [][2]int {
	rec := [][2]int{}
	rand.New(random.NewKeyedCryptoRandSource(key)).Shuffle(n, func(i, j int) { rec = append(rec, [2]int{i, j}) })
	return rec
}

func c02ShuffleGen(r *Rng) c02ShuffleIn {
	var in c02ShuffleIn
	// the key as the plugin derives it: keccak(config digest ‖ sequence number)
	digest := genHash(r)
	seq := r.U64()
	switch r.Intn(4) {
	case 0:
		seq = uint64(r.Intn(3))
	case 1:
		seq = ^uint64(0) - uint64(r.Intn(3))
	}
	key := random.GetRandomKeySource(digest[:], seq)
	in.Key = hx(key[:])
	const hexd = "0123456789abcdef"
	alpha := []rune(hexd)
	switch r.Intn(6) {
	case 0: // work ids: 64 hex characters
		in.N = 64
	case 1:
		in.N = r.Range(0, 3)
	case 2:
		in.N = r.Range(4, 40)
	case 3: // long ids (the shuffle switches from 31-bit to 63-bit draws only above 2^31-1 elements; lengths stay modest)
		in.N = r.Range(65, 700)
	case 4: // runes outside ASCII: the shuffle works on runes, not on bytes
		in.N = r.Range(2, 30)
		alpha = []rune("0123456789abcdefäßλ→水𝔘")
	default:
		in.N = 64
	}
	k := r.Range(2, 12)
	for s := 0; s < k; s++ {
		rs := make([]rune, in.N)
		for i := range rs {
			rs[i] = alpha[r.Intn(len(alpha))]
		}
		// near-duplicates: ids that differ in one position, or share a long prefix, must still be told apart
		if s > 0 && in.N > 0 && r.Chance(50) {
			rs = []rune(in.Strs[s-1])
			p := r.Intn(in.N)
			old := rs[p]
			for rs[p] == old {
				rs[p] = alpha[r.Intn(len(alpha))]
			}
		}
		in.Strs = append(in.Strs, string(rs))
	}
	if r.Chance(30) && len(in.Strs) > 1 {
		in.Strs = append(in.Strs, in.Strs[0]) // the same id twice: same key twice
	}
	in.Swaps = recordSwaps(key, in.N)
	return in
}

func c02ShuffleRun(in c02ShuffleIn) c02ShuffleImpl {
	var key [16]byte
	copy(key[:], unhx(in.Key))
	impl := c02ShuffleImpl{Out: []string{}}
	for _, s := range in.Strs {
		impl.Out = append(impl.Out, random.ShuffleString(s, key))
	}
	// another source built from the same key, after the calls above: the same calls again
	impl.SwapsAgain = recordSwaps(key, in.N)
	return impl
}

func c02ShuffleCases(em *Emitter, r *Rng, n int) {
	for c := 0; c < n; c++ {
		in := c02ShuffleGen(r)
		em.Hit(fmt.Sprintf("shuffle:n=%d", minInt(in.N, 65)))
		em.Emit("shuffle", c02ShuffleCase{Shuffle: in}, c02ShuffleRun(in))
	}
}

func minInt(a, b int) int {
	if a < b {
		return a
	}
	return b
}
