module verifharness

go 1.26.8

require (
	github.com/ethereum/go-ethereum v1.13.8
	github.com/goccy/go-json v0.10.2
	github.com/smartcontractkit/chainlink-automation v0.0.0
	github.com/smartcontractkit/chainlink-common v0.3.0
	github.com/smartcontractkit/libocr v0.0.0-20241007185508-adbe57025f12
)

require (
	github.com/Maldris/mathparse v0.0.0-20170508133428-f0d009a7a773 // indirect
	github.com/beorn7/perks v1.0.1 // indirect
	github.com/bits-and-blooms/bitset v1.10.0 // indirect
	github.com/cespare/xxhash/v2 v2.3.0 // indirect
	github.com/consensys/bavard v0.1.13 // indirect
	github.com/consensys/gnark-crypto v0.12.1 // indirect
	github.com/crate-crypto/go-kzg-4844 v0.7.0 // indirect
	github.com/deckarep/golang-set/v2 v2.3.0 // indirect
	github.com/fsnotify/fsnotify v1.6.0 // indirect
	github.com/go-echarts/go-echarts/v2 v2.2.6 // indirect
	github.com/go-logr/logr v1.4.2 // indirect
	github.com/go-logr/stdr v1.2.2 // indirect
	github.com/golang/protobuf v1.5.4 // indirect
	github.com/google/uuid v1.6.0 // indirect
	github.com/gorilla/websocket v1.5.0 // indirect
	github.com/holiman/uint256 v1.2.4 // indirect
	github.com/jedib0t/go-pretty/v6 v6.4.7 // indirect
	github.com/mattn/go-runewidth v0.0.13 // indirect
	github.com/matttproud/golang_protobuf_extensions v1.0.4 // indirect
	github.com/mmcloughlin/addchain v0.4.0 // indirect
	github.com/mr-tron/base58 v1.2.0 // indirect
	github.com/pkg/errors v0.9.1 // indirect
	github.com/prometheus/client_golang v1.17.0 // indirect
	github.com/prometheus/client_model v0.4.1-0.20230718164431-9a2bf3000d16 // indirect
	github.com/prometheus/common v0.44.0 // indirect
	github.com/prometheus/procfs v0.11.1 // indirect
	github.com/rivo/uniseg v0.2.0 // indirect
	github.com/shirou/gopsutil v3.21.11+incompatible // indirect
	github.com/shopspring/decimal v1.4.0 // indirect
	github.com/tklauser/go-sysconf v0.3.12 // indirect
	github.com/tklauser/numcpus v0.6.1 // indirect
	go.opentelemetry.io/otel v1.28.0 // indirect
	go.opentelemetry.io/otel/metric v1.28.0 // indirect
	go.opentelemetry.io/otel/trace v1.28.0 // indirect
	go.uber.org/multierr v1.11.0 // indirect
	go.uber.org/zap v1.27.0 // indirect
	golang.org/x/crypto v0.27.0 // indirect
	golang.org/x/exp v0.0.0-20240909161429-701f63a606c0 // indirect
	golang.org/x/sync v0.8.0 // indirect
	golang.org/x/sys v0.25.0 // indirect
	gonum.org/v1/gonum v0.15.0 // indirect
	google.golang.org/protobuf v1.34.2 // indirect
	rsc.io/tmplfunc v0.0.3 // indirect
)

replace github.com/smartcontractkit/chainlink-automation => /repo
