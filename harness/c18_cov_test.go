package harness

import (
	"context"
	"errors"
	"fmt"
	"log"
	"os"
	"strings"
	"sync"
	"sync/atomic"
	"testing"
	"testing/synctest"
	"time"

	"github.com/smartcontractkit/libocr/offchainreporting2plus/ocr3types"
	ocr2types "github.com/smartcontractkit/libocr/offchainreporting2plus/types"

	v2 "github.com/smartcontractkit/chainlink-automation/pkg/v2"
	v2config "github.com/smartcontractkit/chainlink-automation/pkg/v2/config"
	v2coord "github.com/smartcontractkit/chainlink-automation/pkg/v2/coordinator"
	"github.com/smartcontractkit/chainlink-automation/pkg/v2/observer/polling"
	"github.com/smartcontractkit/chainlink-automation/pkg/v3/config"
	"github.com/smartcontractkit/chainlink-automation/pkg/v3/coordinator"
	"github.com/smartcontractkit/chainlink-automation/pkg/v3/plugin"
	"github.com/smartcontractkit/chainlink-automation/pkg/v3/runner"
	"github.com/smartcontractkit/chainlink-automation/pkg/v3/service"
	"github.com/smartcontractkit/chainlink-automation/pkg/v3/stores"
	"github.com/smartcontractkit/chainlink-automation/pkg/v3/tickers"
	ocr2keepers "github.com/smartcontractkit/chainlink-common/pkg/types/automation"
)

// C18 — the paths of the life-cycle code that a well-behaved plugin instance never takes:
//
//   - constructors that FAIL (bad off-chain configuration, a block source that refuses the subscription, a v2 coordinator
//     or observer factory that returns an error): nothing of the half-built instance may be left running, and the factory
//     must still build a working instance afterwards (scenario "ctor-fail");
//   - collaborators whose CLOSE step fails (v2 sub-service Close error; Unsubscribe error of the block source): the
//     remaining services must still be closed (closeFault);
//   - forced start-up schedules through the `verif` hook (gate): Close while every serviceStart sits between
//     `running.Store(true)` and its select — the service's own result is in the `stopped` channel when Close wants to send;
//   - family "svc": every service kind the plugin wraps, built through its PUBLIC constructor, bare or behind
//     service.NewRecoverer, driven by a script of start / start-again / cancel-the-context / close / panic operations
//     issued at quiescent instants.  The recoverer scripts are trace-validated against the model extended by the steps the
//     plugin never takes (`case <-ctx.Done()` of serviceStart, Start while running, Start after Start returned); op
//     results and live goroutines after every op are compared with the model's script semantics (Model/C18 `xscript`,
//     `bscript`).

// ---------------------------------------------------------------- block source with switchable failures

type c18Blocks struct {
	*fakeBlocks
	failSub   atomic.Bool
	failUnsub atomic.Bool
}

func (b *c18Blocks) Subscribe() (int, chan ocr2keepers.BlockHistory, error) {
	if b.failSub.Load() {
		return 0, nil, errors.New("c18: subscription refused")
	}
	return b.fakeBlocks.Subscribe()
}

func (b *c18Blocks) Unsubscribe(id int) error {
	if b.failUnsub.Load() {
		return errors.New("c18: unsubscribe failed")
	}
	return b.fakeBlocks.Unsubscribe(id)
}

// ---------------------------------------------------------------- scenario "ctor-fail"

// what makes the constructor fail, per family
var c18CtorFaultsV3 = []string{"bad-json", "bad-probability", "probability-range", "nodes-range", "subscribe"}
var c18CtorFaultsV2 = []string{"bad-json", "coordinator-factory", "observer-factory"}

func c18CtorCfg(fault string) (cfg string, n, f int) {
	cfg, n, f = `{}`, 4, 1
	switch fault {
	case "bad-json":
		cfg = `{"performLockoutWindow":`
	case "bad-probability":
		cfg = `{"targetProbability":"often"}`
	case "probability-range", "observer-factory":
		cfg = `{"targetProbability":"2"}`
	case "nodes-range":
		n, f = 1, 1
	}
	return
}

// failing v2 coordinator factory / coordinator with a failing Close around the repository's own
type c18V2CF struct {
	inner     *v2coord.CoordinatorFactory
	fail      atomic.Bool
	failClose atomic.Bool
}

type c18V2CoordWrap struct {
	v2.Coordinator
	sc        v2.PluginStarterCloser
	failClose bool
}

func (w *c18V2CoordWrap) Start() { w.sc.Start() }
func (w *c18V2CoordWrap) Close() error {
	err := w.sc.Close()
	if w.failClose {
		return errors.Join(err, errors.New("c18: coordinator close failed"))
	}
	return err
}

func (f *c18V2CF) NewCoordinator(c v2config.OffchainConfig) (v2.Coordinator, error) {
	if f.fail.Load() {
		return nil, errors.New("c18: no coordinator")
	}
	co, err := f.inner.NewCoordinator(c)
	if err != nil || !f.failClose.Load() {
		return co, err
	}
	return &c18V2CoordWrap{Coordinator: co, sc: co.(v2.PluginStarterCloser), failClose: true}, nil
}

// c18CtorCase: the constructor is called with the fault; 35 virtual seconds later nothing of the repository may be running,
// polling a provider or subscribed; then the SAME factory is asked for an instance without the fault, which must work
// (pipeline reached) and close clean — the usual measurements.
func c18CtorCase(t *testing.T, in c18Input, impl c18Impl, ck func(c18Impl)) {
	cfg, n, f := c18CtorCfg(in.CtorFault)
	in2 := in
	in2.Work = 2
	var (
		pr     *c18Probe
		subs   func() int
		sites  []string
		failed func() (isNil bool, err error)
		good   func() (func() error, error)
		stop   = func() {}
		pSite  = c18SitePipeline
	)
	if in.Family == "v2" {
		pr = newC18Probe("", 0, 0, in.CoolDownNs)
		heads := &c18V2Heads{ch: make(chan v2.BlockKey), quit: make(chan struct{})}
		cf := &c18V2CF{inner: &v2coord.CoordinatorFactory{Logger: quietLogger, Encoder: c18V2CoordEnc{p: pr}, Logs: &c18V2Logs{p: pr}, CacheClean: 30 * time.Second}}
		cf.fail.Store(in.CtorFault == "coordinator-factory")
		of := &polling.PollingObserverFactory{Logger: quietLogger, Source: &c18V2Source{p: pr}, Heads: heads, Runner: c18V2Runner{p: pr}, Encoder: c18V2Enc{p: pr}}
		fac := v2.NewReportingPluginFactory(c18V2Enc{p: pr}, c18V2Runner{p: pr}, cf, of, quietLogger)
		go heads.feed()
		stop = func() { close(heads.quit) }
		subs, sites, pSite = func() int { return 0 }, c18SitesV2, c18SiteV2Check
		failed = func() (bool, error) {
			p, _, err := fac.NewReportingPlugin(context.Background(), ocr2types.ReportingPluginConfig{N: n, F: f, OffchainConfig: []byte(cfg)})
			return p == nil, err
		}
		good = func() (func() error, error) {
			cf.fail.Store(false)
			p, _, err := fac.NewReportingPlugin(context.Background(), ocr2types.ReportingPluginConfig{N: 4, F: 1, OffchainConfig: []byte(`{}`)})
			if err != nil {
				return nil, err
			}
			return p.Close, nil
		}
	} else {
		pr = newC18Probe("", 0, 0, in.CoolDownNs)
		bl := &c18Blocks{fakeBlocks: &fakeBlocks{}}
		bl.failSub.Store(in.CtorFault == "subscribe")
		rc := runner.RunnerConfig{Workers: 4, WorkerQueueLength: 100, CacheExpire: 20 * time.Minute, CacheClean: 30 * time.Second}
		fac := plugin.NewReportingPluginFactory(&c18LogProvider{p: pr, work: in2.Work, rng: NewRng(77)}, &c18Events{p: pr}, bl,
			&c18Recov{p: pr, rng: NewRng(78)}, c18Builder{p: pr}, &c18Getter{p: pr}, &c18Pipeline{p: pr},
			rc, &recEncoder{}, c18TypeGetter(pr), wg, &c18StateUpdater{p: pr}, log.New(&c18LogWriter{p: pr}, "", 0))
		subs, sites = bl.NumSubs, c18Sites
		failed = func() (bool, error) {
			p, _, err := fac.NewReportingPlugin(context.Background(), ocr3types.ReportingPluginConfig{N: n, F: f, OffchainConfig: []byte(cfg)})
			return p == nil, err
		}
		good = func() (func() error, error) {
			bl.failSub.Store(false)
			p, _, err := fac.NewReportingPlugin(context.Background(), ocr3types.ReportingPluginConfig{N: 4, F: 1, OffchainConfig: []byte(`{}`)})
			if err != nil {
				return nil, err
			}
			return p.Close, nil
		}
	}
	pr.arm()
	isNil, err := failed()
	impl.CtorErr, impl.CtorNil = err != nil, isNil
	impl.Phase = "ctor-returned"
	ck(impl)
	time.Sleep(25*time.Second + 137*time.Millisecond)
	c1 := pr.snapshot()
	time.Sleep(10 * time.Second)
	synctest.Wait()
	c2 := pr.snapshot()
	for _, s := range sites {
		impl.CtorCalls += c2[s] - c1[s]
	}
	impl.CtorSubs = subs()
	impl.CtorLeft, _ = c18Goroutines()
	impl.Phase = "ctor-measured"
	ck(impl)

	// the factory is not spoilt: an instance without the fault works and closes clean
	pr.arm()
	closeFn, err := good()
	if err != nil {
		impl.Note = "the factory refuses a good configuration after the failed call: " + err.Error()
		impl.Phase = "done"
		stop()
		ck(impl)
		os.Exit(3)
	}
	time.Sleep(3*time.Second + 137*time.Millisecond)
	impl.Progress = pr.doneCount(pSite)
	impl.ClosedAtNs = int64(time.Since(pr.t0))
	impl.CloseCalled = true
	ck(impl)
	type closed struct {
		err error
		pan string
	}
	done := make(chan closed, 1)
	go func() { e, p := c18SafeClose(closeFn); done <- closed{e, p} }()
	select {
	case c := <-done:
		err, impl.ClosePanic = c.err, c.pan
	case <-time.After(60 * time.Second):
		impl.Phase, impl.Note = "close-stuck", "Close did not return within 60 virtual seconds"
		impl.Leaked, impl.LeakedDetail = c18Goroutines()
		ck(impl)
		os.Exit(4)
	}
	impl.CloseReturned = true
	impl.CloseTookNs = int64(time.Since(pr.t0)) - impl.ClosedAtNs
	impl.CloseErrs = c18CloseErrs(err)
	impl.Phase = "closed"
	ck(impl)
	time.Sleep(time.Second)
	synctest.Wait()
	impl.LeakedSoon, _ = c18Goroutines()
	impl.HeldBackNs = -1 << 62
	time.Sleep(24*time.Second + 137*time.Millisecond)
	c1 = pr.snapshot()
	time.Sleep(10 * time.Second)
	synctest.Wait()
	c2 = pr.snapshot()
	for _, s := range sites {
		impl.CallsAfterClose[s] = c2[s] - c1[s]
	}
	impl.Subscribed = subs()
	stop()
	synctest.Wait()
	impl.Leaked, impl.LeakedDetail = c18Goroutines()
	impl.Phase = "measured"
	ck(impl)
	if len(impl.Leaked) > 0 {
		impl.Phase = "done"
		ck(impl)
		os.Exit(3)
	}
	impl.BubbleEnded = true
	impl.Phase = "done"
	ck(impl)
}

// ---------------------------------------------------------------- family "svc": scripts on one service

type c18Op struct {
	Op string `json:"op"` // start | cancel | close | panic | wait
	Ns int64  `json:"ns"` // virtual ns that pass BEFORE the op (always > 0: every op finds the system at rest)
}

type c18Startable interface {
	Start(context.Context) error
	Close() error
}

// the v2 polling observer's Start does not block and takes no context
type c18V2ObsAdapter struct{ o *polling.PollingObserver }

func (a c18V2ObsAdapter) Start(context.Context) error { a.o.Start(); return nil }
func (a c18V2ObsAdapter) Close() error                { return a.o.Close() }

type c18IntTick int

func (k c18IntTick) Value(context.Context) (int, error) { return int(k), nil }

type c18TickObs struct{ calls atomic.Int64 }

func (o *c18TickObs) Process(context.Context, tickers.Tick[int]) error { o.calls.Add(1); return nil }

// c18SvcEnv is what the script can do to the service's surroundings
type c18SvcEnv struct {
	mu       sync.Mutex
	boom     bool // the next call of the service's own goroutine into user code panics
	panicked chan struct{}
	once     sync.Once
	evErr    atomic.Bool // coordinator: the event provider fails (so that the run loop logs)
	getter   struct{ all, good atomic.Int64 }
	obs      c18TickObs
	blocks   *c18Blocks
}

func (e *c18SvcEnv) arm() {
	e.mu.Lock()
	e.boom = true
	e.mu.Unlock()
}

func (e *c18SvcEnv) maybePanic(where string) {
	e.mu.Lock()
	b := e.boom
	e.boom = false
	e.mu.Unlock()
	if b {
		e.once.Do(func() { close(e.panicked) })
		panic("c18: injected panic at " + where)
	}
}

type c18SvcLogWriter struct {
	e    *c18SvcEnv
	line string
}

func (w c18SvcLogWriter) Write(b []byte) (int, error) {
	if w.line != "" && strings.Contains(string(b), w.line) {
		w.e.maybePanic("log line " + w.line)
	}
	return len(b), nil
}

type c18SvcEvents struct{ e *c18SvcEnv }

func (p c18SvcEvents) GetLatestEvents(context.Context) ([]ocr2keepers.TransmitEvent, error) {
	if p.e.evErr.Load() {
		return nil, errors.New("c18: event provider down")
	}
	return nil, nil
}

type c18SvcRunnable struct{}

func (c18SvcRunnable) CheckUpkeeps(context.Context, ...ocr2keepers.UpkeepPayload) ([]ocr2keepers.CheckResult, error) {
	return nil, nil
}

// c18MakeSvc builds the service of the given kind through its public constructor
func c18MakeSvc(in c18Input, env *c18SvcEnv) (inner c18Startable) {
	switch in.Kind {
	case "ticker":
		lg := log.New(c18SvcLogWriter{e: env}, "", 0)
		if in.Getter == "nil" {
			return tickers.NewTimeTicker[int](time.Second, &env.obs, nil, lg)
		}
		return tickers.NewTimeTicker[int](time.Second, &env.obs, func(context.Context, time.Time) (tickers.Tick[int], error) {
			n := env.getter.all.Add(1)
			env.maybePanic("tick getter")
			if in.Getter == "err" && n%2 == 1 {
				return nil, errors.New("c18: no tick")
			}
			env.getter.good.Add(1)
			return c18IntTick(n), nil
		}, lg)
	case "resultStore":
		return stores.New(log.New(c18SvcLogWriter{e: env, line: c18GCLine}, "", 0))
	case "metadataStore":
		ms, err := stores.NewMetadataStore(env.blocks, utg)
		if err != nil {
			panic(err)
		}
		return ms
	case "coordinator":
		return coordinator.NewCoordinator(c18SvcEvents{e: env}, utg, config.OffchainConfig{PerformLockoutWindow: 100000, MinConfirmations: 1},
			log.New(c18SvcLogWriter{e: env, line: "failed to check for transmit events"}, "", 0))
	case "runner":
		r, err := runner.NewRunner(quietLogger, c18SvcRunnable{}, runner.RunnerConfig{Workers: 2, WorkerQueueLength: 10, CacheExpire: 20 * time.Minute, CacheClean: 30 * time.Second})
		if err != nil {
			panic(err)
		}
		return r
	case "v2observer":
		fac := &polling.PollingObserverFactory{Logger: quietLogger, Source: &c18V2Source{p: newC18Probe("", 0, 0, 0)}, Heads: &c18V2Heads{ch: make(chan v2.BlockKey), quit: make(chan struct{})},
			Runner: c18V2Runner{p: newC18Probe("", 0, 0, 0)}, Encoder: c18V2Enc{p: newC18Probe("", 0, 0, 0)}}
		o, err := fac.NewConditionalObserver(v2config.OffchainConfig{TargetProbability: "0.99999", TargetInRounds: 1}, ocr2types.ReportingPluginConfig{N: 4, F: 1}, nil)
		if err != nil {
			panic(err)
		}
		return c18V2ObsAdapter{o.(*polling.PollingObserver)}
	}
	panic("c18: unknown service kind " + in.Kind)
}

func c18ErrClass(err error) string {
	switch {
	case err == nil:
		return "nil"
	case errors.Is(err, service.ErrServiceAlreadyStarted):
		return "recoverer-already-started"
	case errors.Is(err, service.ErrServiceNotRunning):
		return "recoverer-not-running"
	}
	m := c18CloseErrs(err)
	for _, k := range []string{"svc-not-started", "svc-already-stopped"} {
		if m[k] > 0 {
			return k
		}
	}
	if s := err.Error(); strings.Contains(s, "already") {
		return "svc-already-started" // StartOnce "has already been started once", metadata store "service already running", runner "already running"
	}
	return "other"
}

func c18SvcCase(t *testing.T, in c18Input, impl c18Impl, ck func(c18Impl)) {
	env := &c18SvcEnv{panicked: make(chan struct{}), blocks: &c18Blocks{fakeBlocks: &fakeBlocks{}}}
	env.blocks.failUnsub.Store(in.CloseFault == "unsubscribe")
	inner := c18MakeSvc(in, env)
	var svc c18Startable = inner
	if in.Wrap {
		svc = service.NewRecoverer(inner, log.New(c18SvcLogWriter{e: env}, "", 0))
	}
	t0 := time.Now()
	type startRec struct {
		mu     sync.Mutex
		res    string
		cancel context.CancelFunc
	}
	var starts []*startRec
	var closes []*startRec
	get := func(r *startRec) string { r.mu.Lock(); defer r.mu.Unlock(); return r.res }
	safely := func(r *startRec, f func() error) {
		defer func() {
			if p := recover(); p != nil {
				r.mu.Lock()
				r.res = fmt.Sprintf("panic: %v", p)
				r.mu.Unlock()
			}
		}()
		e := f()
		r.mu.Lock()
		r.res = c18ErrClass(e)
		r.mu.Unlock()
	}
	impl.Phase = "script"
	for _, op := range in.Ops {
		time.Sleep(time.Duration(op.Ns))
		synctest.Wait()
		impl.OpAtNs = append(impl.OpAtNs, int64(time.Since(t0)))
		res := ""
		switch op.Op {
		case "start":
			ctx, cancel := context.WithCancel(context.Background())
			r := &startRec{res: "pending", cancel: cancel}
			starts = append(starts, r)
			go safely(r, func() error { return svc.Start(ctx) })
			synctest.Wait()
			res = get(r)
		case "cancel": // the context of the Start call in progress (if any) ends
			for i := len(starts) - 1; i >= 0; i-- {
				if r := starts[i]; get(r) == "pending" {
					r.cancel()
					synctest.Wait()
					res = get(r)
					break
				}
			}
		case "close":
			if len(closes) > 0 && get(closes[len(closes)-1]) == "pending" {
				res = "skipped" // one Close at a time: the previous one has not returned
				break
			}
			r := &startRec{res: "pending"}
			closes = append(closes, r)
			go safely(r, svc.Close)
			synctest.Wait()
			res = get(r)
		case "panic":
			env.evErr.Store(true)
			env.arm()
			select {
			case <-env.panicked:
				res = "panicked"
			case <-time.After(40 * time.Second):
				res = "no-panic"
			}
			env.evErr.Store(false)
			synctest.Wait()
			impl.OpAtNs[len(impl.OpAtNs)-1] = int64(time.Since(t0))
		case "wait":
		}
		impl.OpRes = append(impl.OpRes, res)
		alive, _ := c18Goroutines()
		impl.OpAlive = append(impl.OpAlive, alive)
		ck(impl)
	}
	// the end of the script: everything that is going to happen on its own happens within a cool-down and some ticks
	time.Sleep(25*time.Second + 137*time.Millisecond)
	synctest.Wait()
	impl.Leaked, impl.LeakedDetail = c18Goroutines()
	impl.Subscribed = env.blocks.NumSubs()
	impl.Process, impl.GoodTicks, impl.AllTicks = int(env.obs.calls.Load()), int(env.getter.good.Load()), int(env.getter.all.Load())
	for _, r := range starts {
		impl.StartEnd = append(impl.StartEnd, get(r))
	}
	for _, r := range closes {
		if get(r) == "pending" {
			impl.CloseCalled, impl.CloseReturned = true, false
		}
	}
	if len(closes) > 0 && !(impl.CloseCalled && !impl.CloseReturned) {
		impl.CloseCalled, impl.CloseReturned = true, true
	}
	impl.Phase = "measured"
	c18FreezeTrace()
	ck(impl)
	// let the bubble end: whatever the script left running is stopped now (not part of the observation)
	impl.BubbleEnded = true
	impl.Phase = "done"
	ck(impl)
	env.blocks.failUnsub.Store(false)
	for _, r := range starts {
		r.cancel()
	}
	synctest.Wait()
	for _, c := range []c18Startable{svc, inner} {
		if left, _ := c18Goroutines(); len(left) == 0 {
			break
		}
		c := c
		go func() { _, _ = c18SafeClose(c.Close) }()
		time.Sleep(12 * time.Second)
		synctest.Wait()
	}
	if left, _ := c18Goroutines(); len(left) > 0 {
		os.Exit(0) // the observation is complete and recorded; only the harness's own clean-up could not finish
	}
}

// ---------------------------------------------------------------- inputs

func c18OpsOf(spec string) []c18Op {
	// "start/1ms cancel/2500ms …": op/gap-before
	var out []c18Op
	for _, f := range strings.Fields(spec) {
		parts := strings.SplitN(f, "/", 2)
		d, err := time.ParseDuration(parts[1])
		if err != nil {
			panic(err)
		}
		out = append(out, c18Op{Op: parts[0], Ns: int64(d)})
	}
	return out
}

func c18CovEdge() []c18Input {
	var out []c18Input
	// constructors that fail
	for _, fl := range c18CtorFaultsV3 {
		out = append(out, c18Input{Scenario: "ctor-fail", CtorFault: fl})
	}
	for _, fl := range c18CtorFaultsV2 {
		out = append(out, c18Input{Family: "v2", Scenario: "ctor-fail", CtorFault: fl})
	}
	// a sub-service whose Close fails: the others are closed all the same
	for _, at := range []int64{c18ms, 2*c18s + 137*c18ms, 31 * c18s} {
		out = append(out, c18Input{Family: "v2", Scenario: "close", CloseAtNs: at, CloseFault: "v2-coordinator-close"})
		out = append(out, c18Input{Scenario: "close", CloseAtNs: at, CloseFault: "unsubscribe", Work: 2})
	}
	// forced start-up schedules
	for _, g := range c18Gates {
		out = append(out, c18Input{Gate: g}, c18Input{Gate: g, Work: 2})
	}
	// bare services
	svc := func(kind string, wrap bool, getter, fault, ops string) {
		out = append(out, c18Input{Family: "svc", Kind: kind, Wrap: wrap, Getter: getter, CloseFault: fault, Ops: c18OpsOf(ops)})
	}
	for _, kind := range []string{"ticker", "resultStore", "metadataStore", "coordinator", "runner"} {
		if kind != "resultStore" { // (the result store has no guard of its own: two loops, one Close stops one)
			svc(kind, false, "ok", "", "start/1ms start/2500ms close/1200ms") // Start while running
		}
		svc(kind, false, "ok", "", "start/1ms cancel/2500ms close/1200ms")               // the context of Start ends
		svc(kind, false, "ok", "", "close/1ms start/1ms close/2500ms")                   // Close before Start
		svc(kind, false, "ok", "", "start/1ms close/2500ms close/1ms")                   // Close twice
		svc(kind, true, "ok", "", "start/1ms start/2500ms close/1200ms")                 // recoverer: Start while running
		svc(kind, true, "ok", "", "start/1ms start/1ms start/3s close/1200ms close/1ms") // … repeatedly; Close twice
		svc(kind, true, "ok", "", "start/1ms cancel/2500ms close/1200ms")                // recoverer: the context of Start ends
		svc(kind, true, "ok", "", "close/1ms start/1ms wait/2500ms close/1ms")           // recoverer: Close before Start
	}
	for _, kind := range []string{"ticker", "resultStore", "coordinator"} {
		svc(kind, true, "ok", "", "start/1ms cancel/2500ms close/1ms start/1200ms close/2500ms")           // … and Start again afterwards
		svc(kind, true, "ok", "", "start/1ms cancel/2500ms start/1200ms cancel/2500ms start/1ms close/3s") // … twice
		svc(kind, true, "ok", "", "start/1ms panic/1500ms close/12s")                                      // a panic out of the service's Start; restart
		svc(kind, true, "ok", "", "start/1ms panic/1500ms close/3s")                                       // … Close in the cool-down
		svc(kind, true, "ok", "", "start/1ms panic/1500ms close/3s close/2s")                              // … twice in the cool-down
		svc(kind, true, "ok", "", "start/1ms panic/1500ms cancel/3s close/9s")                             // … context ends in the cool-down
		svc(kind, true, "ok", "", "start/1ms panic/1500ms start/3s close/9s")                              // … Start in the cool-down
	}
	svc("ticker", false, "nil", "", "start/1ms wait/3200ms close/1ms")
	svc("ticker", false, "err", "", "start/1ms wait/4200ms close/1ms")
	svc("ticker", true, "nil", "", "start/1ms wait/3200ms close/1ms")
	svc("ticker", true, "err", "", "start/1ms wait/4200ms close/1ms")
	svc("metadataStore", false, "", "unsubscribe", "start/1ms close/2500ms")
	svc("metadataStore", false, "", "unsubscribe", "start/1ms cancel/2500ms")
	svc("metadataStore", true, "", "unsubscribe", "start/1ms close/2500ms")
	svc("v2observer", false, "", "", "close/1ms")
	svc("v2observer", false, "", "", "close/1ms close/1s")
	svc("v2observer", false, "", "", "start/1ms close/2500ms close/1s")
	return out
}

var c18Gates = []string{"full-drained", "full-empty"}

// c18CovGen: random scripts on a recoverer around the three service kinds whose restart behaviour the model states exactly
func c18CovGen(r *Rng) c18Input {
	in := c18Input{Family: "svc", Wrap: true, Getter: "ok", Kind: []string{"ticker", "resultStore", "coordinator"}[r.Intn(3)]}
	gaps := []int64{1, c18ms, 137 * c18ms, 1200 * c18ms, 2500 * c18ms, 3*c18s + 137*c18ms}
	n := r.Range(2, 7)
	panics, closes := 0, 0
	for i := 0; i < n; i++ {
		op := []string{"start", "start", "cancel", "close", "close", "panic", "wait"}[r.Intn(7)]
		if op == "panic" {
			if panics > 0 {
				op = "close"
			}
			panics++
		}
		if op == "cancel" && panics > 0 {
			// a serviceStart that leaves its cool-down with BOTH its context ended and a message in `stopped` takes either arm
			// of its select (and a restarted result store that finds its context ended and a latched close signal likewise):
			// no repeatable outcome
			op = "wait"
		}
		if in.Kind == "resultStore" {
			// the result store's `closedCh` (capacity 1, never read) takes ONE consumed close signal per store
			if op == "close" {
				if closes > 0 {
					op = "wait"
				}
				closes++
			}
		}
		in.Ops = append(in.Ops, c18Op{Op: op, Ns: gaps[r.Intn(len(gaps))]})
	}
	return in
}
